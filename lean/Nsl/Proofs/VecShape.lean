import Nsl.Proofs.VecVals
/-!
# Vector core, part 4: `stepI` lemmas for the vector opcodes, operands of lowered expressions, the tail of a lowered
binary node, functions that always return
-/
set_option linter.unusedSimpArgs false
namespace Nsl
namespace Vec
open Core VM CoreSem Lower Sim

variable {cf : String → List Val → Globals → Res} {code : List Instr} {pc : Nat} {fr : Frame} {g : Globals}

theorem step_vecGet {dst : Nat} {ty : ITy} {v idx : Opd} {a i x : Val} {k : Nat}
    (hc : code[pc]? = some (.vecGet dst ty v idx))
    (ha : evalOpd fr v = .ok a) (hpa : Val.isPtr a = false) (hi : evalOpd fr idx = .ok i) (hpi : Val.isPtr i = false)
    (hk : indexOf a i = .ok k) (hx : getKey a (.idx k) = .ok x) :
    stepI cf code pc fr g = .next (pc + 1) (setReg fr dst x) g := by
  simp [stepI, hc, liftE, evalVal_of_noPtr ha hpa, evalVal_of_noPtr hi hpi, hk, hx]

theorem step_matGet {dst : Nat} {ty : ITy} {v idx : Opd} {a i x : Val} {k : Nat}
    (hc : code[pc]? = some (.matGet dst ty v idx))
    (ha : evalOpd fr v = .ok a) (hpa : Val.isPtr a = false) (hi : evalOpd fr idx = .ok i) (hpi : Val.isPtr i = false)
    (hk : indexOf a i = .ok k) (hx : getKey a (.idx k) = .ok x) :
    stepI cf code pc fr g = .next (pc + 1) (setReg fr dst x) g := by
  simp [stepI, hc, liftE, evalVal_of_noPtr ha hpa, evalVal_of_noPtr hi hpi, hk, hx]

theorem step_vecSet {dst : Nat} {ty : ITy} {v idx src : Opd} {a i x a' : Val} {k : Nat}
    (hc : code[pc]? = some (.vecSet dst ty v idx src))
    (ha : evalOpd fr v = .ok a) (hpa : Val.isPtr a = false) (hi : evalOpd fr idx = .ok i) (hpi : Val.isPtr i = false)
    (hs : evalOpd fr src = .ok x) (hps : Val.isPtr x = false)
    (hk : indexOf a i = .ok k) (hx : setKey a (.idx k) x = .ok a') :
    stepI cf code pc fr g = .next (pc + 1) (setReg fr dst a') g := by
  simp [stepI, hc, liftE, evalVal_of_noPtr ha hpa, evalVal_of_noPtr hi hpi, evalVal_of_noPtr hs hps, hk, hx]

theorem step_matSet {dst : Nat} {ty : ITy} {v idx src : Opd} {a i x a' : Val} {k : Nat}
    (hc : code[pc]? = some (.matSet dst ty v idx src))
    (ha : evalOpd fr v = .ok a) (hpa : Val.isPtr a = false) (hi : evalOpd fr idx = .ok i) (hpi : Val.isPtr i = false)
    (hs : evalOpd fr src = .ok x) (hps : Val.isPtr x = false)
    (hk : indexOf a i = .ok k) (hx : setKey a (.idx k) x = .ok a') :
    stepI cf code pc fr g = .next (pc + 1) (setReg fr dst a') g := by
  simp [stepI, hc, liftE, evalVal_of_noPtr ha hpa, evalVal_of_noPtr hi hpi, evalVal_of_noPtr hs hps, hk, hx]

theorem step_shuffle {dst : Nat} {ty : ITy} {a b : Opd} {idx : List Nat} {x y z : Val}
    (hc : code[pc]? = some (.shuffle dst ty a b idx))
    (ha : evalOpd fr a = .ok x) (hpa : Val.isPtr x = false) (hb : evalOpd fr b = .ok y) (hpb : Val.isPtr y = false)
    (hz : shuffleExec ty x y idx = .ok z) :
    stepI cf code pc fr g = .next (pc + 1) (setReg fr dst z) g := by
  simp [stepI, hc, liftE, evalVal_of_noPtr ha hpa, evalVal_of_noPtr hb hpb, hz]

theorem step_construct {dst : Nat} {ty : ITy} {os : List Opd} {vs : List Val} {z : Val}
    (hc : code[pc]? = some (.construct dst ty os)) (hvs : OpdsEval fr os vs) (hz : constructExec ty vs = .ok z) :
    stepI cf code pc fr g = .next (pc + 1) (setReg fr dst z) g := by
  simp [stepI, hc, liftE, evalVals_of_noPtr hvs, hz]

/-! ## Operands of lowered expressions (all expression forms) -/

theorem lowerE_below : ∀ (e : Expr) (k : Nat) (c : List Instr) (o : Opd) (k' : Nat),
    lowerE e k = (c, o, k') → OpdBelow o k'
  | .litI i, k, c, o, k', h => by
    simp only [lowerE, Prod.mk.injEq] at h
    obtain ⟨-, rfl, -⟩ := h; trivial
  | .litF f, k, c, o, k', h => by
    simp only [lowerE, Prod.mk.injEq] at h
    obtain ⟨-, rfl, -⟩ := h; trivial
  | .var sc key ty, k, c, o, k', h => by
    simp only [lowerE, Prod.mk.injEq] at h
    obtain ⟨-, rfl, rfl⟩ := h; simp [OpdBelow]
  | .bin op ty l r, k, c, o, k', h => by
    rcases hel : lowerE l k with ⟨cl, vl, k1⟩
    rcases her : lowerE r k1 with ⟨cr, vr, k2⟩
    rcases hmm : rowsMM op (Expr.ty l) (Expr.ty r) ty vl vr (rowCount (Expr.ty l)) k2 with ⟨c3, r3, k3⟩
    rcases hsm : rowsSM op (Expr.ty l) (Expr.ty r) ty vl vr (rowCount (Expr.ty r)) k2 with ⟨c4, r4, k4⟩
    rcases hms : rowsMS op (Expr.ty l) (Expr.ty r) ty vl vr (rowCount (Expr.ty l)) k2 with ⟨c5, r5, k5⟩
    simp only [lowerE, hel, her, hmm, hsm, hms] at h
    repeat' split at h
    all_goals (simp only [Prod.mk.injEq] at h; obtain ⟨-, rfl, rfl⟩ := h; simp [OpdBelow])
  | .cast ty e, k, c, o, k', h => by
    rcases he : lowerE e k with ⟨c1, v1, k1⟩
    simp only [lowerE, he, Prod.mk.injEq] at h
    obtain ⟨-, rfl, rfl⟩ := h; simp [OpdBelow]
  | .assign lhs rhs, k, c, o, k', h => by
    rcases he : lowerE rhs k with ⟨c1, v1, k1⟩
    rcases hs : lowerStore lhs v1 k1 with ⟨c2, k2⟩
    have ib := lowerE_below rhs k c1 v1 k1 he
    have is := lowerStore_mono lhs v1 k1 c2 k2 hs
    simp only [lowerE, he, hs, Prod.mk.injEq] at h
    obtain ⟨-, rfl, rfl⟩ := h
    exact ib.mono is
  | .affix post inc x, k, c, o, k', h => by
    rcases he : lowerE x k with ⟨c1, v1, k1⟩
    rcases hs : lowerStore x (.ref k1) (k1 + 1) with ⟨c2, k2⟩
    have ib := lowerE_below x k c1 v1 k1 he
    have is := lowerStore_mono x (.ref k1) (k1 + 1) c2 k2 hs
    simp only [lowerE, he, hs, Prod.mk.injEq] at h
    obtain ⟨-, rfl, rfl⟩ := h
    cases post
    · simp only [Bool.false_eq_true, if_false, OpdBelow]; omega
    · simp only [if_true]; exact ib.mono (by omega)
  | .call fn ty args, k, c, o, k', h => by
    rcases ha : lowerArgs args k with ⟨c1, vs, k1⟩
    simp only [lowerE, ha, Prod.mk.injEq] at h
    obtain ⟨-, rfl, rfl⟩ := h; simp [OpdBelow]
  | .index kind ty base idx, k, c, o, k', h => by
    rcases heb : lowerE base k with ⟨cb, vb, k1⟩
    rcases hei : lowerE idx k1 with ⟨ci, vi, k2⟩
    simp only [lowerE, heb, hei, Prod.mk.injEq] at h
    obtain ⟨-, rfl, rfl⟩ := h; simp [OpdBelow]
  | .member ty base field, k, c, o, k', h => by
    rcases heb : lowerE base k with ⟨cb, vb, k1⟩
    simp only [lowerE, heb, Prod.mk.injEq] at h
    obtain ⟨-, rfl, rfl⟩ := h; simp [OpdBelow]
  | .swizzle ty base idxs, k, c, o, k', h => by
    rcases heb : lowerE base k with ⟨cb, vb, k1⟩
    simp only [lowerE, heb, Prod.mk.injEq] at h
    obtain ⟨-, rfl, rfl⟩ := h; simp [OpdBelow]
  | .construct ty args, k, c, o, k', h => by
    rcases ha : lowerArgs args k with ⟨c1, vs, k1⟩
    simp only [lowerE, ha, Prod.mk.injEq] at h
    obtain ⟨-, rfl, rfl⟩ := h; simp [OpdBelow]

theorem lowerArgs_below : ∀ (as : Args) (k : Nat) (c : List Instr) (os : List Opd) (k' : Nat),
    lowerArgs as k = (c, os, k') → ∀ o ∈ os, OpdBelow o k'
  | .nil, k, c, os, k', h => by
    simp only [lowerArgs, Prod.mk.injEq] at h
    obtain ⟨-, rfl, -⟩ := h; simp
  | .cons e rest, k, c, os, k', h => by
    rcases he : lowerE e k with ⟨c1, v1, k1⟩
    rcases hr : lowerArgs rest k1 with ⟨c2, vs, k2⟩
    have ib := lowerE_below e k c1 v1 k1 he
    have ir := lowerArgs_below rest k1 c2 vs k2 hr
    have im := lowerArgs_mono rest k1 c2 vs k2 hr
    simp only [lowerArgs, he, hr, Prod.mk.injEq] at h
    obtain ⟨-, rfl, rfl⟩ := h
    intro o ho
    rcases List.mem_cons.1 ho with rfl | ho
    · exact ib.mono im
    · exact ir o ho

/-- Every lowered function has pairwise distinct labels (no hypothesis on the body). -/
theorem lowerFn_labelsOKG (f : FnDef) : LabelsOK (lowerFn f).code := by
  rcases hl : lowerS none none f.body 0 with ⟨c, k'⟩
  obtain ⟨_, _, nd⟩ := lowerS_shapeG f.body none none 0 c k' hl
  simp only [lowerFn, hl]
  exact LabelsOK.of_nodup nd

/-! ## The tail of a lowered binary node -/

/-- What `lowerE (.bin …)` appends after the code of the two operands. -/
def binTail (op : BOp) (ty lt rt : ITy) (vl vr : Opd) (k2 : Nat) : List Instr × Opd × Nat :=
  if lt.isMatrix && rt.isMatrix then
    if op == .mul then ([.bin k2 .mMulM ty vl vr], .ref k2, k2 + 1)
    else
      let (rc, rows, k3) := rowsMM op lt rt ty vl vr (rowCount lt) k2
      (rc ++ [.construct k3 ty rows], .ref k3, k3 + 1)
  else if lt.isMatrix && rt.isVector then
    ([.bin k2 .mMulV ty vl vr], .ref k2, k2 + 1)
  else if lt.isScalar && rt.isMatrix then
    let (rc, rows, k3) := rowsSM op lt rt ty vl vr (rowCount rt) k2
    (rc ++ [.construct k3 ty rows], .ref k3, k3 + 1)
  else if lt.isMatrix && rt.isScalar then
    let (rc, rows, k3) := rowsMS op lt rt ty vl vr (rowCount lt) k2
    (rc ++ [.construct k3 ty rows], .ref k3, k3 + 1)
  else
    ([mkBin k2 op ty vl lt vr rt], .ref k2, k2 + 1)

theorem lowerE_bin (op : BOp) (ty : ITy) (l r : Expr) (k : Nat) {cl cr : List Instr} {vl vr : Opd} {k1 k2 : Nat}
    (hel : lowerE l k = (cl, vl, k1)) (her : lowerE r k1 = (cr, vr, k2)) :
    lowerE (.bin op ty l r) k =
      (cl ++ cr ++ (binTail op ty (Expr.ty l) (Expr.ty r) vl vr k2).1,
        (binTail op ty (Expr.ty l) (Expr.ty r) vl vr k2).2.1, (binTail op ty (Expr.ty l) (Expr.ty r) vl vr k2).2.2) := by
  simp only [lowerE, hel, her, binTail]
  repeat' split
  all_goals simp

/-! ## Functions that always return -/

theorem alwaysRet_not_normal (M : Core.Module) : ∀ (s : Stmt), alwaysRet s = true →
    ∀ (n : Nat) (fr : Frame) (g : Globals) (fr' : Frame) (g' : Globals), execS M n s fr g ≠ .normal fr' g' := by
  intro s
  induction s with
  | ret oe =>
    intro h n fr g fr' g'
    cases oe with
    | none => simp [alwaysRet] at h
    | some e =>
      cases n with
      | zero => simp [execS]
      | succ n =>
        simp only [execS]
        cases evalE M n e fr g with
        | fail er => simp
        | val v fr1 g1 =>
          cases v <;> simp
          split <;> simp
  | seq a b iha ihb =>
    intro h n fr g fr' g'
    simp only [alwaysRet, Bool.or_eq_true] at h
    cases n with
    | zero => simp [execS]
    | succ n =>
      simp only [execS]
      cases hx : execS M n a fr g with
      | normal fr1 g1 =>
        rcases h with h | h
        · exact absurd hx (iha h n fr g fr1 g1)
        · exact ihb h n fr1 g1 fr' g'
      | brk fr1 g1 => simp
      | cont fr1 g1 => simp
      | ret v fr1 g1 => simp
      | fail er => simp
  | ite2 c t e iht ihe =>
    intro h n fr g fr' g'
    simp only [alwaysRet, Bool.and_eq_true] at h
    cases n with
    | zero => simp [execS]
    | succ n =>
      simp only [execS]
      cases evalE M n c fr g with
      | fail er => simp
      | val v fr1 g1 =>
        by_cases hv : v.truthy = true
        · simp only [hv, if_true]; exact iht h.1 n fr1 g1 fr' g'
        · simp only [hv, Bool.false_eq_true, if_false]; exact ihe h.2 n fr1 g1 fr' g'
  | skip => intro h; simp [alwaysRet] at h
  | decl x ty i => intro h; simp [alwaysRet] at h
  | expr e => intro h; simp [alwaysRet] at h
  | ite1 c t _ => intro h; simp [alwaysRet] at h
  | whileL c b _ => intro h; simp [alwaysRet] at h
  | doL b c _ => intro h; simp [alwaysRet] at h
  | forL i c nx b _ _ => intro h; simp [alwaysRet] at h
  | brk => intro h; simp [alwaysRet] at h
  | cont => intro h; simp [alwaysRet] at h

end Vec
end Nsl
