import Nsl.Proofs.IRTypeOps
/-!
# IR typing: `binExec`, `castExec`, indexing, `shuffleExec`, `constructExec` on typed values
-/
namespace Nsl
namespace IRType
open VM

theorem scIsInt_sc (s : Sc) : scIsInt (.sc s) = scInt s := by cases s <;> rfl
theorem scIsInt_vec (s : Sc) (n : Nat) : scIsInt (.vec s n) = scInt s := by cases s <;> rfl
theorem scIsInt_mat (s : Sc) (r c : Nat) : scIsInt (.mat s r c) = scInt s := by cases s <;> rfl

theorem ebind_ok {α β : Type} (a : α) (k : α → Except Err β) : Except.bind (Except.ok a) k = k a := rfl
theorem ebind_err {α β : Type} (e : Err) (k : α → Except Err β) : Except.bind (Except.error e) k = .error e := rfl

/-- wrapping a list result -/
theorem wrap_list {f : Except Err (List Val)} {P : Val → Prop} {Q : Err → Prop}
    (h1 : ∀ zs, f = .ok zs → P (.list zs)) (h2 : ∀ e, f = .error e → Q e) :
    (∀ z, Except.bind f (fun v => Except.ok (Val.list v)) = Except.ok z → P z) ∧
    (∀ e, Except.bind f (fun v => Except.ok (Val.list v)) = Except.error e → Q e) := by
  cases hf : f with
  | error e =>
    refine ⟨fun z h => by simp [ebind_err] at h, fun e' h => ?_⟩
    simp only [ebind_err, Except.error.injEq] at h
    subst h; exact h2 e hf
  | ok zs =>
    refine ⟨fun z h => ?_, fun e' h => by simp [ebind_ok] at h⟩
    simp only [ebind_ok, Except.ok.injEq] at h
    subst h; exact h1 zs hf

theorem binExec_sound {op : BinOp} {ty ta tb : ITy} {x y : Val} (hk : binTyOK op ty ta tb = true)
    (hx : valOK ta x = true) (hy : valOK tb y = true) :
    (∀ z, binExec op ty x y = .ok z → valOK ty z = true) ∧ (∀ e, binExec op ty x y = .error e → noInt e) := by
  unfold binTyOK at hk
  split at hk
  · -- scalar
    rename_i o s sa sb
    simp only [binExec, scIsInt_sc]
    exact scalarBin_sound (by simpa using hx) (by simpa using hy) hk (fun _ => rfl)
  · -- vector ∘ vector
    rename_i o s n sa na sb nb
    simp only [Bool.and_eq_true, beq_iff_eq] at hk
    obtain ⟨⟨rfl, rfl⟩, hk⟩ := hk
    obtain ⟨xs, rfl, hxl, hxs⟩ := vec_iff.1 hx
    obtain ⟨ys, rfl, hyl, hys⟩ := vec_iff.1 hy
    simp only [binExec, scIsInt_vec, asList_list, bind, ebind_ok]
    obtain ⟨r1, r2⟩ := zipBin_sound (it := scInt s) hk (fun _ => rfl) xs ys hxs hys (by omega)
    exact wrap_list (P := fun z => valOK (.vec s nb) z = true)
      (fun zs h => vec_iff.2 ⟨zs, rfl, by rw [(r1 zs h).1, hxl], (r1 zs h).2⟩) r2
  · -- vector * scalar
    rename_i s n sa na sb
    simp only [Bool.and_eq_true, beq_iff_eq] at hk
    obtain ⟨rfl, hk⟩ := hk
    obtain ⟨xs, rfl, hxl, hxs⟩ := vec_iff.1 hx
    simp only [binExec, scIsInt_vec, asList_list, bind, ebind_ok]
    obtain ⟨r1, r2⟩ := mapBinR_sound (it := scInt s) hk (by intro h; cases h) (by simpa using hy) xs hxs
    exact wrap_list (P := fun z => valOK (.vec s na) z = true)
      (fun zs h => vec_iff.2 ⟨zs, rfl, by rw [(r1 zs h).1, hxl], (r1 zs h).2⟩) r2
  · -- vector / scalar
    rename_i s n sa na sb
    simp only [beq_iff_eq] at hk
    subst hk
    obtain ⟨xs, rfl, hxl, hxs⟩ := vec_iff.1 hx
    simp only [binExec, scIsInt_vec, asList_list, bind, ebind_ok]
    obtain ⟨r1, r2⟩ := mapBinR_sound (it := scInt s) (arithOK_div s sa sb) (fun _ => rfl) (by simpa using hy) xs hxs
    exact wrap_list (P := fun z => valOK (.vec s na) z = true)
      (fun zs h => vec_iff.2 ⟨zs, rfl, by rw [(r1 zs h).1, hxl], (r1 zs h).2⟩) r2
  · -- matrix * matrix
    rename_i s r c sa ra ca sb rb cb
    simp only [Bool.and_eq_true, beq_iff_eq] at hk
    obtain ⟨⟨rfl, rfl⟩, hk⟩ := hk
    obtain ⟨m0, rfl, h0l, h0⟩ := mat_iff.1 hx
    obtain ⟨m1, rfl, h1l, h1⟩ := mat_iff.1 hy
    simp only [binExec, asList_list, bind, ebind_ok, matMul]
    obtain ⟨r1, r2⟩ := matMulGo_sound hk h1 m0 h0
    exact wrap_list (P := fun z => valOK (.mat s ra cb) z = true)
      (fun zs h => mat_iff.2 ⟨zs, rfl, by rw [(r1 zs h).1, h0l], (r1 zs h).2⟩) r2
  · -- matrix * vector
    rename_i s n sa ra ca sb nb
    simp only [Bool.and_eq_true, beq_iff_eq] at hk
    obtain ⟨rfl, hk⟩ := hk
    obtain ⟨m, rfl, hml, hm⟩ := mat_iff.1 hx
    obtain ⟨v, rfl, hvl, hv⟩ := vec_iff.1 hy
    simp only [binExec, asList_list, bind, ebind_ok]
    obtain ⟨r1, r2⟩ := matMulVec_sound hk hv m hm
    exact wrap_list (P := fun z => valOK (.vec s ra) z = true)
      (fun zs h => vec_iff.2 ⟨zs, rfl, by rw [(r1 zs h).1, hml], (r1 zs h).2⟩) r2
  · cases hk

/-! ## CAST -/

theorem castScalar_sound {strict : Bool} {s sa : Sc} {v : Val} (hk : castKindOK strict s sa = true)
    (hv : scOK sa v = true) :
    (∀ z, castScalar s v = .ok z → scOK s z = true) ∧ (∀ e, castScalar s v = .error e → okErr strict e) := by
  rcases scOK_cases hv with ⟨i, rfl⟩ | ⟨f, rfl⟩
  · constructor
    · intro z h
      cases s <;> simp [castScalar] at h <;> subst h <;> rfl
    · intro e h
      cases s <;> simp [castScalar] at h
  · have hsa : sa = .float := by cases sa <;> simp [scOK] at hv ⊢
    subst hsa
    cases s with
    | float =>
      constructor
      · intro z h; simp [castScalar] at h; subst h; rfl
      · intro e h; simp [castScalar] at h
    | int =>
      have hst : strict = false := by simpa [castKindOK, scInt] using hk
      simp only [castScalar, floorToInt, bind, Except.bind]
      constructor
      · intro z h
        split at h
        · cases h
        · simp only [Except.ok.injEq] at h; subst h; rfl
      · intro e h
        split at h
        · rename_i heq
          simp only [Except.error.injEq] at h
          subst h
          split at heq
          · simp only [Except.error.injEq] at heq
            subst heq
            intro s hs
            simp only [Err.internal.injEq] at hs
            exact ⟨hst, hs.symm⟩
          · split at heq
            · cases heq
            · simp only [Except.error.injEq] at heq
              subst heq
              exact (noInt_unsupported _).ok
        · cases h
    | uint =>
      have hst : strict = false := by simpa [castKindOK, scInt] using hk
      simp only [castScalar, floorToInt, bind, Except.bind]
      constructor
      · intro z h
        split at h
        · cases h
        · simp only [Except.ok.injEq] at h; subst h; rfl
      · intro e h
        split at h
        · rename_i heq
          simp only [Except.error.injEq] at h
          subst h
          split at heq
          · simp only [Except.error.injEq] at heq
            subst heq
            intro s hs
            simp only [Err.internal.injEq] at hs
            exact ⟨hst, hs.symm⟩
          · split at heq
            · cases heq
            · simp only [Except.error.injEq] at heq
              subst heq
              exact (noInt_unsupported _).ok
        · cases h

theorem castList_sound {strict : Bool} {s sa : Sc} (hk : castKindOK strict s sa = true) : ∀ (xs : List Val),
    (∀ x ∈ xs, scOK sa x = true) →
    (∀ zs, castList s xs = .ok zs → zs.length = xs.length ∧ ∀ z ∈ zs, scOK s z = true) ∧
    (∀ e, castList s xs = .error e → okErr strict e)
  | [], _ => by
    constructor
    · intro zs h
      simp only [castList, Except.ok.injEq] at h
      subst h; simp
    · intro e h; simp [castList] at h
  | x :: xs, hx => by
    obtain ⟨h1, h2⟩ := castScalar_sound hk (hx x List.mem_cons_self)
    obtain ⟨r1, r2⟩ := castList_sound hk xs (fun a ha => hx a (List.mem_cons_of_mem _ ha))
    simp only [castList, bind, Except.bind]
    cases hs : castScalar s x with
    | error e =>
      refine ⟨fun zs h => by simp at h, fun e' h => ?_⟩
      simp only [Except.error.injEq] at h
      subst h; exact h2 e hs
    | ok z =>
      cases hr : castList s xs with
      | error e =>
        refine ⟨fun zs h => by simp at h, fun e' h => ?_⟩
        simp only [Except.error.injEq] at h
        subst h; exact r2 e hr
      | ok zs =>
        refine ⟨fun zs' h => ?_, fun e' h => by simp at h⟩
        simp only [Except.ok.injEq] at h
        subst h
        obtain ⟨hlen, hall⟩ := r1 zs hr
        refine ⟨by simp [hlen], ?_⟩
        intro w hw
        rcases List.mem_cons.1 hw with rfl | hw
        · exact h1 _ hs
        · exact hall w hw

theorem castRows_sound {strict : Bool} {s sa : Sc} {c : Nat} (hk : castKindOK strict s sa = true) :
    ∀ (rows : List Val), (∀ r ∈ rows, valOK (.vec sa c) r = true) →
    (∀ zs, castRows s rows = .ok zs → zs.length = rows.length ∧ ∀ z ∈ zs, valOK (.vec s c) z = true) ∧
    (∀ e, castRows s rows = .error e → okErr strict e)
  | [], _ => by
    constructor
    · intro zs h
      simp only [castRows, Except.ok.injEq] at h
      subst h; simp
    · intro e h; simp [castRows] at h
  | r :: rs, hr => by
    obtain ⟨row, rfl, hl, hrow⟩ := vec_iff.1 (hr r List.mem_cons_self)
    obtain ⟨h1, h2⟩ := castList_sound hk row hrow
    obtain ⟨r1, r2⟩ := castRows_sound (c := c) hk rs (fun a ha => hr a (List.mem_cons_of_mem _ ha))
    simp only [castRows, asList, bind, Except.bind]
    cases hs : castList s row with
    | error e =>
      refine ⟨fun zs h => by simp at h, fun e' h => ?_⟩
      simp only [Except.error.injEq] at h
      subst h; exact h2 e hs
    | ok z =>
      cases hrr : castRows s rs with
      | error e =>
        refine ⟨fun zs h => by simp at h, fun e' h => ?_⟩
        simp only [Except.error.injEq] at h
        subst h; exact r2 e hrr
      | ok zs =>
        refine ⟨fun zs' h => ?_, fun e' h => by simp at h⟩
        simp only [Except.ok.injEq] at h
        subst h
        obtain ⟨hlen, hall⟩ := r1 zs hrr
        refine ⟨by simp [hlen], ?_⟩
        intro w hw
        rcases List.mem_cons.1 hw with rfl | hw
        · exact vec_iff.2 ⟨z, rfl, by rw [(h1 z hs).1, hl], (h1 z hs).2⟩
        · exact hall w hw

theorem castExec_sound {strict : Bool} {ty ta : ITy} {x : Val} (hk : castTyOK strict ty ta = true)
    (hx : valOK ta x = true) :
    (∀ z, castExec ty x = .ok z → valOK ty z = true) ∧ (∀ e, castExec ty x = .error e → okErr strict e) := by
  unfold castTyOK at hk
  split at hk
  · simp only [castExec, valOK_sc]
    exact castScalar_sound hk (by simpa using hx)
  · rename_i s n sa na
    simp only [Bool.and_eq_true, beq_iff_eq] at hk
    obtain ⟨rfl, hk⟩ := hk
    obtain ⟨xs, rfl, hxl, hxs⟩ := vec_iff.1 hx
    simp only [castExec, asList_list, bind, ebind_ok]
    obtain ⟨r1, r2⟩ := castList_sound hk xs hxs
    exact wrap_list (P := fun z => valOK (.vec s na) z = true)
      (fun zs h => vec_iff.2 ⟨zs, rfl, by rw [(r1 zs h).1, hxl], (r1 zs h).2⟩) r2
  · rename_i s r c sa ra ca
    simp only [Bool.and_eq_true, beq_iff_eq] at hk
    obtain ⟨⟨rfl, rfl⟩, hk⟩ := hk
    obtain ⟨m, rfl, hml, hm⟩ := mat_iff.1 hx
    simp only [castExec, asList_list, bind, ebind_ok]
    obtain ⟨r1, r2⟩ := castRows_sound hk m hm
    exact wrap_list (P := fun z => valOK (.mat s ra ca) z = true)
      (fun zs h => mat_iff.2 ⟨zs, rfl, by rw [(r1 zs h).1, hml], (r1 zs h).2⟩) r2
  · cases hk

/-! ## indexing -/

theorem normIndex_lt {len : Nat} {i : Int} {k : Nat} (h : normIndex len i = some k) : k < len := by
  unfold normIndex at h
  split at h
  · split at h
    · simp only [Option.some.injEq] at h; omega
    · cases h
  · split at h
    · simp only [Option.some.injEq] at h; omega
    · cases h

theorem indexOf_list (vs : List Val) (n : Int) :
    (∀ k, indexOf (.list vs) (.int n) = .ok k → k < vs.length) ∧
    (∀ e, indexOf (.list vs) (.int n) = .error e → noInt e) := by
  simp only [indexOf]
  cases h : normIndex vs.length n with
  | none =>
    refine ⟨fun k hk => by simp at hk, fun e he => ?_⟩
    simp only [Except.error.injEq] at he
    subst he; exact noInt_indexOOB
  | some k =>
    refine ⟨fun k' hk => ?_, fun e he => by simp at he⟩
    simp only [Except.ok.injEq] at hk
    subst hk; exact normIndex_lt h

/-- reading a component of a vector / a row of a matrix -/
theorem elem_get {ty tv : ITy} {a : Val} {n : Int} (hk : getTyOK ty tv = true) (ha : valOK tv a = true) :
    (∀ e, indexOf a (.int n) = .error e → noInt e) ∧
    (∀ k, indexOf a (.int n) = .ok k → ∃ x, getKey a (.idx k) = .ok x ∧ valOK ty x = true) := by
  unfold getTyOK at hk
  split at hk
  · rename_i s m s'
    obtain ⟨vs, rfl, _, hvs⟩ := vec_iff.1 ha
    refine ⟨(indexOf_list vs n).2, fun k hki => ?_⟩
    have hlt := (indexOf_list vs n).1 k hki
    exact ⟨vs[k], by simp [getKey, List.getElem?_eq_getElem hlt],
      by simpa using scOK_le hk (hvs _ (List.getElem_mem hlt))⟩
  · rename_i s r c s' c'
    simp only [Bool.and_eq_true, beq_iff_eq] at hk
    obtain ⟨hle, rfl⟩ := hk
    obtain ⟨vs, rfl, _, hvs⟩ := mat_iff.1 ha
    refine ⟨(indexOf_list vs n).2, fun k hki => ?_⟩
    have hlt := (indexOf_list vs n).1 k hki
    refine ⟨vs[k], by simp [getKey, List.getElem?_eq_getElem hlt], ?_⟩
    exact compat_valOK (a := .vec s c) (by simp [compat, hle]) (hvs _ (List.getElem_mem hlt))
  · cases hk

/-- replacing a component of a vector / a row of a matrix -/
theorem elem_set {tv ts : ITy} {a x : Val} {n : Int} (hk : setTyOK tv ts = true) (ha : valOK tv a = true)
    (hx : valOK ts x = true) :
    ∀ k, indexOf a (.int n) = .ok k → ∃ a', setKey a (.idx k) x = .ok a' ∧ valOK tv a' = true := by
  unfold setTyOK at hk
  split at hk
  · rename_i s m s'
    obtain ⟨vs, rfl, hl, hvs⟩ := vec_iff.1 ha
    intro k hki
    have hlt := (indexOf_list vs n).1 k hki
    refine ⟨.list (vs.set k x), by simp [setKey, hlt], vec_iff.2 ⟨_, rfl, by simp [hl], ?_⟩⟩
    intro y hy
    rcases List.mem_or_eq_of_mem_set hy with hy | rfl
    · exact hvs y hy
    · exact scOK_le hk (by simpa using hx)
  · rename_i s r c s' c'
    simp only [Bool.and_eq_true, beq_iff_eq] at hk
    obtain ⟨hle, rfl⟩ := hk
    obtain ⟨vs, rfl, hl, hvs⟩ := mat_iff.1 ha
    intro k hki
    have hlt := (indexOf_list vs n).1 k hki
    refine ⟨.list (vs.set k x), by simp [setKey, hlt], mat_iff.2 ⟨_, rfl, by simp [hl], ?_⟩⟩
    intro y hy
    rcases List.mem_or_eq_of_mem_set hy with hy | rfl
    · exact hvs y hy
    · exact compat_valOK (a := .vec s' c') (by simp [compat, hle]) hx
  · cases hk

/-! ## SHUFFLE -/

/-- the components of a scalar or a vector as the VM lists them -/
def flatOf (v : Val) : List Val :=
  match v with
  | .list vs => vs
  | v => [v]

theorem widthOf_flat {t : ITy} {s : Sc} {n : Nat} {v : Val} (hw : widthOf t = some (s, n)) (hv : valOK t v = true) :
    (flatOf v).length = n ∧ ∀ x ∈ flatOf v, scOK s x = true := by
  cases t with
  | sc s' =>
    simp only [widthOf, Option.some.injEq, Prod.mk.injEq] at hw
    obtain ⟨rfl, rfl⟩ := hw
    rcases scOK_cases (by simpa using hv : scOK s' v = true) with ⟨i, rfl⟩ | ⟨f, rfl⟩
    · exact ⟨rfl, fun x hx => by simp [flatOf] at hx; subst hx; simpa using hv⟩
    · exact ⟨rfl, fun x hx => by simp [flatOf] at hx; subst hx; simpa using hv⟩
  | vec s' m =>
    simp only [widthOf, Option.some.injEq, Prod.mk.injEq] at hw
    obtain ⟨rfl, rfl⟩ := hw
    obtain ⟨vs, rfl, hl, hvs⟩ := vec_iff.1 hv
    exact ⟨hl, hvs⟩
  | _ => simp [widthOf] at hw

theorem pick_sound (combined : List Val) : ∀ (idx : List Nat), (∀ i ∈ idx, i < combined.length) →
    ∃ r, shuffleExec.pick combined idx = .ok r ∧ r.length = idx.length ∧ ∀ x ∈ r, x ∈ combined
  | [], _ => ⟨[], rfl, rfl, by simp⟩
  | i :: is, h => by
    have hi : i < combined.length := h i List.mem_cons_self
    obtain ⟨r, hr, hl, hm⟩ := pick_sound combined is (fun a ha => h a (List.mem_cons_of_mem _ ha))
    refine ⟨combined[i] :: r, ?_, by simp [hl], ?_⟩
    · simp [shuffleExec.pick, List.getElem?_eq_getElem hi, hr, bind, Except.bind]
    · intro x hx
      rcases List.mem_cons.1 hx with rfl | hx
      · exact List.getElem_mem hi
      · exact hm x hx

theorem shuffleExec_eq (ty : ITy) (a b : Val) (idx : List Nat) :
    shuffleExec ty a b idx = (do
      let r ← shuffleExec.pick (flatOf a ++ flatOf b) idx
      match ty, r with
      | .sc _, [x] => .ok x
      | _, _ => .ok (.list r)) := by
  cases a <;> cases b <;> rfl

theorem shuffleExec_sound {ty ta tb : ITy} {a b : Val} {idx : List Nat} (hk : shuffleTyOK ty ta tb idx = true)
    (ha : valOK ta a = true) (hb : valOK tb b = true) : ∃ z, shuffleExec ty a b idx = .ok z ∧ valOK ty z = true := by
  unfold shuffleTyOK at hk
  split at hk
  · rename_i sa na sb nb hwa hwb
    simp only [Bool.and_eq_true, List.all_eq_true, decide_eq_true_eq] at hk
    obtain ⟨hidx, hty⟩ := hk
    obtain ⟨hla, hxa⟩ := widthOf_flat hwa ha
    obtain ⟨hlb, hxb⟩ := widthOf_flat hwb hb
    obtain ⟨r, hr, hrl, hrm⟩ := pick_sound (flatOf a ++ flatOf b) idx
      (fun i hi => by rw [List.length_append, hla, hlb]; exact hidx i hi)
    rw [shuffleExec_eq]
    simp only [hr, bind, Except.bind]
    split at hty
    · rename_i s
      simp only [Bool.and_eq_true, beq_iff_eq] at hty
      obtain ⟨⟨hl1, hsa⟩, hsb⟩ := hty
      match r, hrl, hrm with
      | [x], _, hrm =>
        refine ⟨x, rfl, ?_⟩
        simp only [valOK_sc]
        rcases List.mem_append.1 (hrm x List.mem_cons_self) with hx | hx
        · exact scOK_le hsa (hxa x hx)
        · exact scOK_le hsb (hxb x hx)
      | [], hrl, _ => rw [hl1] at hrl; simp at hrl
      | _ :: _ :: _, hrl, _ => rw [hl1] at hrl; simp at hrl
    · rename_i s n
      simp only [Bool.and_eq_true, beq_iff_eq] at hty
      obtain ⟨⟨hl1, hsa⟩, hsb⟩ := hty
      refine ⟨.list r, rfl, vec_iff.2 ⟨r, rfl, by rw [hrl, hl1], ?_⟩⟩
      intro x hx
      rcases List.mem_append.1 (hrm x hx) with hx | hx
      · exact scOK_le hsa (hxa x hx)
      · exact scOK_le hsb (hxb x hx)
    · cases hty
  · cases hk

/-! ## CONSTRUCT_PRIMITIVE -/

theorem flat_cons (v : Val) (rest : List Val) :
    constructExec.flat (v :: rest) = flatOf v ++ constructExec.flat rest := by
  cases v <;> simp [constructExec.flat, flatOf]

theorem flat_sound {s : Sc} : ∀ (ts : List ITy) (vs : List Val) (n : Nat), consWidth s ts = some n →
    valsOK ts vs = true → (constructExec.flat vs).length = n ∧ ∀ x ∈ constructExec.flat vs, scOK s x = true
  | [], [], n, hw, _ => by
    simp only [consWidth, Option.some.injEq] at hw
    subst hw
    simp [constructExec.flat]
  | [], _ :: _, _, _, hv => by simp [valsOK] at hv
  | _ :: _, [], _, _, hv => by simp [valsOK] at hv
  | t :: ts, v :: vs, n, hw, hv => by
    simp only [valsOK, Bool.and_eq_true] at hv
    simp only [consWidth] at hw
    cases hwt : widthOf t with
    | none => simp [hwt] at hw
    | some p =>
      obtain ⟨sa, k⟩ := p
      cases hrest : consWidth s ts with
      | none => simp [hwt, hrest] at hw
      | some m =>
        simp only [hwt, hrest] at hw
        split at hw
        · rename_i hle
          simp only [Option.some.injEq] at hw
          subst hw
          obtain ⟨hl, hx⟩ := widthOf_flat hwt hv.1
          obtain ⟨hl2, hx2⟩ := flat_sound ts vs m hrest hv.2
          rw [flat_cons]
          refine ⟨by rw [List.length_append, hl, hl2], ?_⟩
          intro x hxm
          rcases List.mem_append.1 hxm with h | h
          · exact scOK_le hle (hx x h)
          · exact hx2 x h
        · cases hw

theorem rows_sound {s : Sc} {c : Nat} : ∀ (ts : List ITy) (vs : List Val), rowsFit s c ts = true →
    valsOK ts vs = true → vs.length = ts.length ∧ ∀ r ∈ vs, (∃ xs, r = .list xs) ∧ valOK (.vec s c) r = true
  | [], [], _, _ => by simp
  | [], _ :: _, _, hv => by simp [valsOK] at hv
  | _ :: _, [], _, hv => by simp [valsOK] at hv
  | t :: ts, v :: vs, hr, hv => by
    simp only [valsOK, Bool.and_eq_true] at hv
    simp only [rowsFit, Bool.and_eq_true] at hr
    obtain ⟨hl, hrest⟩ := rows_sound ts vs hr.2 hv.2
    refine ⟨by simp [hl], ?_⟩
    intro r hrm
    rcases List.mem_cons.1 hrm with rfl | hrm
    · have h1 := hr.1
      split at h1
      · rename_i sa ca
        simp only [Bool.and_eq_true, beq_iff_eq] at h1
        obtain ⟨rfl, hle⟩ := h1
        obtain ⟨xs, rfl, _, _⟩ := vec_iff.1 hv.1
        exact ⟨⟨xs, rfl⟩, compat_valOK (a := .vec sa ca) (by simp [compat, hle]) hv.1⟩
      · cases h1
    · exact hrest r hrm

theorem constructExec_sound {ty : ITy} {ts : List ITy} {vs : List Val} (hk : constructTyOK ty ts = true)
    (hv : valsOK ts vs = true) : ∃ z, constructExec ty vs = .ok z ∧ valOK ty z = true := by
  unfold constructTyOK at hk
  split at hk
  · rename_i s n
    simp only [beq_iff_eq] at hk
    obtain ⟨hl, hx⟩ := flat_sound ts vs n hk hv
    exact ⟨_, rfl, vec_iff.2 ⟨_, rfl, hl, hx⟩⟩
  · rename_i s r c
    simp only [Bool.and_eq_true, beq_iff_eq] at hk
    obtain ⟨hl, hrows⟩ := rows_sound ts vs hk.2 hv
    refine ⟨.list vs, ?_, ?_⟩
    · simp only [constructExec]
      rw [if_pos]
      rw [List.all_eq_true]
      intro r hr
      obtain ⟨⟨xs, rfl⟩, _⟩ := hrows r hr
      rfl
    · exact mat_iff.2 ⟨vs, rfl, by rw [hl, hk.1], fun r hr => (hrows r hr).2⟩
  · rename_i s
    split at hk
    · rename_i sa
      match vs, hv with
      | [v], hv =>
        simp only [valsOK, Bool.and_eq_true] at hv
        exact ⟨v, rfl, by simpa using scOK_le hk (by simpa using hv.1)⟩
      | [], hv => simp [valsOK] at hv
      | _ :: _ :: _, hv => simp [valsOK] at hv
    · cases hk
  · cases hk

end IRType
end Nsl
