import Nsl.Proofs.IRTypeBase
/-!
# IR typing: the value-level operations of the VM on typed values

For every operation: on operands of the static types the rule demands, a result has the declared type and a failure is
not an internal one (`noInt`) — except the conversion of a float to an integer kind (`okErr`).
-/
namespace Nsl
namespace IRType
open VM

/-- not an internal failure -/
def noInt (e : Err) : Prop := ∀ s, e ≠ .internal s

/-- the failures a checked program may end in: with `strict` no internal one at all, otherwise only `math.floor` of a
NaN / an infinity -/
def okErr (strict : Bool) (e : Err) : Prop := ∀ s, e = .internal s → strict = false ∧ s = "floor-of-nan-or-inf"

theorem noInt.ok {strict : Bool} {e : Err} (h : noInt e) : okErr strict e := fun s hs => absurd hs (h s)

theorem noInt_divZero : noInt .divZero := fun _ h => by cases h
theorem noInt_indexOOB : noInt .indexOOB := fun _ h => by cases h
theorem noInt_unsupported (w : String) : noInt (.unsupported w) := fun _ h => by cases h

def isNum (v : Val) : Prop := (∃ i, v = .int i) ∨ (∃ f, v = .flt f)

theorem scOK_num {s : Sc} {v : Val} (h : scOK s v = true) : isNum v := scOK_cases h

/-! ## scalar operations -/

theorem scalarBin_num (o : SOp) (it : Bool) (a b : Val) (ha : isNum a) (hb : isNum b) :
    (∀ z, scalarBin o it a b = .ok z →
      (∃ i, z = .int i) ∨ ((∃ f, z = .flt f) ∧ (o = .add ∨ o = .sub ∨ o = .mul ∨ (o = .div ∧ it = false)))) ∧
    (∀ e, scalarBin o it a b = .error e → noInt e) := by
  constructor
  · intro z h
    rcases ha with ⟨x, rfl⟩ | ⟨x, rfl⟩ <;> rcases hb with ⟨y, rfl⟩ | ⟨y, rfl⟩ <;>
    cases o <;> cases it <;> simp [scalarBin, Val.toFloat?, Val.ofBool] at h ⊢ <;>
      first
        | (split at h <;> simp at h <;> simp [← h])
        | simp [← h]
        | skip
  · intro e h
    rcases ha with ⟨x, rfl⟩ | ⟨x, rfl⟩ <;> rcases hb with ⟨y, rfl⟩ | ⟨y, rfl⟩ <;>
    cases o <;> cases it <;> simp [scalarBin, Val.toFloat?] at h <;>
      first
        | (split at h <;> simp at h <;> subst h <;> intro s hs <;> cases hs)
        | (subst h; intro s hs; cases hs)
        | skip

theorem scalarBin_int_int (o : SOp) (it : Bool) (x y : Int) :
    ∀ z, scalarBin o it (.int x) (.int y) = .ok z → (∃ i, z = .int i) ∨ (o = .div ∧ it = false) := by
  intro z h
  cases o <;> cases it <;> simp [scalarBin, Val.toFloat?, Val.ofBool] at h ⊢ <;>
    first
      | (split at h <;> simp at h <;> exact ⟨_, h.symm⟩)
      | exact ⟨_, h.symm⟩
      | skip

/-- The scalar opcodes on typed numbers.  `it` (the "integer division" switch of the VM) matters for `/` only. -/
theorem scalarBin_sound {o : SOp} {it : Bool} {s sa sb : Sc} {a b : Val} (ha : scOK sa a = true)
    (hb : scOK sb b = true) (hk : arithOK o s sa sb = true) (hit : o = .div → it = scInt s) :
    (∀ z, scalarBin o it a b = .ok z → scOK s z = true) ∧ (∀ e, scalarBin o it a b = .error e → noInt e) := by
  obtain ⟨h1, h2⟩ := scalarBin_num o it a b (scOK_num ha) (scOK_num hb)
  refine ⟨?_, h2⟩
  intro z hz
  rcases h1 z hz with ⟨i, rfl⟩ | ⟨⟨f, rfl⟩, hop⟩
  · exact scOK_int s i
  · cases s with
    | float => rfl
    | int =>
      exfalso
      have hd : ¬ (o = .div ∧ it = false) := fun ⟨h1, h2⟩ => by rw [hit h1] at h2; simp [scInt] at h2
      have h3 : o = .add ∨ o = .sub ∨ o = .mul := by
        rcases hop with h | h | h | h
        · exact Or.inl h
        · exact Or.inr (Or.inl h)
        · exact Or.inr (Or.inr h)
        · exact absurd h hd
      have hk' : scInt sa = true ∧ scInt sb = true := by
        rcases h3 with rfl | rfl | rfl <;> simpa [arithOK] using hk
      obtain ⟨x, rfl⟩ := scOK_isInt hk'.1 ha
      obtain ⟨y, rfl⟩ := scOK_isInt hk'.2 hb
      rcases scalarBin_int_int o it x y _ hz with ⟨i, hi⟩ | h
      · cases hi
      · exact hd h
    | uint =>
      exfalso
      have hd : ¬ (o = .div ∧ it = false) := fun ⟨h1, h2⟩ => by rw [hit h1] at h2; simp [scInt] at h2
      have h3 : o = .add ∨ o = .sub ∨ o = .mul := by
        rcases hop with h | h | h | h
        · exact Or.inl h
        · exact Or.inr (Or.inl h)
        · exact Or.inr (Or.inr h)
        · exact absurd h hd
      have hk' : scInt sa = true ∧ scInt sb = true := by
        rcases h3 with rfl | rfl | rfl <;> simpa [arithOK] using hk
      obtain ⟨x, rfl⟩ := scOK_isInt hk'.1 ha
      obtain ⟨y, rfl⟩ := scOK_isInt hk'.2 hb
      rcases scalarBin_int_int o it x y _ hz with ⟨i, hi⟩ | h
      · cases hi
      · exact hd h

theorem arithOK_div (s sa sb : Sc) : arithOK .div s sa sb = true := by
  cases s <;> rfl

/-! ## component-wise vector operations -/

theorem zipBin_sound {o : SOp} {it : Bool} {s sa sb : Sc} (hk : arithOK o s sa sb = true)
    (hit : o = .div → it = scInt s) : ∀ (xs ys : List Val),
    (∀ x ∈ xs, scOK sa x = true) → (∀ y ∈ ys, scOK sb y = true) → xs.length = ys.length →
    (∀ zs, zipBin o it xs ys = .ok zs → zs.length = xs.length ∧ ∀ z ∈ zs, scOK s z = true) ∧
    (∀ e, zipBin o it xs ys = .error e → noInt e)
  | [], ys, _, _, _ => by
    constructor
    · intro zs h
      simp only [zipBin, Except.ok.injEq] at h
      subst h; simp
    · intro e h; simp [zipBin] at h
  | x :: xs, [], _, _, hl => by simp at hl
  | x :: xs, y :: ys, hx, hy, hl => by
    obtain ⟨h1, h2⟩ := scalarBin_sound (it := it) (hx x List.mem_cons_self) (hy y List.mem_cons_self) hk hit
    obtain ⟨r1, r2⟩ := zipBin_sound hk hit xs ys (fun a ha => hx a (List.mem_cons_of_mem _ ha))
      (fun a ha => hy a (List.mem_cons_of_mem _ ha)) (by simpa using hl)
    simp only [zipBin, bind, Except.bind]
    cases hs : scalarBin o it x y with
    | error e =>
      refine ⟨fun zs h => by simp at h, fun e' h => ?_⟩
      simp only [Except.error.injEq] at h
      subst h; exact h2 e hs
    | ok z =>
      cases hr : zipBin o it xs ys with
      | error e =>
        refine ⟨fun zs h => by simp at h, fun e' h => ?_⟩
        simp only [Except.error.injEq] at h
        subst h; exact r2 e hr
      | ok zs =>
        refine ⟨fun zs' h => ?_, fun e' h => by simp at h⟩
        simp only [Except.ok.injEq] at h
        subst h
        obtain ⟨hlen, hall⟩ := r1 zs hr
        refine ⟨by simp [hlen], ?_⟩
        intro w hw
        rcases List.mem_cons.1 hw with rfl | hw
        · exact h1 _ hs
        · exact hall w hw

theorem mapBinR_sound {o : SOp} {it : Bool} {s sa sb : Sc} {b : Val} (hk : arithOK o s sa sb = true)
    (hit : o = .div → it = scInt s) (hb : scOK sb b = true) : ∀ (xs : List Val),
    (∀ x ∈ xs, scOK sa x = true) →
    (∀ zs, mapBinR o it b xs = .ok zs → zs.length = xs.length ∧ ∀ z ∈ zs, scOK s z = true) ∧
    (∀ e, mapBinR o it b xs = .error e → noInt e)
  | [], _ => by
    constructor
    · intro zs h
      simp only [mapBinR, Except.ok.injEq] at h
      subst h; simp
    · intro e h; simp [mapBinR] at h
  | x :: xs, hx => by
    obtain ⟨h1, h2⟩ := scalarBin_sound (it := it) (hx x List.mem_cons_self) hb hk hit
    obtain ⟨r1, r2⟩ := mapBinR_sound hk hit hb xs (fun a ha => hx a (List.mem_cons_of_mem _ ha))
    simp only [mapBinR, bind, Except.bind]
    cases hs : scalarBin o it x b with
    | error e =>
      refine ⟨fun zs h => by simp at h, fun e' h => ?_⟩
      simp only [Except.error.injEq] at h
      subst h; exact h2 e hs
    | ok z =>
      cases hr : mapBinR o it b xs with
      | error e =>
        refine ⟨fun zs h => by simp at h, fun e' h => ?_⟩
        simp only [Except.error.injEq] at h
        subst h; exact r2 e hr
      | ok zs =>
        refine ⟨fun zs' h => ?_, fun e' h => by simp at h⟩
        simp only [Except.ok.injEq] at h
        subst h
        obtain ⟨hlen, hall⟩ := r1 zs hr
        refine ⟨by simp [hlen], ?_⟩
        intro w hw
        rcases List.mem_cons.1 hw with rfl | hw
        · exact h1 _ hs
        · exact hall w hw

/-! ## dot products, matrix products -/

theorem dotOK_mul {s sa sb : Sc} (h : dotOK s sa sb = true) : arithOK .mul s sa sb = true := by
  cases s <;> simpa [dotOK, arithOK, scInt] using h

theorem arithOK_add_self (s : Sc) : arithOK .add s s s = true := by
  cases s <;> rfl

theorem dotFrom_sound {s sa sb : Sc} (hk : dotOK s sa sb = true) : ∀ (xs ys : List Val) (acc : Val),
    scOK s acc = true → (∀ x ∈ xs, scOK sa x = true) → (∀ y ∈ ys, scOK sb y = true) →
    (∀ z, dotFrom acc xs ys = .ok z → scOK s z = true) ∧ (∀ e, dotFrom acc xs ys = .error e → noInt e)
  | [], ys, acc, hacc, _, _ => by
    constructor
    · intro z h
      simp only [dotFrom, Except.ok.injEq] at h
      subst h; exact hacc
    · intro e h; simp [dotFrom] at h
  | x :: xs, [], acc, hacc, _, _ => by
    constructor
    · intro z h
      simp only [dotFrom, Except.ok.injEq] at h
      subst h; exact hacc
    · intro e h; simp [dotFrom] at h
  | x :: xs, y :: ys, acc, hacc, hx, hy => by
    obtain ⟨h1, h2⟩ := scalarBin_sound (it := false) (hx x List.mem_cons_self) (hy y List.mem_cons_self)
      (dotOK_mul hk) (by intro h; cases h)
    simp only [dotFrom, bind, Except.bind]
    cases hs : scalarBin .mul false x y with
    | error e =>
      refine ⟨fun zs h => by simp at h, fun e' h => ?_⟩
      simp only [Except.error.injEq] at h
      subst h; exact h2 e hs
    | ok p =>
      obtain ⟨a1, a2⟩ := scalarBin_sound (it := false) hacc (h1 p hs) (arithOK_add_self s) (by intro h; cases h)
      dsimp only
      cases ha : scalarBin .add false acc p with
      | error e =>
        refine ⟨fun zs h => by simp at h, fun e' h => ?_⟩
        simp only [Except.error.injEq] at h
        subst h; exact a2 e ha
      | ok acc' =>
        dsimp only
        exact dotFrom_sound hk xs ys acc' (a1 acc' ha) (fun a ha => hx a (List.mem_cons_of_mem _ ha))
          (fun a ha => hy a (List.mem_cons_of_mem _ ha))

theorem asList_list (vs : List Val) : asList (.list vs) = .ok vs := rfl

/-- a column of a typed matrix -/
theorem column_sound {sb : Sc} {c j : Nat} (hj : j < c) : ∀ (m : List Val),
    (∀ r ∈ m, valOK (.vec sb c) r = true) → ∃ col, column m j = .ok col ∧ ∀ y ∈ col, scOK sb y = true
  | [], _ => ⟨[], rfl, by simp⟩
  | r :: rs, hm => by
    obtain ⟨row, rfl, hl, hrow⟩ := vec_iff.1 (hm r List.mem_cons_self)
    obtain ⟨col, hc, hcol⟩ := column_sound hj rs (fun a ha => hm a (List.mem_cons_of_mem _ ha))
    have hjl : j < row.length := by omega
    refine ⟨row[j] :: col, ?_, ?_⟩
    · simp [column, asList, bind, Except.bind, List.getElem?_eq_getElem hjl, hc]
    · intro y hy
      rcases List.mem_cons.1 hy with rfl | hy
      · exact hrow _ (List.getElem_mem hjl)
      · exact hcol y hy

theorem matMulRow_sound {s sa sb : Sc} {c : Nat} (hk : dotOK s sa sb = true) {row m1 : List Val}
    (hrow : ∀ x ∈ row, scOK sa x = true) (hm : ∀ r ∈ m1, valOK (.vec sb c) r = true) : ∀ (js : List Nat),
    (∀ j ∈ js, j < c) →
    (∀ zs, matMulRow row m1 js = .ok zs → zs.length = js.length ∧ ∀ z ∈ zs, scOK s z = true) ∧
    (∀ e, matMulRow row m1 js = .error e → noInt e)
  | [], _ => by
    constructor
    · intro zs h
      simp only [matMulRow, Except.ok.injEq] at h
      subst h; simp
    · intro e h; simp [matMulRow] at h
  | j :: js, hjs => by
    obtain ⟨col, hc, hcol⟩ := column_sound (sb := sb) (hjs j List.mem_cons_self) m1 hm
    obtain ⟨d1, d2⟩ := dotFrom_sound hk row col (.int 0) (scOK_int s 0) hrow hcol
    obtain ⟨r1, r2⟩ := matMulRow_sound hk hrow hm js (fun a ha => hjs a (List.mem_cons_of_mem _ ha))
    simp only [matMulRow, bind, Except.bind, hc]
    cases hd : dotFrom (.int 0) row col with
    | error e =>
      refine ⟨fun zs h => by simp at h, fun e' h => ?_⟩
      simp only [Except.error.injEq] at h
      subst h; exact d2 e hd
    | ok x =>
      cases hr : matMulRow row m1 js with
      | error e =>
        refine ⟨fun zs h => by simp at h, fun e' h => ?_⟩
        simp only [Except.error.injEq] at h
        subst h; exact r2 e hr
      | ok zs =>
        refine ⟨fun zs' h => ?_, fun e' h => by simp at h⟩
        simp only [Except.ok.injEq] at h
        subst h
        obtain ⟨hlen, hall⟩ := r1 zs hr
        refine ⟨by simp [hlen], ?_⟩
        intro w hw
        rcases List.mem_cons.1 hw with rfl | hw
        · exact d1 _ hd
        · exact hall w hw

theorem matMulGo_sound {s sa sb : Sc} {ca c : Nat} (hk : dotOK s sa sb = true) {m1 : List Val}
    (hm : ∀ r ∈ m1, valOK (.vec sb c) r = true) : ∀ (m0 : List Val),
    (∀ r ∈ m0, valOK (.vec sa ca) r = true) →
    (∀ zs, matMul.go c m1 m0 = .ok zs → zs.length = m0.length ∧ ∀ z ∈ zs, valOK (.vec s c) z = true) ∧
    (∀ e, matMul.go c m1 m0 = .error e → noInt e)
  | [], _ => by
    constructor
    · intro zs h
      simp only [matMul.go, Except.ok.injEq] at h
      subst h; simp
    · intro e h; simp [matMul.go] at h
  | r :: rs, hm0 => by
    obtain ⟨row, rfl, _, hrow⟩ := vec_iff.1 (hm0 r List.mem_cons_self)
    obtain ⟨d1, d2⟩ := matMulRow_sound hk hrow hm (List.range c) (fun j hj => List.mem_range.1 hj)
    obtain ⟨r1, r2⟩ := matMulGo_sound hk hm rs (fun a ha => hm0 a (List.mem_cons_of_mem _ ha))
    simp only [matMul.go, asList, bind, Except.bind]
    cases hd : matMulRow row m1 (List.range c) with
    | error e =>
      refine ⟨fun zs h => by simp at h, fun e' h => ?_⟩
      simp only [Except.error.injEq] at h
      subst h; exact d2 e hd
    | ok x =>
      cases hr : matMul.go c m1 rs with
      | error e =>
        refine ⟨fun zs h => by simp at h, fun e' h => ?_⟩
        simp only [Except.error.injEq] at h
        subst h; exact r2 e hr
      | ok zs =>
        refine ⟨fun zs' h => ?_, fun e' h => by simp at h⟩
        simp only [Except.ok.injEq] at h
        subst h
        obtain ⟨hlen, hall⟩ := r1 zs hr
        refine ⟨by simp [hlen], ?_⟩
        intro w hw
        rcases List.mem_cons.1 hw with rfl | hw
        · obtain ⟨hl, hx⟩ := d1 x hd
          exact vec_iff.2 ⟨x, rfl, by simpa using hl, hx⟩
        · exact hall w hw

theorem matMulVec_sound {s sa sb : Sc} {ca : Nat} (hk : dotOK s sa sb = true) {v : List Val}
    (hv : ∀ y ∈ v, scOK sb y = true) : ∀ (m : List Val),
    (∀ r ∈ m, valOK (.vec sa ca) r = true) →
    (∀ zs, matMulVec m v = .ok zs → zs.length = m.length ∧ ∀ z ∈ zs, scOK s z = true) ∧
    (∀ e, matMulVec m v = .error e → noInt e)
  | [], _ => by
    constructor
    · intro zs h
      simp only [matMulVec, Except.ok.injEq] at h
      subst h; simp
    · intro e h; simp [matMulVec] at h
  | r :: rs, hm => by
    obtain ⟨row, rfl, _, hrow⟩ := vec_iff.1 (hm r List.mem_cons_self)
    obtain ⟨d1, d2⟩ := dotFrom_sound hk row v (.int 0) (scOK_int s 0) hrow hv
    obtain ⟨r1, r2⟩ := matMulVec_sound hk hv rs (fun a ha => hm a (List.mem_cons_of_mem _ ha))
    simp only [matMulVec, asList, bind, Except.bind]
    cases hd : dotFrom (.int 0) row v with
    | error e =>
      refine ⟨fun zs h => by simp at h, fun e' h => ?_⟩
      simp only [Except.error.injEq] at h
      subst h; exact d2 e hd
    | ok x =>
      cases hr : matMulVec rs v with
      | error e =>
        refine ⟨fun zs h => by simp at h, fun e' h => ?_⟩
        simp only [Except.error.injEq] at h
        subst h; exact r2 e hr
      | ok zs =>
        refine ⟨fun zs' h => ?_, fun e' h => by simp at h⟩
        simp only [Except.ok.injEq] at h
        subst h
        obtain ⟨hlen, hall⟩ := r1 zs hr
        refine ⟨by simp [hlen], ?_⟩
        intro w hw
        rcases List.mem_cons.1 hw with rfl | hw
        · exact d1 _ hd
        · exact hall w hw

end IRType
end Nsl
