import Nsl.Proofs.LowerLocalV3
import Nsl.Proofs.LowerLocal3
/-!
# The lowering produces forwardable code whenever no variable occurrence is annotated with an aggregate type

`forwardOK` (see `LowerLocal3`) asks, for a `store sc' var _` directly followed by a `load _ ty sc var`, that the scopes
agree and that `ty` is not an aggregate.  `LowerLocal3` proves the position-independent access invariant `AccIn`
(every load/store accesses a pair of `accS body`, every load is non-aggregate) for the scalar core.  Here it is proved
for ALL expression and statement forms under the single decidable condition `valVarsS` — every `var` node carries a
non-aggregate annotation (`ITy.isAggregate`: only arrays and structs are aggregates, so vector and matrix variables are
fine).  The new lowering shapes add no `load`/`store` of their own: `construct`, `shuffle`, `vecGet/vecSet`,
`matGet/matSet`, the row loops and `mkBin` are neither; the only stores are those of `lowerStore (.var …)` at the root
of a (nested) target and of an initialising declaration, and `accE` descends to that root.
-/
namespace Nsl
namespace Core

mutual
  /-- Every variable occurrence is annotated with a non-aggregate type (scalar, vector, matrix or void). -/
  def valVarsE : Expr → Bool
    | .litI _ => true
    | .litF _ => true
    | .var _ _ ty => !ty.isAggregate
    | .bin _ _ l r => valVarsE l && valVarsE r
    | .cast _ e => valVarsE e
    | .assign lhs rhs => valVarsE lhs && valVarsE rhs
    | .affix _ _ x => valVarsE x
    | .call _ _ args => valVarsArgs args
    | .index _ _ base idx => valVarsE base && valVarsE idx
    | .member _ base _ => valVarsE base
    | .swizzle _ base _ => valVarsE base
    | .construct _ args => valVarsArgs args
  def valVarsArgs : Args → Bool
    | .nil => true
    | .cons e rest => valVarsE e && valVarsArgs rest
end

def valVarsOptE : Option Expr → Bool
  | none => true
  | some e => valVarsE e

def valVarsS : Stmt → Bool
  | .skip => true
  | .decl _ _ none => true
  | .decl _ _ (some e) => valVarsE e
  | .expr e => valVarsE e
  | .seq a b => valVarsS a && valVarsS b
  | .ite1 c t => valVarsE c && valVarsS t
  | .ite2 c t e => valVarsE c && valVarsS t && valVarsS e
  | .whileL c body => valVarsE c && valVarsS body
  | .doL body c => valVarsS body && valVarsE c
  | .forL init c next body => valVarsS init && valVarsOptE c && valVarsOptE next && valVarsS body
  | .brk => true
  | .cont => true
  | .ret none => true
  | .ret (some e) => valVarsE e

/-- No variable occurrence of the module is annotated with an array or struct type. -/
def ValueVars (M : Module) : Prop := ∀ f ∈ M.fns, valVarsS f.body = true

instance (M : Module) : Decidable (ValueVars M) := by unfold ValueVars; exact inferInstance

end Core

namespace Lower
open Core Opt WF

theorem AccP_mkBin (V : List (Scope × VarKey)) (dst : Nat) (op : BOp) (rty : ITy) (a : Opd) (ta : ITy) (b : Opd)
    (tb : ITy) : AccP V (mkBin dst op rty a ta b tb) := by
  unfold mkBin; split <;> trivial

theorem rowsMM_acc (V : List (Scope × VarKey)) (op : BOp) (lt rt resT : ITy) (l r : Opd) :
    ∀ (n k : Nat) (code : List Instr) (rows : List Opd) (k' : Nat),
      rowsMM op lt rt resT l r n k = (code, rows, k') → AccIn V code := by
  intro n
  induction n with
  | zero =>
    intro k code rows k' h
    simp only [rowsMM, Prod.mk.injEq] at h
    obtain ⟨rfl, -, -⟩ := h
    exact AccIn.nil V
  | succ n ih =>
    intro k code rows k' h
    rcases hrow : rowsMM op lt rt resT l r n k with ⟨c0, r0, k0⟩
    have h1 := ih k c0 r0 k0 hrow
    simp only [rowsMM, hrow, Prod.mk.injEq] at h
    obtain ⟨rfl, -, -⟩ := h
    refine h1.append ?_
    intro i hi
    simp only [List.mem_cons, List.not_mem_nil, or_false] at hi
    rcases hi with rfl | rfl | rfl
    · trivial
    · trivial
    · exact AccP_mkBin ..

theorem rowsMS_acc (V : List (Scope × VarKey)) (op : BOp) (lt rt resT : ITy) (l r : Opd) :
    ∀ (n k : Nat) (code : List Instr) (rows : List Opd) (k' : Nat),
      rowsMS op lt rt resT l r n k = (code, rows, k') → AccIn V code := by
  intro n
  induction n with
  | zero =>
    intro k code rows k' h
    simp only [rowsMS, Prod.mk.injEq] at h
    obtain ⟨rfl, -, -⟩ := h
    exact AccIn.nil V
  | succ n ih =>
    intro k code rows k' h
    rcases hrow : rowsMS op lt rt resT l r n k with ⟨c0, r0, k0⟩
    have h1 := ih k c0 r0 k0 hrow
    simp only [rowsMS, hrow, Prod.mk.injEq] at h
    obtain ⟨rfl, -, -⟩ := h
    refine h1.append ?_
    intro i hi
    simp only [List.mem_cons, List.not_mem_nil, or_false] at hi
    rcases hi with rfl | rfl
    · trivial
    · exact AccP_mkBin ..

theorem rowsSM_acc (V : List (Scope × VarKey)) (op : BOp) (lt rt resT : ITy) (l r : Opd) :
    ∀ (n k : Nat) (code : List Instr) (rows : List Opd) (k' : Nat),
      rowsSM op lt rt resT l r n k = (code, rows, k') → AccIn V code := by
  intro n
  induction n with
  | zero =>
    intro k code rows k' h
    simp only [rowsSM, Prod.mk.injEq] at h
    obtain ⟨rfl, -, -⟩ := h
    exact AccIn.nil V
  | succ n ih =>
    intro k code rows k' h
    rcases hrow : rowsSM op lt rt resT l r n k with ⟨c0, r0, k0⟩
    have h1 := ih k c0 r0 k0 hrow
    simp only [rowsSM, hrow, Prod.mk.injEq] at h
    obtain ⟨rfl, -, -⟩ := h
    refine h1.append ?_
    intro i hi
    simp only [List.mem_cons, List.not_mem_nil, or_false] at hi
    rcases hi with rfl | rfl
    · trivial
    · exact AccP_mkBin ..

theorem nonAgg_of_not {ty : ITy} (h : (!ty.isAggregate) = true) : ty.isAggregate = false := by
  simpa using h

mutual
  theorem lowerE_accG (V : List (Scope × VarKey)) : ∀ (e : Expr), valVarsE e = true → (∀ a ∈ accE e, a ∈ V) →
      ∀ (k : Nat) (c : List Instr) (o : Opd) (k' : Nat), lowerE e k = (c, o, k') → AccIn V c
    | .litI i, _, _, k, c, o, k', h => by
      simp only [lowerE, Prod.mk.injEq] at h
      obtain ⟨rfl, -, -⟩ := h
      exact AccIn.nil V
    | .litF f, _, _, k, c, o, k', h => by
      simp only [lowerE, Prod.mk.injEq] at h
      obtain ⟨rfl, -, -⟩ := h
      exact AccIn.nil V
    | .var sc key ty, hok, hV, k, c, o, k', h => by
      simp only [valVarsE] at hok
      simp only [lowerE, Prod.mk.injEq] at h
      obtain ⟨rfl, -, -⟩ := h
      exact AccIn.single ⟨hV _ (by simp [accE]), nonAgg_of_not hok⟩
    | .bin op ty l r, hok, hV, k, c, o, k', h => by
      simp only [valVarsE, Bool.and_eq_true] at hok
      rcases hel : lowerE l k with ⟨cl, vl, k1⟩
      rcases her : lowerE r k1 with ⟨cr, vr, k2⟩
      have il := lowerE_accG V l hok.1 (fun a ha => hV a (by simp [accE, ha])) k cl vl k1 hel
      have ir := lowerE_accG V r hok.2 (fun a ha => hV a (by simp [accE, ha])) k1 cr vr k2 her
      rcases hmm : rowsMM op (Expr.ty l) (Expr.ty r) ty vl vr (rowCount (Expr.ty l)) k2 with ⟨c3, r3, k3⟩
      rcases hsm : rowsSM op (Expr.ty l) (Expr.ty r) ty vl vr (rowCount (Expr.ty r)) k2 with ⟨c4, r4, k4⟩
      rcases hms : rowsMS op (Expr.ty l) (Expr.ty r) ty vl vr (rowCount (Expr.ty l)) k2 with ⟨c5, r5, k5⟩
      have i3 := rowsMM_acc V _ _ _ _ _ _ _ _ _ _ _ hmm
      have i4 := rowsSM_acc V _ _ _ _ _ _ _ _ _ _ _ hsm
      have i5 := rowsMS_acc V _ _ _ _ _ _ _ _ _ _ _ hms
      simp only [lowerE, hel, her, hmm, hsm, hms] at h
      split at h
      · split at h
        · simp only [Prod.mk.injEq] at h
          obtain ⟨rfl, -, -⟩ := h
          exact (il.append ir).snoc trivial
        · simp only [Prod.mk.injEq] at h
          obtain ⟨rfl, -, -⟩ := h
          exact ((il.append ir).append i3).snoc trivial
      · split at h
        · simp only [Prod.mk.injEq] at h
          obtain ⟨rfl, -, -⟩ := h
          exact (il.append ir).snoc trivial
        · split at h
          · simp only [Prod.mk.injEq] at h
            obtain ⟨rfl, -, -⟩ := h
            exact ((il.append ir).append i4).snoc trivial
          · split at h
            · simp only [Prod.mk.injEq] at h
              obtain ⟨rfl, -, -⟩ := h
              exact ((il.append ir).append i5).snoc trivial
            · simp only [Prod.mk.injEq] at h
              obtain ⟨rfl, -, -⟩ := h
              exact (il.append ir).snoc (AccP_mkBin ..)
    | .cast ty e, hok, hV, k, c, o, k', h => by
      simp only [valVarsE] at hok
      rcases he : lowerE e k with ⟨c1, v1, k1⟩
      have ie := lowerE_accG V e hok (fun a ha => hV a (by simpa [accE] using ha)) k c1 v1 k1 he
      simp only [lowerE, he, Prod.mk.injEq] at h
      obtain ⟨rfl, -, -⟩ := h
      exact ie.snoc trivial
    | .assign lhs rhs, hok, hV, k, c, o, k', h => by
      simp only [valVarsE, Bool.and_eq_true] at hok
      rcases he : lowerE rhs k with ⟨c1, v1, k1⟩
      rcases hs : lowerStore lhs v1 k1 with ⟨c2, k2⟩
      have ie := lowerE_accG V rhs hok.2 (fun a ha => hV a (by simp [accE, ha])) k c1 v1 k1 he
      have is := lowerStore_accG V lhs hok.1 (fun a ha => hV a (by simp [accE, ha])) v1 k1 c2 k2 hs
      simp only [lowerE, he, hs, Prod.mk.injEq] at h
      obtain ⟨rfl, -, -⟩ := h
      exact ie.append is
    | .affix post inc x, hok, hV, k, c, o, k', h => by
      simp only [valVarsE] at hok
      rcases he : lowerE x k with ⟨c1, v1, k1⟩
      rcases hs : lowerStore x (.ref k1) (k1 + 1) with ⟨c2, k2⟩
      have hV' : ∀ a ∈ accE x, a ∈ V := fun a ha => hV a (by simpa [accE] using ha)
      have ie := lowerE_accG V x hok hV' k c1 v1 k1 he
      have is := lowerStore_accG V x hok hV' (.ref k1) (k1 + 1) c2 k2 hs
      simp only [lowerE, he, hs, Prod.mk.injEq] at h
      obtain ⟨rfl, -, -⟩ := h
      exact (ie.snoc (ins := Instr.bin k1 (.s (if inc then .add else .sub)) (Expr.ty x) v1 (.cInt 1)) trivial).append is
    | .call fn ty args, hok, hV, k, c, o, k', h => by
      simp only [valVarsE] at hok
      rcases ha : lowerArgs args k with ⟨c1, vs, k1⟩
      have ia := lowerArgs_accG V args hok (fun a ha' => hV a (by simpa [accE] using ha')) k c1 vs k1 ha
      simp only [lowerE, ha, Prod.mk.injEq] at h
      obtain ⟨rfl, -, -⟩ := h
      exact ia.snoc trivial
    | .index kind ty base idx, hok, hV, k, c, o, k', h => by
      simp only [valVarsE, Bool.and_eq_true] at hok
      rcases heb : lowerE base k with ⟨cb, vb, k1⟩
      rcases hei : lowerE idx k1 with ⟨ci, vi, k2⟩
      have ib := lowerE_accG V base hok.1 (fun a ha => hV a (by simp [accE, ha])) k cb vb k1 heb
      have ii := lowerE_accG V idx hok.2 (fun a ha => hV a (by simp [accE, ha])) k1 ci vi k2 hei
      simp only [lowerE, heb, hei, Prod.mk.injEq] at h
      obtain ⟨rfl, -, -⟩ := h
      refine (ib.append ii).snoc ?_
      cases kind <;> trivial
    | .member ty base field, hok, hV, k, c, o, k', h => by
      simp only [valVarsE] at hok
      rcases heb : lowerE base k with ⟨cb, vb, k1⟩
      have ib := lowerE_accG V base hok (fun a ha => hV a (by simpa [accE] using ha)) k cb vb k1 heb
      simp only [lowerE, heb, Prod.mk.injEq] at h
      obtain ⟨rfl, -, -⟩ := h
      exact ib.snoc trivial
    | .swizzle ty base idxs, hok, hV, k, c, o, k', h => by
      simp only [valVarsE] at hok
      rcases heb : lowerE base k with ⟨cb, vb, k1⟩
      have ib := lowerE_accG V base hok (fun a ha => hV a (by simpa [accE] using ha)) k cb vb k1 heb
      simp only [lowerE, heb, Prod.mk.injEq] at h
      obtain ⟨rfl, -, -⟩ := h
      exact ib.snoc trivial
    | .construct ty args, hok, hV, k, c, o, k', h => by
      simp only [valVarsE] at hok
      rcases ha : lowerArgs args k with ⟨c1, vs, k1⟩
      have ia := lowerArgs_accG V args hok (fun a ha' => hV a (by simpa [accE] using ha')) k c1 vs k1 ha
      simp only [lowerE, ha, Prod.mk.injEq] at h
      obtain ⟨rfl, -, -⟩ := h
      exact ia.snoc trivial
  termination_by e => (sizeOf e, 0)
  theorem lowerArgs_accG (V : List (Scope × VarKey)) : ∀ (as : Args), valVarsArgs as = true →
      (∀ a ∈ accArgs as, a ∈ V) → ∀ (k : Nat) (c : List Instr) (os : List Opd) (k' : Nat),
      lowerArgs as k = (c, os, k') → AccIn V c
    | .nil, _, _, k, c, os, k', h => by
      simp only [lowerArgs, Prod.mk.injEq] at h
      obtain ⟨rfl, -, -⟩ := h
      exact AccIn.nil V
    | .cons e rest, hok, hV, k, c, os, k', h => by
      simp only [valVarsArgs, Bool.and_eq_true] at hok
      rcases he : lowerE e k with ⟨c1, v1, k1⟩
      rcases hr : lowerArgs rest k1 with ⟨c2, vs, k2⟩
      have ie := lowerE_accG V e hok.1 (fun a ha => hV a (by simp [accArgs, ha])) k c1 v1 k1 he
      have ir := lowerArgs_accG V rest hok.2 (fun a ha => hV a (by simp [accArgs, ha])) k1 c2 vs k2 hr
      simp only [lowerArgs, he, hr, Prod.mk.injEq] at h
      obtain ⟨rfl, -, -⟩ := h
      exact ie.append ir
  termination_by as => (sizeOf as, 0)
  /-- The only `store` of a (nested) target is the one at its root variable, and `accE` descends to it. -/
  theorem lowerStore_accG (V : List (Scope × VarKey)) : ∀ (e : Expr), valVarsE e = true → (∀ a ∈ accE e, a ∈ V) →
      ∀ (v : Opd) (k : Nat) (c : List Instr) (k' : Nat), lowerStore e v k = (c, k') → AccIn V c
    | .var sc key ty, _, hV, v, k, c, k', h => by
      simp only [lowerStore, Prod.mk.injEq] at h
      obtain ⟨rfl, -⟩ := h
      exact AccIn.single (hV (sc, key) (by simp [accE]))
    | .index kind ty base idx, hok, hV, v, k, c, k', h => by
      simp only [valVarsE, Bool.and_eq_true] at hok
      rcases heb : lowerE base k with ⟨cb, vb, k1⟩
      rcases hei : lowerE idx k1 with ⟨ci, vi, k2⟩
      rcases hsb : lowerStore base (.ref k2) (k2 + 1) with ⟨cs, k3⟩
      have hVb : ∀ a ∈ accE base, a ∈ V := fun a ha => hV a (by simp [accE, ha])
      have ib := lowerE_accG V base hok.1 hVb k cb vb k1 heb
      have ii := lowerE_accG V idx hok.2 (fun a ha => hV a (by simp [accE, ha])) k1 ci vi k2 hei
      have is := lowerStore_accG V base hok.1 hVb (.ref k2) (k2 + 1) cs k3 hsb
      cases kind with
      | arr =>
        simp only [lowerStore, heb, hei, Prod.mk.injEq] at h
        obtain ⟨rfl, -⟩ := h
        exact (ib.append ii).snoc trivial
      | vec =>
        simp only [lowerStore, heb, hei, hsb, Prod.mk.injEq] at h
        obtain ⟨rfl, -⟩ := h
        exact ((ib.append ii).snoc (ins := .vecSet k2 ty vb vi v) trivial).append is
      | mat =>
        simp only [lowerStore, heb, hei, hsb, Prod.mk.injEq] at h
        obtain ⟨rfl, -⟩ := h
        exact ((ib.append ii).snoc (ins := .matSet k2 ty vb vi v) trivial).append is
    | .member ty base field, hok, hV, v, k, c, k', h => by
      simp only [valVarsE] at hok
      rcases heb : lowerE base k with ⟨cb, vb, k1⟩
      have ib := lowerE_accG V base hok (fun a ha => hV a (by simpa [accE] using ha)) k cb vb k1 heb
      simp only [lowerStore, heb, Prod.mk.injEq] at h
      obtain ⟨rfl, -⟩ := h
      exact ib.snoc trivial
    | .swizzle ty base idxs, hok, hV, v, k, c, k', h => by
      simp only [valVarsE] at hok
      rcases heb : lowerE base k with ⟨cb, vb, k1⟩
      rcases hsb : lowerStore base (.ref k1) (k1 + 1) with ⟨cs, k2⟩
      have hVb : ∀ a ∈ accE base, a ∈ V := fun a ha => hV a (by simpa [accE] using ha)
      have ib := lowerE_accG V base hok hVb k cb vb k1 heb
      have is := lowerStore_accG V base hok hVb (.ref k1) (k1 + 1) cs k2 hsb
      simp only [lowerStore, heb, hsb, Prod.mk.injEq] at h
      obtain ⟨rfl, -⟩ := h
      exact (ib.snoc (ins := .shuffle k1 (Expr.ty base) vb v (storeShuffleIdx (vecSize (Expr.ty base)) idxs)) trivial).append is
    | .litI i, hok, hV, v, k, c, k', h => by
      rcases he : lowerE (.litI i) k with ⟨c1, v1, k1⟩
      have ie := lowerE_accG V _ hok hV k c1 v1 k1 he
      simp only [lowerStore, he, Prod.mk.injEq] at h
      obtain ⟨rfl, -⟩ := h
      exact ie
    | .litF f, hok, hV, v, k, c, k', h => by
      rcases he : lowerE (.litF f) k with ⟨c1, v1, k1⟩
      have ie := lowerE_accG V _ hok hV k c1 v1 k1 he
      simp only [lowerStore, he, Prod.mk.injEq] at h
      obtain ⟨rfl, -⟩ := h
      exact ie
    | .bin op ty l r, hok, hV, v, k, c, k', h => by
      rcases he : lowerE (.bin op ty l r) k with ⟨c1, v1, k1⟩
      have ie := lowerE_accG V _ hok hV k c1 v1 k1 he
      simp only [lowerStore, he, Prod.mk.injEq] at h
      obtain ⟨rfl, -⟩ := h
      exact ie
    | .cast ty e, hok, hV, v, k, c, k', h => by
      rcases he : lowerE (.cast ty e) k with ⟨c1, v1, k1⟩
      have ie := lowerE_accG V _ hok hV k c1 v1 k1 he
      simp only [lowerStore, he, Prod.mk.injEq] at h
      obtain ⟨rfl, -⟩ := h
      exact ie
    | .assign lhs rhs, hok, hV, v, k, c, k', h => by
      rcases he : lowerE (.assign lhs rhs) k with ⟨c1, v1, k1⟩
      have ie := lowerE_accG V _ hok hV k c1 v1 k1 he
      simp only [lowerStore, he, Prod.mk.injEq] at h
      obtain ⟨rfl, -⟩ := h
      exact ie
    | .affix post inc x, hok, hV, v, k, c, k', h => by
      rcases he : lowerE (.affix post inc x) k with ⟨c1, v1, k1⟩
      have ie := lowerE_accG V _ hok hV k c1 v1 k1 he
      simp only [lowerStore, he, Prod.mk.injEq] at h
      obtain ⟨rfl, -⟩ := h
      exact ie
    | .call fn ty args, hok, hV, v, k, c, k', h => by
      rcases he : lowerE (.call fn ty args) k with ⟨c1, v1, k1⟩
      have ie := lowerE_accG V _ hok hV k c1 v1 k1 he
      simp only [lowerStore, he, Prod.mk.injEq] at h
      obtain ⟨rfl, -⟩ := h
      exact ie
    | .construct ty args, hok, hV, v, k, c, k', h => by
      rcases he : lowerE (.construct ty args) k with ⟨c1, v1, k1⟩
      have ie := lowerE_accG V _ hok hV k c1 v1 k1 he
      simp only [lowerStore, he, Prod.mk.injEq] at h
      obtain ⟨rfl, -⟩ := h
      exact ie
  termination_by e => (sizeOf e, 1)
end

theorem lowerOptE_accG (V : List (Scope × VarKey)) : ∀ (oe : Option Expr), valVarsOptE oe = true →
    (∀ a ∈ accOptE oe, a ∈ V) → ∀ (k : Nat) (c : List Instr) (o : Option Opd) (k' : Nat),
    lowerOptE oe k = (c, o, k') → AccIn V c
  | none, _, _, k, c, o, k', h => by
    simp only [lowerOptE, Prod.mk.injEq] at h
    obtain ⟨rfl, rfl, rfl⟩ := h
    exact AccIn.nil V
  | some e, hok, hV, k, c, o, k', h => by
    rcases he : lowerE e k with ⟨c1, v1, k1⟩
    have ie := lowerE_accG V e hok hV k c1 v1 k1 he
    simp only [lowerOptE, he, Prod.mk.injEq] at h
    obtain ⟨rfl, rfl, rfl⟩ := h
    exact ie

theorem lowerS_accG (V : List (Scope × VarKey)) : ∀ (s : Stmt), valVarsS s = true →
    (∀ a ∈ accS s, a ∈ V) → ∀ (brk cont : Option Nat) (k : Nat) (c : List Instr) (k' : Nat),
    lowerS brk cont s k = (c, k') → AccIn V c
  | .skip, _, _, brk, cont, k, c, k', h => by
    simp only [lowerS, Prod.mk.injEq] at h
    obtain ⟨rfl, rfl⟩ := h
    exact AccIn.nil V
  | .decl name ty none, _, _, brk, cont, k, c, k', h => by
    simp only [lowerS, Prod.mk.injEq] at h
    obtain ⟨rfl, rfl⟩ := h
    exact AccIn.single trivial
  | .decl name ty (some e), hok, hV, brk, cont, k, c, k', h => by
    simp only [valVarsS] at hok
    rcases he : lowerE e (k + 1) with ⟨c1, v1, k1⟩
    have ie := lowerE_accG V e hok (fun a ha => hV a (by simp [accS, ha])) (k + 1) c1 v1 k1 he
    simp only [lowerS, he, Prod.mk.injEq] at h
    obtain ⟨rfl, rfl⟩ := h
    exact ((AccIn.single (ins := .newVar k ty name) trivial).append ie).snoc (hV _ (by simp [accS]))
  | .expr e, hok, hV, brk, cont, k, c, k', h => by
    simp only [valVarsS] at hok
    rcases he : lowerE e k with ⟨c1, v1, k1⟩
    have ie := lowerE_accG V e hok (fun a ha => hV a (by simpa [accS] using ha)) k c1 v1 k1 he
    simp only [lowerS, he, Prod.mk.injEq] at h
    obtain ⟨rfl, rfl⟩ := h
    exact ie
  | .seq a b, hok, hV, brk, cont, k, c, k', h => by
    simp only [valVarsS, Bool.and_eq_true] at hok
    rcases ha : lowerS brk cont a k with ⟨ca, k1⟩
    rcases hb : lowerS brk cont b k1 with ⟨cb, k2⟩
    have ia := lowerS_accG V a hok.1 (fun x hx => hV x (by simp [accS, hx])) brk cont k ca k1 ha
    have ib := lowerS_accG V b hok.2 (fun x hx => hV x (by simp [accS, hx])) brk cont k1 cb k2 hb
    simp only [lowerS, ha, hb, Prod.mk.injEq] at h
    obtain ⟨rfl, rfl⟩ := h
    exact ia.append ib
  | .ite1 cnd t, hok, hV, brk, cont, k, c, k', h => by
    simp only [valVarsS, Bool.and_eq_true] at hok
    rcases hc : lowerE cnd k with ⟨cc, v, k1⟩
    rcases ht : lowerS brk cont t (k1 + 2) with ⟨ct, k2⟩
    have ic := lowerE_accG V cnd hok.1 (fun x hx => hV x (by simp [accS, hx])) k cc v k1 hc
    have it := lowerS_accG V t hok.2 (fun x hx => hV x (by simp [accS, hx])) brk cont (k1 + 2) ct k2 ht
    simp only [lowerS, hc, ht, Prod.mk.injEq] at h
    obtain ⟨rfl, rfl⟩ := h
    acc_close
  | .ite2 cnd t e, hok, hV, brk, cont, k, c, k', h => by
    simp only [valVarsS, Bool.and_eq_true] at hok
    rcases hc : lowerE cnd k with ⟨cc, v, k1⟩
    rcases ht : lowerS brk cont t (k1 + 3) with ⟨ct, k2⟩
    rcases hel : lowerS brk cont e k2 with ⟨ce, k3⟩
    have ic := lowerE_accG V cnd hok.1.1 (fun x hx => hV x (by simp [accS, hx])) k cc v k1 hc
    have it := lowerS_accG V t hok.1.2 (fun x hx => hV x (by simp [accS, hx])) brk cont (k1 + 3) ct k2 ht
    have ie := lowerS_accG V e hok.2 (fun x hx => hV x (by simp [accS, hx])) brk cont k2 ce k3 hel
    simp only [lowerS, hc, ht, hel, Prod.mk.injEq] at h
    obtain ⟨rfl, rfl⟩ := h
    acc_close
  | .whileL cnd body, hok, hV, brk, cont, k, c, k', h => by
    simp only [valVarsS, Bool.and_eq_true] at hok
    rcases hc : lowerE cnd (k + 3) with ⟨cc, v, k1⟩
    rcases hb : lowerS (some (k + 2)) (some k) body k1 with ⟨cb, k2⟩
    have ic := lowerE_accG V cnd hok.1 (fun x hx => hV x (by simp [accS, hx])) (k + 3) cc v k1 hc
    have ib := lowerS_accG V body hok.2 (fun x hx => hV x (by simp [accS, hx])) (some (k + 2)) (some k) k1 cb k2 hb
    simp only [lowerS, hc, hb, Prod.mk.injEq] at h
    obtain ⟨rfl, rfl⟩ := h
    acc_close
  | .doL body cnd, hok, hV, brk, cont, k, c, k', h => by
    simp only [valVarsS, Bool.and_eq_true] at hok
    rcases hb : lowerS (some (k + 2)) (some (k + 1)) body (k + 3) with ⟨cb, k1⟩
    rcases hc : lowerE cnd k1 with ⟨cc, v, k2⟩
    have ib := lowerS_accG V body hok.1 (fun x hx => hV x (by simp [accS, hx])) (some (k + 2)) (some (k + 1))
      (k + 3) cb k1 hb
    have ic := lowerE_accG V cnd hok.2 (fun x hx => hV x (by simp [accS, hx])) k1 cc v k2 hc
    simp only [lowerS, hc, hb, Prod.mk.injEq] at h
    obtain ⟨rfl, rfl⟩ := h
    acc_close
  | .forL init cnd next body, hok, hV, brk, cont, k, c, k', h => by
    simp only [valVarsS, Bool.and_eq_true] at hok
    obtain ⟨⟨⟨hoki, hokc⟩, hokn⟩, hokb⟩ := hok
    rcases hi : lowerS brk cont init k with ⟨ci, k0⟩
    rcases hc : lowerOptE cnd (k0 + 4) with ⟨cc, v, k1⟩
    rcases hb : lowerS (some (k0 + 3)) (some (k0 + 2)) body k1 with ⟨cb, k2⟩
    rcases hn : lowerOptE next k2 with ⟨cn, vn, k3⟩
    have ii := lowerS_accG V init hoki (fun x hx => hV x (by simp [accS, hx])) brk cont k ci k0 hi
    have ic := lowerOptE_accG V cnd hokc (fun x hx => hV x (by simp [accS, hx])) (k0 + 4) cc v k1 hc
    have ib := lowerS_accG V body hokb (fun x hx => hV x (by simp [accS, hx])) (some (k0 + 3)) (some (k0 + 2))
      k1 cb k2 hb
    have inx := lowerOptE_accG V next hokn (fun x hx => hV x (by simp [accS, hx])) k2 cn vn k3 hn
    simp only [lowerS, hi, hc, hb, hn, Prod.mk.injEq] at h
    obtain ⟨rfl, rfl⟩ := h
    acc_close
  | .brk, _, _, brk, cont, k, c, k', h => by
    simp only [lowerS, Prod.mk.injEq] at h
    obtain ⟨rfl, rfl⟩ := h
    exact AccIn.single trivial
  | .cont, _, _, brk, cont, k, c, k', h => by
    simp only [lowerS, Prod.mk.injEq] at h
    obtain ⟨rfl, rfl⟩ := h
    exact AccIn.single trivial
  | .ret none, _, _, brk, cont, k, c, k', h => by
    simp only [lowerS, Prod.mk.injEq] at h
    obtain ⟨rfl, rfl⟩ := h
    exact AccIn.single trivial
  | .ret (some e), hok, hV, brk, cont, k, c, k', h => by
    simp only [valVarsS] at hok
    rcases he : lowerE e k with ⟨c1, v1, k1⟩
    have ie := lowerE_accG V e hok (fun a ha => hV a (by simpa [accS] using ha)) k c1 v1 k1 he
    simp only [lowerS, he, Prod.mk.injEq] at h
    obtain ⟨rfl, rfl⟩ := h
    exact ie.snoc trivial

/-! ## Functions -/

theorem lowerFn_accG (f : FnDef) (h : valVarsS f.body = true) : AccIn (accS f.body) (lowerFn f).code := by
  rcases hl : lowerS none none f.body 0 with ⟨c, k'⟩
  have := lowerS_accG (accS f.body) f.body h (fun _ ha => ha) none none 0 c k' hl
  simpa [lowerFn, hl] using this

/-- `forwardOK` holds after ANY pass and from any admissible `prev`; in particular for the code the cast pass leaves. -/
theorem lowerFn_forwardOK_general (f : FnDef) (h : valVarsS f.body = true) (hs : noShadowFn f = true) :
    forwardOK none (pass ccDecide (lowerFn f).code) = true :=
  forwardOK_of_acc hs _ none (by intro p hp; cases hp) ((lowerFn_accG f h).pass ccDecide)

/-- … and also for the unoptimised code. -/
theorem lowerFn_forwardOK_raw_general (f : FnDef) (h : valVarsS f.body = true) (hs : noShadowFn f = true) :
    forwardOK none (lowerFn f).code = true :=
  forwardOK_of_acc hs _ none (by intro p hp; cases hp) (lowerFn_accG f h)

theorem lowerFn_optOK_general (f : FnDef) (h : valVarsS f.body = true) (hs : noShadowFn f = true) :
    optOK (lowerFn f) = true := by
  simp only [optOK, Bool.and_eq_true]
  exact ⟨⟨lowerFn_blockLocal_general f, lowerFn_forwardOK_general f h hs⟩, lowerFn_defsDistinct_general f⟩

end Lower
end Nsl
