import Nsl.Model.Lower
import Nsl.Model.ScalarCore
/-!
# Shape of lowered code: placement of fragments, counters, labels

* `At code q frag` – `frag` sits at offset `q` of `code`.
* the single counter is monotone; expression code contains no label markers; the labels a
  statement creates lie in `[k, k')` and are pairwise distinct — so in a lowered function the
  position of a label marker is what `labelPos` (the VM's `blockOffsets`) returns (`LabelsOK`).
-/
namespace Nsl
namespace Lower
open Core

/-! ## Placement -/

def At (code : List Instr) (q : Nat) (frag : List Instr) : Prop :=
  ∃ pre post, code = pre ++ frag ++ post ∧ pre.length = q

theorem At.whole (code : List Instr) : At code 0 code := ⟨[], [], by simp, rfl⟩

theorem At.left {code : List Instr} {q : Nat} {a b : List Instr} (h : At code q (a ++ b)) :
    At code q a := by
  obtain ⟨pre, post, hc, hq⟩ := h
  exact ⟨pre, b ++ post, by simp [hc], hq⟩

theorem At.right {code : List Instr} {q : Nat} {a b : List Instr} (h : At code q (a ++ b)) :
    At code (q + a.length) b := by
  obtain ⟨pre, post, hc, hq⟩ := h
  exact ⟨pre ++ a, post, by simp [hc], by simp [hq]⟩

theorem At.head {code : List Instr} {q : Nat} {x : Instr} {rest : List Instr}
    (h : At code q (x :: rest)) : code[q]? = some x := by
  obtain ⟨pre, post, hc, hq⟩ := h
  subst hc; subst hq
  simp

theorem At.tail {code : List Instr} {q : Nat} {x : Instr} {rest : List Instr}
    (h : At code q (x :: rest)) : At code (q + 1) rest := by
  have h' : At code q ([x] ++ rest) := h
  have := h'.right
  simpa using this

theorem At.nil_end {code : List Instr} {q : Nat} {frag : List Instr} (h : At code q frag) :
    q + frag.length ≤ code.length := by
  obtain ⟨pre, post, hc, hq⟩ := h
  subst hc; subst hq
  simp only [List.length_append]; omega

/-- A fragment that ends the code: the position after it is the end of the code. -/
theorem At.whole_end (code : List Instr) : 0 + code.length = code.length := by simp

/-! ## Labels -/

def labelOf : Instr → Option Nat
  | .label l => some l
  | _ => none

def labels (code : List Instr) : List Nat := code.filterMap labelOf

@[simp] theorem labels_nil : labels [] = [] := rfl
@[simp] theorem labels_append (a b : List Instr) : labels (a ++ b) = labels a ++ labels b := by
  simp [labels]
@[simp] theorem labels_cons_label (l : Nat) (rest : List Instr) :
    labels (.label l :: rest) = l :: labels rest := by
  simp [labels, labelOf]

@[simp] theorem labels_cons_brc (p : Opd) (t f : Nat) (rest : List Instr) :
    labels (.brc p t f :: rest) = labels rest := by
  rw [labels, List.filterMap_cons_none rfl]; rfl
@[simp] theorem labels_cons_br (t : Nat) (rest : List Instr) :
    labels (.br t :: rest) = labels rest := by
  rw [labels, List.filterMap_cons_none rfl]; rfl

theorem labelPos_go_spec (l : Nat) : ∀ (code : List Instr) (i : Nat),
    (∀ p, labelPos.go l code i = some p →
      ∃ j, p = i + j ∧ code[j]? = some (Instr.label l) ∧ ∀ j' < j, code[j']? ≠ some (Instr.label l)) ∧
    (labelPos.go l code i = none → ∀ j : Nat, code[j]? ≠ some (Instr.label l)) := by
  intro code
  induction code with
  | nil => intro i; simp [labelPos.go]
  | cons x rest ih =>
    intro i
    have key : ∀ (hne : x ≠ .label l), labelPos.go l (x :: rest) i = labelPos.go l rest (i + 1) := by
      intro hne
      cases x with
      | label l' =>
        have : l' ≠ l := fun h => hne (by rw [h])
        simp [labelPos.go, this]
      | _ => simp [labelPos.go]
    by_cases hx : x = .label l
    · subst hx
      constructor
      · intro p hp
        simp [labelPos.go] at hp
        exact ⟨0, by omega, by simp, by intro j' hj'; omega⟩
      · intro hn; simp [labelPos.go] at hn
    · rw [key hx]
      obtain ⟨ih1, ih2⟩ := ih (i + 1)
      constructor
      · intro p hp
        obtain ⟨j, hj, hget, hmin⟩ := ih1 p hp
        refine ⟨j + 1, by omega, by simpa using hget, ?_⟩
        intro j' hj'
        cases j' with
        | zero => simpa using hx
        | succ j'' => simpa using hmin j'' (by omega)
      · intro hn j
        cases j with
        | zero => simpa using hx
        | succ j'' => simpa using ih2 hn j''

/-- In code with pairwise distinct label markers, `labelPos` returns the position of the marker. -/
theorem labelPos_of_nodup {code : List Instr} (hnd : (labels code).Nodup) {i l : Nat}
    (hi : code[i]? = some (.label l)) : labelPos code l = some i := by
  unfold labelPos
  obtain ⟨h1, h2⟩ := labelPos_go_spec l code 0
  cases hp : labelPos.go l code 0 with
  | none => exact absurd hi (h2 hp i)
  | some p =>
    obtain ⟨j, hj, hget, _⟩ := h1 p hp
    have hpj : p = j := by omega
    subst hpj
    -- two markers with the same label at positions p and i: equal by Nodup
    by_cases hpi : p = i
    · rw [hpi]
    · exfalso
      -- split the code at the two positions
      have : ∀ (c : List Instr) (a b : Nat), a < b → c[a]? = some (.label l) → c[b]? = some (.label l) →
          ¬ (labels c).Nodup := by
        intro c
        induction c with
        | nil => intro a b _ ha; simp at ha
        | cons x rest ihc =>
          intro a b hab ha hb
          cases a with
          | zero =>
            simp at ha
            subst ha
            obtain ⟨b', rfl⟩ : ∃ b', b = b' + 1 := ⟨b - 1, by omega⟩
            simp at hb
            have hmem : l ∈ labels rest := by
              simp only [labels, List.mem_filterMap]
              exact ⟨.label l, List.mem_of_getElem? hb, rfl⟩
            simp [hmem]
          | succ a' =>
            obtain ⟨b', rfl⟩ : ∃ b', b = b' + 1 := ⟨b - 1, by omega⟩
            simp at ha hb
            intro hnd'
            have hrest : (labels rest).Nodup := by
              cases x with
              | label l' => simp at hnd'; exact hnd'.2
              | _ => rw [labels, List.filterMap_cons_none rfl] at hnd'; exact hnd'
            exact ihc a' b' (by omega) ha hb hrest
      rcases Nat.lt_or_gt_of_ne hpi with hlt | hgt
      · exact this code p i hlt hget hi hnd
      · exact this code i p hgt hi hget hnd

/-- What the simulation needs to know about the labels of a function's code. -/
def LabelsOK (code : List Instr) : Prop :=
  ∀ i l, code[i]? = some (.label l) → labelPos code l = some i

theorem LabelsOK.of_nodup {code : List Instr} (h : (labels code).Nodup) : LabelsOK code :=
  fun _ _ hi => labelPos_of_nodup h hi

theorem LabelsOK.at {code : List Instr} (h : LabelsOK code) {q l : Nat} {rest : List Instr}
    (ha : At code q (.label l :: rest)) : labelPos code l = some q :=
  h q l ha.head

/-! ## Counters and labels of lowered code -/

theorem labelOf_mkBin (dst : Nat) (op : BOp) (rty : ITy) (a : Opd) (ta : ITy) (b : Opd) (tb : ITy) :
    labelOf (mkBin dst op rty a ta b tb) = none := by
  unfold mkBin
  split <;> rfl

/-- Code without label markers. -/
def NoLabels (code : List Instr) : Prop := ∀ i ∈ code, labelOf i = none

theorem NoLabels.labels_eq {code : List Instr} (h : NoLabels code) : labels code = [] := by
  unfold labels
  rw [List.filterMap_eq_nil_iff]
  exact h

theorem NoLabels.nil : NoLabels [] := by intro i hi; cases hi

theorem NoLabels.append {a b : List Instr} (ha : NoLabels a) (hb : NoLabels b) : NoLabels (a ++ b) := by
  intro i hi
  rcases List.mem_append.1 hi with h | h
  · exact ha i h
  · exact hb i h

theorem NoLabels.cons {x : Instr} {rest : List Instr} (hx : labelOf x = none) (hr : NoLabels rest) :
    NoLabels (x :: rest) := by
  intro i hi
  rcases List.mem_cons.1 hi with h | h
  · rw [h]; exact hx
  · exact hr i h

theorem rowsMM_shape (op : BOp) (lt rt resT : ITy) (l r : Opd) : ∀ (n k : Nat) (code : List Instr)
    (rows : List Opd) (k' : Nat), rowsMM op lt rt resT l r n k = (code, rows, k') → NoLabels code ∧ k ≤ k' := by
  intro n
  induction n with
  | zero =>
    intro k code rows k' h
    simp only [rowsMM] at h
    simp only [Prod.mk.injEq] at h
    obtain ⟨rfl, -, rfl⟩ := h
    exact ⟨NoLabels.nil, Nat.le_refl _⟩
  | succ n ih =>
    intro k code rows k' h
    rcases hrow : rowsMM op lt rt resT l r n k with ⟨c0, r0, k0⟩
    obtain ⟨h1, h2⟩ := ih k c0 r0 k0 hrow
    simp only [rowsMM, hrow] at h
    simp only [Prod.mk.injEq] at h
    obtain ⟨rfl, -, rfl⟩ := h
    refine ⟨NoLabels.append h1 ?_, by omega⟩
    exact NoLabels.cons rfl (NoLabels.cons rfl (NoLabels.cons (labelOf_mkBin ..) NoLabels.nil))

theorem rowsMS_shape (op : BOp) (lt rt resT : ITy) (l r : Opd) : ∀ (n k : Nat) (code : List Instr)
    (rows : List Opd) (k' : Nat), rowsMS op lt rt resT l r n k = (code, rows, k') → NoLabels code ∧ k ≤ k' := by
  intro n
  induction n with
  | zero =>
    intro k code rows k' h
    simp only [rowsMS] at h
    simp only [Prod.mk.injEq] at h
    obtain ⟨rfl, -, rfl⟩ := h
    exact ⟨NoLabels.nil, Nat.le_refl _⟩
  | succ n ih =>
    intro k code rows k' h
    rcases hrow : rowsMS op lt rt resT l r n k with ⟨c0, r0, k0⟩
    obtain ⟨h1, h2⟩ := ih k c0 r0 k0 hrow
    simp only [rowsMS, hrow] at h
    simp only [Prod.mk.injEq] at h
    obtain ⟨rfl, -, rfl⟩ := h
    refine ⟨NoLabels.append h1 ?_, by omega⟩
    exact NoLabels.cons rfl (NoLabels.cons (labelOf_mkBin ..) NoLabels.nil)

theorem rowsSM_shape (op : BOp) (lt rt resT : ITy) (l r : Opd) : ∀ (n k : Nat) (code : List Instr)
    (rows : List Opd) (k' : Nat), rowsSM op lt rt resT l r n k = (code, rows, k') → NoLabels code ∧ k ≤ k' := by
  intro n
  induction n with
  | zero =>
    intro k code rows k' h
    simp only [rowsSM] at h
    simp only [Prod.mk.injEq] at h
    obtain ⟨rfl, -, rfl⟩ := h
    exact ⟨NoLabels.nil, Nat.le_refl _⟩
  | succ n ih =>
    intro k code rows k' h
    rcases hrow : rowsSM op lt rt resT l r n k with ⟨c0, r0, k0⟩
    obtain ⟨h1, h2⟩ := ih k c0 r0 k0 hrow
    simp only [rowsSM, hrow] at h
    simp only [Prod.mk.injEq] at h
    obtain ⟨rfl, -, rfl⟩ := h
    refine ⟨NoLabels.append h1 ?_, by omega⟩
    exact NoLabels.cons rfl (NoLabels.cons (labelOf_mkBin ..) NoLabels.nil)

/-! ## Scalar-core expressions: no labels, monotone counter, operand below the final counter -/

/-- An operand produced by code numbered from `k` on is a constant or a reference below `k'`. -/
def OpdBelow (o : Opd) (k' : Nat) : Prop :=
  match o with
  | .ref r => r < k'
  | _ => True

theorem OpdBelow.mono {o : Opd} {a b : Nat} (h : OpdBelow o a) (hab : a ≤ b) : OpdBelow o b := by
  cases o <;> simp_all [OpdBelow]; omega

theorem lowerStore_var (sc : Scope) (key : VarKey) (ty : ITy) (v : Opd) (k : Nat) :
    lowerStore (.var sc key ty) v k = ([.store sc key v], k + 1) := by
  simp [lowerStore]

theorem okVar_inv {x : Expr} (h : okVar x = true) :
    ∃ sc key ty, x = .var sc key ty ∧ ty.isScalar = true ∧ keyOK sc key = true := by
  cases x <;> simp [okVar] at h
  exact ⟨_, _, _, rfl, h.1, h.2⟩

mutual
  theorem lowerE_shape : ∀ (e : Expr), okE e = true → ∀ (k : Nat) (c : List Instr) (o : Opd) (k' : Nat),
      lowerE e k = (c, o, k') → NoLabels c ∧ k ≤ k' ∧ OpdBelow o k'
    | .litI i, _, k, c, o, k', h => by
      simp only [lowerE, Prod.mk.injEq] at h
      obtain ⟨rfl, rfl, rfl⟩ := h
      exact ⟨NoLabels.nil, Nat.le_refl _, trivial⟩
    | .litF f, _, k, c, o, k', h => by
      simp only [lowerE, Prod.mk.injEq] at h
      obtain ⟨rfl, rfl, rfl⟩ := h
      exact ⟨NoLabels.nil, Nat.le_refl _, trivial⟩
    | .var sc key ty, _, k, c, o, k', h => by
      simp only [lowerE, Prod.mk.injEq] at h
      obtain ⟨rfl, rfl, rfl⟩ := h
      exact ⟨NoLabels.cons rfl NoLabels.nil, by omega, by simp [OpdBelow]⟩
    | .bin op ty l r, hok, k, c, o, k', h => by
      simp only [okE, Bool.and_eq_true] at hok
      obtain ⟨⟨⟨⟨hty, hl⟩, hr⟩, hokl⟩, hokr⟩ := hok
      rcases hel : lowerE l k with ⟨cl, vl, k1⟩
      rcases her : lowerE r k1 with ⟨cr, vr, k2⟩
      obtain ⟨nl1, le1, _⟩ := lowerE_shape l hokl k cl vl k1 hel
      obtain ⟨nl2, le2, _⟩ := lowerE_shape r hokr k1 cr vr k2 her
      have hml : (Expr.ty l).isMatrix = false := by cases hh : Expr.ty l <;> simp_all [ITy.isScalar, ITy.isMatrix]
      have hmr : (Expr.ty r).isMatrix = false := by cases hh : Expr.ty r <;> simp_all [ITy.isScalar, ITy.isMatrix]
      simp only [lowerE, hel, her, hml, hmr, Bool.false_and, Bool.and_false, Bool.false_eq_true, if_false,
        Prod.mk.injEq] at h
      obtain ⟨rfl, rfl, rfl⟩ := h
      refine ⟨NoLabels.append (NoLabels.append nl1 nl2) (NoLabels.cons (labelOf_mkBin ..) NoLabels.nil), by omega, ?_⟩
      simp [OpdBelow]
    | .cast ty e, hok, k, c, o, k', h => by
      simp only [okE, Bool.and_eq_true] at hok
      rcases he : lowerE e k with ⟨c1, v1, k1⟩
      obtain ⟨nl1, le1, _⟩ := lowerE_shape e hok.2 k c1 v1 k1 he
      simp only [lowerE, he, Prod.mk.injEq] at h
      obtain ⟨rfl, rfl, rfl⟩ := h
      exact ⟨NoLabels.append nl1 (NoLabels.cons rfl NoLabels.nil), by omega, by simp [OpdBelow]⟩
    | .assign lhs rhs, hok, k, c, o, k', h => by
      simp only [okE, Bool.and_eq_true] at hok
      obtain ⟨sc, key, ty, rfl, _, _⟩ := okVar_inv hok.1
      rcases he : lowerE rhs k with ⟨c1, v1, k1⟩
      obtain ⟨nl1, le1, ob1⟩ := lowerE_shape rhs hok.2 k c1 v1 k1 he
      simp only [lowerE, he, lowerStore_var, Prod.mk.injEq] at h
      obtain ⟨rfl, rfl, rfl⟩ := h
      exact ⟨NoLabels.append nl1 (NoLabels.cons rfl NoLabels.nil), by omega, ob1.mono (by omega)⟩
    | .affix post inc x, hok, k, c, o, k', h => by
      simp only [okE] at hok
      obtain ⟨sc, key, ty, rfl, _, _⟩ := okVar_inv hok
      simp only [lowerE, lowerStore_var, Prod.mk.injEq] at h
      obtain ⟨rfl, rfl, rfl⟩ := h
      refine ⟨NoLabels.append (NoLabels.append (NoLabels.cons rfl NoLabels.nil) (NoLabels.cons rfl NoLabels.nil))
        (NoLabels.cons rfl NoLabels.nil), by omega, ?_⟩
      cases post <;> simp [OpdBelow] <;> omega
    | .call fn ty args, hok, k, c, o, k', h => by
      simp only [okE] at hok
      rcases ha : lowerArgs args k with ⟨c1, vs, k1⟩
      obtain ⟨nl1, le1, _⟩ := lowerArgs_shape args hok k c1 vs k1 ha
      simp only [lowerE, ha, Prod.mk.injEq] at h
      obtain ⟨rfl, rfl, rfl⟩ := h
      exact ⟨NoLabels.append nl1 (NoLabels.cons rfl NoLabels.nil), by omega, by simp [OpdBelow]⟩
    | .index _ _ _ _, hok, _, _, _, _, _ => by simp [okE] at hok
    | .member _ _ _, hok, _, _, _, _, _ => by simp [okE] at hok
    | .swizzle _ _ _, hok, _, _, _, _, _ => by simp [okE] at hok
    | .construct _ _, hok, _, _, _, _, _ => by simp [okE] at hok
  theorem lowerArgs_shape : ∀ (as : Args), okArgs as = true → ∀ (k : Nat) (c : List Instr) (os : List Opd) (k' : Nat),
      lowerArgs as k = (c, os, k') → NoLabels c ∧ k ≤ k' ∧ ∀ o ∈ os, OpdBelow o k'
    | .nil, _, k, c, os, k', h => by
      simp only [lowerArgs, Prod.mk.injEq] at h
      obtain ⟨rfl, rfl, rfl⟩ := h
      exact ⟨NoLabels.nil, Nat.le_refl _, by simp⟩
    | .cons e rest, hok, k, c, os, k', h => by
      simp only [okArgs, Bool.and_eq_true] at hok
      rcases he : lowerE e k with ⟨c1, v1, k1⟩
      rcases hr : lowerArgs rest k1 with ⟨c2, vs, k2⟩
      obtain ⟨nl1, le1, ob1⟩ := lowerE_shape e hok.1 k c1 v1 k1 he
      obtain ⟨nl2, le2, ob2⟩ := lowerArgs_shape rest hok.2 k1 c2 vs k2 hr
      simp only [lowerArgs, he, hr, Prod.mk.injEq] at h
      obtain ⟨rfl, rfl, rfl⟩ := h
      refine ⟨NoLabels.append nl1 nl2, by omega, ?_⟩
      intro o ho
      rcases List.mem_cons.1 ho with rfl | ho
      · exact ob1.mono le2
      · exact ob2 o ho
end

/-! ## Statements: the labels of a fragment lie in `[k, k')` and are pairwise distinct -/

def Ranged (c : List Instr) (lo hi : Nat) : Prop :=
  (∀ l ∈ labels c, lo ≤ l ∧ l < hi) ∧ (labels c).Nodup

theorem Ranged.of_noLabels {c : List Instr} (h : NoLabels c) (lo hi : Nat) : Ranged c lo hi := by
  simp [Ranged, h.labels_eq]

/-- Closes `Ranged` goals once `labels` of the fragment has been normalised. -/
macro "ranged_close" : tactic => `(tactic| (
  constructor
  · intro l hl
    simp only [List.mem_append, List.mem_cons, List.mem_nil_iff, or_false, false_or] at hl
    grind
  · simp only [List.cons_append, List.nil_append, List.append_nil, List.nodup_cons, List.nodup_append, List.mem_append,
      List.mem_cons, List.mem_nil_iff, or_false, false_or, List.nodup_nil, not_or]
    grind))

theorem lowerOptE_shape : ∀ (oe : Option Expr), okOptE oe = true → ∀ (k : Nat) (c : List Instr) (o : Option Opd) (k' : Nat),
    lowerOptE oe k = (c, o, k') → NoLabels c ∧ k ≤ k'
  | none, _, k, c, o, k', h => by
    simp only [lowerOptE, Prod.mk.injEq] at h
    obtain ⟨rfl, rfl, rfl⟩ := h
    exact ⟨NoLabels.nil, Nat.le_refl _⟩
  | some e, hok, k, c, o, k', h => by
    rcases he : lowerE e k with ⟨c1, v1, k1⟩
    obtain ⟨nl, le, _⟩ := lowerE_shape e hok k c1 v1 k1 he
    simp only [lowerOptE, he, Prod.mk.injEq] at h
    obtain ⟨rfl, rfl, rfl⟩ := h
    exact ⟨nl, le⟩

theorem lowerS_shape : ∀ (s : Stmt) (inLoop : Bool), okS inLoop s = true → ∀ (brk cont : Option Nat) (k : Nat)
    (c : List Instr) (k' : Nat), lowerS brk cont s k = (c, k') → k ≤ k' ∧ Ranged c k k'
  | .skip, _, _, brk, cont, k, c, k', h => by
    simp only [lowerS, Prod.mk.injEq] at h
    obtain ⟨rfl, rfl⟩ := h
    exact ⟨Nat.le_refl _, Ranged.of_noLabels NoLabels.nil _ _⟩
  | .decl name ty none, _, _, brk, cont, k, c, k', h => by
    simp only [lowerS, Prod.mk.injEq] at h
    obtain ⟨rfl, rfl⟩ := h
    exact ⟨by omega, Ranged.of_noLabels (NoLabels.cons rfl NoLabels.nil) _ _⟩
  | .decl name ty (some e), _, hok, brk, cont, k, c, k', h => by
    simp only [okS, Bool.and_eq_true] at hok
    rcases he : lowerE e (k + 1) with ⟨c1, v1, k1⟩
    obtain ⟨nl, le, _⟩ := lowerE_shape e hok.2 (k + 1) c1 v1 k1 he
    simp only [lowerS, he, Prod.mk.injEq] at h
    obtain ⟨rfl, rfl⟩ := h
    exact ⟨by omega, Ranged.of_noLabels (NoLabels.append (NoLabels.append (NoLabels.cons rfl NoLabels.nil) nl)
      (NoLabels.cons rfl NoLabels.nil)) _ _⟩
  | .expr e, _, hok, brk, cont, k, c, k', h => by
    simp only [okS] at hok
    rcases he : lowerE e k with ⟨c1, v1, k1⟩
    obtain ⟨nl, le, _⟩ := lowerE_shape e hok k c1 v1 k1 he
    simp only [lowerS, he, Prod.mk.injEq] at h
    obtain ⟨rfl, rfl⟩ := h
    exact ⟨le, Ranged.of_noLabels nl _ _⟩
  | .seq a b, il, hok, brk, cont, k, c, k', h => by
    simp only [okS, Bool.and_eq_true] at hok
    rcases ha : lowerS brk cont a k with ⟨ca, k1⟩
    rcases hb : lowerS brk cont b k1 with ⟨cb, k2⟩
    obtain ⟨le1, r1, n1⟩ := lowerS_shape a il hok.1 brk cont k ca k1 ha
    obtain ⟨le2, r2, n2⟩ := lowerS_shape b il hok.2 brk cont k1 cb k2 hb
    simp only [lowerS, ha, hb, Prod.mk.injEq] at h
    obtain ⟨rfl, rfl⟩ := h
    refine ⟨by omega, ?_, ?_⟩
    · intro l hl
      simp only [labels_append, List.mem_append] at hl
      rcases hl with hl | hl
      · have := r1 l hl; omega
      · have := r2 l hl; omega
    · simp only [labels_append]
      refine List.nodup_append.2 ⟨n1, n2, ?_⟩
      intro x hx y hy hxy
      have := r1 x hx; have := r2 y hy; omega
  | .ite1 cnd t, il, hok, brk, cont, k, c, k', h => by
    simp only [okS, Bool.and_eq_true] at hok
    rcases hc : lowerE cnd k with ⟨cc, v, k1⟩
    rcases ht : lowerS brk cont t (k1 + 2) with ⟨ct, k2⟩
    obtain ⟨nl, le1, _⟩ := lowerE_shape cnd hok.1 k cc v k1 hc
    obtain ⟨le2, r2, n2⟩ := lowerS_shape t il hok.2 brk cont (k1 + 2) ct k2 ht
    simp only [lowerS, hc, ht, Prod.mk.injEq] at h
    obtain ⟨rfl, rfl⟩ := h
    refine ⟨by omega, ?_⟩
    unfold Ranged
    simp only [labels_append, labels_cons_brc, labels_cons_br, labels_cons_label, labels_nil, nl.labels_eq,
      List.nil_append, List.append_nil]
    ranged_close
  | .ite2 cnd t e, il, hok, brk, cont, k, c, k', h => by
    simp only [okS, Bool.and_eq_true] at hok
    rcases hc : lowerE cnd k with ⟨cc, v, k1⟩
    rcases ht : lowerS brk cont t (k1 + 3) with ⟨ct, k2⟩
    rcases hel : lowerS brk cont e k2 with ⟨ce, k3⟩
    obtain ⟨nl, le1, _⟩ := lowerE_shape cnd hok.1.1 k cc v k1 hc
    obtain ⟨le2, r2, n2⟩ := lowerS_shape t il hok.1.2 brk cont (k1 + 3) ct k2 ht
    obtain ⟨le3, r3, n3⟩ := lowerS_shape e il hok.2 brk cont k2 ce k3 hel
    simp only [lowerS, hc, ht, hel, Prod.mk.injEq] at h
    obtain ⟨rfl, rfl⟩ := h
    refine ⟨by omega, ?_⟩
    unfold Ranged
    simp only [labels_append, labels_cons_brc, labels_cons_br, labels_cons_label, labels_nil, nl.labels_eq,
      List.nil_append, List.append_nil]
    ranged_close
  | .whileL cnd body, il, hok, brk, cont, k, c, k', h => by
    simp only [okS, Bool.and_eq_true] at hok
    rcases hc : lowerE cnd (k + 3) with ⟨cc, v, k1⟩
    rcases hb : lowerS (some (k + 2)) (some k) body k1 with ⟨cb, k2⟩
    obtain ⟨nl, le1, _⟩ := lowerE_shape cnd hok.1 (k + 3) cc v k1 hc
    obtain ⟨le2, r2, n2⟩ := lowerS_shape body true hok.2 (some (k + 2)) (some k) k1 cb k2 hb
    simp only [lowerS, hc, hb, Prod.mk.injEq] at h
    obtain ⟨rfl, rfl⟩ := h
    refine ⟨by omega, ?_⟩
    unfold Ranged
    simp only [labels_append, labels_cons_brc, labels_cons_br, labels_cons_label, labels_nil, nl.labels_eq,
      List.nil_append, List.append_nil]
    ranged_close
  | .doL body cnd, il, hok, brk, cont, k, c, k', h => by
    simp only [okS, Bool.and_eq_true] at hok
    rcases hb : lowerS (some (k + 2)) (some (k + 1)) body (k + 3) with ⟨cb, k1⟩
    rcases hc : lowerE cnd k1 with ⟨cc, v, k2⟩
    obtain ⟨le1, r1, n1⟩ := lowerS_shape body true hok.1 (some (k + 2)) (some (k + 1)) (k + 3) cb k1 hb
    obtain ⟨nl, le2, _⟩ := lowerE_shape cnd hok.2 k1 cc v k2 hc
    simp only [lowerS, hc, hb, Prod.mk.injEq] at h
    obtain ⟨rfl, rfl⟩ := h
    refine ⟨by omega, ?_⟩
    unfold Ranged
    simp only [labels_append, labels_cons_brc, labels_cons_br, labels_cons_label, labels_nil, nl.labels_eq,
      List.nil_append, List.append_nil]
    ranged_close
  | .forL init cnd next body, il, hok, brk, cont, k, c, k', h => by
    simp only [okS, Bool.and_eq_true] at hok
    obtain ⟨⟨⟨hoki, hokc⟩, hokn⟩, hokb⟩ := hok
    rcases hi : lowerS brk cont init k with ⟨ci, k0⟩
    rcases hc : lowerOptE cnd (k0 + 4) with ⟨cc, v, k1⟩
    rcases hb : lowerS (some (k0 + 3)) (some (k0 + 2)) body k1 with ⟨cb, k2⟩
    rcases hn : lowerOptE next k2 with ⟨cn, vn, k3⟩
    obtain ⟨le0, r0, n0⟩ := lowerS_shape init il hoki brk cont k ci k0 hi
    obtain ⟨nlc, le1⟩ := lowerOptE_shape cnd hokc (k0 + 4) cc v k1 hc
    obtain ⟨le2, r2, n2⟩ := lowerS_shape body true hokb (some (k0 + 3)) (some (k0 + 2)) k1 cb k2 hb
    obtain ⟨nln, le3⟩ := lowerOptE_shape next hokn k2 cn vn k3 hn
    simp only [lowerS, hi, hc, hb, hn, Prod.mk.injEq] at h
    obtain ⟨rfl, rfl⟩ := h
    refine ⟨by omega, ?_⟩
    unfold Ranged
    cases v <;>
    · simp only [forBranch, labels_append, labels_cons_brc, labels_cons_br, labels_cons_label, labels_nil, nlc.labels_eq,
        nln.labels_eq, List.nil_append, List.append_nil]
      ranged_close
  | .brk, _, _, brk, cont, k, c, k', h => by
    simp only [lowerS, Prod.mk.injEq] at h
    obtain ⟨rfl, rfl⟩ := h
    exact ⟨by omega, Ranged.of_noLabels (NoLabels.cons rfl NoLabels.nil) _ _⟩
  | .cont, _, _, brk, cont, k, c, k', h => by
    simp only [lowerS, Prod.mk.injEq] at h
    obtain ⟨rfl, rfl⟩ := h
    exact ⟨by omega, Ranged.of_noLabels (NoLabels.cons rfl NoLabels.nil) _ _⟩
  | .ret none, _, _, brk, cont, k, c, k', h => by
    simp only [lowerS, Prod.mk.injEq] at h
    obtain ⟨rfl, rfl⟩ := h
    exact ⟨by omega, Ranged.of_noLabels (NoLabels.cons rfl NoLabels.nil) _ _⟩
  | .ret (some e), _, hok, brk, cont, k, c, k', h => by
    simp only [okS] at hok
    rcases he : lowerE e k with ⟨c1, v1, k1⟩
    obtain ⟨nl, le, _⟩ := lowerE_shape e hok k c1 v1 k1 he
    simp only [lowerS, he, Prod.mk.injEq] at h
    obtain ⟨rfl, rfl⟩ := h
    exact ⟨by omega, Ranged.of_noLabels (NoLabels.append nl (NoLabels.cons rfl NoLabels.nil)) _ _⟩

theorem lowerFn_labelsOK (f : FnDef) (h : okFn f = true) : LabelsOK (lowerFn f).code := by
  rcases hl : lowerS none none f.body 0 with ⟨c, k'⟩
  obtain ⟨_, _, nd⟩ := lowerS_shape f.body false h none none 0 c k' hl
  simp only [lowerFn, hl]
  exact LabelsOK.of_nodup nd

end Lower
end Nsl
