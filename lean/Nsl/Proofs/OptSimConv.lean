import Nsl.Proofs.OptSimPasses
/-!
# The converse direction: if the optimised program terminates, so does the original (with the same outcome)

`run_term`: from related states, a run of the optimised function that does not run out of fuel implies that the
original does not run out of fuel either for some (larger) budget.  Removed instructions are stuttering steps of the
optimised side; they cannot go on forever because each one advances the original `pc` (inner induction on the distance
to the end of the code).  Together with the forward simulation and fuel monotonicity this gives equal outcomes.
-/
namespace Nsl
namespace Opt
open VM WF

theorem callD_sim {decide : Option Instr → Instr → Subst → Option (Nat × Opd)} (hdef : DecideDef decide)
    (P : Program) (hOK : ∀ f ∈ P.funcs, FnOK decide f) (D : Nat) :
    CallRel (callD P D) (callD (passProgram decide P) D) := by
  intro name args g0 hcne
  unfold callD at hcne ⊢
  rw [find_passProgram]
  cases hf : P.find name with
  | none => rfl
  | some callee =>
    simp only [hf, Option.map] at hcne ⊢
    have hmem : callee ∈ P.funcs := List.mem_of_find?_eq_some hf
    rcases hsc : scan decide none callee.code [] with ⟨outc, σc⟩
    have := run_sim hdef P hOK D callee hmem outc σc hsc 0 { args := args } { args := args } g0 (inv_entry _ _ _ _) hcne
    rw [kpos_zero] at this
    exact this

theorem invBody_of_inv {code : List Instr} {σf : Subst} {pc : Nat} {fr fr' : Frame} {g : Globals} {ins : Instr}
    (hinv : Inv code σf pc fr fr' g) (hc : code[pc]? = some ins) (hnl : ∀ l, ins ≠ .label l) :
    InvBody code σf pc fr fr' g := by
  rcases hinv.2.2 with ⟨l, hl⟩ | hb
  · rw [hc] at hl; simp only [Option.some.injEq] at hl; exact absurd hl (hnl l)
  · exact hb

theorem uses_eval {code : List Instr} {σf : Subst} {pc : Nat} {fr fr' : Frame} {g : Globals} {ins : Instr}
    (hbl : blockLocal [] code = true) (hinv : Inv code σf pc fr fr' g) (hc : code[pc]? = some ins) :
    ∀ r ∈ usesOf ins, evalOpd fr' (substOpd σf (.ref r)) = evalOpd fr (.ref r) := by
  intro r hr
  by_cases hlab : ∃ l, ins = .label l
  · obtain ⟨l, rfl⟩ := hlab; simp [usesOf] at hr
  · have hnl : ∀ l, ins ≠ .label l := fun l e => hlab ⟨l, e⟩
    have hb := invBody_of_inv hinv hc hnl
    obtain ⟨huse, _⟩ := blockLocal_at hbl hc hnl
    obtain ⟨y, hy, hey, _⟩ := hb.1 r (huse r hr)
    rw [hey]; simp [evalOpd, hy]

theorem term_end (P : Program) (fn : Func) {pc : Nat} (fr : Frame) (g : Globals) (hc : fn.code[pc]? = none) :
    ∃ F, run P F fn pc fr g ≠ .fail .timeout := by
  refine ⟨1, ?_⟩
  rw [run_succ, step_end hc]
  intro h; cases h

theorem run_term {decide : Option Instr → Instr → Subst → Option (Nat × Opd)} (hdef : DecideDef decide)
    (P : Program) (hOK : ∀ f ∈ P.funcs, FnOK decide f) :
    ∀ (n : Nat) (fn : Func), fn ∈ P.funcs → ∀ (out : List Instr) (σf : Subst),
      scan decide none fn.code [] = (out, σf) →
      ∀ (m pc : Nat) (fr fr' : Frame) (g : Globals), fn.code.length - pc ≤ m → Inv fn.code σf pc fr fr' g →
      run (passProgram decide P) n (passFn decide fn) (kpos decide fn.code pc) fr' g ≠ .fail .timeout →
      ∃ F, run P F fn pc fr g ≠ .fail .timeout := by
  intro n
  induction n with
  | zero => intro fn _ out σf _ m pc fr fr' g _ _ hne; rw [run_zero] at hne; exact absurd rfl hne
  | succ n ihn =>
    intro fn hfn out σf hs m
    have hok := hOK fn hfn
    induction m with
    | zero =>
      intro pc fr fr' g hm _ _
      exact term_end P fn fr g (by simp; omega)
    | succ m ihm =>
      intro pc fr fr' g hm hinv hne'
      have hL := hinv.1
      have hA := hinv.2.1
      cases hc : fn.code[pc]? with
      | none => exact term_end P fn fr g hc
      | some ins =>
        have hlt : pc < fn.code.length := by
          rcases Nat.lt_or_ge pc fn.code.length with h | h
          · exact h
          · rw [List.getElem?_eq_none h] at hc; cases hc
        rcases h1 : scan decide none (fn.code.take pc) [] with ⟨o1, σ1⟩
        cases hd : decide (lastOr none (fn.code.take pc)) ins σ1 with
        | some p =>
          obtain ⟨d, o⟩ := p
          obtain ⟨hk, hget⟩ := removed_at hdef hs hok.nd hc h1 hd
          have hdd := hdef _ _ _ _ _ hd
          have hnl : ∀ l, ins ≠ .label l := by
            intro l e; subst e; simp [defOf] at hdd
          have hb := invBody_of_inv hinv hc hnl
          obtain ⟨x, hstep, hev, hrefs⟩ := hok.rs out σf hs pc ins d o o1 σ1 hc h1 hd fr fr' g hL hA hb
          obtain ⟨_, hfresh⟩ := blockLocal_at hok.bl hc hnl
          have hinv' := inv_after_removed hc hL hA hb hdd hget hev hrefs (hfresh d hdd)
          obtain ⟨F, hF⟩ := ihm (pc + 1) (setReg fr d x) fr' g (by omega) hinv' (by rw [hk]; exact hne')
          refine ⟨F + 1, ?_⟩
          rw [run_succ, hstep (callD P F)]
          exact hF
        | none =>
          obtain ⟨hcode', hk, hσ⟩ := kept_at hdef hs hok.nd hc h1 hd
          have hev := uses_eval hok.bl hinv hc
          rw [run_succ] at hne'
          have hne' : (match stepI (callD (passProgram decide P) n) (pass decide fn.code) (kpos decide fn.code pc) fr' g with
            | .next pc' fr'' g' => run (passProgram decide P) n (passFn decide fn) pc' fr'' g'
            | .ret v g' as => Res.done v g' as
            | .fail e => Res.fail e) ≠ .fail .timeout := hne'
          have hst'ne : stepI (callD (passProgram decide P) n) (pass decide fn.code) (kpos decide fn.code pc) fr' g
              ≠ .fail .timeout := by
            intro h; rw [h] at hne'; exact hne' rfl
          by_cases hex : ∃ D, stepI (callD P D) fn.code pc fr g ≠ .fail .timeout
          · obtain ⟨D, hD⟩ := hex
            have hcr := callD_sim hdef P hOK (max D n)
            have hsim := stepI_sim_kept hcr (pass_labelPos hdef fn.code) hc hcode' hk hL hA hev g
            rw [stepI_callRel (callD_callRel P (Nat.le_max_left D n)) _ _ _ _ hD,
              stepI_callRel (callD_callRel (passProgram decide P) (Nat.le_max_right D n)) _ _ _ _ hst'ne] at hsim
            cases hst : stepI (callD P D) fn.code pc fr g with
            | next p1 fr1 g1 =>
              rw [hst] at hsim
              obtain ⟨fr1', hst', hnr, hp⟩ := hsim
              have hinv1 := inv_after_kept hok.bl hc hinv hσ hst hnr hp
              rw [hst'] at hne'
              obtain ⟨F, hF⟩ := ihn fn hfn out σf hs fn.code.length p1 fr1 fr1' g1 (Nat.sub_le _ _) hinv1 hne'
              refine ⟨max F D + 1, ?_⟩
              rw [run_succ, stepI_callRel (callD_callRel P (Nat.le_max_right F D)) _ _ _ _ hD, hst]
              simp only
              rw [run_mono_ne P F _ _ _ _ hF _ (Nat.le_max_left F D)]
              exact hF
            | ret v g1 as =>
              refine ⟨D + 1, ?_⟩
              rw [run_succ, hst]
              intro h; cases h
            | fail e =>
              refine ⟨D + 1, ?_⟩
              rw [run_succ, hst]
              intro h
              simp only [Res.fail.injEq] at h
              subst h
              exact hD hst
          · have hall : ∀ D, stepI (callD P D) fn.code pc fr g = .fail .timeout :=
              fun D => Classical.byContradiction fun h => hex ⟨D, h⟩
            have hcr := callD_sim hdef P hOK n
            have hsim := stepI_sim_kept hcr (pass_labelPos hdef fn.code) hc hcode' hk hL hA hev g
            rw [hall n] at hsim
            rcases hsim with ⟨_, d, ty, f, args, vs, rfl, hvs, hvs', _⟩ | hst'
            · have hc2 : (pass decide fn.code)[kpos decide fn.code pc]? =
                  some (.call d ty f (args.map (substOpd σf))) := hcode'
              have hst'eq := stepI_call_eq (cf := callD (passProgram decide P) n) hc2 hvs'
              have hcall' : callD (passProgram decide P) n f vs g ≠ .fail .timeout := by
                intro h; apply hst'ne; rw [hst'eq, h]
              have hterm : ∃ F, callD P F f vs g ≠ .fail .timeout := by
                unfold callD at hcall' ⊢
                rw [find_passProgram] at hcall'
                cases hf : P.find f with
                | none => exact ⟨0, by intro h; cases h⟩
                | some callee =>
                  simp only [hf, Option.map] at hcall' ⊢
                  have hmem : callee ∈ P.funcs := List.mem_of_find?_eq_some hf
                  rcases hsc : scan decide none callee.code [] with ⟨outc, σc⟩
                  exact ihn callee hmem outc σc hsc callee.code.length 0 { args := vs } { args := vs } g
                    (Nat.sub_le _ _) (inv_entry _ _ _ _) (by rw [kpos_zero]; exact hcall')
              obtain ⟨F, hF⟩ := hterm
              have hbad := hall F
              rw [stepI_call_eq hc hvs] at hbad
              cases hr : callD P F f vs g with
              | done v g1 as => rw [hr] at hbad; cases hbad
              | fail e =>
                rw [hr] at hbad
                simp only [StepOut.fail.injEq] at hbad
                subst hbad
                exact absurd hr hF
            · exact absurd hst' hst'ne

theorem invoke_mono_ne (Q : Program) (name : String) (args : List Val) (g : Globals) (a b : Nat) (hab : a ≤ b)
    (h : invoke Q a name args g ≠ .fail .timeout) : invoke Q b name args g = invoke Q a name args g := by
  unfold invoke at h ⊢
  cases hq : Q.find name with
  | none => rfl
  | some fq =>
    simp only [hq] at h ⊢
    exact run_mono_ne Q a _ _ _ _ h b hab

/-- One pass, invocation level: an outcome of the optimised program other than `timeout` is the outcome of the
original program for some budget. -/
theorem pass_invoke_conv {decide : Option Instr → Instr → Subst → Option (Nat × Opd)} (hdef : DecideDef decide)
    (P : Program) (hOK : ∀ f ∈ P.funcs, FnOK decide f) (n : Nat) (name : String) (args : List Val) (g : Globals)
    (hne : invoke (passProgram decide P) n name args g ≠ .fail .timeout) :
    ∃ F, invoke P F name args g = invoke (passProgram decide P) n name args g := by
  have hterm : ∃ F, invoke P F name args g ≠ .fail .timeout := by
    unfold invoke at hne ⊢
    rw [find_passProgram] at hne
    cases hf : P.find name with
    | none => exact ⟨0, by intro h; cases h⟩
    | some fn =>
      simp only [hf, Option.map] at hne ⊢
      have hmem : fn ∈ P.funcs := List.mem_of_find?_eq_some hf
      rcases hsc : scan decide none fn.code [] with ⟨out, σf⟩
      exact run_term hdef P hOK n fn hmem out σf hsc fn.code.length 0 { args := args } { args := args } g
        (Nat.sub_le _ _) (inv_entry _ _ _ _) (by rw [kpos_zero]; exact hne)
  obtain ⟨F, hF⟩ := hterm
  refine ⟨F, ?_⟩
  have hfwd := pass_invoke_sim hdef P hOK F name args g hF
  -- both optimised runs agree at the larger budget
  have h1 := invoke_mono_ne (passProgram decide P) name args g F (max F n) (Nat.le_max_left _ _) (by rw [hfwd]; exact hF)
  have h2 := invoke_mono_ne (passProgram decide P) name args g n (max F n) (Nat.le_max_right _ _) hne
  rw [← h2, h1, hfwd]

/-- Both passes: an outcome of `optProgram P` other than `timeout` is the outcome of `P` for some larger budget. -/
theorem optProgram_invoke_conv (P : Program) (hok : ∀ f ∈ P.funcs, optOK f = true)
    (n : Nat) (name : String) (args : List Val) (g : Globals)
    (hne : invoke (optProgram P) n name args g ≠ .fail .timeout) :
    ∃ F, n ≤ F ∧ invoke P F name args g = invoke (optProgram P) n name args g := by
  rw [optProgram_eq] at hne ⊢
  obtain ⟨F1, h1⟩ := pass_invoke_conv lasDecide_def (passProgram ccDecide P)
    (by
      intro f1 hf1
      simp only [passProgram, List.mem_map] at hf1
      obtain ⟨f, hf, rfl⟩ := hf1
      exact optOK_las (hok f hf)) n name args g hne
  obtain ⟨F, h2⟩ := pass_invoke_conv ccDecide_def P (fun f hf => optOK_cc (hok f hf)) F1 name args g
    (by rw [h1]; exact hne)
  refine ⟨max F n, Nat.le_max_right _ _, ?_⟩
  rw [invoke_mono_ne P name args g F (max F n) (Nat.le_max_left _ _) (by rw [h2, h1]; exact hne), h2, h1]

end Opt
end Nsl
