import Nsl.Proofs.LowerLocalS2
/-!
# `defsDistinct` / `blockLocal` for the storage core, under the names used by `Props/LowerWF.lean`

Two developments proved these independently; the statements are the ones of `LowerLocalS2.lean`
(`lowerFn_blockLocalS`, `lowerFn_defsDistinctS`), which this file re-exports.
-/
namespace Nsl
namespace Lower
open Core Opt

theorem lowerFn_blockLocal_storageH (f : FnDef) (h : okFnS f = true) : blockLocal [] (lowerFn f).code = true :=
  lowerFn_blockLocalS f h

theorem lowerFn_defsDistinct_storageH (f : FnDef) (h : okFnS f = true) : defsDistinct (lowerFn f).code = true :=
  lowerFn_defsDistinctS f h

end Lower
end Nsl
