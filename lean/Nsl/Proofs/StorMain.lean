import Nsl.Proofs.StorStmt
/-!
# Storage core, simulation part 4: calls, the induction on the fuel, and `ScalarCore ⊆ StorageCore`

The induction is a course-of-values induction: an element access at fuel `n + 1` unfolds `evalPlace` at fuel `n`
and its sub-evaluations at fuel `n - 1`, a store at fuel `n + 1` reaches fuel `n - 2`.
-/
set_option linter.unusedSimpArgs false
set_option linter.unusedVariables false
set_option linter.unusedSectionVars false
namespace Nsl
namespace Stor
open Core VM CoreSem Lower Sim

theorem csim_succS (M : Core.Module) (hM : StorageCore M) (n : Nat) (ihS : SSimS M n) : CSim M (n + 1) := by
  intro name args g v g' as h hargs hg
  simp only [callFn] at h
  cases hf : findFn M name with
  | none => simp [hf] at h
  | some f =>
    simp only [hf] at h
    have hokf : okFnS f = true := hM f (findFn_mem hf)
    have hfind : (lowerModule M).find name = some (lowerFn f) := by
      rw [find_lowerModule, hf]; rfl
    rcases hl : lowerS none none f.body 0 with ⟨code, k'⟩
    have hcode : (lowerFn f).code = code := by simp [lowerFn, hl]
    have hlab : LabelsOK code := hcode ▸ lowerFn_labelsOKS f hokf
    have hfr : FrOKS (envOf f.body) ({ args := args } : Frame) := ⟨LocOK.nil _, hargs⟩
    have ih := ihS code hlab (envOf f.body) f.body { args := args } g false hokf hfr hg none none 0 code k' 0 [] hl
      (At.whole code) (by intro hh; cases hh)
    have hvf : vf [] ({ args := args } : Frame) = { args := args } := rfl
    rw [hvf] at ih
    have fin : ∀ (w : Val) (G : Globals) (A : List Val),
        Returns (lowerModule M) code (0, ({ args := args } : Frame), g) w G A →
        ∃ D, callD (lowerModule M) D name args g = .done w G A := by
      intro w G A hr
      have hr' : Returns (lowerModule M) (lowerFn f).code (0, ({ args := args } : Frame), g) w G A := hcode ▸ hr
      obtain ⟨D, hD⟩ := run_of_returns hr'
      exact ⟨D, by simp only [callD, hfind]; exact hD⟩
    cases hx : execS M n f.body { args := args } g with
    | normal fr1 g1 =>
      simp only [hx, COut.done.injEq] at h
      obtain ⟨rfl, rfl, rfl⟩ := h
      rw [hx] at ih
      obtain ⟨ρ', s, hf1, hg1⟩ := ih
      have hend : code[0 + code.length]? = none := by simp
      obtain ⟨D, hD⟩ := fin .none g1 fr1.args ⟨_, _, _, 0, s, step_end hend⟩
      exact ⟨D, hD, rfl, hg1⟩
    | ret w fr1 g1 =>
      simp only [hx, COut.done.injEq] at h
      obtain ⟨rfl, rfl, rfl⟩ := h
      rw [hx] at ih
      obtain ⟨hr, hnp, hg1⟩ := ih
      obtain ⟨D, hD⟩ := fin w g1 fr1.args hr
      exact ⟨D, hD, hnp, hg1⟩
    | brk fr1 g1 => simp [hx] at h
    | cont fr1 g1 => simp [hx] at h
    | fail er => simp [hx] at h

def AllS (M : Core.Module) (n : Nat) : Prop :=
  ESimS M n ∧ ASimS M n ∧ PSimS M n ∧ SSimS M n ∧ CSim M n

theorem sim_allS (M : Core.Module) (hM : StorageCore M) : ∀ n, AllS M n := by
  intro n
  induction n using Nat.strongRecOn with
  | ind n ih =>
    cases n with
    | zero =>
      refine ⟨?_, ?_, ?_, ?_, ?_⟩
      · intro code Γ e fr g v fr' g' h; simp [evalE] at h
      · intro code Γ as fr g vs fr' g' h; simp [evalArgs] at h
      · intro code Γ e fr g r p fr' g' d h; simp [evalPlace] at h
      · intro code _ Γ s fr g inLoop _ _ _ brk cont k c k' q ρ _ _ _
        simp only [execS, SPostS]
      · intro name args g v g' as h; simp [callFn] at h
    | succ n =>
      obtain ⟨ihE, ihA, ihP, ihS, ihC⟩ := ih n (Nat.lt_succ_self n)
      have ihEP : ∀ m, m ≤ n → ESimS M m ∧ PSimS M m := fun m hm =>
        ⟨(ih m (by omega)).1, (ih m (by omega)).2.2.1⟩
      exact ⟨esim_succS M n ihEP ihA ihC, asim_succS M n ihE ihA, psim_succ M n ihE ihP, ssim_succS M n ihE ihS,
        csim_succS M hM n ihS⟩

/-! ## The scalar core is contained in the storage core -/

theorem rank_scalar {ty : ITy} (h : ty.isScalar = true) : rank ty = 0 := by
  cases ty <;> simp [ITy.isScalar] at h
  rfl

section Subsume
variable (Γ : Env) (hΓ : ∀ x, Γ x = 0)
include hΓ

theorem keyOK_varOKS {sc : Scope} {key : VarKey} (h : keyOK sc key = true) : varOKS Γ sc key = true := by
  cases sc <;> cases key <;> simp_all [keyOK, varOKS]

theorem okVar_okES {x : Expr} (h : okVar x = true) : isLhs x = true ∧ okES Γ x = true := by
  obtain ⟨sc, key, ty, rfl, hty, hkey⟩ := okVar_inv h
  exact ⟨rfl, by simp [okES, hty, keyOK_varOKS Γ hΓ hkey]⟩

mutual
  theorem okE_okES : ∀ (e : Expr), okE e = true → okES Γ e = true
    | .litI _, _ => rfl
    | .litF _, _ => rfl
    | .var sc key ty, h => by
      simp only [okE, Bool.and_eq_true] at h
      simp [okES, h.1, keyOK_varOKS Γ hΓ h.2]
    | .bin op ty l r, h => by
      simp only [okE, Bool.and_eq_true] at h
      obtain ⟨⟨⟨⟨h1, h2⟩, h3⟩, h4⟩, h5⟩ := h
      simp [okES, h1, h2, h3, okE_okES l h4, okE_okES r h5]
    | .cast ty e, h => by
      simp only [okE, Bool.and_eq_true] at h
      simp [okES, h.1, okE_okES e h.2]
    | .assign lhs rhs, h => by
      simp only [okE, Bool.and_eq_true] at h
      obtain ⟨h1, h2⟩ := okVar_okES Γ hΓ h.1
      simp [okES, h1, h2, okE_okES rhs h.2]
    | .affix _ _ x, h => by
      simp only [okE] at h
      obtain ⟨h1, h2⟩ := okVar_okES Γ hΓ h
      simp [okES, h1, h2]
    | .call _ _ args, h => by
      simp only [okE] at h
      simp [okES, okArgs_okArgsS args h]
    | .index _ _ _ _, h => by simp [okE] at h
    | .member _ _ _, h => by simp [okE] at h
    | .swizzle _ _ _, h => by simp [okE] at h
    | .construct _ _, h => by simp [okE] at h
  theorem okArgs_okArgsS : ∀ (as : Args), okArgs as = true → okArgsS Γ as = true
    | .nil, _ => rfl
    | .cons e rest, h => by
      simp only [okArgs, Bool.and_eq_true] at h
      simp [okArgsS, okE_okES e h.1, okArgs_okArgsS rest h.2]
end

theorem okOptE_okOptES : ∀ (oe : Option Expr), okOptE oe = true → okOptES Γ oe = true
  | none, _ => rfl
  | some e, h => okE_okES Γ hΓ e h

theorem okS_okSS : ∀ (s : Stmt) (il : Bool), okS il s = true → okSS Γ il s = true
  | .skip, _, _ => rfl
  | .decl x ty none, _, h => by
    simp only [okS] at h
    simp [okSS, hΓ x, rank_scalar h]
  | .decl x ty (some e), _, h => by
    simp only [okS, Bool.and_eq_true] at h
    simp [okSS, hΓ x, h.1, okE_okES Γ hΓ e h.2]
  | .expr e, _, h => by
    simp only [okS] at h
    simp [okSS, okE_okES Γ hΓ e h]
  | .seq a b, il, h => by
    simp only [okS, Bool.and_eq_true] at h
    simp [okSS, okS_okSS a il h.1, okS_okSS b il h.2]
  | .ite1 c t, il, h => by
    simp only [okS, Bool.and_eq_true] at h
    simp [okSS, okE_okES Γ hΓ c h.1, okS_okSS t il h.2]
  | .ite2 c t e, il, h => by
    simp only [okS, Bool.and_eq_true] at h
    simp [okSS, okE_okES Γ hΓ c h.1.1, okS_okSS t il h.1.2, okS_okSS e il h.2]
  | .whileL c body, il, h => by
    simp only [okS, Bool.and_eq_true] at h
    simp [okSS, okE_okES Γ hΓ c h.1, okS_okSS body true h.2]
  | .doL body c, il, h => by
    simp only [okS, Bool.and_eq_true] at h
    simp [okSS, okE_okES Γ hΓ c h.2, okS_okSS body true h.1]
  | .forL init c next body, il, h => by
    simp only [okS, Bool.and_eq_true] at h
    obtain ⟨⟨⟨h1, h2⟩, h3⟩, h4⟩ := h
    simp [okSS, okS_okSS init il h1, okOptE_okOptES Γ hΓ c h2, okOptE_okOptES Γ hΓ next h3, okS_okSS body true h4]
  | .brk, _, h => by simpa [okS, okSS] using h
  | .cont, _, h => by simpa [okS, okSS] using h
  | .ret none, _, _ => rfl
  | .ret (some e), _, h => by
    simp only [okS] at h
    simp [okSS, okE_okES Γ hΓ e h]

end Subsume

/-- In a scalar-core body every declaration has rank 0. -/
theorem declRanks_scalar : ∀ (s : Stmt) (il : Bool), okS il s = true → ∀ p ∈ declRanks s, p.2 = 0
  | .skip, _, _ => by simp [declRanks]
  | .decl x ty none, _, h => by
    simp only [okS] at h
    simp [declRanks, rank_scalar h]
  | .decl x ty (some e), _, h => by
    simp only [okS, Bool.and_eq_true] at h
    simp [declRanks, rank_scalar h.1]
  | .expr e, _, _ => by simp [declRanks]
  | .seq a b, il, h => by
    simp only [okS, Bool.and_eq_true] at h
    intro p hp
    simp only [declRanks, List.mem_append] at hp
    rcases hp with hp | hp
    · exact declRanks_scalar a il h.1 p hp
    · exact declRanks_scalar b il h.2 p hp
  | .ite1 c t, il, h => by
    simp only [okS, Bool.and_eq_true] at h
    simpa [declRanks] using declRanks_scalar t il h.2
  | .ite2 c t e, il, h => by
    simp only [okS, Bool.and_eq_true] at h
    intro p hp
    simp only [declRanks, List.mem_append] at hp
    rcases hp with hp | hp
    · exact declRanks_scalar t il h.1.2 p hp
    · exact declRanks_scalar e il h.2 p hp
  | .whileL c body, il, h => by
    simp only [okS, Bool.and_eq_true] at h
    simpa [declRanks] using declRanks_scalar body true h.2
  | .doL body c, il, h => by
    simp only [okS, Bool.and_eq_true] at h
    simpa [declRanks] using declRanks_scalar body true h.1
  | .forL init c next body, il, h => by
    simp only [okS, Bool.and_eq_true] at h
    intro p hp
    simp only [declRanks, List.mem_append] at hp
    rcases hp with hp | hp
    · exact declRanks_scalar init il h.1.1.1 p hp
    · exact declRanks_scalar body true h.2 p hp
  | .brk, _, _ => by simp [declRanks]
  | .cont, _, _ => by simp [declRanks]
  | .ret _, _, _ => by simp [declRanks]

theorem get_zero : ∀ (l : List (String × Nat)), (∀ p ∈ l, p.2 = 0) → ∀ x, (Map.get l x).getD 0 = 0
  | [], _, x => rfl
  | (y, r) :: rest, h, x => by
    simp only [Map.get]
    by_cases hy : y = x
    · rw [if_pos hy]; exact h (y, r) (List.mem_cons_self ..)
    · rw [if_neg hy]; exact get_zero rest (fun p hp => h p (List.mem_cons_of_mem _ hp)) x

theorem okFn_okFnS {f : FnDef} (h : okFn f = true) : okFnS f = true :=
  okS_okSS (envOf f.body) (get_zero _ (declRanks_scalar f.body false h)) f.body false h

end Stor
end Nsl
