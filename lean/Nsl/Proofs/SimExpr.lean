import Nsl.Proofs.SimBase
/-!
# Simulation, part 1: statements of the four mutually dependent claims and the expression cases

For every fuel `n` of the reference run:
* `ESim n`  – code of an expression, run from a related VM state, reaches the end of its fragment with the operand
  holding the value, registers below the entry counter unchanged;
* `ASim n`  – the same for argument lists;
* `SSim n`  – statements: normal completion / break / continue / return each correspond to the VM reaching the end of
  the fragment / the break label / the continue label / returning;
* `CSim n`  – a call of a function of the module corresponds to `VM.run` of the lowered function.
The step `n → n+1` for expressions is `esim_succ`, for argument lists `asim_succ`.
-/
namespace Nsl
namespace Sim
open Core VM CoreSem Lower

def ESim (M : Core.Module) (n : Nat) : Prop :=
  ∀ (code : List Instr) (e : Expr) (fr : Frame) (g : Globals) (v : Val) (fr' : Frame) (g' : Globals),
    evalE M n e fr g = .val v fr' g' → okE e = true → FrOK fr → MapOK g →
    ∀ (k : Nat) (c : List Instr) (o : Opd) (k' q : Nat) (ρ : Map Nat Val),
      lowerE e k = (c, o, k') → At code q c →
      ∃ ρ', Steps (lowerModule M) code (q, vf ρ fr, g) (q + c.length, vf ρ' fr', g') ∧
        evalOpd (vf ρ' fr') o = .ok v ∧ Val.isPtr v = false ∧
        (∀ r, r < k → Map.get ρ' r = Map.get ρ r) ∧ FrOK fr' ∧ MapOK g'

def ASim (M : Core.Module) (n : Nat) : Prop :=
  ∀ (code : List Instr) (as : Args) (fr : Frame) (g : Globals) (vs : List Val) (fr' : Frame) (g' : Globals),
    evalArgs M n as fr g = .vals vs fr' g' → okArgs as = true → FrOK fr → MapOK g →
    ∀ (k : Nat) (c : List Instr) (os : List Opd) (k' q : Nat) (ρ : Map Nat Val),
      lowerArgs as k = (c, os, k') → At code q c →
      ∃ ρ', Steps (lowerModule M) code (q, vf ρ fr, g) (q + c.length, vf ρ' fr', g') ∧
        OpdsEval (vf ρ' fr') os vs ∧
        (∀ r, r < k → Map.get ρ' r = Map.get ρ r) ∧ FrOK fr' ∧ MapOK g'

def CSim (M : Core.Module) (n : Nat) : Prop :=
  ∀ (name : String) (args : List Val) (g : Globals) (v : Val) (g' : Globals) (as : List Val),
    callFn M n name args g = .done v g' as → ListOK args → MapOK g →
    ∃ D, callD (lowerModule M) D name args g = .done v g' as ∧ Val.isPtr v = false ∧ MapOK g'

/-- What a statement outcome means for the VM started in `c0`; `endPos` is the position after the fragment. -/
def SPost (P : Program) (code : List Instr) (brk cont : Option Nat) (c0 : Cfg) (endPos : Nat) : SOut → Prop
  | .normal fr' g' => ∃ ρ', Steps P code c0 (endPos, vf ρ' fr', g') ∧ FrOK fr' ∧ MapOK g'
  | .brk fr' g' => ∃ b p ρ', brk = some b ∧ labelPos code b = some p ∧
      Steps P code c0 (p, vf ρ' fr', g') ∧ FrOK fr' ∧ MapOK g'
  | .cont fr' g' => ∃ b p ρ', cont = some b ∧ labelPos code b = some p ∧
      Steps P code c0 (p, vf ρ' fr', g') ∧ FrOK fr' ∧ MapOK g'
  | .ret v fr' g' => Returns P code c0 v g' fr'.args ∧ Val.isPtr v = false ∧ MapOK g'
  | .fail _ => True

def SSim (M : Core.Module) (n : Nat) : Prop :=
  ∀ (code : List Instr), LabelsOK code →
  ∀ (s : Stmt) (fr : Frame) (g : Globals) (inLoop : Bool), okS inLoop s = true → FrOK fr → MapOK g →
  ∀ (brk cont : Option Nat) (k : Nat) (c : List Instr) (k' q : Nat) (ρ : Map Nat Val),
    lowerS brk cont s k = (c, k') → At code q c →
    (inLoop = true → ∃ b cn pb pc, brk = some b ∧ cont = some cn ∧ labelPos code b = some pb ∧ labelPos code cn = some pc) →
    SPost (lowerModule M) code brk cont (q, vf ρ fr, g) (q + c.length) (execS M n s fr g)

/-! ## Helpers about the reference semantics of variables -/

theorem evalE_var {M : Core.Module} {n : Nat} {sc : Scope} {key : VarKey} {ty : ITy} {fr : Frame} {g : Globals}
    {v : Val} {fr' : Frame} {g' : Globals} (h : evalE M n (.var sc key ty) fr g = .val v fr' g') :
    ∃ root, rootOf sc key = .ok root ∧ readRoot fr g root = .ok v ∧ fr' = fr ∧ g' = g := by
  cases n with
  | zero => simp [evalE] at h
  | succ n =>
    simp only [evalE] at h
    cases hroot : rootOf sc key with
    | error e => simp [hroot] at h
    | ok root =>
      simp only [hroot] at h
      cases hr : readRoot fr g root with
      | error e => simp [hr] at h
      | ok x =>
        simp only [hr, EOut.val.injEq] at h
        obtain ⟨rfl, rfl, rfl⟩ := h
        exact ⟨root, rfl, hr, rfl, rfl⟩

theorem storeTo_var {M : Core.Module} {n : Nat} {sc : Scope} {key : VarKey} {ty : ITy} {v : Val} {fr : Frame}
    {g : Globals} {w : Val} {fr' : Frame} {g' : Globals}
    (h : storeTo M n (.var sc key ty) v fr g = .val w fr' g') :
    ∃ root, rootOf sc key = .ok root ∧ Val.isPtr v = false ∧ writeRoot fr g root v = .ok (fr', g') := by
  cases n with
  | zero => simp [storeTo] at h
  | succ n =>
    simp only [storeTo] at h
    cases hroot : rootOf sc key with
    | error e => simp [hroot, bind, Except.bind] at h
    | ok root =>
      cases hp : noPtr v with
      | error e => simp [hroot, hp, bind, Except.bind] at h
      | ok v' =>
        obtain ⟨rfl, hnp⟩ := noPtr_ok hp
        cases hw : writeRoot fr g root v' with
        | error e => simp [hroot, hp, hw, bind, Except.bind] at h
        | ok res =>
          obtain ⟨fr1, g1⟩ := res
          simp only [hroot, hp, hw, bind, Except.bind, EOut.val.injEq] at h
          obtain ⟨_, rfl, rfl⟩ := h
          exact ⟨root, rfl, hnp, hw⟩

theorem evalOpd_vf_fr (ρ : Map Nat Val) (fr fr' : Frame) (o : Opd) :
    evalOpd (vf ρ fr) o = evalOpd (vf ρ fr') o := by
  cases o <;> rfl

theorem OpdsEval.listOK {fr : Frame} : ∀ {os : List Opd} {vs : List Val}, OpdsEval fr os vs → ListOK vs
  | [], [], _ => by intro v hv; cases hv
  | _ :: _, v :: vs, h => by
    intro x hx
    rcases List.mem_cons.1 hx with rfl | hx
    · exact h.1.2
    · exact OpdsEval.listOK h.2 x hx
  | [], _ :: _, h => by cases h
  | _ :: _, [], h => by cases h

theorem OpdsEval.frame {ρ ρ' : Map Nat Val} {fr fr' : Frame} {k : Nat}
    (hfr : ∀ r, r < k → Map.get ρ' r = Map.get ρ r) :
    ∀ {os : List Opd} {vs : List Val}, OpdsEval (vf ρ fr) os vs → (∀ o ∈ os, OpdBelow o k) →
      OpdsEval (vf ρ' fr') os vs
  | [], [], _, _ => trivial
  | o :: os, v :: vs, h, hb =>
    ⟨⟨evalOpd_frame h.1.1 (hb o (List.mem_cons_self ..)) hfr, h.1.2⟩,
      OpdsEval.frame hfr h.2 (fun o' ho' => hb o' (List.mem_cons_of_mem _ ho'))⟩
  | [], _ :: _, h, _ => by cases h
  | _ :: _, [], h, _ => by cases h

theorem scalar_inv {ty : ITy} (h : ty.isScalar = true) : ∃ s, ty = .sc s := by
  cases ty <;> simp [ITy.isScalar] at h
  exact ⟨_, rfl⟩

theorem isMatrix_of_scalar {ty : ITy} (h : ty.isScalar = true) : ty.isMatrix = false := by
  obtain ⟨s, rfl⟩ := scalar_inv h; rfl

theorem mkBin_scalar (dst : Nat) (op : BOp) (ty : ITy) (a : Opd) (ta : ITy) (b : Opd) (tb : ITy)
    (h : ty.isScalar = true) : mkBin dst op ty a ta b tb = .bin dst (.s op.toSOp) ty a b := by
  simp [mkBin, fromOperation, h]

/-! ## Expressions -/

theorem esim_succ (M : Core.Module) (n : Nat) (ihE : ESim M n) (ihA : ASim M n) (ihC : CSim M n) :
    ESim M (n + 1) := by
  intro code e fr g v fr' g' h hok hf hg k c o k' q ρ hl hat
  cases e with
  | litI i =>
    simp only [evalE, EOut.val.injEq] at h
    obtain ⟨rfl, rfl, rfl⟩ := h
    simp only [lowerE, Prod.mk.injEq] at hl
    obtain ⟨rfl, rfl, rfl⟩ := hl
    exact ⟨ρ, by simpa using Steps.refl _, rfl, rfl, fun _ _ => rfl, hf, hg⟩
  | litF f =>
    simp only [evalE, EOut.val.injEq] at h
    obtain ⟨rfl, rfl, rfl⟩ := h
    simp only [lowerE, Prod.mk.injEq] at hl
    obtain ⟨rfl, rfl, rfl⟩ := hl
    exact ⟨ρ, by simpa using Steps.refl _, rfl, rfl, fun _ _ => rfl, hf, hg⟩
  | var sc key ty =>
    simp only [okE, Bool.and_eq_true] at hok
    obtain ⟨root, hroot, hr, rfl, rfl⟩ := evalE_var h
    simp only [lowerE, Prod.mk.injEq] at hl
    obtain ⟨rfl, rfl, rfl⟩ := hl
    have hstep := step_load (cf := callD (lowerModule M) 0) (g := g') (fr := vf ρ fr') hat.head hroot
      (by rw [readRoot_vf]; exact hr) (isAggregate_of_scalar hok.1)
    rw [setReg_vf] at hstep
    refine ⟨Map.set ρ k v, by simpa using Steps.one 0 hstep, ?_, readRoot_noPtr hf hg hr, ?_, hf, hg⟩
    · simp [evalOpd]
    · intro r hr'
      exact Map.get_set_ne _ _ _ _ (by omega)
  | bin op ty l r =>
    simp only [okE, Bool.and_eq_true] at hok
    obtain ⟨⟨⟨⟨hty, hlt⟩, hrt⟩, hokl⟩, hokr⟩ := hok
    simp only [evalE] at h
    cases h1 : evalE M n l fr g with
    | fail er => simp [h1] at h
    | val a fr1 g1 =>
      simp only [h1] at h
      cases h2 : evalE M n r fr1 g1 with
      | fail er => simp [h2] at h
      | val b fr2 g2 =>
        simp only [h2] at h
        cases h3 : binSem op ty (Expr.ty l) (Expr.ty r) a b with
        | error er => simp [h3] at h
        | ok z =>
          simp only [h3, EOut.val.injEq] at h
          obtain ⟨rfl, rfl, rfl⟩ := h
          rcases hel : lowerE l k with ⟨cl, vl, k1⟩
          rcases her : lowerE r k1 with ⟨cr, vr, k2⟩
          obtain ⟨_, le1, ob1⟩ := lowerE_shape l hokl k cl vl k1 hel
          obtain ⟨_, le2, _⟩ := lowerE_shape r hokr k1 cr vr k2 her
          simp only [lowerE, hel, her, isMatrix_of_scalar hlt, isMatrix_of_scalar hrt, Bool.false_and,
            Bool.and_false, Bool.false_eq_true, if_false, mkBin_scalar _ _ _ _ _ _ _ hty, Prod.mk.injEq] at hl
          obtain ⟨rfl, rfl, rfl⟩ := hl
          obtain ⟨ρ1, s1, e1, p1, f1, hf1, hg1⟩ := ihE code l fr g a fr1 g1 h1 hokl hf hg k cl vl k1 q ρ hel hat.left.left
          obtain ⟨ρ2, s2, e2, p2, f2, hf2, hg2⟩ :=
            ihE code r fr1 g1 b fr2 g2 h2 hokr hf1 hg1 k1 cr vr k2 (q + cl.length) ρ1 her hat.left.right
          have hz : binExec (.s op.toSOp) ty a b = .ok z := by
            simpa [binSem, hlt, hrt, binExec] using h3
          have e1' : evalOpd (vf ρ2 fr2) vl = .ok a := evalOpd_frame e1 ob1 f2
          have hc : code[q + cl.length + cr.length]? = some (.bin k2 (.s op.toSOp) ty vl vr) := by
            have := hat.right.head
            simpa [Nat.add_assoc] using this
          have hstep := step_bin (cf := callD (lowerModule M) 0) (g := g2) hc e1' p1 e2 p2 hz
          rw [setReg_vf] at hstep
          have hnp : Val.isPtr z = false := by
            simp only [binExec] at hz
            exact scalarBin_noPtr hz
          refine ⟨Map.set ρ2 k2 z, ?_, by simp [evalOpd], hnp, ?_, hf2, hg2⟩
          · have := (s1.trans s2).trans (Steps.one 0 hstep)
            simpa [Nat.add_assoc] using this
          · intro r' hr'
            rw [Map.get_set_ne _ _ _ _ (by omega), f2 r' (by omega), f1 r' hr']
  | cast ty x =>
    simp only [okE, Bool.and_eq_true] at hok
    simp only [evalE] at h
    cases h1 : evalE M n x fr g with
    | fail er => simp [h1] at h
    | val a fr1 g1 =>
      simp only [h1] at h
      cases h3 : castExec ty a with
      | error er => simp [h3] at h
      | ok z =>
        simp only [h3, EOut.val.injEq] at h
        obtain ⟨rfl, rfl, rfl⟩ := h
        rcases hel : lowerE x k with ⟨cl, vl, k1⟩
        obtain ⟨_, le1, _⟩ := lowerE_shape x hok.2 k cl vl k1 hel
        simp only [lowerE, hel, Prod.mk.injEq] at hl
        obtain ⟨rfl, rfl, rfl⟩ := hl
        obtain ⟨ρ1, s1, e1, p1, f1, hf1, hg1⟩ := ihE code x fr g a fr1 g1 h1 hok.2 hf hg k cl vl k1 q ρ hel hat.left
        have hstep := step_cast (cf := callD (lowerModule M) 0) (g := g1) hat.right.head e1 p1 h3
        rw [setReg_vf] at hstep
        have hnp : Val.isPtr z = false := by
          obtain ⟨s, rfl⟩ := scalar_inv hok.1
          exact castScalar_noPtr (by simpa [castExec] using h3)
        refine ⟨Map.set ρ1 k1 z, ?_, by simp [evalOpd], hnp, ?_, hf1, hg1⟩
        · have := s1.trans (Steps.one 0 hstep)
          simpa [Nat.add_assoc] using this
        · intro r' hr'
          rw [Map.get_set_ne _ _ _ _ (by omega), f1 r' hr']
  | assign lhs rhs =>
    simp only [okE, Bool.and_eq_true] at hok
    obtain ⟨sc, key, ty, rfl, hty, hkey⟩ := okVar_inv hok.1
    simp only [evalE] at h
    cases h1 : evalE M n rhs fr g with
    | fail er => simp [h1] at h
    | val a fr1 g1 =>
      simp only [h1] at h
      cases h2 : storeTo M n (.var sc key ty) a fr1 g1 with
      | fail er => simp [h2] at h
      | val w fr2 g2 =>
        simp only [h2, EOut.val.injEq] at h
        obtain ⟨rfl, rfl, rfl⟩ := h
        obtain ⟨root, hroot, hnp, hw⟩ := storeTo_var h2
        rcases hel : lowerE rhs k with ⟨cl, vl, k1⟩
        obtain ⟨_, le1, ob1⟩ := lowerE_shape rhs hok.2 k cl vl k1 hel
        simp only [lowerE, hel, lowerStore_var, Prod.mk.injEq] at hl
        obtain ⟨rfl, rfl, rfl⟩ := hl
        obtain ⟨ρ1, s1, e1, p1, f1, hf1, hg1⟩ := ihE code rhs fr g a fr1 g1 h1 hok.2 hf hg k cl vl k1 q ρ hel hat.left
        have hstep := step_store (cf := callD (lowerModule M) 0) hat.right.head hroot e1 p1 (writeRoot_vf (ρ := ρ1) hw)
        obtain ⟨hf2, hg2⟩ := writeRoot_ok hf1 hg1 hnp hw
        refine ⟨ρ1, ?_, by rw [evalOpd_vf_fr ρ1 fr2 fr1]; exact e1, p1, f1, hf2, hg2⟩
        have := s1.trans (Steps.one 0 hstep)
        simpa [Nat.add_assoc] using this
  | affix post inc x =>
    simp only [okE] at hok
    obtain ⟨sc, key, ty, rfl, hty, hkey⟩ := okVar_inv hok
    simp only [evalE] at h
    cases h1 : evalE M n (.var sc key ty) fr g with
    | fail er => simp [h1] at h
    | val old fr1 g1 =>
      obtain ⟨root, hroot, hr, rfl, rfl⟩ := evalE_var h1
      simp only [h1] at h
      cases h3 : scalarBin (if inc then SOp.add else SOp.sub) (scIsInt (Expr.ty (.var sc key ty))) old (.int 1) with
      | error er => simp [h3] at h
      | ok new =>
        simp only [h3] at h
        cases h2 : storeTo M n (.var sc key ty) new fr1 g1 with
        | fail er => simp [h2] at h
        | val w fr2 g2 =>
          simp only [h2, EOut.val.injEq] at h
          obtain ⟨rfl, rfl, rfl⟩ := h
          obtain ⟨root', hroot', hnp, hw⟩ := storeTo_var h2
          rw [hroot] at hroot'; cases hroot'
          simp only [lowerE, lowerStore_var, Prod.mk.injEq] at hl
          obtain ⟨rfl, rfl, rfl⟩ := hl
          have hold : Val.isPtr old = false := readRoot_noPtr hf hg hr
          -- load
          have hc0 : code[q]? = some (.load k ty sc key) := by
            have := hat.left.left.head; simpa using this
          have st0 := step_load (cf := callD (lowerModule M) 0) (g := g1) (fr := vf ρ fr1) hc0 hroot
            (by rw [readRoot_vf]; exact hr) (isAggregate_of_scalar hty)
          rw [setReg_vf] at st0
          -- bin
          have hc1 : code[q + 1]? = some (.bin (k + 1) (.s (if inc then SOp.add else SOp.sub)) ty (.ref k) (.cInt 1)) := by
            have := hat.left.right.head; simpa [Expr.ty] using this
          have st1 := step_bin (cf := callD (lowerModule M) 0) (g := g1) (fr := vf (Map.set ρ k old) fr1) hc1
            (x := old) (y := .int 1) (z := new) (by simp [evalOpd]) hold (by simp [evalOpd]) rfl
            (by simpa [binExec, Expr.ty] using h3)
          rw [setReg_vf] at st1
          -- store
          have hc2 : code[q + 1 + 1]? = some (.store sc key (.ref (k + 1))) := by
            have := hat.right.head; simpa using this
          have st2 := step_store (cf := callD (lowerModule M) 0) (g := g1)
            (fr := vf (Map.set (Map.set ρ k old) (k + 1) new) fr1) hc2 hroot (v := new) (by simp [evalOpd]) hnp
            (writeRoot_vf hw)
          obtain ⟨hf2, hg2⟩ := writeRoot_ok hf hg hnp hw
          refine ⟨Map.set (Map.set ρ k old) (k + 1) new, ?_, ?_, ?_, ?_, hf2, hg2⟩
          · have := ((Steps.one 0 st0).trans (Steps.one 0 st1)).trans (Steps.one 0 st2)
            simpa [Nat.add_assoc] using this
          · cases post
            · simp [evalOpd]
            · simp only [if_true]
              rw [evalOpd_vf_ref _ _ k old]
              rw [Map.get_set_ne _ _ _ _ (by omega), Map.get_set_eq]
          · cases post <;> simp [hold, hnp]
          · intro r' hr'
            rw [Map.get_set_ne _ _ _ _ (by omega), Map.get_set_ne _ _ _ _ (by omega)]
  | call fn ty args =>
    simp only [okE] at hok
    simp only [evalE] at h
    cases h1 : evalArgs M n args fr g with
    | fail er => simp [h1] at h
    | vals vs fr1 g1 =>
      simp only [h1] at h
      cases h2 : callFn M n fn vs g1 with
      | fail er => simp [h2] at h
      | done w g2 as =>
        simp only [h2, EOut.val.injEq] at h
        obtain ⟨rfl, rfl, rfl⟩ := h
        rcases hel : lowerArgs args k with ⟨cl, os, k1⟩
        obtain ⟨_, le1, _⟩ := lowerArgs_shape args hok k cl os k1 hel
        simp only [lowerE, hel, Prod.mk.injEq] at hl
        obtain ⟨rfl, rfl, rfl⟩ := hl
        obtain ⟨ρ1, s1, e1, f1, hf1, hg1⟩ := ihA code args fr g vs fr1 g1 h1 hok hf hg k cl os k1 q ρ hel hat.left
        obtain ⟨D, hcall, hnp, hg2⟩ := ihC fn vs g1 w g2 as h2 (OpdsEval.listOK e1) hg1
        have hstep := step_call (cf := callD (lowerModule M) D) hat.right.head (evalVals_of_noPtr e1) hcall
        rw [setReg_vf] at hstep
        refine ⟨Map.set ρ1 k1 w, ?_, by simp [evalOpd], hnp, ?_, hf1, hg2⟩
        · have := s1.trans (Steps.one D hstep)
          simpa [Nat.add_assoc] using this
        · intro r' hr'
          rw [Map.get_set_ne _ _ _ _ (by omega), f1 r' hr']
  | index kd ty b i => simp [okE] at hok
  | member ty b f => simp [okE] at hok
  | swizzle ty b idx => simp [okE] at hok
  | construct ty as => simp [okE] at hok

theorem asim_succ (M : Core.Module) (n : Nat) (ihE : ESim M n) (ihA : ASim M n) : ASim M (n + 1) := by
  intro code as fr g vs fr' g' h hok hf hg k c os k' q ρ hl hat
  cases as with
  | nil =>
    simp only [evalArgs, AOut.vals.injEq] at h
    obtain ⟨rfl, rfl, rfl⟩ := h
    simp only [lowerArgs, Prod.mk.injEq] at hl
    obtain ⟨rfl, rfl, rfl⟩ := hl
    exact ⟨ρ, by simpa using Steps.refl _, trivial, fun _ _ => rfl, hf, hg⟩
  | cons e rest =>
    simp only [okArgs, Bool.and_eq_true] at hok
    simp only [evalArgs] at h
    cases h1 : evalE M n e fr g with
    | fail er => simp [h1] at h
    | val a fr1 g1 =>
      simp only [h1] at h
      cases h2 : evalArgs M n rest fr1 g1 with
      | fail er => simp [h2] at h
      | vals ws fr2 g2 =>
        simp only [h2, AOut.vals.injEq] at h
        obtain ⟨rfl, rfl, rfl⟩ := h
        rcases hel : lowerE e k with ⟨c1, v1, k1⟩
        rcases her : lowerArgs rest k1 with ⟨c2, os2, k2⟩
        obtain ⟨_, le1, ob1⟩ := lowerE_shape e hok.1 k c1 v1 k1 hel
        simp only [lowerArgs, hel, her, Prod.mk.injEq] at hl
        obtain ⟨rfl, rfl, rfl⟩ := hl
        obtain ⟨ρ1, s1, e1, p1, f1, hf1, hg1⟩ := ihE code e fr g a fr1 g1 h1 hok.1 hf hg k c1 v1 k1 q ρ hel hat.left
        obtain ⟨ρ2, s2, e2, f2, hf2, hg2⟩ :=
          ihA code rest fr1 g1 ws fr2 g2 h2 hok.2 hf1 hg1 k1 c2 os2 k2 (q + c1.length) ρ1 her hat.right
        refine ⟨ρ2, ?_, ⟨⟨evalOpd_frame e1 ob1 f2, p1⟩, e2⟩, ?_, hf2, hg2⟩
        · have := s1.trans s2
          simpa [Nat.add_assoc] using this
        · intro r' hr'
          rw [f2 r' (by omega), f1 r' hr']

end Sim
end Nsl
