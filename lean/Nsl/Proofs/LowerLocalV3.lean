import Nsl.Proofs.LowerLocalV2
/-!
# The lowering produces block-local, single-definition code for EVERY module of the typed core — part 3: statements

`lowerS_local` (`LowerLocal2`) with the expression lemma exchanged for the hypothesis-free `lowerE_localG`; the statement
forms never needed a restriction themselves (a stray `break` is a `br` without uses).  Consequently
`blockLocal [] (lowerFn f).code` and `defsDistinct (lowerFn f).code` hold for EVERY function definition of the typed core.
-/
namespace Nsl
namespace Lower
open Core Opt WF

theorem lowerOptE_localG : ∀ (oe : Option Expr) (k : Nat) (c : List Instr) (o : Option Opd)
    (k' : Nat), lowerOptE oe k = (c, o, k') → SLocal k c k'
  | none, k, c, o, k', h => by
    simp only [lowerOptE, Prod.mk.injEq] at h
    obtain ⟨rfl, rfl, rfl⟩ := h
    exact SLocal.nil k
  | some e, k, c, o, k', h => by
    rcases he : lowerE e k with ⟨c1, v1, k1⟩
    have ie := lowerE_localG e k c1 v1 k1 he
    simp only [lowerOptE, he, Prod.mk.injEq] at h
    obtain ⟨rfl, rfl, rfl⟩ := h
    exact ie.sl

/-- The condition of a `for` together with the branch that ends its block. -/
theorem forCond_localG : ∀ (oe : Option Expr) (k : Nat) (c : List Instr) (o : Option Opd)
    (k' : Nat) (a b : Nat), lowerOptE oe k = (c, o, k') → SLocal k (c ++ [forBranch o a b]) k'
  | none, k, c, o, k', a, b, h => by
    simp only [lowerOptE, Prod.mk.injEq] at h
    obtain ⟨rfl, rfl, rfl⟩ := h
    simpa [forBranch] using SLocal.br k a
  | some e, k, c, o, k', a, b, h => by
    rcases he : lowerE e k with ⟨c1, v1, k1⟩
    have ie := lowerE_localG e k c1 v1 k1 he
    simp only [lowerOptE, he, Prod.mk.injEq] at h
    obtain ⟨rfl, rfl, rfl⟩ := h
    exact ie.use (ins := .brc v1 a b) rfl rfl rfl (Nat.le_refl _)

theorem lowerS_localG : ∀ (s : Stmt) (brk cont : Option Nat) (k : Nat)
    (c : List Instr) (k' : Nat), lowerS brk cont s k = (c, k') → SLocal k c k'
  | .skip, brk, cont, k, c, k', h => by
    simp only [lowerS, Prod.mk.injEq] at h
    obtain ⟨rfl, rfl⟩ := h
    exact SLocal.nil k
  | .decl name ty none, brk, cont, k, c, k', h => by
    simp only [lowerS, Prod.mk.injEq] at h
    obtain ⟨rfl, rfl⟩ := h
    exact SLocal.leaf rfl rfl (by simp [defOf]) (by omega)
  | .decl name ty (some e), brk, cont, k, c, k', h => by
    rcases he : lowerE e (k + 1) with ⟨c1, v1, k1⟩
    have ie := lowerE_localG e (k + 1) c1 v1 k1 he
    simp only [lowerS, he, Prod.mk.injEq] at h
    obtain ⟨rfl, rfl⟩ := h
    have h1 : SLocal k [Instr.newVar k ty name] (k + 1) := SLocal.leaf rfl rfl (by simp [defOf]) (by omega)
    have n1 : NoLabels ([Instr.newVar k ty name] ++ c1) := NoLabels.append (NoLabels.cons rfl NoLabels.nil) ie.noLab
    exact SLocal.snoc (ins := .store .local (.name name) v1) (h1.append ie.sl) n1 rfl
      (by intro r hr
          rw [defs_append]
          exact List.mem_append_right _ (ie.opd r (by simpa [usesOf] using hr)))
      (by simp [defOf]) (by omega)
  | .expr e, brk, cont, k, c, k', h => by
    rcases he : lowerE e k with ⟨c1, v1, k1⟩
    have ie := lowerE_localG e k c1 v1 k1 he
    simp only [lowerS, he, Prod.mk.injEq] at h
    obtain ⟨rfl, rfl⟩ := h
    exact ie.sl
  | .seq a b, brk, cont, k, c, k', h => by
    rcases ha : lowerS brk cont a k with ⟨ca, k1⟩
    rcases hb : lowerS brk cont b k1 with ⟨cb, k2⟩
    have ia := lowerS_localG a brk cont k ca k1 ha
    have ib := lowerS_localG b brk cont k1 cb k2 hb
    simp only [lowerS, ha, hb, Prod.mk.injEq] at h
    obtain ⟨rfl, rfl⟩ := h
    exact ia.append ib
  | .ite1 cnd t, brk, cont, k, c, k', h => by
    rcases hc : lowerE cnd k with ⟨cc, v, k1⟩
    rcases ht : lowerS brk cont t (k1 + 2) with ⟨ct, k2⟩
    have ic := lowerE_localG cnd k cc v k1 hc
    have it := lowerS_localG t brk cont (k1 + 2) ct k2 ht
    simp only [lowerS, hc, ht, Prod.mk.injEq] at h
    obtain ⟨rfl, rfl⟩ := h
    have := (((ic.use (ins := .brc v k1 (k1 + 1)) rfl rfl rfl (Nat.le_refl _)).append
      (SLocal.lab (by omega : k1 ≤ k1 + 2) k1)).append it).append (SLocal.label k2 (k1 + 1))
    simpa using this
  | .ite2 cnd t e, brk, cont, k, c, k', h => by
    rcases hc : lowerE cnd k with ⟨cc, v, k1⟩
    rcases ht : lowerS brk cont t (k1 + 3) with ⟨ct, k2⟩
    rcases hel : lowerS brk cont e k2 with ⟨ce, k3⟩
    have ic := lowerE_localG cnd k cc v k1 hc
    have it := lowerS_localG t brk cont (k1 + 3) ct k2 ht
    have ie := lowerS_localG e brk cont k2 ce k3 hel
    simp only [lowerS, hc, ht, hel, Prod.mk.injEq] at h
    obtain ⟨rfl, rfl⟩ := h
    have := ((((((ic.use (ins := .brc v k1 (k1 + 1)) rfl rfl rfl (Nat.le_refl _)).append
      (SLocal.lab (by omega : k1 ≤ k1 + 3) k1)).append it).append (SLocal.br k2 (k1 + 2))).append
      (SLocal.label k2 (k1 + 1))).append ie).append (SLocal.label k3 (k1 + 2))
    simpa using this
  | .whileL cnd body, brk, cont, k, c, k', h => by
    rcases hc : lowerE cnd (k + 3) with ⟨cc, v, k1⟩
    rcases hb : lowerS (some (k + 2)) (some k) body k1 with ⟨cb, k2⟩
    have ic := lowerE_localG cnd (k + 3) cc v k1 hc
    have ib := lowerS_localG body (some (k + 2)) (some k) k1 cb k2 hb
    simp only [lowerS, hc, hb, Prod.mk.injEq] at h
    obtain ⟨rfl, rfl⟩ := h
    have := ((((((SLocal.lab (by omega : k ≤ k + 3) k).append
      (ic.use (ins := .brc v (k + 1) (k + 2)) rfl rfl rfl (Nat.le_refl _))).append
      (SLocal.label k1 (k + 1))).append ib).append (SLocal.br k2 k)).append (SLocal.label k2 (k + 2)))
    simpa using this
  | .doL body cnd, brk, cont, k, c, k', h => by
    rcases hb : lowerS (some (k + 2)) (some (k + 1)) body (k + 3) with ⟨cb, k1⟩
    rcases hc : lowerE cnd k1 with ⟨cc, v, k2⟩
    have ib := lowerS_localG body (some (k + 2)) (some (k + 1)) (k + 3) cb k1 hb
    have ic := lowerE_localG cnd k1 cc v k2 hc
    simp only [lowerS, hc, hb, Prod.mk.injEq] at h
    obtain ⟨rfl, rfl⟩ := h
    have := (((((SLocal.lab (by omega : k ≤ k + 3) k).append ib).append (SLocal.label k1 (k + 1))).append
      (ic.use (ins := .brc v k (k + 2)) rfl rfl rfl (Nat.le_refl _))).append (SLocal.label k2 (k + 2)))
    simpa using this
  | .forL init cnd next body, brk, cont, k, c, k', h => by
    rcases hi : lowerS brk cont init k with ⟨ci, k0⟩
    rcases hc : lowerOptE cnd (k0 + 4) with ⟨cc, v, k1⟩
    rcases hb : lowerS (some (k0 + 3)) (some (k0 + 2)) body k1 with ⟨cb, k2⟩
    rcases hn : lowerOptE next k2 with ⟨cn, vn, k3⟩
    have ii := lowerS_localG init brk cont k ci k0 hi
    have ic := forCond_localG cnd (k0 + 4) cc v k1 (k0 + 1) (k0 + 3) hc
    have ib := lowerS_localG body (some (k0 + 3)) (some (k0 + 2)) k1 cb k2 hb
    have inx := lowerOptE_localG next k2 cn vn k3 hn
    simp only [lowerS, hi, hc, hb, hn, Prod.mk.injEq] at h
    obtain ⟨rfl, rfl⟩ := h
    have := ((((((((ii.append (SLocal.lab (by omega : k0 ≤ k0 + 4) k0)).append ic).append
      (SLocal.label k1 (k0 + 1))).append ib).append (SLocal.label k2 (k0 + 2))).append inx).append
      (SLocal.br k3 k0)).append (SLocal.label k3 (k0 + 3)))
    simpa using this
  | .brk, brk, cont, k, c, k', h => by
    simp only [lowerS, Prod.mk.injEq] at h
    obtain ⟨rfl, rfl⟩ := h
    exact SLocal.brl (by omega) _
  | .cont, brk, cont, k, c, k', h => by
    simp only [lowerS, Prod.mk.injEq] at h
    obtain ⟨rfl, rfl⟩ := h
    exact SLocal.brl (by omega) _
  | .ret none, brk, cont, k, c, k', h => by
    simp only [lowerS, Prod.mk.injEq] at h
    obtain ⟨rfl, rfl⟩ := h
    exact SLocal.leaf rfl rfl (by simp [defOf]) (by omega)
  | .ret (some e), brk, cont, k, c, k', h => by
    rcases he : lowerE e k with ⟨c1, v1, k1⟩
    have ie := lowerE_localG e k c1 v1 k1 he
    simp only [lowerS, he, Prod.mk.injEq] at h
    obtain ⟨rfl, rfl⟩ := h
    exact ie.use (ins := .ret (some v1)) rfl rfl rfl (by omega)

/-! ## Functions -/

theorem lowerFn_localG (f : FnDef) : ∃ k', SLocal 0 (lowerFn f).code k' := by
  rcases hl : lowerS none none f.body 0 with ⟨c, k'⟩
  refine ⟨k', ?_⟩
  have := lowerS_localG f.body none none 0 c k' hl
  simpa [lowerFn, hl] using this

/-- No hypothesis: value references are block-local in the code of every lowered function. -/
theorem lowerFn_blockLocal_general (f : FnDef) : blockLocal [] (lowerFn f).code = true := by
  obtain ⟨k', hs⟩ := lowerFn_localG f
  exact hs.loc [] (by simp)

/-- No hypothesis: every value reference is defined once in the code of every lowered function. -/
theorem lowerFn_defsDistinct_general (f : FnDef) : defsDistinct (lowerFn f).code = true := by
  obtain ⟨k', hs⟩ := lowerFn_localG f
  exact (distinct_iff_nodup _).2 hs.nodup

end Lower
end Nsl
