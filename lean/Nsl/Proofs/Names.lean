import Nsl.Model.Names

/-! Helper lemmas for C12 (stage 1: the checker against the specification). -/

namespace Nsl.Names

open Spec

theorem visible_iff (ctx : Ctx) (x : String) : visible ctx x = true ↔ x ∈ ctx.flatten := by
  induction ctx with
  | nil => simp [visible]
  | cons c r ih => simp [visible, ih]

theorem visible_false_iff (ctx : Ctx) (x : String) : visible ctx x = false ↔ x ∉ ctx.flatten := by
  rw [← visible_iff]; simp

/-! ### `ok` only depends on the visible SET, and is antitone in it -/

theorem ok_mono (s : S) : ∀ (V V' : List String), (∀ x, x ∈ V' → x ∈ V) → ok V s = true → ok V' s = true := by
  induction s with
  | decl x =>
    intro V V' h; simp only [ok, Bool.not_eq_true', List.contains_eq_mem, decide_eq_false_iff_not]
    exact fun hx hx' => hx (h _ hx')
  | use x => intros; rfl
  | skip => intros; rfl
  | seq a b iha ihb =>
    intro V V' h; simp only [ok, Bool.and_eq_true]
    rintro ⟨h1, h2⟩
    refine ⟨iha V V' h h1, ihb _ _ ?_ h2⟩
    intro x; simp only [List.mem_append]; rintro (hx | hx)
    · exact Or.inl (h _ hx)
    · exact Or.inr hx
  | block s ih => intro V V' h; simp only [ok]; exact ih V V' h
  | ite a b iha ihb =>
    intro V V' h; simp only [ok, Bool.and_eq_true]
    rintro ⟨h1, h2⟩
    refine ⟨iha V V' h h1, ihb _ _ ?_ h2⟩
    intro x; simp only [List.mem_append]; rintro (hx | hx)
    · exact Or.inl (h _ hx)
    · exact Or.inr hx
  | forL i b ih =>
    intro V V' h
    cases i with
    | none => simp only [ok]; exact ih V V' h
    | some i =>
      simp only [ok, Bool.and_eq_true, Bool.not_eq_true', List.contains_eq_mem,
        decide_eq_false_iff_not]
      rintro ⟨h1, h2⟩
      refine ⟨fun hx => h1 (h _ hx), ih _ _ ?_ h2⟩
      intro x; simp only [List.mem_append]; rintro (hx | hx)
      · exact Or.inl (h _ hx)
      · exact Or.inr hx
  | whileL b ih => intro V V' h; simp only [ok]; exact ih V V' h
  | doL b ih => intro V V' h; simp only [ok]; exact ih V V' h

theorem ok_congr (s : S) (V V' : List String) (h : ∀ x, x ∈ V ↔ x ∈ V') : ok V s = ok V' s := by
  apply Bool.eq_iff_iff.mpr
  exact ⟨ok_mono s V V' fun x hx => (h x).mpr hx, ok_mono s V' V fun x hx => (h x).mp hx⟩

/-! ### The mirror computes `ok` and the new innermost context -/

theorem add_eq (c : List String) (r : Ctx) (x : String) :
    add (c :: r) x = if x ∈ (c :: r).flatten then none else some ((x :: c) :: r) := by
  unfold add
  by_cases h : x ∈ (c :: r).flatten
  · rw [if_pos ((visible_iff _ _).mpr h), if_pos h]
  · rw [if_neg (by rw [visible_iff]; exact h), if_neg h]

theorem check_eq (s : S) : ∀ (V : List String) (c : List String) (r : Ctx),
    (∀ x, x ∈ V ↔ x ∈ (c :: r).flatten) →
    check (c :: r) s = if ok V s = true then some (((adds s).reverse ++ c) :: r) else none := by
  induction s with
  | decl x =>
    intro V c r hV
    simp only [check, add_eq, ok, adds, ← hV]
    by_cases hx : x ∈ V <;> simp [hx]
  | use x => intro V c r _; simp [check, ok, adds]
  | skip => intro V c r _; simp [check, ok, adds]
  | seq a b iha ihb =>
    intro V c r hV
    simp only [check, ok, adds, iha V c r hV]
    by_cases h1 : ok V a = true
    · have hV' : ∀ x, x ∈ V ++ adds a ↔ x ∈ (((adds a).reverse ++ c) :: r).flatten := by
        intro x
        have := hV x
        simp only [List.flatten_cons, List.mem_append, List.mem_reverse] at this ⊢
        grind
      simp only [h1, if_true, ihb _ _ r hV', Bool.true_and, List.reverse_append, List.append_assoc]
    · simp [h1]
  | block s ih =>
    intro V c r hV
    have hV' : ∀ x, x ∈ V ↔ x ∈ ([] :: c :: r).flatten := by
      intro x; rw [hV x]; simp
    simp only [check, ok, adds, ih V [] (c :: r) hV']
    by_cases h : ok V s = true <;> simp [h]
  | ite a b iha ihb =>
    intro V c r hV
    have hV0 : ∀ x, x ∈ V ↔ x ∈ ([] :: c :: r).flatten := by
      intro x; rw [hV x]; simp
    simp only [check, ok, adds, iha V [] (c :: r) hV0]
    by_cases h1 : ok V a = true
    · have hV' : ∀ x, x ∈ V ++ adds a ↔ x ∈ (((adds a).reverse ++ []) :: c :: r).flatten := by
        intro x
        have := hV x
        simp only [List.flatten_cons, List.mem_append, List.mem_reverse, List.append_nil] at this ⊢
        grind
      simp only [h1, if_true, ihb _ _ (c :: r) hV', Bool.true_and]
      by_cases h2 : ok (V ++ adds a) b = true <;> simp [h2]
    · simp [h1]
  | forL i b ih =>
    intro V c r hV
    cases i with
    | none =>
      have hV0 : ∀ x, x ∈ V ↔ x ∈ ([] :: c :: r).flatten := by
        intro x; rw [hV x]; simp
      simp only [check, ok, adds, ih V [] (c :: r) hV0]
      by_cases h : ok V b = true <;> simp [h]
    | some i =>
      simp only [check, ok, adds, add_eq]
      by_cases hi : i ∈ V
      · have : i ∈ ([] :: c :: r).flatten := by
          have := (hV i).mp hi; simpa using this
        rw [if_pos this]; simp [hi]
      · have hn : i ∉ ([] :: c :: r).flatten := by
          intro h; apply hi; rw [hV i]; simpa using h
        have hV' : ∀ x, x ∈ V ++ [i] ↔ x ∈ ([i] :: c :: r).flatten := by
          intro x
          have := hV x
          simp only [List.flatten_cons, List.mem_append, List.mem_cons,
            List.not_mem_nil, or_false] at this ⊢
          grind
        simp only [if_neg hn, ih _ [i] (c :: r) hV']
        by_cases h : ok (V ++ [i]) b = true <;> simp [h, hi]
  | whileL b ih =>
    intro V c r hV
    have hV' : ∀ x, x ∈ V ↔ x ∈ ([] :: c :: r).flatten := by
      intro x; rw [hV x]; simp
    simp only [check, ok, adds, ih V [] (c :: r) hV']
    by_cases h : ok V b = true <;> simp [h]
  | doL b ih =>
    intro V c r hV
    have hV' : ∀ x, x ∈ V ↔ x ∈ ([] :: c :: r).flatten := by
      intro x; rw [hV x]; simp
    simp only [check, ok, adds, ih V [] (c :: r) hV']
    by_cases h : ok V b = true <;> simp [h]

/-- `check` never changes the outer contexts and only extends the innermost one. -/
theorem check_some (s : S) (V c r) (hV : ∀ x, x ∈ V ↔ x ∈ (c :: r : Ctx).flatten) (ctx' : Ctx) :
    check (c :: r) s = some ctx' ↔ ok V s = true ∧ ctx' = ((adds s).reverse ++ c) :: r := by
  rw [check_eq s V c r hV]
  by_cases h : ok V s = true
  · simp [h, eq_comm]
  · simp [h]

theorem addAll_some (xs : List String) : ∀ (c : List String) (r : Ctx) (ctx' : Ctx),
    addAll (c :: r) xs = some ctx' ↔
      ((∀ x ∈ xs, x ∉ (c :: r).flatten) ∧ xs.Nodup ∧ ctx' = (xs.reverse ++ c) :: r) := by
  induction xs with
  | nil => intro c r ctx'; simp [addAll, eq_comm]
  | cons x xs ih =>
    intro c r ctx'
    simp only [addAll, add_eq]
    by_cases hx : x ∈ (c :: r).flatten
    · simp only [if_pos hx, reduceCtorEq, false_iff, not_and]
      intro h; exact absurd hx (h x (by simp))
    · simp only [if_neg hx, ih]
      simp only [List.flatten_cons, List.mem_append, List.mem_cons, not_or, List.nodup_cons,
        List.reverse_cons, List.append_assoc, List.singleton_append, forall_eq_or_imp] at hx ⊢
      constructor
      · rintro ⟨h1, h2, h3⟩
        refine ⟨⟨hx, fun y hy => ⟨(h1 y hy).1.2, (h1 y hy).2⟩⟩, ⟨fun hxx => (h1 x hxx).1.1 rfl, h2⟩, h3⟩
      · rintro ⟨⟨_, h1⟩, ⟨h2, h3⟩, h4⟩
        refine ⟨fun y hy => ⟨⟨fun h => h2 (h ▸ hy), (h1 y hy).1⟩, (h1 y hy).2⟩, h3, h4⟩

theorem checkMod_eq_okMod (m : Mod) : checkMod m = okMod m := by
  unfold checkMod okMod
  by_cases hg : m.globals.Nodup
  · have h1 : addAll [[]] m.globals = some [m.globals.reverse] := by
      rw [addAll_some]; simp [hg]
    simp only [h1, hg, decide_true, Bool.true_and]
    congr 1; funext f
    unfold checkFn
    by_cases hp : (m.globals ++ f.params).Nodup
    · have h2 : addAll [[], m.globals.reverse] f.params = some [f.params.reverse, m.globals.reverse] := by
        rw [addAll_some]
        rw [List.nodup_append] at hp
        refine ⟨?_, hp.2.1, by simp⟩
        intro x hx hx'
        simp only [List.flatten_cons, List.flatten_nil, List.append_nil, List.nil_append,
          List.mem_reverse] at hx'
        exact hp.2.2 x hx' x hx rfl
      have hV : ∀ x, x ∈ m.globals ++ f.params ↔
          x ∈ ([f.params.reverse, m.globals.reverse] : Ctx).flatten := by
        intro x; simp [or_comm]
      simp only [h2, hp, decide_true, Bool.true_and, check_eq (.block f.body) _ _ _ hV, ok]
      by_cases h : ok (m.globals ++ f.params) f.body = true <;> simp [h]
    · have h2 : addAll [[], m.globals.reverse] f.params = none := by
        cases h : addAll [[], m.globals.reverse] f.params with
        | none => rfl
        | some ctx' =>
          exfalso; apply hp
          rw [addAll_some] at h
          rw [List.nodup_append]
          refine ⟨hg, h.2.1, ?_⟩
          intro a ha b hb hab
          subst hab
          exact h.1 a hb (by simpa using ha)
      simp [h2, hp]
  · have h1 : addAll [[]] m.globals = none := by
      cases h : addAll [[]] m.globals with
      | none => rfl
      | some ctx' => rw [addAll_some] at h; exact absurd h.2.1 hg
    simp [h1, hg]

/-! ### `ok` against the position-based statement -/

theorem ok_iff_NoRedecl (s : S) : ∀ V, ok V s = true ↔ NoRedecl V s := by
  induction s with
  | decl x =>
    intro V
    simp only [ok, Bool.not_eq_true', List.contains_eq_mem, decide_eq_false_iff_not, NoRedecl]
    constructor
    · intro h p s' y hs hd
      cases p with
      | nil =>
        simp only [subAt, Option.some.injEq] at hs; subst hs
        simp only [declares, Option.some.injEq] at hd; subst hd
        simpa [visibleAt] using h
      | cons d p => cases d <;> simp [subAt] at hs
    · intro h; simpa [visibleAt] using h [] (.decl x) x rfl rfl
  | use x =>
    intro V; simp only [ok, NoRedecl, true_iff]
    intro p s' y hs hd
    cases p with
    | nil => simp only [subAt, Option.some.injEq] at hs; subst hs; simp [declares] at hd
    | cons d p => cases d <;> simp [subAt] at hs
  | skip =>
    intro V; simp only [ok, NoRedecl, true_iff]
    intro p s' y hs hd
    cases p with
    | nil => simp only [subAt, Option.some.injEq] at hs; subst hs; simp [declares] at hd
    | cons d p => cases d <;> simp [subAt] at hs
  | seq a b iha ihb =>
    intro V; simp only [ok, Bool.and_eq_true, iha, ihb, NoRedecl]
    constructor
    · rintro ⟨h1, h2⟩ p s' y hs hd
      cases p with
      | nil => simp only [subAt, Option.some.injEq] at hs; subst hs; simp [declares] at hd
      | cons d p =>
        cases d <;> simp only [subAt, reduceCtorEq] at hs
        · exact h1 p s' y hs hd
        · exact h2 p s' y hs hd
    · intro h
      exact ⟨fun p s' y hs hd => h (.seqL :: p) s' y hs hd,
             fun p s' y hs hd => h (.seqR :: p) s' y hs hd⟩
  | block s ih =>
    intro V; simp only [ok, ih, NoRedecl]
    constructor
    · intro h1 p s' y hs hd
      cases p with
      | nil => simp only [subAt, Option.some.injEq] at hs; subst hs; simp [declares] at hd
      | cons d p =>
        cases d <;> simp only [subAt, reduceCtorEq] at hs
        exact h1 p s' y hs hd
    · intro h p s' y hs hd; exact h (.blk :: p) s' y hs hd
  | ite a b iha ihb =>
    intro V; simp only [ok, Bool.and_eq_true, iha, ihb, NoRedecl]
    constructor
    · rintro ⟨h1, h2⟩ p s' y hs hd
      cases p with
      | nil => simp only [subAt, Option.some.injEq] at hs; subst hs; simp [declares] at hd
      | cons d p =>
        cases d <;> simp only [subAt, reduceCtorEq] at hs
        · exact h1 p s' y hs hd
        · exact h2 p s' y hs hd
    · intro h
      exact ⟨fun p s' y hs hd => h (.iteT :: p) s' y hs hd,
             fun p s' y hs hd => h (.iteE :: p) s' y hs hd⟩
  | forL i b ih =>
    intro V
    cases i with
    | none =>
      simp only [ok, ih, NoRedecl]
      constructor
      · intro h1 p s' y hs hd
        cases p with
        | nil => simp only [subAt, Option.some.injEq] at hs; subst hs; simp [declares] at hd
        | cons d p =>
          cases d <;> simp only [subAt, reduceCtorEq] at hs
          simpa [visibleAt] using h1 p s' y hs hd
      · intro h p s' y hs hd; simpa [visibleAt] using h (.forB :: p) s' y hs hd
    | some i =>
      simp only [ok, Bool.and_eq_true, Bool.not_eq_true', List.contains_eq_mem,
        decide_eq_false_iff_not, ih, NoRedecl]
      constructor
      · rintro ⟨h0, h1⟩ p s' y hs hd
        cases p with
        | nil =>
          simp only [subAt, Option.some.injEq] at hs; subst hs
          simp only [declares, Option.some.injEq] at hd; subst hd
          simpa [visibleAt] using h0
        | cons d p =>
          cases d <;> simp only [subAt, reduceCtorEq] at hs
          simpa [visibleAt] using h1 p s' y hs hd
      · intro h
        refine ⟨by simpa [visibleAt] using h [] _ i rfl rfl, ?_⟩
        intro p s' y hs hd; simpa [visibleAt] using h (.forB :: p) s' y hs hd
  | whileL s ih =>
    intro V; simp only [ok, ih, NoRedecl]
    constructor
    · intro h1 p s' y hs hd
      cases p with
      | nil => simp only [subAt, Option.some.injEq] at hs; subst hs; simp [declares] at hd
      | cons d p =>
        cases d <;> simp only [subAt, reduceCtorEq] at hs
        exact h1 p s' y hs hd
    · intro h p s' y hs hd; exact h (.whileB :: p) s' y hs hd
  | doL s ih =>
    intro V; simp only [ok, ih, NoRedecl]
    constructor
    · intro h1 p s' y hs hd
      cases p with
      | nil => simp only [subAt, Option.some.injEq] at hs; subst hs; simp [declares] at hd
      | cons d p =>
        cases d <;> simp only [subAt, reduceCtorEq] at hs
        exact h1 p s' y hs hd
    · intro h p s' y hs hd; exact h (.doB :: p) s' y hs hd

theorem okMod_iff (m : Mod) : okMod m = true ↔ NoVisibleRedecl m := by
  simp only [okMod, Bool.and_eq_true, decide_eq_true_eq, List.all_eq_true, ok_iff_NoRedecl,
    NoVisibleRedecl]

instance (m : Mod) : Decidable (Spec.NoVisibleRedecl m) :=
  decidable_of_iff _ (okMod_iff m)

end Nsl.Names
