import Nsl.Proofs.VecExpr
/-!
# Vector core, part 8: the expression step `esim_succV` and the argument-list step `asim_succV`
-/
set_option linter.unusedSimpArgs false
namespace Nsl
namespace Vec
open Core VM CoreSem Lower Sim

theorem esim_succV (M : Core.Module) (n : Nat) (ihE : ESimV M n) (ihA : ASimV M n) (ihSt : StSimV M n)
    (ihC : CSimV M n) : ESimV M (n + 1) := by
  intro ps Γ code e fr g v fr' g' h hok hf hg k c o k' q ρ hl hat
  cases e with
  | litI i =>
    simp only [evalE, EOut.val.injEq] at h
    obtain ⟨rfl, rfl, rfl⟩ := h
    simp only [lowerE, Prod.mk.injEq] at hl
    obtain ⟨rfl, rfl, rfl⟩ := hl
    exact ⟨ρ, by simpa using Steps.refl _, rfl, rfl, fun _ _ => rfl, hf, hg⟩
  | litF f =>
    simp only [evalE, EOut.val.injEq] at h
    obtain ⟨rfl, rfl, rfl⟩ := h
    simp only [lowerE, Prod.mk.injEq] at hl
    obtain ⟨rfl, rfl, rfl⟩ := hl
    exact ⟨ρ, by simpa using Steps.refl _, rfl, rfl, fun _ _ => rfl, hf, hg⟩
  | var sc key ty =>
    simp only [okEV, Bool.and_eq_true, beq_iff_eq] at hok
    obtain ⟨root, hroot, hr, rfl, rfl⟩ := evalE_var h
    simp only [lowerE, Prod.mk.injEq] at hl
    obtain ⟨rfl, rfl, rfl⟩ := hl
    have hstep := step_load (cf := callD (lowerModule M) 0) (g := g') (fr := vf ρ fr') hat.head hroot
      (by rw [readRoot_vf]; exact hr) (nonagg_of_shape hok.1)
    rw [setReg_vf] at hstep
    refine ⟨Map.set ρ k v, by simpa using Steps.one 0 hstep, by simp [evalOpd],
      readRoot_fits hok.2 hroot hr hf hg, ?_, hf, hg⟩
    intro r hr'
    exact Map.get_set_ne _ _ _ _ (by omega)
  | bin op ty l r =>
    simp only [okEV, Bool.and_eq_true] at hok
    obtain ⟨⟨hbin, hokl⟩, hokr⟩ := hok
    simp only [evalE] at h
    cases h1 : evalE M n l fr g with
    | fail er => simp [h1] at h
    | val a fr1 g1 =>
      simp only [h1] at h
      cases h2 : evalE M n r fr1 g1 with
      | fail er => simp [h2] at h
      | val b fr2 g2 =>
        simp only [h2] at h
        cases h3 : binSem op ty (Expr.ty l) (Expr.ty r) a b with
        | error er => simp [h3] at h
        | ok z =>
          simp only [h3, EOut.val.injEq] at h
          obtain ⟨rfl, rfl, rfl⟩ := h
          rcases hel : lowerE l k with ⟨cl, vl, k1⟩
          rcases her : lowerE r k1 with ⟨cr, vr, k2⟩
          have le1 := lowerE_mono l k cl vl k1 hel
          have le2 := lowerE_mono r k1 cr vr k2 her
          have ob1 := lowerE_below l k cl vl k1 hel
          have ob2 := lowerE_below r k1 cr vr k2 her
          rw [lowerE_bin op ty l r k hel her] at hl
          simp only [Prod.mk.injEq] at hl
          obtain ⟨rfl, rfl, rfl⟩ := hl
          obtain ⟨ρ1, s1, e1, t1, f1, hf1, hg1⟩ :=
            ihE ps Γ code l fr g a fr1 g1 h1 hokl hf hg k cl vl k1 q ρ hel hat.left.left
          obtain ⟨ρ2, s2, e2, t2, f2, hf2, hg2⟩ :=
            ihE ps Γ code r fr1 g1 b fr2 g2 h2 hokr hf1 hg1 k1 cr vr k2 (q + cl.length) ρ1 her hat.left.right
          have e1' : evalOpd (vf ρ2 fr2) vl = .ok a := evalOpd_frame e1 ob1 f2
          have hcase := okBin_cases hbin
          have hatt : At code (q + cl.length + cr.length) (binTail op ty (Expr.ty l) (Expr.ty r) vl vr k2).1 := by
            have := hat.right
            simpa [Nat.add_assoc] using this
          obtain ⟨ρ3, s3, e3, f3⟩ :=
            bin_tail (lowerModule M) (g := g2) hcase t1 t2 h3 e1' e2 (ob1.mono le2) ob2 hatt
          refine ⟨ρ3, ?_, e3, binSem_typed hcase t1 t2 h3, ?_, hf2, hg2⟩
          · have := (s1.trans s2).trans s3
            simpa [Nat.add_assoc] using this
          · intro r' hr'
            rw [f3 r' (by omega), f2 r' (by omega), f1 r' hr']
  | cast ty x =>
    simp only [okEV, Bool.and_eq_true] at hok
    simp only [evalE] at h
    cases h1 : evalE M n x fr g with
    | fail er => simp [h1] at h
    | val a fr1 g1 =>
      simp only [h1] at h
      cases h3 : castExec ty a with
      | error er => simp [h3] at h
      | ok z =>
        simp only [h3, EOut.val.injEq] at h
        obtain ⟨rfl, rfl, rfl⟩ := h
        rcases hel : lowerE x k with ⟨cl, vl, k1⟩
        have le1 := lowerE_mono x k cl vl k1 hel
        simp only [lowerE, hel, Prod.mk.injEq] at hl
        obtain ⟨rfl, rfl, rfl⟩ := hl
        obtain ⟨ρ1, s1, e1, t1, f1, hf1, hg1⟩ := ihE ps Γ code x fr g a fr1 g1 h1 hok.2 hf hg k cl vl k1 q ρ hel hat.left
        have hstep := step_cast (cf := callD (lowerModule M) 0) (g := g1) hat.right.head e1 (fits_noPtr t1) h3
        rw [setReg_vf] at hstep
        refine ⟨Map.set ρ1 k1 z, ?_, by simp [evalOpd], castExec_typed hok.1 t1 h3, ?_, hf1, hg1⟩
        · have := s1.trans (Steps.one 0 hstep)
          simpa [Nat.add_assoc] using this
        · intro r' hr'
          rw [Map.get_set_ne _ _ _ _ (by omega), f1 r' hr']
  | assign lhs rhs =>
    simp only [okEV, Bool.and_eq_true, beq_iff_eq] at hok
    obtain ⟨⟨⟨hform, hsh⟩, hoklhs⟩, hokrhs⟩ := hok
    simp only [evalE] at h
    cases h1 : evalE M n rhs fr g with
    | fail er => simp [h1] at h
    | val a fr1 g1 =>
      simp only [h1] at h
      cases h2 : storeTo M n lhs a fr1 g1 with
      | fail er => simp [h2] at h
      | val w fr2 g2 =>
        simp only [h2, EOut.val.injEq] at h
        obtain ⟨rfl, rfl, rfl⟩ := h
        rcases hel : lowerE rhs k with ⟨cl, vl, k1⟩
        rcases hes : lowerStore lhs vl k1 with ⟨cs, k2⟩
        have ob1 := lowerE_below rhs k cl vl k1 hel
        have le1 := lowerE_mono rhs k cl vl k1 hel
        simp only [lowerE, hel, hes, Prod.mk.injEq] at hl
        obtain ⟨rfl, rfl, rfl⟩ := hl
        obtain ⟨ρ1, s1, e1, t1, f1, hf1, hg1⟩ :=
          ihE ps Γ code rhs fr g a fr1 g1 h1 hokrhs hf hg k cl vl k1 q ρ hel hat.left
        have t1' : fits (shape (Expr.ty lhs)) a = true := by rw [hsh]; exact t1
        obtain ⟨ρ2, s2, f2, hf2, hg2⟩ :=
          ihSt ps Γ code lhs a fr1 g1 w fr2 g2 h2 hform hoklhs t1' hf1 hg1 vl k1 cs k2 (q + cl.length) ρ1 hes hat.right e1 ob1
        refine ⟨ρ2, ?_, evalOpd_frame e1 ob1 f2, t1', ?_, hf2, hg2⟩
        · have := s1.trans s2
          simpa [Nat.add_assoc] using this
        · intro r' hr'
          rw [f2 r' (by omega), f1 r' hr']
  | affix post inc x =>
    simp only [okEV, Bool.and_eq_true] at hok
    obtain ⟨⟨hform, hsc⟩, hokx⟩ := hok
    simp only [evalE] at h
    cases h1 : evalE M n x fr g with
    | fail er => simp [h1] at h
    | val old fr1 g1 =>
      simp only [h1] at h
      cases h3 : scalarBin (if inc then SOp.add else SOp.sub) (scIsInt (Expr.ty x)) old (.int 1) with
      | error er => simp [h3] at h
      | ok new =>
        simp only [h3] at h
        cases h2 : storeTo M n x new fr1 g1 with
        | fail er => simp [h2] at h
        | val w fr2 g2 =>
          simp only [h2, EOut.val.injEq] at h
          obtain ⟨rfl, rfl, rfl⟩ := h
          rcases hel : lowerE x k with ⟨cl, vl, k1⟩
          rcases hes : lowerStore x (.ref k1) (k1 + 1) with ⟨cs, k2⟩
          have ob1 := lowerE_below x k cl vl k1 hel
          have le1 := lowerE_mono x k cl vl k1 hel
          simp only [lowerE, hel, hes, Prod.mk.injEq] at hl
          obtain ⟨rfl, rfl, rfl⟩ := hl
          obtain ⟨ρ1, s1, e1, t1, f1, hf1, hg1⟩ :=
            ihE ps Γ code x fr g old fr1 g1 h1 hokx hf hg k cl vl k1 q ρ hel hat.left.left
          have hnew : fits (shape (Expr.ty x)) new = true := fits_shape_atom hsc (scalarBin_atom h3)
          have st1 := one_bin (lowerModule M) (g := g1) (fr := fr1) (ρ := ρ1) (dst := k1)
            (o := .s (if inc then SOp.add else SOp.sub)) (ty := Expr.ty x) (x := vl) (y := .cInt 1)
            (a := old) (b := .int 1) (z := new) hat.left.right.head e1 (fits_noPtr t1) (by simp [evalOpd]) rfl
            (by simpa [binExec] using h3)
          obtain ⟨ρ2, s2, f2, hf2, hg2⟩ :=
            ihSt ps Γ code x new fr1 g1 w fr2 g2 h2 hform hokx hnew hf1 hg1 (.ref k1) (k1 + 1) cs k2
              (q + cl.length + 1) (Map.set ρ1 k1 new) hes (by simpa [Nat.add_assoc] using hat.right)
              (evalOpd_vf_ref _ _ k1 _ (by rw [Map.get_set_eq])) (by simp [OpdBelow])
          refine ⟨ρ2, ?_, ?_, ?_, ?_, hf2, hg2⟩
          · have := (s1.trans st1).trans s2
            simpa [Nat.add_assoc, Nat.add_comm 1] using this
          · cases post
            · simp only [Bool.false_eq_true, if_false]
              refine evalOpd_vf_ref _ _ k1 _ ?_
              rw [f2 k1 (by omega), Map.get_set_eq]
            · simp only [if_true]
              refine evalOpd_frame e1 ob1 ?_
              intro r' hr'
              rw [f2 r' (by omega), Map.get_set_ne _ _ _ _ (by omega)]
          · cases post
            · simpa [Expr.ty] using hnew
            · simpa [Expr.ty] using t1
          · intro r' hr'
            rw [f2 r' (by omega), Map.get_set_ne _ _ _ _ (by omega), f1 r' hr']
  | call fn ty args =>
    simp only [okEV, Bool.and_eq_true] at hok
    obtain ⟨hsig, hokargs⟩ := hok
    cases hfn : findFn M fn with
    | none => simp [hfn] at hsig
    | some callee =>
      simp only [hfn, Bool.and_eq_true, beq_iff_eq] at hsig
      simp only [evalE] at h
      cases h1 : evalArgs M n args fr g with
      | fail er => simp [h1] at h
      | vals vs fr1 g1 =>
        simp only [h1] at h
        cases h2 : callFn M n fn vs g1 with
        | fail er => simp [h2] at h
        | done w g2 as =>
          simp only [h2, EOut.val.injEq] at h
          obtain ⟨rfl, rfl, rfl⟩ := h
          rcases hel : lowerArgs args k with ⟨cl, os, k1⟩
          have le1 := lowerArgs_mono args k cl os k1 hel
          simp only [lowerE, hel, Prod.mk.injEq] at hl
          obtain ⟨rfl, rfl, rfl⟩ := hl
          obtain ⟨ρ1, s1, e1, ta, f1, hf1, hg1⟩ :=
            ihA ps Γ code args fr g vs fr1 g1 h1 hokargs hf hg k cl os k1 q ρ hel hat.left
          have hfit : ∀ f, findFn M fn = some f → ArgsFit f.params vs := by
            intro f hf'
            rw [hfn] at hf'; cases hf'
            exact argsMatch_fit _ _ _ hsig.2 ta
          obtain ⟨D, hcall, hret, hg2⟩ := ihC fn vs g1 w g2 as h2 hfit hg1
          have hstep := step_call (cf := callD (lowerModule M) D) hat.right.head (evalVals_of_noPtr e1) hcall
          rw [setReg_vf] at hstep
          refine ⟨Map.set ρ1 k1 w, ?_, by simp [evalOpd], ?_, ?_, hf1, hg2⟩
          · have := s1.trans (Steps.one D hstep)
            simpa [Nat.add_assoc] using this
          · simp only [Expr.ty]; rw [hsig.1]; exact hret callee hfn
          · intro r' hr'
            rw [Map.get_set_ne _ _ _ _ (by omega), f1 r' hr']
  | index kd ty base idx =>
    simp only [okEV, Bool.and_eq_true] at hok
    obtain ⟨⟨hidx, hokb⟩, hoki⟩ := hok
    rcases hel : lowerE base k with ⟨cb, vb, k1⟩
    rcases her : lowerE idx k1 with ⟨ci, vi, k2⟩
    have le1 := lowerE_mono base k cb vb k1 hel
    have le2 := lowerE_mono idx k1 ci vi k2 her
    have ob1 := lowerE_below base k cb vb k1 hel
    cases kd with
    | arr => simp [okIdx] at hidx
    | vec =>
      obtain ⟨nn, hbt, hty, hit⟩ := okIdx_vec hidx
      simp only [evalE] at h
      cases h1 : evalE M n base fr g with
      | fail er => simp [h1] at h
      | val b fr1 g1 =>
        simp only [h1] at h
        cases h2 : evalE M n idx fr1 g1 with
        | fail er => simp [h2] at h
        | val i fr2 g2 =>
          simp only [h2] at h
          cases hk : indexOf b i with
          | error er => simp [hk, bind, Except.bind] at h
          | ok kk =>
            cases hx : getKey b (.idx kk) with
            | error er => simp [hk, hx, bind, Except.bind] at h
            | ok x =>
              simp only [hk, hx, bind, Except.bind, EOut.val.injEq] at h
              obtain ⟨rfl, rfl, rfl⟩ := h
              simp only [lowerE, hel, her, Prod.mk.injEq] at hl
              obtain ⟨rfl, rfl, rfl⟩ := hl
              obtain ⟨ρ1, s1, e1, t1, f1, hf1, hg1⟩ :=
                ihE ps Γ code base fr g b fr1 g1 h1 hokb hf hg k cb vb k1 q ρ hel hat.left.left
              obtain ⟨ρ2, s2, e2, t2, f2, hf2, hg2⟩ :=
                ihE ps Γ code idx fr1 g1 i fr2 g2 h2 hoki hf1 hg1 k1 ci vi k2 (q + cb.length) ρ1 her hat.left.right
              have e1' : evalOpd (vf ρ2 fr2) vb = .ok b := evalOpd_frame e1 ob1 f2
              have hc : code[q + cb.length + ci.length]? = some (.vecGet k2 ty vb vi) := by
                have := hat.right.head
                simpa [Nat.add_assoc] using this
              have hstep := step_vecGet (cf := callD (lowerModule M) 0) (g := g2) hc e1' (fits_noPtr t1) e2
                (fits_noPtr t2) hk hx
              rw [setReg_vf] at hstep
              rw [hbt] at t1
              refine ⟨Map.set ρ2 k2 x, ?_, by simp [evalOpd], ?_, ?_, hf2, hg2⟩
              · have := (s1.trans s2).trans (Steps.one 0 hstep)
                simpa [Nat.add_assoc] using this
              · simp only [Expr.ty]; rw [hty, fits_atom]; exact getKey_vec t1 hx
              · intro r' hr'
                rw [Map.get_set_ne _ _ _ _ (by omega), f2 r' (by omega), f1 r' hr']
    | mat =>
      obtain ⟨rr, cc, hbt, hty, hit⟩ := okIdx_mat hidx
      simp only [evalE] at h
      cases h1 : evalE M n base fr g with
      | fail er => simp [h1] at h
      | val b fr1 g1 =>
        simp only [h1] at h
        cases h2 : evalE M n idx fr1 g1 with
        | fail er => simp [h2] at h
        | val i fr2 g2 =>
          simp only [h2] at h
          cases hk : indexOf b i with
          | error er => simp [hk, bind, Except.bind] at h
          | ok kk =>
            cases hx : getKey b (.idx kk) with
            | error er => simp [hk, hx, bind, Except.bind] at h
            | ok x =>
              simp only [hk, hx, bind, Except.bind, EOut.val.injEq] at h
              obtain ⟨rfl, rfl, rfl⟩ := h
              simp only [lowerE, hel, her, Prod.mk.injEq] at hl
              obtain ⟨rfl, rfl, rfl⟩ := hl
              obtain ⟨ρ1, s1, e1, t1, f1, hf1, hg1⟩ :=
                ihE ps Γ code base fr g b fr1 g1 h1 hokb hf hg k cb vb k1 q ρ hel hat.left.left
              obtain ⟨ρ2, s2, e2, t2, f2, hf2, hg2⟩ :=
                ihE ps Γ code idx fr1 g1 i fr2 g2 h2 hoki hf1 hg1 k1 ci vi k2 (q + cb.length) ρ1 her hat.left.right
              have e1' : evalOpd (vf ρ2 fr2) vb = .ok b := evalOpd_frame e1 ob1 f2
              have hc : code[q + cb.length + ci.length]? = some (.matGet k2 ty vb vi) := by
                have := hat.right.head
                simpa [Nat.add_assoc] using this
              have hstep := step_matGet (cf := callD (lowerModule M) 0) (g := g2) hc e1' (fits_noPtr t1) e2
                (fits_noPtr t2) hk hx
              rw [setReg_vf] at hstep
              rw [hbt] at t1
              refine ⟨Map.set ρ2 k2 x, ?_, by simp [evalOpd], ?_, ?_, hf2, hg2⟩
              · have := (s1.trans s2).trans (Steps.one 0 hstep)
                simpa [Nat.add_assoc] using this
              · simp only [Expr.ty]; rw [hty, fits_vec]; exact getKey_mat t1 hx
              · intro r' hr'
                rw [Map.get_set_ne _ _ _ _ (by omega), f2 r' (by omega), f1 r' hr']
  | member ty b f => simp [okEV] at hok
  | swizzle ty base idxs =>
    simp only [okEV, Bool.and_eq_true] at hok
    obtain ⟨⟨hvec, hswz⟩, hokb⟩ := hok
    obtain ⟨sb, nb, hbt⟩ := isVector_shape hvec
    simp only [evalE] at h
    cases h1 : evalE M n base fr g with
    | fail er => simp [h1] at h
    | val b fr1 g1 =>
      simp only [h1] at h
      cases h3 : shuffleExec ty b b idxs with
      | error er => simp [h3] at h
      | ok z =>
        simp only [h3, EOut.val.injEq] at h
        obtain ⟨rfl, rfl, rfl⟩ := h
        rcases hel : lowerE base k with ⟨cl, vl, k1⟩
        have le1 := lowerE_mono base k cl vl k1 hel
        simp only [lowerE, hel, Prod.mk.injEq] at hl
        obtain ⟨rfl, rfl, rfl⟩ := hl
        obtain ⟨ρ1, s1, e1, t1, f1, hf1, hg1⟩ := ihE ps Γ code base fr g b fr1 g1 h1 hokb hf hg k cl vl k1 q ρ hel hat.left
        have hstep := step_shuffle (cf := callD (lowerModule M) 0) (g := g1) hat.right.head e1 (fits_noPtr t1) e1
          (fits_noPtr t1) h3
        rw [setReg_vf] at hstep
        rw [hbt, shape] at t1
        refine ⟨Map.set ρ1 k1 z, ?_, by simp [evalOpd], shuffleExec_read_typed t1 hswz h3, ?_, hf1, hg1⟩
        · have := s1.trans (Steps.one 0 hstep)
          simpa [Nat.add_assoc] using this
        · intro r' hr'
          rw [Map.get_set_ne _ _ _ _ (by omega), f1 r' hr']
  | construct ty args =>
    simp only [okEV, Bool.and_eq_true] at hok
    obtain ⟨hcons, hokargs⟩ := hok
    simp only [evalE] at h
    cases h1 : evalArgs M n args fr g with
    | fail er => simp [h1] at h
    | vals vs fr1 g1 =>
      simp only [h1] at h
      cases h3 : constructExec ty vs with
      | error er => simp [h3] at h
      | ok z =>
        simp only [h3, EOut.val.injEq] at h
        obtain ⟨rfl, rfl, rfl⟩ := h
        rcases hel : lowerArgs args k with ⟨cl, os, k1⟩
        have le1 := lowerArgs_mono args k cl os k1 hel
        simp only [lowerE, hel, Prod.mk.injEq] at hl
        obtain ⟨rfl, rfl, rfl⟩ := hl
        obtain ⟨ρ1, s1, e1, ta, f1, hf1, hg1⟩ :=
          ihA ps Γ code args fr g vs fr1 g1 h1 hokargs hf hg k cl os k1 q ρ hel hat.left
        have hstep := step_construct (cf := callD (lowerModule M) 0) (g := g1) hat.right.head e1 h3
        rw [setReg_vf] at hstep
        refine ⟨Map.set ρ1 k1 z, ?_, by simp [evalOpd], constructExec_typed hcons ta h3, ?_, hf1, hg1⟩
        · have := s1.trans (Steps.one 0 hstep)
          simpa [Nat.add_assoc] using this
        · intro r' hr'
          rw [Map.get_set_ne _ _ _ _ (by omega), f1 r' hr']

theorem asim_succV (M : Core.Module) (n : Nat) (ihE : ESimV M n) (ihA : ASimV M n) : ASimV M (n + 1) := by
  intro ps Γ code as fr g vs fr' g' h hok hf hg k c os k' q ρ hl hat
  cases as with
  | nil =>
    simp only [evalArgs, AOut.vals.injEq] at h
    obtain ⟨rfl, rfl, rfl⟩ := h
    simp only [lowerArgs, Prod.mk.injEq] at hl
    obtain ⟨rfl, rfl, rfl⟩ := hl
    exact ⟨ρ, by simpa using Steps.refl _, trivial, trivial, fun _ _ => rfl, hf, hg⟩
  | cons e rest =>
    simp only [okArgsV, Bool.and_eq_true] at hok
    simp only [evalArgs] at h
    cases h1 : evalE M n e fr g with
    | fail er => simp [h1] at h
    | val a fr1 g1 =>
      simp only [h1] at h
      cases h2 : evalArgs M n rest fr1 g1 with
      | fail er => simp [h2] at h
      | vals ws fr2 g2 =>
        simp only [h2, AOut.vals.injEq] at h
        obtain ⟨rfl, rfl, rfl⟩ := h
        rcases hel : lowerE e k with ⟨c1, v1, k1⟩
        rcases her : lowerArgs rest k1 with ⟨c2, os2, k2⟩
        have le1 := lowerE_mono e k c1 v1 k1 hel
        have ob1 := lowerE_below e k c1 v1 k1 hel
        simp only [lowerArgs, hel, her, Prod.mk.injEq] at hl
        obtain ⟨rfl, rfl, rfl⟩ := hl
        obtain ⟨ρ1, s1, e1, t1, f1, hf1, hg1⟩ := ihE ps Γ code e fr g a fr1 g1 h1 hok.1 hf hg k c1 v1 k1 q ρ hel hat.left
        obtain ⟨ρ2, s2, e2, t2, f2, hf2, hg2⟩ :=
          ihA ps Γ code rest fr1 g1 ws fr2 g2 h2 hok.2 hf1 hg1 k1 c2 os2 k2 (q + c1.length) ρ1 her hat.right
        refine ⟨ρ2, ?_, ⟨⟨evalOpd_frame e1 ob1 f2, fits_noPtr t1⟩, e2⟩, ⟨t1, t2⟩, ?_, hf2, hg2⟩
        · have := s1.trans s2
          simpa [Nat.add_assoc] using this
        · intro r' hr'
          rw [f2 r' (by omega), f1 r' hr']

end Vec
end Nsl
