import Nsl.Proofs.WFBlock
/-!
# The optimiser preserves the structural well-formedness conditions (C14 for optimised IR)

* `pass_las_blockLocal` – the load-after-store pass keeps value references block-local (the cast pass:
  `pass_cc_blockLocal`); distinct definitions: `pass_defs_nodup` (generic in `decide`);
* `pass_labels`, `pass_targetsOK` – a pass keeps all label markers and the targets of kept branches;
* `pass_callOK`, `callOK_optProgram` – calls keep callee and number of arguments, `find` commutes with `optFn`.
-/
namespace Nsl
namespace Opt
open WF

/-! ## uses of a rewired instruction (general substitution) -/

theorem opdsRefs_subst_gen (σ : Subst) {x : Nat} : ∀ {os : List Opd},
    x ∈ opdsRefs (os.map (substOpd σ)) → ∃ r, r ∈ opdsRefs os ∧ x ∈ opdRefs (substOpd σ (.ref r))
  | [], h => by simp [opdsRefs] at h
  | o :: os, h => by
    simp only [List.map_cons, opdsRefs, List.mem_append] at h
    rcases h with h | h
    · cases o with
      | ref s => exact ⟨s, by simp [opdsRefs, opdRefs], h⟩
      | cInt i => simp [substOpd, opdRefs] at h
      | cFlt f => simp [substOpd, opdRefs] at h
    · obtain ⟨r, hr, hx⟩ := opdsRefs_subst_gen σ h
      exact ⟨r, by simp only [opdsRefs, List.mem_append]; exact Or.inr hr, hx⟩

/-- every reference read by a rewired instruction comes from the image of a reference read by the original -/
theorem uses_subst_gen (σ : Subst) {x : Nat} {i : Instr} (h : x ∈ usesOf (substInstr σ i)) :
    ∃ r, r ∈ usesOf i ∧ x ∈ opdRefs (substOpd σ (.ref r)) := by
  rw [usesOf_eq_opsOf, opsOf_substInstr] at h
  rw [usesOf_eq_opsOf]
  exact opdsRefs_subst_gen σ h

theorem substOpd_ref_congr {σ σ' : Subst} {r : Nat} (h : Map.get σ' r = Map.get σ r) :
    substOpd σ' (.ref r) = substOpd σ (.ref r) := by
  simp only [substOpd, h]

theorem defs_cons_sub {ins : Instr} {rest : List Instr} {r : Nat} (h : r ∈ defs rest) : r ∈ defs (ins :: rest) := by
  cases hd : defOf ins with
  | none => rw [defs_cons_none hd]; exact h
  | some d => rw [defs_cons_some hd]; exact List.mem_cons_of_mem _ h

/-! ## the load-after-store pass keeps references block-local -/

/-- Invariant of the scan (σ = substitution so far, σ' = final substitution, `seen`/`seen'` = references defined so
far in the current block of the original / optimised code):
* references seen so far are not defined again, references still to be defined are not rewired yet;
* if the previous instruction is a store, the stored reference has been seen;
* the image of a seen reference is a constant or a reference seen in the optimised block. -/
theorem las_blockLocal : ∀ (code : List Instr) (prev : Option Instr) (σ : Subst) (out : List Instr) (σ' : Subst)
    (seen seen' : List Nat), scan lasDecide prev code σ = (out, σ') → (defs code).Nodup →
    blockLocal seen code = true →
    (∀ r ∈ seen, r ∉ defs code) →
    (∀ r ∈ defs code, Map.get σ r = none) →
    (∀ sc var src, prev = some (.store sc var src) → ∀ x ∈ opdRefs src, x ∈ seen) →
    (∀ r ∈ seen, ∀ x ∈ opdRefs (substOpd σ (.ref r)), x ∈ seen') →
    (∀ r ∈ seen', r ∈ seen) →
    blockLocal seen' (out.map (substInstr σ')) = true
  | [], prev, σ, out, σ', seen, seen', h, _, _, _, _, _, _, _ => by
    simp only [scan, Prod.mk.injEq] at h
    rw [← h.1]; rfl
  | ins :: rest, prev, σ, out, σ', seen, seen', h, hnd, hbl, hfresh, hun, hprev, himg, hsub => by
    have hstable := scan_get_other lasDecide_def (ins :: rest) prev σ out σ' h
    simp only [scan] at h
    cases hd : lasDecide prev ins σ with
    | some p =>
      obtain ⟨d, o⟩ := p
      simp only [hd] at h
      obtain ⟨ty, sc, var, sc', src, rfl, hpv, rfl⟩ := lasDecide_removable hd
      rw [defs_cons_some (d := d) rfl, List.nodup_cons] at hnd
      simp only [blockLocal, defOf, Bool.and_eq_true] at hbl
      have hdfresh : d ∉ seen := fun hm => hfresh d hm (by rw [defs_cons_some (d := d) rfl]; simp)
      refine las_blockLocal rest _ _ _ _ (d :: seen) seen' h hnd.2 hbl.2.2 ?_ ?_ ?_ ?_ ?_
      · intro r hr
        rcases List.mem_cons.1 hr with rfl | hr
        · exact hnd.1
        · exact fun hm => hfresh r hr (defs_cons_sub hm)
      · intro r hr
        have hne : d ≠ r := fun e => hnd.1 (e ▸ hr)
        rw [Map.get_set_ne _ _ _ _ hne]
        exact hun r (defs_cons_sub hr)
      · intro sc2 var2 src2 he; cases he
      · intro r hr x hx
        rcases List.mem_cons.1 hr with rfl | hr
        · -- the image of the removed load: the image of the stored operand
          have hx' : x ∈ opdRefs (substOpd σ src) := by
            simpa [substOpd, Map.get_set_eq] using hx
          cases src with
          | ref s => exact himg s (hprev _ _ _ hpv s (by simp [opdRefs])) x hx'
          | cInt i => simp [substOpd, opdRefs] at hx'
          | cFlt f => simp [substOpd, opdRefs] at hx'
        · have hne : d ≠ r := fun e => hdfresh (e ▸ hr)
          have : substOpd (Map.set σ d (substOpd σ src)) (.ref r) = substOpd σ (.ref r) :=
            substOpd_ref_congr (Map.get_set_ne _ _ _ _ hne)
          rw [this] at hx
          exact himg r hr x hx
      · intro r hr; exact List.mem_cons_of_mem _ (hsub r hr)
    | none =>
      simp only [hd] at h
      rcases hr : scan lasDecide (some ins) rest σ with ⟨o2, σ2⟩
      simp only [hr, Prod.mk.injEq] at h
      obtain ⟨rfl, rfl⟩ := h
      by_cases hlab : ∃ l, ins = .label l
      · obtain ⟨l, rfl⟩ := hlab
        simp only [blockLocal] at hbl
        rw [defs_cons_none (by rfl)] at hnd
        simp only [List.map_cons, substInstr, blockLocal]
        refine las_blockLocal rest _ _ _ _ [] [] hr hnd hbl (by simp) ?_ ?_ (by simp) (by simp)
        · intro r hr'; exact hun r (defs_cons_sub hr')
        · intro sc2 var2 src2 he; cases he
      · have hnl : ∀ l, ins ≠ .label l := fun l e => hlab ⟨l, e⟩
        rw [blockLocal_cons_nonlabel hnl] at hbl
        rw [List.map_cons, blockLocal_cons_nonlabel (substInstr_nonlabel σ2 hnl), defOf_substInstr]
        simp only [Bool.and_eq_true, List.all_eq_true, List.contains_iff_mem] at hbl ⊢
        obtain ⟨huse, hrest⟩ := hbl
        have huse' : ∀ r ∈ usesOf ins, r ∈ seen := fun r hr' => by simpa using huse r hr'
        have hprev' : ∀ (seenN : List Nat), (∀ r ∈ seen, r ∈ seenN) → ∀ sc var src,
            some ins = some (.store sc var src) → ∀ x ∈ opdRefs src, x ∈ seenN := by
          intro seenN hs sc var src he x hx
          simp only [Option.some.injEq] at he
          subst he
          exact hs x (huse' x (by simpa [usesOf] using hx))
        constructor
        · intro x hx
          obtain ⟨r, hr1, hr2⟩ := uses_subst_gen σ2 hx
          have hrs := huse' r hr1
          rw [substOpd_ref_congr (hstable r (hfresh r hrs))] at hr2
          simpa using himg r hrs x hr2
        · cases hdd : defOf ins with
          | none =>
            simp only [hdd] at hrest ⊢
            rw [defs_cons_none hdd] at hnd
            refine las_blockLocal rest _ _ _ _ seen seen' hr hnd hrest ?_ ?_ (hprev' seen (fun _ h => h)) himg hsub
            · intro r hr' hm; exact hfresh r hr' (defs_cons_sub hm)
            · intro r hr'; exact hun r (defs_cons_sub hr')
          | some d =>
            simp only [hdd, Bool.and_eq_true, Bool.not_eq_true', List.contains_eq_mem,
              decide_eq_false_iff_not] at hrest ⊢
            rw [defs_cons_some hdd, List.nodup_cons] at hnd
            have hdun : Map.get σ d = none := hun d (by rw [defs_cons_some hdd]; simp)
            refine ⟨fun hm => hrest.1 (hsub d hm), ?_⟩
            refine las_blockLocal rest _ _ _ _ (d :: seen) (d :: seen') hr hnd.2 hrest.2 ?_ ?_
              (hprev' (d :: seen) (fun _ h => List.mem_cons_of_mem _ h)) ?_ ?_
            · intro r hr'
              rcases List.mem_cons.1 hr' with rfl | hr'
              · exact hnd.1
              · exact fun hm => hfresh r hr' (defs_cons_sub hm)
            · intro r hr'; exact hun r (defs_cons_sub hr')
            · intro r hr' x hx
              rcases List.mem_cons.1 hr' with rfl | hr'
              · have : x = r := by simpa [substOpd, hdun, opdRefs] using hx
                subst this
                exact List.mem_cons_self
              · exact List.mem_cons_of_mem _ (himg r hr' x hx)
            · intro r hr'
              rcases List.mem_cons.1 hr' with rfl | hr'
              · exact List.mem_cons_self
              · exact List.mem_cons_of_mem _ (hsub r hr')

/-- The load-after-store pass keeps value references block-local. -/
theorem pass_las_blockLocal {code : List Instr} (hbl : blockLocal [] code = true) (hnd : (defs code).Nodup) :
    blockLocal [] (pass lasDecide code) = true := by
  rcases hs : scan lasDecide none code [] with ⟨out, σf⟩
  rw [pass_eq hs]
  exact las_blockLocal code none [] out σf [] [] hs hnd hbl (by simp) (by intro r _; rfl)
    (by intro sc var src he; cases he) (by simp) (by simp)

/-- Both passes. -/
theorem optCode_blockLocal {code : List Instr} (hbl : blockLocal [] code = true) (hnd : (defs code).Nodup) :
    blockLocal [] (optCode code) = true :=
  pass_las_blockLocal (pass_cc_blockLocal hbl hnd) (pass_defs_nodup ccDecide hnd)

theorem optCode_defs_nodup {code : List Instr} (hnd : (defs code).Nodup) : (defs (optCode code)).Nodup :=
  pass_defs_nodup lasDecide (pass_defs_nodup ccDecide hnd)

theorem optCode_defsDistinct {code : List Instr} (hd : defsDistinct code = true) :
    defsDistinct (optCode code) = true :=
  nodup_defsDistinct (optCode_defs_nodup (defsDistinct_nodup hd))

/-! ## labels -/

section
variable {decide : Option Instr → Instr → Subst → Option (Nat × Opd)}

theorem labelOf_substInstr (σ : Subst) (i : Instr) : labelOf (substInstr σ i) = labelOf i := by
  cases i <;> first | rfl | (rename_i o; cases o <;> rfl)

theorem targetsOf_substInstr (σ : Subst) (i : Instr) : targetsOf (substInstr σ i) = targetsOf i := by
  cases i <;> first | rfl | (rename_i o; cases o <;> rfl)

theorem scan_labels (hdef : DecideDef decide) (σ'' : Subst) : ∀ (code : List Instr) (prev : Option Instr)
    (σ : Subst) (out : List Instr) (σ' : Subst), scan decide prev code σ = (out, σ') →
    (out.map (substInstr σ'')).filterMap labelOf = code.filterMap labelOf
  | [], prev, σ, out, σ', h => by
    simp only [scan, Prod.mk.injEq] at h
    rw [← h.1]; rfl
  | ins :: rest, prev, σ, out, σ', h => by
    simp only [scan] at h
    cases hd : decide prev ins σ with
    | some p =>
      obtain ⟨d, o⟩ := p
      simp only [hd] at h
      have hl : labelOf ins = none := by
        have := hdef _ _ _ _ _ hd
        cases ins <;> simp [defOf] at this <;> rfl
      rw [List.filterMap_cons_none hl]
      exact scan_labels hdef σ'' rest _ _ _ _ h
    | none =>
      simp only [hd] at h
      rcases hr : scan decide (some ins) rest σ with ⟨o2, σ2⟩
      simp only [hr, Prod.mk.injEq] at h
      obtain ⟨rfl, rfl⟩ := h
      have ih := scan_labels hdef σ'' rest _ _ _ _ hr
      simp only [List.map_cons, List.filterMap_cons, labelOf_substInstr, ih]

/-- A pass keeps exactly the label markers of its input, in order. -/
theorem pass_labels (hdef : DecideDef decide) (code : List Instr) :
    (pass decide code).filterMap labelOf = code.filterMap labelOf := by
  rcases hs : scan decide none code [] with ⟨out, σf⟩
  rw [pass_eq hs]
  exact scan_labels hdef σf code none [] out σf hs

theorem pass_labelsDistinct (hdef : DecideDef decide) {code : List Instr} (h : labelsDistinct code = true) :
    labelsDistinct (pass decide code) = true := by
  unfold labelsDistinct at h ⊢
  rw [pass_labels hdef]
  exact h

/-- every instruction of the output of a pass is a rewired instruction of the input -/
theorem mem_pass {code : List Instr} {i' : Instr} (h : i' ∈ pass decide code) :
    ∃ σ ins, ins ∈ code ∧ i' = substInstr σ ins := by
  rcases hs : scan decide none code [] with ⟨out, σf⟩
  rw [pass_eq hs] at h
  obtain ⟨ins, hm, rfl⟩ := List.mem_map.1 h
  exact ⟨σf, ins, (scan_sublist' hs).subset hm, rfl⟩

theorem pass_targetsOK (hdef : DecideDef decide) {code : List Instr} (h : targetsOK code = true) :
    targetsOK (pass decide code) = true := by
  simp only [targetsOK, List.all_eq_true] at h ⊢
  intro i' hi' l hl
  obtain ⟨σ, ins, hm, rfl⟩ := mem_pass hi'
  rw [targetsOf_substInstr] at hl
  have := h ins hm l hl
  rw [pass_labelPos hdef]
  cases hp : labelPos code l with
  | none => simp [hp] at this
  | some p => simp

end

theorem optCode_labelsDistinct {code : List Instr} (h : labelsDistinct code = true) :
    labelsDistinct (optCode code) = true :=
  pass_labelsDistinct lasDecide_def (pass_labelsDistinct ccDecide_def h)

theorem optCode_targetsOK {code : List Instr} (h : targetsOK code = true) : targetsOK (optCode code) = true :=
  pass_targetsOK lasDecide_def (pass_targetsOK ccDecide_def h)

/-! ## calls -/

theorem callOK_substInstr (P : Program) (σ : Subst) (i : Instr) : callOK P (substInstr σ i) = callOK P i := by
  cases i with
  | ret o => cases o <;> rfl
  | call d t f args => simp [substInstr, callOK]
  | _ => rfl

theorem find_optProgram (P : Program) (name : String) : (optProgram P).find name = (P.find name).map optFn := by
  unfold Program.find optProgram
  simp only
  induction P.funcs with
  | nil => rfl
  | cons f rest ih =>
    simp only [List.map_cons, List.find?_cons]
    have : (optFn f).name = f.name := rfl
    rw [this]
    cases f.name == name
    · simpa using ih
    · simp

theorem callOK_optProgram (P : Program) (i : Instr) : callOK (optProgram P) i = callOK P i := by
  cases i with
  | call d t f args =>
    simp only [callOK, find_optProgram]
    cases P.find f with
    | none => rfl
    | some callee => rfl
  | _ => rfl

theorem optFn_callsOK {fn : Func} {P : Program} (h : callsOK fn P = true) :
    callsOK (optFn fn) (optProgram P) = true := by
  simp only [callsOK, List.all_eq_true] at h ⊢
  intro i2 hi2
  have hi2' : i2 ∈ pass lasDecide (pass ccDecide fn.code) := hi2
  obtain ⟨σ2, i1, hm1, rfl⟩ := mem_pass hi2'
  obtain ⟨σ1, i0, hm0, rfl⟩ := mem_pass hm1
  rw [callOK_optProgram, callOK_substInstr, callOK_substInstr]
  exact h i0 hm0

/-! ## all conditions together -/

theorem optFn_wfChecks {fn : Func} {P : Program} (h : wfChecks fn P = true) :
    wfChecks (optFn fn) (optProgram P) = true := by
  simp only [wfChecks, Bool.and_eq_true] at h ⊢
  obtain ⟨⟨⟨⟨hb, hd⟩, hl⟩, ht⟩, hc⟩ := h
  exact ⟨⟨⟨⟨optCode_blockLocal hb (defsDistinct_nodup hd), optCode_defsDistinct hd⟩, optCode_labelsDistinct hl⟩,
    optCode_targetsOK ht⟩, optFn_callsOK hc⟩

end Opt
end Nsl
