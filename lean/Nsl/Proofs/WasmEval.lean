import Nsl.Model.WasmEval
import Nsl.Proofs.WasmGen
import Nsl.Proofs.StepLemmas
/-!
# Helper lemmas for C06 (the WebAssembly backend agrees with the VM or refuses)
-/
set_option linter.unusedSimpArgs false

namespace Nsl.Wasm
open Nsl.Leb

/-! ## 1. Refusal -/

theorem transInstr_unsupported {fb argc ents i} (h : supported i = false) :
    ∃ e, transInstr fb argc ents i = .error e := by
  cases i with
  | label l => simp [supported] at h
  | load dst ty sc var =>
    cases sc <;> cases var <;> simp [supported] at h <;> exact ⟨_, rfl⟩
  | store sc var src =>
    cases sc <;> cases var <;> simp [supported] at h <;> exact ⟨_, rfl⟩
  | bin dst op ty a b =>
    cases op with
    | s o =>
      cases o <;> simp [supported] at h <;>
        (simp only [transInstr, selectOp, isSelCmp, numOpFor, Bool.false_eq_true, if_false]
         cases otOfITy ty <;> exact ⟨_, rfl⟩)
    | _ => exact ⟨_, rfl⟩
  | ret v => simp [supported] at h
  | _ => exact ⟨_, rfl⟩

theorem transCode_error {fb argc ents} : ∀ (code : List Instr) (i : Instr), i ∈ code →
    (∃ e, transInstr fb argc ents i = .error e) → ∃ e, transCode fb argc ents code = .error e
  | [], i, hi, _ => by simp at hi
  | j :: js, i, hi, he => by
    simp only [transCode]
    cases hj : transInstr fb argc ents j with
    | error e => exact ⟨e, rfl⟩
    | ok ws =>
      rcases List.mem_cons.1 hi with rfl | hi
      · obtain ⟨e, he⟩ := he; rw [hj] at he; cases he
      · obtain ⟨e, he'⟩ := transCode_error js i hi he
        simp only [he']
        exact ⟨e, rfl⟩

theorem genFunc_error {fb f} (h : ∃ i ∈ f.code, supported i = false) :
    ∃ e, genFunc fb f = .error e := by
  obtain ⟨i, hi, hs⟩ := h
  cases h1 : convertFuncType f with
  | error e => exact ⟨e, by simp only [genFunc, h1]⟩
  | ok ft =>
    cases h2 : collectEntries f.params f.code [] with
    | error e => exact ⟨e, by simp only [genFunc, h1, h2]⟩
    | ok ents =>
      cases h3 : convertVTs (ents.map (·.2)) with
      | error e => exact ⟨e, by simp only [genFunc, h1, h2, h3]⟩
      | ok vts =>
        obtain ⟨e, he⟩ := transCode_error (fb := fb) (argc := ft.params.length) (ents := ents)
          f.code i hi (transInstr_unsupported hs)
        exact ⟨e, by simp only [genFunc, h1, h2, h3, he]⟩

theorem genFuncs_error {fb} : ∀ (P : List Func) (f : Func), f ∈ P →
    (∃ e, genFunc fb f = .error e) → ∃ e, genFuncs fb P = .error e
  | [], f, hf, _ => by simp at hf
  | g :: gs, f, hf, he => by
    simp only [genFuncs]
    cases hg : genFunc fb g with
    | error e => exact ⟨e, rfl⟩
    | ok x =>
      rcases List.mem_cons.1 hf with rfl | hf
      · obtain ⟨e, he⟩ := he; rw [hg] at he; cases he
      · obtain ⟨e, he'⟩ := genFuncs_error gs f hf he
        simp only [he']
        exact ⟨e, rfl⟩

theorem genWasmWith_error {fb P f} (hf : f ∈ P) (h : ∃ i ∈ f.code, supported i = false) :
    ∃ e, genWasmWith fb P = .error e := by
  obtain ⟨e, he⟩ := genFuncs_error (fb := fb) P f hf (genFunc_error h)
  unfold genWasmWith
  simp only [he]
  exact ⟨e, rfl⟩

/-- A successful translation of an instruction is empty only for a label marker. -/
theorem transInstr_nonempty {fb argc ents i ws} (h : transInstr fb argc ents i = .ok ws)
    (hl : ∀ l, i ≠ .label l) : ws ≠ [] := by
  cases i with
  | label l => exact absurd rfl (hl l)
  | load dst ty sc var =>
    cases sc <;> cases var <;> simp only [transInstr] at h <;> try cases h
    cases hlk : lookupRef ents dst with
    | none => simp [hlk] at h
    | some p => simp only [hlk, Except.ok.injEq] at h; subst h; simp
  | store sc var src =>
    cases sc <;> cases var <;> simp only [transInstr] at h <;> try cases h
    cases hp : pushOpd fb argc ents src with
    | error e => simp [hp] at h
    | ok p => simp only [hp, Except.ok.injEq] at h; subst h; simp
  | bin dst op ty a b =>
    cases op <;> simp only [transInstr] at h <;> try cases h
    rename_i o
    cases hs : selectOp ents o ty a with
    | error e => simp [hs] at h
    | ok nop =>
      cases hpa : pushOpd fb argc ents a with
      | error e => simp [hs, hpa] at h
      | ok pa =>
        cases hpb : pushOpd fb argc ents b with
        | error e => simp [hs, hpa, hpb] at h
        | ok pb =>
          cases hlk : lookupRef ents dst with
          | none => simp [hs, hpa, hpb, hlk] at h
          | some p => simp only [hs, hpa, hpb, hlk, Except.ok.injEq] at h; subst h; simp
  | ret v =>
    cases v with
    | none => simp only [transInstr, Except.ok.injEq] at h; subst h; simp
    | some v =>
      simp only [transInstr] at h
      cases hp : pushOpd fb argc ents v with
      | error e => simp [hp] at h
      | ok p => simp only [hp, Except.ok.injEq] at h; subst h; simp
  | _ => simp [transInstr] at h

/-! ## 2. Arithmetic modulo 2^32 -/

theorem wrap_wrap (x : Int) : wrap (wrap x) = wrap x := by unfold wrap; omega

theorem wrap_add (x y : Int) : wrap (wrap x + wrap y) = wrap (x + y) := by unfold wrap; omega

theorem wrap_sub (x y : Int) : wrap (wrap x - wrap y) = wrap (x - y) := by unfold wrap; omega

theorem wrap_mul (x y : Int) : wrap (wrap x * wrap y) = wrap (x * y) := by
  unfold wrap
  rw [← Int.mul_emod]

theorem wrap_const (v : Int) : wrap (if 2 ^ 31 ≤ v then v - 2 ^ 32 else v) = wrap v := by
  unfold wrap
  split <;> omega

/-! ## 3. Simulation of ring code -/

open VM

/-- Relation between a VM frame and the WebAssembly locals: arguments and defined references hold
integers, and the corresponding local holds the integer reduced modulo 2^32. -/
structure Inv {F : Type} (ents : List Entry) (argc : Nat) (fr : VM.Frame) (ls : List (WVal F)) :
    Prop where
  argsLen : fr.args.length = argc
  lsLen : ls.length = argc + ents.length
  args : ∀ (k : Nat) (v : Val), fr.args[k]? = some v →
    ∃ x : Int, v = Val.int x ∧ ls[k]? = some (WVal.i32 (wrap x))
  regs : ∀ (r : Nat) (v : Val), Map.get fr.regs r = some v →
    ∃ (x : Int) (j : Nat) (t : ITy), v = Val.int x ∧ lookupRef ents r = some (j, t) ∧
      ls[argc + j]? = some (WVal.i32 (wrap x))

theorem lookupRef_lt {ents : List Entry} {r j : Nat} {t : ITy}
    (h : lookupRef ents r = some (j, t)) : j < ents.length := by
  have := lookupRef_getElem ents r j t h
  rcases Nat.lt_or_ge j ents.length with hc | hc
  · exact hc
  · rw [List.getElem?_eq_none hc] at this; cases this

theorem lookupRef_inj {ents : List Entry} {r r' j : Nat} {t t' : ITy}
    (h : lookupRef ents r = some (j, t)) (h' : lookupRef ents r' = some (j, t')) : r = r' := by
  have h1 := lookupRef_getElem ents r j t h
  have h2 := lookupRef_getElem ents r' j t' h'
  rw [h1] at h2
  simp only [Option.some.injEq, Prod.mk.injEq] at h2
  exact h2.1

theorem Inv.setReg {F : Type} {ents argc fr} {ls : List (WVal F)} (h : Inv ents argc fr ls)
    {dst j : Nat} {t : ITy} (hl : lookupRef ents dst = some (j, t)) (x : Int) :
    Inv ents argc (VM.setReg fr dst (.int x)) (ls.set (argc + j) (.i32 (wrap x))) := by
  have hj := lookupRef_lt hl
  refine ⟨h.argsLen, by simp [h.lsLen], ?_, ?_⟩
  · intro k v hk
    simp only [VM.setReg] at hk
    obtain ⟨y, hy, hls⟩ := h.args k v hk
    refine ⟨y, hy, ?_⟩
    have hklt : k < fr.args.length := by
      rcases Nat.lt_or_ge k fr.args.length with hc | hc
      · exact hc
      · rw [List.getElem?_eq_none hc] at hk; cases hk
    have hne : argc + j ≠ k := by have := h.argsLen; omega
    rw [List.getElem?_set_ne hne]; exact hls
  · intro r v hr
    simp only [VM.setReg] at hr
    by_cases hrd : dst = r
    · subst hrd
      rw [Map.get_set_eq] at hr
      simp only [Option.some.injEq] at hr
      refine ⟨x, j, t, hr.symm, hl, ?_⟩
      rw [List.getElem?_set_self (by have := h.lsLen; omega)]
    · rw [Map.get_set_ne _ _ _ _ hrd] at hr
      obtain ⟨y, j', t', hy, hl', hls⟩ := h.regs r v hr
      refine ⟨y, j', t', hy, hl', ?_⟩
      have hne : argc + j ≠ argc + j' := by
        intro hc
        have : j = j' := by omega
        subst this
        exact hrd (lookupRef_inj hl hl')
      rw [List.getElem?_set_ne hne]; exact hls

theorem Inv.setArg {F : Type} {ents argc fr} {ls : List (WVal F)} (h : Inv ents argc fr ls)
    {k : Nat} (hk : k < argc) (x : Int) :
    Inv ents argc { fr with args := fr.args.set k (.int x) } (ls.set k (.i32 (wrap x))) := by
  refine ⟨by simp [h.argsLen], by simp [h.lsLen], ?_, ?_⟩
  · intro k' v hk'
    simp only at hk'
    by_cases hkk : k = k'
    · subst hkk
      rw [List.getElem?_set_self (by have := h.argsLen; omega)] at hk'
      simp only [Option.some.injEq] at hk'
      refine ⟨x, hk'.symm, ?_⟩
      rw [List.getElem?_set_self (by have := h.lsLen; omega)]
    · rw [List.getElem?_set_ne hkk] at hk'
      obtain ⟨y, hy, hls⟩ := h.args k' v hk'
      exact ⟨y, hy, by rw [List.getElem?_set_ne hkk]; exact hls⟩
  · intro r v hr
    obtain ⟨y, j, t, hy, hl, hls⟩ := h.regs r v hr
    refine ⟨y, j, t, hy, hl, ?_⟩
    have hne : k ≠ argc + j := by omega
    rw [List.getElem?_set_ne hne]; exact hls

theorem evalVal_error {fr : VM.Frame} {g : Globals} {o : Opd} {e : Err}
    (h : evalOpd fr o = .error e) : evalVal fr g o = .error e := by
  unfold evalVal
  rw [h]
  rfl

theorem pushOpd_run {F : Type} (O : F32Ops F) {fb ents argc fr} {ls : List (WVal F)} {o w v}
    (hinv : Inv ents argc fr ls) (hp : pushOpd fb argc ents o = .ok w) (hr : ringOpd o = true)
    (hv : evalOpd fr o = .ok v) :
    ∃ x, v = Val.int x ∧ ∀ n rest st,
      runBody O n (w :: rest) ls st = runBody O n rest ls (.i32 (wrap x) :: st) := by
  cases o with
  | ref r =>
    simp only [evalOpd] at hv
    cases hg : Map.get fr.regs r with
    | none => simp [hg] at hv
    | some v' =>
      simp only [hg, Except.ok.injEq] at hv; subst hv
      obtain ⟨x, j, t, hx, hl, hls⟩ := hinv.regs r v' hg
      simp only [pushOpd, hl, Except.ok.injEq] at hp; subst hp
      refine ⟨x, hx, ?_⟩
      intro n rest st
      simp only [runBody, hls]
  | cInt c =>
    simp only [evalOpd, Except.ok.injEq] at hv; subst hv
    simp only [pushOpd] at hp
    split at hp
    · simp only [Except.ok.injEq] at hp; subst hp
      refine ⟨c, rfl, ?_⟩
      intro n rest st
      simp only [runBody, wrap_const]
    · cases hp
  | cFlt f => simp [ringOpd] at hr

theorem run_done_inv {Pg : Program} {fuel : Nat} {f : Func} {pc : Nat} {fr : VM.Frame}
    {g : Globals} {rv : Val} {g' : Globals} {as : List Val}
    (h : VM.run Pg fuel f pc fr g = .done rv g' as) :
    ∃ fuel', fuel = fuel' + 1 ∧
      ((∃ pc' fr' g1, stepI (callD Pg fuel') f.code pc fr g = .next pc' fr' g1 ∧
          VM.run Pg fuel' f pc' fr' g1 = .done rv g' as) ∨
       stepI (callD Pg fuel') f.code pc fr g = .ret rv g' as) := by
  cases fuel with
  | zero => rw [run_zero] at h; cases h
  | succ n =>
    refine ⟨n, rfl, ?_⟩
    rw [run_succ] at h
    cases hs : stepI (callD Pg n) f.code pc fr g with
    | next pc' fr' g1 =>
      simp only [hs] at h
      exact .inl ⟨pc', fr', g1, rfl, h⟩
    | ret v g1 as1 =>
      simp only [hs, Res.done.injEq] at h
      obtain ⟨rfl, rfl, rfl⟩ := h
      exact .inr rfl
    | fail e => simp [hs] at h

theorem selectOp_ring {ents : List Entry} {op : SOp} {ty : ITy} {a : Opd}
    (hop : (op == .add || op == .sub || op == .mul) = true) (hty : isI32Ty ty = true) :
    selectOp ents op ty a =
      .ok (match op with | .add => .i32Add | .sub => .i32Sub | _ => .i32Mul) := by
  cases ty with
  | sc s =>
    cases s <;> simp [isI32Ty] at hty <;>
      (cases op <;> simp at hop <;> simp [selectOp, isSelCmp, otOfITy, numOpFor])
  | _ => simp [isI32Ty] at hty

theorem isI32Ty_notAgg {ty : ITy} (h : isI32Ty ty = true) : ty.isAggregate = false := by
  cases ty <;> simp [isI32Ty] at h <;> rfl

theorem getElem?_mid {α : Type} (pre : List α) (i : α) (rest : List α) :
    (pre ++ i :: rest)[pre.length]? = some i := by
  simp

/-- Straight-line ring code: if the VM, started at the position of the code suffix `suf` in a
state related to the WebAssembly locals, returns the integer `v`, then the translation of `suf`
returns `v mod 2^32`. -/
theorem sim_ring {F : Type} (O : F32Ops F) {fb : Float → Option Nat} {f : Func}
    {ents : List Entry} {argc : Nat} (Pg : Program) :
    ∀ (suf pre : List Instr), f.code = pre ++ suf → suf.all ringInstr = true →
    ∀ (body : List WInstr), transCode fb argc ents suf = .ok body →
    ∀ (fuel : Nat) (fr : VM.Frame) (g : Globals) (ls : List (WVal F)), Inv ents argc fr ls →
    ∀ (v : Int) (g' : Globals) (as : List Val),
      VM.run Pg fuel f pre.length fr g = .done (.int v) g' as →
      runBody O 1 body ls [] = some [.i32 (wrap v)]
  | [], pre, hcode, _, body, _, fuel, fr, g, ls, _, v, g', as, hrun => by
    obtain ⟨n, rfl, hstep⟩ := run_done_inv hrun
    have hc : f.code[pre.length]? = none := by rw [hcode]; simp
    rw [step_end hc] at hstep
    rcases hstep with ⟨_, _, _, h, _⟩ | h <;> cases h
  | i :: rest, pre, hcode, hring, body, hbody, fuel, fr, g, ls, hinv, v, g', as, hrun => by
    obtain ⟨n, rfl, hstep⟩ := run_done_inv hrun
    have hc : f.code[pre.length]? = some i := by rw [hcode]; exact getElem?_mid pre i rest
    have hcode' : f.code = (pre ++ [i]) ++ rest := by rw [hcode]; simp
    have hlen' : (pre ++ [i]).length = pre.length + 1 := by simp
    simp only [List.all_cons, Bool.and_eq_true] at hring
    obtain ⟨hri, hrr⟩ := hring
    simp only [transCode] at hbody
    cases h1 : transInstr fb argc ents i with
    | error e => simp [h1] at hbody
    | ok ws =>
      cases h2 : transCode fb argc ents rest with
      | error e => simp [h1, h2] at hbody
      | ok restb =>
        simp only [h1, h2, Except.ok.injEq] at hbody; subst hbody
        have IH := sim_ring O Pg rest (pre ++ [i]) hcode' hrr restb h2
        rw [hlen'] at IH
        cases i with
        | label l =>
          simp only [transInstr, Except.ok.injEq] at h1; subst h1
          rw [step_label hc] at hstep
          rcases hstep with ⟨pc', fr', g1, h, hrun'⟩ | h
          · simp only [StepOut.next.injEq] at h
            obtain ⟨rfl, rfl, rfl⟩ := h
            simpa using IH n fr g ls hinv v g' as hrun'
          · cases h
        | load dst ty sc var =>
          cases sc <;> cases var <;> simp only [transInstr] at h1 <;> try cases h1
          rename_i k
          simp only [ringInstr] at hri
          cases hl : lookupRef ents dst with
          | none => simp [hl] at h1
          | some p =>
            obtain ⟨j, t⟩ := p
            simp only [hl, Except.ok.injEq] at h1; subst h1
            cases ha : fr.args[k]? with
            | none =>
              have : stepI (callD Pg n) f.code pre.length fr g = .fail (.internal "IndexError-arg") := by
                simp [stepI, hc, liftE, rootOf, readRoot, ha]
              rw [this] at hstep
              rcases hstep with ⟨_, _, _, h, _⟩ | h <;> cases h
            | some va =>
              have hr : readRoot fr g (.arg k) = .ok va := by simp [readRoot, ha]
              rw [step_load hc rfl hr (isI32Ty_notAgg hri)] at hstep
              rcases hstep with ⟨pc', fr', g1, h, hrun'⟩ | h
              · simp only [StepOut.next.injEq] at h
                obtain ⟨rfl, rfl, rfl⟩ := h
                obtain ⟨x, rfl, hls⟩ := hinv.args k va ha
                have hj := lookupRef_lt hl
                have hlt : argc + j < ls.length := by have := hinv.lsLen; omega
                have := IH n _ g _ (hinv.setReg hl x) v g' as hrun'
                simpa [runBody, hls, hlt] using this
              · cases h
        | store sc var src =>
          cases sc <;> cases var <;> simp only [transInstr] at h1 <;> try cases h1
          rename_i k
          simp only [ringInstr] at hri
          cases hp : pushOpd fb argc ents src with
          | error e => simp [hp] at h1
          | ok p =>
            simp only [hp, Except.ok.injEq] at h1; subst h1
            cases hv : evalOpd fr src with
            | error e =>
              have : stepI (callD Pg n) f.code pre.length fr g = .fail e := by
                simp [stepI, hc, liftE, rootOf, hv]
              rw [this] at hstep
              rcases hstep with ⟨_, _, _, h, _⟩ | h <;> cases h
            | ok vs =>
              obtain ⟨x, rfl, hpush⟩ := pushOpd_run O hinv hp hri hv
              by_cases hk : k < fr.args.length
              · have hw : writeRoot fr g (.arg k) (.int x) =
                    .ok ({ fr with args := fr.args.set k (.int x) }, g) := by
                  simp [writeRoot, hk]
                rw [step_store hc rfl hv rfl hw] at hstep
                rcases hstep with ⟨pc', fr', g1, h, hrun'⟩ | h
                · simp only [StepOut.next.injEq] at h
                  obtain ⟨rfl, rfl, rfl⟩ := h
                  have hk' : k < argc := by have := hinv.argsLen; omega
                  have hlt : k < ls.length := by have := hinv.lsLen; omega
                  have := IH n _ g _ (hinv.setArg hk' x) v g' as hrun'
                  simpa [hpush, runBody, hlt] using this
                · cases h
              · have : stepI (callD Pg n) f.code pre.length fr g =
                    .fail (.internal "IndexError-arg") := by
                  simp [stepI, hc, liftE, rootOf, hv, writeRoot, hk]
                rw [this] at hstep
                rcases hstep with ⟨_, _, _, h, _⟩ | h <;> cases h
        | bin dst op ty a b =>
          cases op <;> simp only [transInstr] at h1 <;> try cases h1
          rename_i o
          simp only [ringInstr, Bool.and_eq_true] at hri
          obtain ⟨⟨⟨hop, hty⟩, hra⟩, hrb⟩ := hri
          rw [selectOp_ring hop hty] at h1
          simp only [] at h1
          cases hpa : pushOpd fb argc ents a with
          | error e => simp [hpa] at h1
          | ok pa =>
            cases hpb : pushOpd fb argc ents b with
            | error e => simp [hpa, hpb] at h1
            | ok pb =>
              cases hl : lookupRef ents dst with
              | none => simp [hpa, hpb, hl] at h1
              | some p =>
                obtain ⟨j, t⟩ := p
                simp only [hpa, hpb, hl, Except.ok.injEq] at h1; subst h1
                cases hva : evalOpd fr a with
                | error e =>
                  have : stepI (callD Pg n) f.code pre.length fr g = .fail e := by
                    simp [stepI, hc, liftE, evalVal_error hva]
                  rw [this] at hstep
                  rcases hstep with ⟨_, _, _, h, _⟩ | h <;> cases h
                | ok va =>
                  obtain ⟨x, rfl, hpushA⟩ := pushOpd_run O hinv hpa hra hva
                  cases hvb : evalOpd fr b with
                  | error e =>
                    have : stepI (callD Pg n) f.code pre.length fr g = .fail e := by
                      simp [stepI, hc, liftE, evalVal_of_noPtr hva rfl, evalVal_error hvb]
                    rw [this] at hstep
                    rcases hstep with ⟨_, _, _, h, _⟩ | h <;> cases h
                  | ok vb =>
                    obtain ⟨y, rfl, hpushB⟩ := pushOpd_run O hinv hpb hrb hvb
                    have hj := lookupRef_lt hl
                    have hlt : argc + j < ls.length := by have := hinv.lsLen; omega
                    cases o <;> simp at hop
                    · -- add
                      have hz : binExec (.s .add) ty (.int x) (.int y) = .ok (.int (x + y)) := by
                        simp [binExec, scalarBin]
                      rw [step_bin hc hva rfl hvb rfl hz] at hstep
                      rcases hstep with ⟨pc', fr', g1, h, hrun'⟩ | h
                      · simp only [StepOut.next.injEq] at h
                        obtain ⟨rfl, rfl, rfl⟩ := h
                        have := IH n _ g _ (hinv.setReg hl (x + y)) v g' as hrun'
                        simpa [hpushA, hpushB, runBody, evalNum, wrap_add, hlt] using this
                      · cases h
                    · -- sub
                      have hz : binExec (.s .sub) ty (.int x) (.int y) = .ok (.int (x - y)) := by
                        simp [binExec, scalarBin]
                      rw [step_bin hc hva rfl hvb rfl hz] at hstep
                      rcases hstep with ⟨pc', fr', g1, h, hrun'⟩ | h
                      · simp only [StepOut.next.injEq] at h
                        obtain ⟨rfl, rfl, rfl⟩ := h
                        have := IH n _ g _ (hinv.setReg hl (x - y)) v g' as hrun'
                        simpa [hpushA, hpushB, runBody, evalNum, wrap_sub, hlt] using this
                      · cases h
                    · -- mul
                      have hz : binExec (.s .mul) ty (.int x) (.int y) = .ok (.int (x * y)) := by
                        simp [binExec, scalarBin]
                      rw [step_bin hc hva rfl hvb rfl hz] at hstep
                      rcases hstep with ⟨pc', fr', g1, h, hrun'⟩ | h
                      · simp only [StepOut.next.injEq] at h
                        obtain ⟨rfl, rfl, rfl⟩ := h
                        have := IH n _ g _ (hinv.setReg hl (x * y)) v g' as hrun'
                        simpa [hpushA, hpushB, runBody, evalNum, wrap_mul, hlt] using this
                      · cases h
        | ret rvo =>
          cases rvo with
          | none => simp [ringInstr] at hri
          | some o =>
            simp only [ringInstr] at hri
            simp only [transInstr] at h1
            cases hp : pushOpd fb argc ents o with
            | error e => simp [hp] at h1
            | ok p =>
              simp only [hp, Except.ok.injEq] at h1; subst h1
              cases hv : evalOpd fr o with
              | error e =>
                have : stepI (callD Pg n) f.code pre.length fr g = .fail e := by
                  simp [stepI, hc, liftE, evalVal_error hv]
                rw [this] at hstep
                rcases hstep with ⟨_, _, _, h, _⟩ | h <;> cases h
              | ok vo =>
                obtain ⟨x, rfl, hpush⟩ := pushOpd_run O hinv hp hri hv
                rw [step_ret_some hc hv rfl] at hstep
                rcases hstep with ⟨_, _, _, h, _⟩ | h
                · cases h
                · simp only [StepOut.ret.injEq, Val.int.injEq] at h
                  obtain ⟨rfl, _, _⟩ := h
                  simp [hpush, runBody]
        | _ => simp [ringInstr] at hri

/-! ## 4. From the body to the module -/

theorem genFuncs_getElem {fb} : ∀ (P : List Func) (fcs : List (FuncType × WCode)),
    genFuncs fb P = .ok fcs → ∀ (idx : Nat) (f : Func), P[idx]? = some f →
    ∃ fc, fcs[idx]? = some fc ∧ genFunc fb f = .ok fc
  | [], fcs, _, idx, f, hf => by simp at hf
  | g :: gs, fcs, h, idx, f, hf => by
    simp only [genFuncs] at h
    cases h1 : genFunc fb g with
    | error e => simp [h1] at h
    | ok x =>
      cases h2 : genFuncs fb gs with
      | error e => simp [h1, h2] at h
      | ok xs =>
        simp only [h1, h2, Except.ok.injEq] at h; subst h
        cases idx with
        | zero =>
          simp only [List.getElem?_cons_zero, Option.some.injEq] at hf; subst hf
          exact ⟨x, rfl, h1⟩
        | succ k =>
          simp only [List.getElem?_cons_succ] at hf ⊢
          exact genFuncs_getElem gs xs h2 k f hf

theorem convertVT_i32 {t : ITy} (h : isI32Ty t = true) : convertVT t = .ok .i32 := by
  cases t with
  | sc s => cases s <;> simp [isI32Ty] at h <;> rfl
  | _ => simp [isI32Ty] at h

theorem convertVTs_i32 : ∀ (tys : List ITy), tys.all isI32Ty = true →
    convertVTs tys = .ok (List.replicate tys.length .i32)
  | [], _ => rfl
  | t :: ts, h => by
    simp only [List.all_cons, Bool.and_eq_true] at h
    simp only [convertVTs, convertVT_i32 h.1, convertVTs_i32 ts h.2, List.length_cons,
      List.replicate_succ]

theorem convertFuncType_ring {f : Func} (h : ringFunc f = true) :
    convertFuncType f = .ok ⟨List.replicate f.params.length .i32, [.i32]⟩ := by
  simp only [ringFunc, Bool.and_eq_true] at h
  obtain ⟨⟨hp, hr⟩, _⟩ := h
  have hps : (f.params.map (·.2)).all isI32Ty = true := by
    simpa [List.all_map] using hp
  have := convertVTs_i32 _ hps
  simp only [List.length_map] at this
  unfold convertFuncType
  simp only [this]
  have hcv := convertVT_i32 hr
  cases hret : f.ret with
  | void => rw [hret] at hr; simp [isI32Ty] at hr
  | _ => rw [hret] at hcv; simp only [hcv]

theorem agree_ring_with {F : Type} (O : F32Ops F) {fb : Float → Option Nat} {P : List Func}
    {m : WModule} {idx : Nat} {f : Func} (hgen : genWasmWith fb P = .ok m)
    (hf : P[idx]? = some f) (hring : ringFunc f = true) (args : List Int)
    (hlen : args.length = f.params.length) (Pg : Program) (fuel : Nat) (g g' : Globals) (v : Int)
    (as : List Val)
    (hvm : VM.run Pg fuel f 0 { args := args.map Val.int } g = .done (.int v) g' as) :
    evalFunc O m idx (args.map fun a => WVal.i32 (wrap a)) = some [WVal.i32 (wrap v)] := by
  obtain ⟨fcs, hg, rfl⟩ := genWasmWith_ok hgen
  obtain ⟨fc, hfc, hgf⟩ := genFuncs_getElem P fcs hg idx f hf
  obtain ⟨ft, c⟩ := fc
  obtain ⟨ents, vts, body, h1, h2, h3, h4, rfl⟩ := genFunc_ok hgf
  rw [convertFuncType_ring hring] at h1
  simp only [Except.ok.injEq] at h1; subst h1
  have hidx : idx < fcs.length := by
    rcases Nat.lt_or_ge idx fcs.length with hc | hc
    · exact hc
    · rw [List.getElem?_eq_none hc] at hfc; cases hfc
  have hfuncs : (List.range fcs.length)[idx]? = some idx := by
    simp [List.getElem?_range hidx]
  have hcodes : (fcs.map (·.2))[idx]? = some ⟨groupLocals vts, body⟩ := by simp [hfc]
  have htypes : (fcs.map (·.1))[idx]? =
      some ⟨List.replicate f.params.length .i32, [.i32]⟩ := by simp [hfc]
  have hargs : (args.map fun a => WVal.i32 (F := F) (wrap a)).map WVal.vt =
      List.replicate f.params.length .i32 := by
    rw [← hlen]
    clear hvm hlen
    induction args with
    | nil => rfl
    | cons a as' ih => simp [List.replicate_succ, WVal.vt, ih]
  simp only [evalFunc, hfuncs, hcodes, htypes, hargs, if_true, expand_groupLocals]
  simp only [ringFunc, Bool.and_eq_true] at hring
  have hinv : Inv ents f.params.length { args := args.map Val.int }
      ((args.map fun a => WVal.i32 (F := F) (wrap a)) ++ vts.map (zeroOf O)) := by
    refine ⟨by simp [hlen], ?_, ?_, ?_⟩
    · have := convertVTs_length _ _ h3
      simp only [List.length_map] at this
      simp [hlen, this]
    · intro k val hk
      simp only [List.getElem?_map] at hk
      cases ha : args[k]? with
      | none => simp [ha] at hk
      | some a =>
        simp only [ha, Option.map_some, Option.some.injEq] at hk
        refine ⟨a, hk.symm, ?_⟩
        have hklt : k < args.length := by
          rcases Nat.lt_or_ge k args.length with hc | hc
          · exact hc
          · rw [List.getElem?_eq_none hc] at ha; cases ha
        rw [List.getElem?_append_left (by simpa using hklt)]
        simp [ha]
    · intro r val hr
      simp [Map.get] at hr
  simp only [List.length_replicate] at h4
  have := sim_ring O (f := f) Pg f.code [] rfl hring.2 body h4 fuel _ g _ hinv v g' as
    (by simpa using hvm)
  simpa using this

/-! ## 5. Single operations incl. division and comparisons, under range hypotheses -/

theorem toS_wrap {x : Int} (h : inS32 x) : toS (wrap x) = x := by
  unfold inS32 at h
  unfold toS wrap
  split <;> omega

theorem wrap_eq_iff {x y : Int} (hx : inS32 x) (hy : inS32 y) : wrap x = wrap y ↔ x = y := by
  unfold inS32 at hx hy
  unfold wrap
  omega

theorem wrap_zero_iff {y : Int} (hy : inS32 y) : wrap y = 0 ↔ y = 0 := by
  unfold inS32 at hy
  unfold wrap
  omega


theorem binop_agree_signed {F : Type} (O : F32Ops F) (op : SOp) (nop : NumOp) (x y z : Int)
    (hsel : numOpFor op .i32s = .ok nop) (hx : inS32 x) (hy : inS32 y)
    (hov : ¬ (op = .div ∧ x = -2147483648 ∧ y = -1))
    (hvm : scalarBin op true (.int x) (.int y) = .ok (.int z)) :
    evalNum O nop (.i32 (wrap x)) (.i32 (wrap y)) = some (.i32 (wrap z)) := by
  cases op <;> simp [numOpFor] at hsel <;> subst hsel
  · -- add
    simp [scalarBin] at hvm; subst hvm
    simp [evalNum, wrap_add]
  · simp [scalarBin] at hvm; subst hvm
    simp [evalNum, wrap_sub]
  · simp [scalarBin] at hvm; subst hvm
    simp [evalNum, wrap_mul]
  · -- div
    simp only [scalarBin, if_true] at hvm
    by_cases hy0 : y = 0
    · simp [hy0] at hvm
    · simp only [hy0, if_false, Except.ok.injEq, Val.int.injEq] at hvm; subst hvm
      have h1 : ¬ wrap y = 0 := fun h => hy0 ((wrap_zero_iff hy).1 h)
      have h2 : ¬ (x = -2147483648 ∧ y = -1) := fun h => hov ⟨rfl, h⟩
      simp [evalNum, h1, toS_wrap hx, toS_wrap hy, h2, truncDiv]
  · -- gt
    simp [scalarBin, cmpInt, Val.ofBool] at hvm
    simp [evalNum, toS_wrap hx, toS_wrap hy, boolV]
    split at hvm <;> subst hvm <;> simp [wrap, *] <;> omega
  · simp [scalarBin, cmpInt, Val.ofBool] at hvm
    simp [evalNum, toS_wrap hx, toS_wrap hy, boolV]
    split at hvm <;> subst hvm <;> simp [wrap, *] <;> omega
  · simp [scalarBin, cmpInt, Val.ofBool] at hvm
    simp [evalNum, wrap_eq_iff hx hy, boolV]
    split at hvm <;> subst hvm <;> simp [wrap, *] <;> omega

theorem wrap_of_inU32 {x : Int} (h : inU32 x) : wrap x = x := by
  unfold inU32 at h; unfold wrap; omega

theorem binop_agree_unsigned {F : Type} (O : F32Ops F) (op : SOp) (nop : NumOp) (x y z : Int)
    (hsel : numOpFor op .i32u = .ok nop) (hx : inU32 x) (hy : inU32 y)
    (hvm : scalarBin op true (.int x) (.int y) = .ok (.int z)) :
    evalNum O nop (.i32 (wrap x)) (.i32 (wrap y)) = some (.i32 (wrap z)) := by
  cases op <;> simp [numOpFor] at hsel <;> subst hsel
  · simp [scalarBin] at hvm; subst hvm
    simp [evalNum, wrap_add]
  · simp [scalarBin] at hvm; subst hvm
    simp [evalNum, wrap_sub]
  · simp [scalarBin] at hvm; subst hvm
    simp [evalNum, wrap_mul]
  · simp only [scalarBin, if_true] at hvm
    by_cases hy0 : y = 0
    · simp [hy0] at hvm
    · simp only [hy0, if_false, Except.ok.injEq, Val.int.injEq] at hvm; subst hvm
      have hq : inU32 (x / y) := by
        unfold inU32 at hx hy ⊢
        have h1 := Int.ediv_nonneg hx.1 hy.1
        have h2 := Int.ediv_le_self y hx.1
        omega
      simp [evalNum, wrap_of_inU32 hx, wrap_of_inU32 hy, hy0, truncDiv,
        Int.tdiv_eq_ediv_of_nonneg hx.1, wrap_of_inU32 hq]
  · simp [scalarBin, cmpInt, Val.ofBool] at hvm
    simp [evalNum, wrap_of_inU32 hx, wrap_of_inU32 hy, boolV]
    split at hvm <;> subst hvm <;> simp [wrap, *] <;> omega
  · simp [scalarBin, cmpInt, Val.ofBool] at hvm
    simp [evalNum, wrap_of_inU32 hx, wrap_of_inU32 hy, boolV]
    split at hvm <;> subst hvm <;> simp [wrap, *] <;> omega
  · simp [scalarBin, cmpInt, Val.ofBool] at hvm
    simp [evalNum, wrap_of_inU32 hx, wrap_of_inU32 hy, boolV]
    split at hvm <;> subst hvm <;> simp [wrap, *] <;> omega

theorem div_zero_agree {F : Type} (O : F32Ops F) (x : Int) :
    scalarBin .div true (.int x) (.int 0) = .error .divZero ∧
    evalNum O .i32DivS (.i32 (wrap x)) (.i32 (wrap 0)) = none ∧
    evalNum O .i32DivU (.i32 (wrap x)) (.i32 (wrap 0)) = none := by
  simp [scalarBin, evalNum, wrap]

end Nsl.Wasm
