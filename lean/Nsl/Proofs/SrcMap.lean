import Nsl.Model.SrcMap

namespace Nsl.SrcMap

/-! ### Specification-level helpers -/

/-- Offsets (relative to base `k`) just after every newline of `s`. -/
def nlPos : Nat → List Char → List Nat
  | _, [] => []
  | k, c :: cs => if c = '\n' then (k + 1) :: nlPos (k + 1) cs else nlPos (k + 1) cs

/-- Drop the first `n` lines of `s`, each together with its terminating `'\n'`. -/
def dropLines : Nat → List Char → List Char
  | 0, s => s
  | _ + 1, [] => []
  | n + 1, c :: cs => if c = '\n' then dropLines n cs else dropLines (n + 1) cs

/-- Number of newline characters. -/
def nlCount (s : List Char) : Nat := (s.filter (· = '\n')).length

theorem splitLines_ne_nil (s : List Char) : splitLines s ≠ [] := by
  induction s with
  | nil => simp [splitLines]
  | cons c cs ih =>
    unfold splitLines
    split
    · simp
    · split <;> simp

theorem lineOffsetsAux_eq (s : List Char) (k : Nat) :
    lineOffsetsAux k (splitLines s) = k :: nlPos k s := by
  induction s generalizing k with
  | nil => simp [splitLines, lineOffsetsAux, nlPos]
  | cons c cs ih =>
    by_cases hc : c = '\n'
    · simp [splitLines, hc, lineOffsetsAux, nlPos, ih]
    · have h1 := ih (k + 1)
      rcases hs : splitLines cs with _ | ⟨l, ls⟩
      · exact absurd hs (splitLines_ne_nil cs)
      · rw [hs] at h1
        simp only [lineOffsetsAux, List.cons.injEq, true_and] at h1
        simp only [splitLines, hc, if_false, hs, lineOffsetsAux, nlPos, List.length_cons,
          List.cons.injEq, true_and]
        rw [← h1]; congr 1; omega

theorem lineOffsets_eq (s : List Char) : lineOffsets s = 0 :: nlPos 0 s :=
  lineOffsetsAux_eq s 0

theorem nlPos_length (s : List Char) (k : Nat) : (nlPos k s).length = nlCount s := by
  induction s generalizing k with
  | nil => simp [nlPos, nlCount]
  | cons c cs ih =>
    by_cases hc : c = '\n'
    · simp [nlPos, hc, nlCount, ih (k+1)] at *
    · simp [nlPos, hc, nlCount] at *
      exact ih _

theorem mem_nlPos {s : List Char} {k p : Nat} :
    p ∈ nlPos k s ↔ ∃ i, s[i]? = some '\n' ∧ p = k + i + 1 := by
  induction s generalizing k with
  | nil => simp [nlPos]
  | cons c cs ih =>
    by_cases hc : c = '\n'
    · simp only [nlPos, hc, if_true, List.mem_cons, ih]
      constructor
      · rintro (rfl | ⟨i, hi, rfl⟩)
        · exact ⟨0, by simp, by omega⟩
        · exact ⟨i + 1, by simpa using hi, by omega⟩
      · rintro ⟨i, hi, rfl⟩
        cases i with
        | zero => left; omega
        | succ i => right; exact ⟨i, by simpa using hi, by omega⟩
    · simp only [nlPos, hc, if_false, ih]
      constructor
      · rintro ⟨i, hi, rfl⟩
        exact ⟨i + 1, by simpa using hi, by omega⟩
      · rintro ⟨i, hi, rfl⟩
        cases i with
        | zero => simp at hi; exact absurd hi hc
        | succ i => exact ⟨i, by simpa using hi, by omega⟩

theorem nlPos_gt {s : List Char} {k p : Nat} (h : p ∈ nlPos k s) : k < p := by
  obtain ⟨i, _, rfl⟩ := mem_nlPos.1 h; omega

theorem nlPos_sorted (s : List Char) (k : Nat) : (nlPos k s).Pairwise (· < ·) := by
  induction s generalizing k with
  | nil => simp [nlPos]
  | cons c cs ih =>
    by_cases hc : c = '\n'
    · simp only [nlPos, hc, if_true, List.pairwise_cons]
      exact ⟨fun p hp => nlPos_gt hp, ih _⟩
    · simp only [nlPos, hc, if_false]; exact ih _

theorem cons_nlPos_sorted (s : List Char) (k : Nat) : (k :: nlPos k s).Pairwise (· < ·) :=
  List.pairwise_cons.2 ⟨fun _ hp => nlPos_gt hp, nlPos_sorted s k⟩


/-! ### `bisectRight` on sorted lists -/

theorem bisectRight_le_length (a : List Nat) (x : Nat) : bisectRight a x ≤ a.length := by
  unfold bisectRight
  induction a with
  | nil => simp
  | cons y ys ih => simp only [List.takeWhile_cons]; split <;> simp <;> omega

/-- Entries before the insertion point are `≤ x` (needs no sortedness). -/
theorem bisectRight_lt {a : List Nat} {x i v : Nat} (hv : a[i]? = some v)
    (hi : i < bisectRight a x) : v ≤ x := by
  induction a generalizing i with
  | nil => simp at hv
  | cons y ys ih =>
    unfold bisectRight at hi
    simp only [List.takeWhile_cons] at hi
    by_cases hy : y ≤ x
    · simp only [hy, decide_true, if_true, List.length_cons] at hi
      cases i with
      | zero => simp at hv; omega
      | succ i =>
        simp only [List.getElem?_cons_succ] at hv
        exact ih hv (by unfold bisectRight; omega)
    · simp [hy] at hi

/-- Entries from the insertion point on are `> x` (sorted list). -/
theorem bisectRight_ge {a : List Nat} (hs : a.Pairwise (· ≤ ·)) {x i v : Nat}
    (hv : a[i]? = some v) (hi : bisectRight a x ≤ i) : x < v := by
  induction a generalizing i with
  | nil => simp at hv
  | cons y ys ih =>
    rw [List.pairwise_cons] at hs
    unfold bisectRight at hi
    simp only [List.takeWhile_cons] at hi
    by_cases hy : y ≤ x
    · simp only [hy, decide_true, if_true, List.length_cons] at hi
      cases i with
      | zero => omega
      | succ i =>
        simp only [List.getElem?_cons_succ] at hv
        exact ih hs.2 hv (by unfold bisectRight; omega)
    · cases i with
      | zero => simp at hv; omega
      | succ i =>
        simp only [List.getElem?_cons_succ] at hv
        have := hs.1 v (List.mem_of_getElem? hv)
        omega

/-- On a sorted list `bisect_right` is the number of entries `≤ x`. -/
theorem bisectRight_eq_countP {a : List Nat} (hs : a.Pairwise (· ≤ ·)) (x : Nat) :
    bisectRight a x = a.countP (fun y => decide (y ≤ x)) := by
  induction a with
  | nil => simp [bisectRight]
  | cons y ys ih =>
    rw [List.pairwise_cons] at hs
    have ih' := ih hs.2
    unfold bisectRight at ih' ⊢
    simp only [List.takeWhile_cons, List.countP_cons]
    by_cases hy : y ≤ x
    · simp [hy, ih']
    · have h0 : ys.countP (fun y => decide (y ≤ x)) = 0 := by
        rw [List.countP_eq_zero]
        intro v hv
        have := hs.1 v hv
        simp; omega
      simp [hy, h0]

theorem sorted_lt_of_lt {a : List Nat} (hs : a.Pairwise (· < ·)) {i j u v : Nat}
    (hu : a[i]? = some u) (hv : a[j]? = some v) (hij : i < j) : u < v := by
  have hi : i < a.length := (List.getElem?_eq_some_iff.1 hu).1
  have hj : j < a.length := (List.getElem?_eq_some_iff.1 hv).1
  have := List.pairwise_iff_getElem.1 hs i j hi hj hij
  rw [List.getElem?_eq_getElem hi] at hu
  rw [List.getElem?_eq_getElem hj] at hv
  simp at hu hv
  omega

/-! ### Counting newlines -/

theorem countP_nlPos (s : List Char) (k o : Nat) :
    (nlPos k s).countP (fun y => decide (y ≤ o)) = nlCount (s.take (o - k)) := by
  induction s generalizing k with
  | nil => simp [nlPos, nlCount]
  | cons c cs ih =>
    by_cases hok : o ≤ k
    · have h0 : o - k = 0 := by omega
      rw [h0, List.countP_eq_zero.2]
      · simp [nlCount]
      · intro p hp; have := nlPos_gt hp; simp; omega
    · have h1 : o - k = (o - (k + 1)) + 1 := by omega
      rw [h1, List.take_succ_cons]
      by_cases hc : c = '\n'
      · have hle : k + 1 ≤ o := by omega
        simp only [nlPos, hc, if_true, List.countP_cons, ih (k + 1), hle, decide_true, nlCount,
          List.filter_cons, List.length_cons]
      · simp only [nlPos, hc, if_false, ih (k + 1), nlCount, List.filter_cons, decide_false]
        simp

theorem lineOffsets_sorted' (s : List Char) : (lineOffsets s).Pairwise (· < ·) := by
  rw [lineOffsets_eq]; exact cons_nlPos_sorted s 0

theorem lineOffsets_sorted_le (s : List Char) : (lineOffsets s).Pairwise (· ≤ ·) :=
  (lineOffsets_sorted' s).imp (fun h => Nat.le_of_lt h)

theorem bisect_lineOffsets (s : List Char) (o : Nat) :
    bisectRight (lineOffsets s) o = nlCount (s.take o) + 1 := by
  rw [bisectRight_eq_countP (lineOffsets_sorted_le s), lineOffsets_eq, List.countP_cons,
    countP_nlPos]
  simp

theorem lineFromOffset_eq (s : List Char) (o : Nat) :
    lineFromOffset s o = nlCount (s.take o) := by
  unfold lineFromOffset; rw [bisect_lineOffsets]; omega

theorem lineFromOffset_lt (s : List Char) (o : Nat) :
    lineFromOffset s o < (lineOffsets s).length := by
  have := bisectRight_le_length (lineOffsets s) o
  have := bisect_lineOffsets s o
  unfold lineFromOffset; omega

theorem lineStart_getElem? (s : List Char) (o : Nat) :
    (lineOffsets s)[lineFromOffset s o]? = some (lineStart s (lineFromOffset s o)) := by
  have h := lineFromOffset_lt s o
  unfold lineStart
  rw [List.getD_eq_getElem?_getD, List.getElem?_eq_getElem h]; rfl

/-! ### Line starts -/

theorem lineStart_le_all (s : List Char) (o : Nat) : lineStart s (lineFromOffset s o) ≤ o := by
  refine bisectRight_lt (lineStart_getElem? s o) ?_
  have := bisect_lineOffsets s o
  unfold lineFromOffset; omega

theorem lineStart_is_start (s : List Char) (o : Nat) :
    lineStart s (lineFromOffset s o) = 0 ∨
      s[lineStart s (lineFromOffset s o) - 1]? = some '\n' := by
  have h := List.mem_of_getElem? (lineStart_getElem? s o)
  rw [lineOffsets_eq, List.mem_cons] at h
  rcases h with h | h
  · left; exact h
  · right
    obtain ⟨i, hi, hp⟩ := mem_nlPos.1 h
    rw [hp]; simpa using hi

theorem no_newline_between (s : List Char) (o i : Nat)
    (h1 : lineStart s (lineFromOffset s o) ≤ i) (h2 : i < o) : s[i]? ≠ some '\n' := by
  intro hi
  have hm : i + 1 ∈ lineOffsets s := by
    rw [lineOffsets_eq]; right; exact mem_nlPos.2 ⟨i, hi, by omega⟩
  obtain ⟨j, hj⟩ := List.mem_iff_getElem?.1 hm
  have hb := bisect_lineOffsets s o
  by_cases hjn : bisectRight (lineOffsets s) o ≤ j
  · have := bisectRight_ge (lineOffsets_sorted_le s) hj hjn
    omega
  · by_cases hje : j = lineFromOffset s o
    · subst hje
      rw [lineStart_getElem?] at hj
      simp at hj; omega
    · have hlt : j < lineFromOffset s o := by unfold lineFromOffset at hje ⊢; omega
      have := sorted_lt_of_lt (lineOffsets_sorted' s) hj (lineStart_getElem? s o) hlt
      omega

/-! ### `dropLines` and line starts -/

theorem dropLines_eq_drop (s : List Char) (k n p : Nat) (hp : (k :: nlPos k s)[n]? = some p) :
    k ≤ p ∧ dropLines n s = s.drop (p - k) := by
  induction s generalizing k n with
  | nil =>
    cases n with
    | zero => simp at hp; subst hp; simp [dropLines]
    | succ n => simp [nlPos] at hp
  | cons c cs ih =>
    cases n with
    | zero => simp at hp; subst hp; simp [dropLines]
    | succ n =>
      simp only [List.getElem?_cons_succ] at hp
      by_cases hc : c = '\n'
      · simp only [nlPos, hc, if_true] at hp
        obtain ⟨hle, hd⟩ := ih (k + 1) n hp
        refine ⟨by omega, ?_⟩
        have : p - k = (p - (k + 1)) + 1 := by omega
        rw [this, List.drop_succ_cons]
        simp only [dropLines, hc, if_true]; exact hd
      · simp only [nlPos, hc, if_false] at hp
        have hp' : ((k + 1) :: nlPos (k + 1) cs)[n + 1]? = some p := by
          simpa using hp
        obtain ⟨hle, hd⟩ := ih (k + 1) (n + 1) hp'
        refine ⟨by omega, ?_⟩
        have : p - k = (p - (k + 1)) + 1 := by omega
        rw [this, List.drop_succ_cons]
        simp only [dropLines, hc, if_false]; exact hd

theorem dropLines_lineFromOffset (s : List Char) (o : Nat) :
    dropLines (lineFromOffset s o) s = s.drop (lineStart s (lineFromOffset s o)) := by
  have h := lineStart_getElem? s o
  rw [lineOffsets_eq] at h
  exact (dropLines_eq_drop s 0 _ _ h).2

theorem designates (s : List Char) (o : Nat) :
    (dropLines (lineFromOffset s o) s).drop (o - lineStart s (lineFromOffset s o)) = s.drop o := by
  rw [dropLines_lineFromOffset, List.drop_drop]
  congr 1
  have := lineStart_le_all s o
  omega


theorem column_in_line (s : List Char) (o : Nat) :
    ∀ ch ∈ (dropLines (lineFromOffset s o) s).take (o - lineStart s (lineFromOffset s o)),
      ch ≠ '\n' := by
  intro ch hch hnl
  subst hnl
  rw [dropLines_lineFromOffset] at hch
  obtain ⟨j, hj⟩ := List.mem_iff_getElem?.1 hch
  rw [List.getElem?_take] at hj
  split at hj
  · rw [List.getElem?_drop] at hj
    exact no_newline_between s o _ (by omega) (by omega) hj
  · simp at hj

/-! ### Newlines inside a span -/

theorem nlCount_append (x y : List Char) : nlCount (x ++ y) = nlCount x + nlCount y := by
  simp [nlCount, List.filter_append]

theorem nlCount_eq_zero {x : List Char} : nlCount x = 0 ↔ ∀ c ∈ x, c ≠ '\n' := by
  simp [nlCount, List.filter_eq_nil_iff]

theorem nlCount_span (s : List Char) (b e : Nat) (h : b ≤ e) :
    nlCount (s.take e) = nlCount (s.take b) + nlCount ((s.drop b).take (e - b)) := by
  have : e = b + (e - b) := by omega
  conv => lhs; rw [this, List.take_add, nlCount_append]

/-! ### `merge` -/

theorem merge_nil (x : Span) : merge x [] = x := rfl

theorem merge_cons (x y : Span) (l : List Span) : merge x (y :: l) = merge (mergeStep x y) l := rfl

theorem merge_first (x : Span) (l : List Span) : (merge x l).b ≤ x.b ∧ x.e ≤ (merge x l).e := by
  induction l generalizing x with
  | nil => simp [merge_nil]
  | cons y l ih =>
    rw [merge_cons]
    have := ih (mergeStep x y)
    simp only [mergeStep] at this ⊢
    omega

theorem merge_mem (x : Span) (l : List Span) :
    ∀ y ∈ l, (merge x l).b ≤ y.b ∧ y.e ≤ (merge x l).e := by
  induction l generalizing x with
  | nil => simp
  | cons z l ih =>
    intro y hy
    rw [merge_cons]
    rcases List.mem_cons.1 hy with rfl | hy
    · have := merge_first (mergeStep x y) l
      simp only [mergeStep] at this ⊢
      omega
    · exact ih _ y hy

theorem merge_least' (x : Span) (l : List Span) (t : Span)
    (hx : t.b ≤ x.b ∧ x.e ≤ t.e) (hl : ∀ y ∈ l, t.b ≤ y.b ∧ y.e ≤ t.e) :
    t.b ≤ (merge x l).b ∧ (merge x l).e ≤ t.e := by
  induction l generalizing x with
  | nil => simpa [merge_nil] using hx
  | cons z l ih =>
    rw [merge_cons]
    apply ih
    · have := hl z (by simp)
      simp only [mergeStep]; omega
    · intro y hy; exact hl y (by simp [hy])

theorem merge_wf' (x : Span) (l : List Span) (hx : x.b ≤ x.e) :
    (merge x l).b ≤ (merge x l).e := by
  have := merge_first x l; omega

theorem Span.ext' {x y : Span} (hb : x.b = y.b) (he : x.e = y.e) : x = y := by
  cases x; cases y; simp at hb he; simp [hb, he]

/-! ### CPython's binary-search `bisect_right` agrees with the linear reference -/

theorem sorted_le_of_le {a : List Nat} (hs : a.Pairwise (· ≤ ·)) {i j u v : Nat}
    (hu : a[i]? = some u) (hv : a[j]? = some v) (hij : i ≤ j) : u ≤ v := by
  have hi : i < a.length := (List.getElem?_eq_some_iff.1 hu).1
  have hj : j < a.length := (List.getElem?_eq_some_iff.1 hv).1
  rw [List.getElem?_eq_getElem hi] at hu
  rw [List.getElem?_eq_getElem hj] at hv
  simp at hu hv
  by_cases h : i = j
  · subst h; omega
  · have := List.pairwise_iff_getElem.1 hs i j hi hj (by omega)
    omega

theorem bisect_unique {a : List Nat} (hs : a.Pairwise (· ≤ ·)) {x r : Nat}
    (hr : r ≤ a.length)
    (hlo : ∀ i v, a[i]? = some v → i < r → v ≤ x)
    (hhi : ∀ i v, a[i]? = some v → r ≤ i → x < v) : r = bisectRight a x := by
  have hn := bisectRight_le_length a x
  rcases Nat.lt_trichotomy r (bisectRight a x) with h | h | h
  · have hlt : r < a.length := by omega
    have hv := List.getElem?_eq_getElem hlt
    have := bisectRight_lt hv h
    have := hhi r _ hv (Nat.le_refl _)
    omega
  · exact h
  · have hlt : bisectRight a x < a.length := by omega
    have hv := List.getElem?_eq_getElem hlt
    have := bisectRight_ge hs hv (Nat.le_refl _)
    have := hlo _ _ hv h
    omega

theorem bisectLoop_eq {a : List Nat} (hs : a.Pairwise (· ≤ ·)) (x : Nat) (fuel lo hi : Nat)
    (hlh : lo ≤ hi) (hh : hi ≤ a.length) (hf : hi - lo ≤ fuel)
    (hlo : ∀ i v, a[i]? = some v → i < lo → v ≤ x)
    (hhi : ∀ i v, a[i]? = some v → hi ≤ i → x < v) :
    bisectLoop a x fuel lo hi = bisectRight a x := by
  induction fuel generalizing lo hi with
  | zero =>
    have : lo = hi := by omega
    subst this
    simp only [bisectLoop]
    exact bisect_unique hs hh hlo hhi
  | succ fuel ih =>
    unfold bisectLoop
    by_cases hlt : lo < hi
    · rw [if_pos hlt]
      have hmid : (lo + hi) / 2 < a.length := by omega
      have hm := List.getElem?_eq_getElem hmid
      have hgd : a.getD ((lo + hi) / 2) 0 = a[(lo + hi) / 2] := by
        rw [List.getD_eq_getElem?_getD, hm]; rfl
      simp only [hgd]
      by_cases hx : x < a[(lo + hi) / 2]
      · rw [if_pos hx]
        refine ih lo _ (by omega) (by omega) (by omega) hlo ?_
        intro i v hv hi'
        have := sorted_le_of_le hs hm hv hi'
        omega
      · rw [if_neg hx]
        refine ih _ hi (by omega) (by omega) (by omega) ?_ hhi
        intro i v hv hi'
        have := sorted_le_of_le hs hv hm (by omega)
        omega
    · rw [if_neg hlt]
      have : lo = hi := by omega
      subst this
      exact bisect_unique hs hh hlo hhi

theorem bisectRightBin_eq' {a : List Nat} (hs : a.Pairwise (· ≤ ·)) (x : Nat) :
    bisectRightBin a x = bisectRight a x := by
  unfold bisectRightBin
  apply bisectLoop_eq hs x a.length 0 a.length (Nat.zero_le _) (Nat.le_refl _) (by omega)
  · intro i v _ hi; omega
  · intro i v hv hi
    have := (List.getElem?_eq_some_iff.1 hv).1
    omega

end Nsl.SrcMap
