import Nsl.Proofs.VecOps
/-!
# Vector core, part 3: element access, swizzles, constructors — typing, and the store shuffle computes `swizzleStore`
-/
set_option linter.unusedSimpArgs false
namespace Nsl
namespace Vec
open Core VM CoreSem Lower Sim

/-! ## Element / row access -/

theorem getKey_list {vs : List Val} {k : Nat} {x : Val} (h : getKey (.list vs) (.idx k) = .ok x) : x ∈ vs := by
  simp only [getKey] at h
  cases hk : vs[k]? with
  | none => simp [hk] at h
  | some y => simp only [hk, Except.ok.injEq] at h; subst h; exact List.mem_of_getElem? hk

theorem getKey_vec {n : Nat} {b : Val} {k : Nat} {x : Val} (hb : fits (.vec n) b = true)
    (h : getKey b (.idx k) = .ok x) : isAtom x = true := by
  rw [fits_vec] at hb
  obtain ⟨vs, rfl, _, ha⟩ := fitsVec_inv hb
  exact ha x (getKey_list h)

theorem getKey_mat {r c : Nat} {b : Val} {k : Nat} {x : Val} (hb : fits (.mat r c) b = true)
    (h : getKey b (.idx k) = .ok x) : fitsVec c x = true := by
  obtain ⟨vs, rfl, _, ha⟩ := fits_mat_inv hb
  exact ha x (getKey_list h)

theorem setKey_list {vs : List Val} {k : Nat} {x b' : Val} (h : setKey (.list vs) (.idx k) x = .ok b') :
    b' = .list (vs.set k x) := by
  simp only [setKey] at h
  split at h
  · simp only [Except.ok.injEq] at h; exact h.symm
  · cases h

theorem setKey_vec {n : Nat} {b : Val} {k : Nat} {x b' : Val} (hb : fits (.vec n) b = true) (hx : isAtom x = true)
    (h : setKey b (.idx k) x = .ok b') : fits (.vec n) b' = true := by
  rw [fits_vec] at hb ⊢
  obtain ⟨vs, rfl, hl, ha⟩ := fitsVec_inv hb
  rw [setKey_list h]
  refine fitsVec_mk (by simpa using hl) ?_
  intro y hy
  rcases List.mem_or_eq_of_mem_set hy with hy | rfl
  · exact ha y hy
  · exact hx

theorem setKey_mat {r c : Nat} {b : Val} {k : Nat} {x b' : Val} (hb : fits (.mat r c) b = true)
    (hx : fitsVec c x = true) (h : setKey b (.idx k) x = .ok b') : fits (.mat r c) b' = true := by
  obtain ⟨vs, rfl, hl, ha⟩ := fits_mat_inv hb
  rw [setKey_list h]
  refine fits_mat_mk (by simpa using hl) ?_
  intro y hy
  rcases List.mem_or_eq_of_mem_set hy with hy | rfl
  · exact ha y hy
  · exact hx

/-! ## Swizzle reads -/

/-- Components of a value as `SHUFFLE` sees them. -/
def toL : Val → List Val
  | .list vs => vs
  | v => [v]

theorem pick_typed (combined : List Val) : ∀ (idx : List Nat) (r : List Val), shuffleExec.pick combined idx = .ok r →
    r.length = idx.length ∧ ∀ x ∈ r, x ∈ combined := by
  intro idx
  induction idx with
  | nil => intro r h; simp [shuffleExec.pick] at h; subst h; simp
  | cons i is ih =>
    intro r h
    simp only [shuffleExec.pick] at h
    cases hi : combined[i]? with
    | none => simp [hi] at h
    | some x =>
      simp only [hi, bind, Except.bind] at h
      cases hr : shuffleExec.pick combined is with
      | error e => simp [hr] at h
      | ok rest =>
        simp only [hr, Except.ok.injEq] at h
        subst h
        obtain ⟨hl, hm⟩ := ih rest hr
        refine ⟨by simp [hl], ?_⟩
        intro y hy
        rcases List.mem_cons.1 hy with rfl | hy
        · exact List.mem_of_getElem? hi
        · exact hm y hy

theorem shuffleExec_vec (s : Sc) (n : Nat) (a b : Val) (idx : List Nat) :
    shuffleExec (.vec s n) a b idx =
      (match shuffleExec.pick (toL a ++ toL b) idx with
       | .ok r => .ok (.list r)
       | .error e => .error e) := by
  cases a <;> cases b <;> simp only [shuffleExec, toL, bind, Except.bind] <;>
    (generalize shuffleExec.pick _ idx = p; cases p <;> rfl)

theorem shuffleExec_read_typed {ty : ITy} {n : Nat} {b v : Val} {idxs : List Nat} (hb : fits (.vec n) b = true)
    (hs : okSwz ty idxs = true) (h : shuffleExec ty b b idxs = .ok v) : fits (shape ty) v = true := by
  rw [fits_vec] at hb
  obtain ⟨xs, rfl, hl, ha⟩ := fitsVec_inv hb
  cases ty with
  | sc s =>
    simp only [okSwz, beq_iff_eq] at hs
    simp only [shuffleExec, bind, Except.bind] at h
    cases hp : shuffleExec.pick (xs ++ xs) idxs with
    | error e => simp [hp] at h
    | ok r =>
      obtain ⟨hrl, hrm⟩ := pick_typed _ _ _ hp
      simp only [hp] at h
      match r, hrl, hrm, h with
      | [x], _, hrm, h =>
        simp only [Except.ok.injEq] at h
        subst h
        have := hrm _ (List.mem_singleton.2 rfl)
        rw [shape, fits_atom]
        rcases List.mem_append.1 this with hm | hm <;> exact ha _ hm
      | [], hrl, _, _ => simp [hs] at hrl
      | _ :: _ :: _, hrl, _, _ => simp [hs] at hrl
  | vec s m =>
    simp only [okSwz, beq_iff_eq] at hs
    rw [shuffleExec_vec] at h
    simp only [toL] at h
    cases hp : shuffleExec.pick (xs ++ xs) idxs with
    | error e => simp [hp] at h
    | ok r =>
      obtain ⟨hrl, hrm⟩ := pick_typed _ _ _ hp
      simp only [hp, Except.ok.injEq] at h
      subst h
      rw [shape, fits_vec]
      refine fitsVec_mk (by omega) ?_
      intro y hy
      rcases List.mem_append.1 (hrm y hy) with hm | hm <;> exact ha _ hm
  | mat s r c => simp [okSwz] at hs
  | arr e d => simp [okSwz] at hs
  | struct nm f => simp [okSwz] at hs
  | void => simp [okSwz] at hs

/-! ## Swizzle writes: the store shuffle of the lowering computes `swizzleStore` -/

theorem swz_go_spec (ys : List Val) : ∀ (mask : List Nat) (acc : List Val) (i : Nat) (r : List Val),
    swizzleStore.go ys acc i mask = .ok r →
    r = swizzleWriteSpec acc mask (ys.drop i) ∧ (∀ w ∈ mask, w < acc.length) ∧ mask.length ≤ ys.length - i := by
  intro mask
  induction mask with
  | nil =>
    intro acc i r h
    simp only [swizzleStore.go, Except.ok.injEq] at h
    subst h
    exact ⟨by simp [swizzleWriteSpec], by simp, by simp⟩
  | cons w ws ih =>
    intro acc i r h
    simp only [swizzleStore.go] at h
    cases hy : ys[i]? with
    | none => simp [hy] at h
    | some y =>
      simp only [hy] at h
      by_cases hw : w < acc.length
      · rw [if_pos hw] at h
        obtain ⟨h1, h2, h3⟩ := ih (acc.set w y) (i + 1) r h
        have hi : i < ys.length := by
          rcases List.getElem?_eq_some_iff.1 hy with ⟨hlt, _⟩; exact hlt
        have hyi : ys[i] = y := by
          rcases List.getElem?_eq_some_iff.1 hy with ⟨_, he⟩; exact he
        refine ⟨?_, ?_, by simp only [List.length_cons]; omega⟩
        · rw [List.drop_eq_getElem_cons hi, swizzleWriteSpec, hyi]; exact h1
        · intro w' hw'
          rcases List.mem_cons.1 hw' with rfl | hw'
          · exact hw
          · simpa using h2 w' hw'
      · rw [if_neg hw] at h; cases h

theorem swizzleStore_list (xs : List Val) (mask : List Nat) (w : Val) :
    swizzleStore (.list xs) mask w =
      (match swizzleStore.go (toL w) xs 0 mask with
       | .ok r => .ok (.list r)
       | .error e => .error e) := by
  cases w <;> simp only [swizzleStore, toL] <;>
    (generalize swizzleStore.go _ xs 0 mask = p; cases p <;> rfl)

theorem swizzleWriteSpec_mem (mask : List Nat) : ∀ (v es : List Val) (x : Val),
    x ∈ swizzleWriteSpec v mask es → x ∈ v ∨ x ∈ es := by
  induction mask with
  | nil => intro v es x h; simp [swizzleWriteSpec] at h; exact Or.inl h
  | cons a r ih =>
    intro v es x h
    cases es with
    | nil => simp [swizzleWriteSpec] at h; exact Or.inl h
    | cons e es' =>
      simp only [swizzleWriteSpec] at h
      rcases ih _ _ _ h with h | h
      · rcases List.mem_or_eq_of_mem_set h with h | rfl
        · exact Or.inl h
        · exact Or.inr (List.mem_cons_self ..)
      · exact Or.inr (List.mem_cons_of_mem _ h)

/-- The store shuffle (`storeShuffleIdx` of the static size) yields what `swizzleStore` computes when the target
really has the static size and the mask does not repeat. -/
theorem swizzleStore_shuffle {s : Sc} {n : Nat} {xs : List Val} {w b' : Val} {mask : List Nat} (hn : xs.length = n)
    (hnd : mask.Nodup) (h : swizzleStore (.list xs) mask w = .ok b') :
    shuffleExec (.vec s n) (.list xs) w (storeShuffleIdx n mask) = .ok b' ∧
      ∃ r, b' = .list r ∧ r.length = n ∧ ∀ x ∈ r, x ∈ xs ∨ x ∈ toL w := by
  rw [swizzleStore_list] at h
  cases hgo : swizzleStore.go (toL w) xs 0 mask with
  | error e => simp [hgo] at h
  | ok r =>
    simp only [hgo, Except.ok.injEq] at h
    subst h
    obtain ⟨hr, hw, hlen⟩ := swz_go_spec (toL w) mask xs 0 r hgo
    simp only [List.drop_zero] at hr
    have hp := pick_go xs (toL w) mask (List.range xs.length) 0 xs (by simp) rfl (by omega) hw hnd
      (by
        intro j hj
        refine ⟨by simpa using hj, ?_, ?_⟩
        · simp; omega
        · simp [nth, List.getElem?_append_left hj])
    simp only [List.drop_zero] at hp
    subst hn
    refine ⟨?_, r, rfl, ?_, ?_⟩
    · rw [shuffleExec_vec]
      have : toL (.list xs) = xs := rfl
      rw [this]
      unfold storeShuffleIdx
      rw [hp, hr]
    · rw [hr, swizzleWriteSpec_length]
    · intro x hx
      rw [hr] at hx
      exact swizzleWriteSpec_mem _ _ _ _ hx

theorem swizzleStore_typed {n : Nat} {ty : ITy} {b w b' : Val} {mask : List Nat} (hb : fits (.vec n) b = true)
    (hw : fits (shape ty) w = true) (hs : okSwz ty mask = true) (hnd : mask.Nodup)
    (h : swizzleStore b mask w = .ok b') (s : Sc) :
    shuffleExec (.vec s n) b w (storeShuffleIdx n mask) = .ok b' ∧ fits (.vec n) b' = true := by
  rw [fits_vec] at hb
  obtain ⟨xs, rfl, hl, ha⟩ := fitsVec_inv hb
  obtain ⟨h1, r, rfl, hrl, hrm⟩ := swizzleStore_shuffle (s := s) hl hnd h
  refine ⟨h1, ?_⟩
  rw [fits_vec]
  refine fitsVec_mk hrl ?_
  intro x hx
  rcases hrm x hx with hm | hm
  · exact ha x hm
  · cases ty with
    | sc s' =>
      rw [shape, fits_atom] at hw
      cases w <;> simp [isAtom] at hw <;> simp [toL] at hm <;> subst hm <;> rfl
    | vec s' m =>
      rw [shape, fits_vec] at hw
      obtain ⟨ws, rfl, _, hwa⟩ := fitsVec_inv hw
      exact hwa x hm
    | mat s' r c => simp [okSwz] at hs
    | arr e d => simp [okSwz] at hs
    | struct nm f => simp [okSwz] at hs
    | void => simp [okSwz] at hs

/-! ## Constructors -/

/-- The values of an argument list have the shapes of the argument annotations. -/
def FitsArgs : Args → List Val → Prop
  | .nil, [] => True
  | .cons e rest, v :: vs => fits (shape (Expr.ty e)) v = true ∧ FitsArgs rest vs
  | _, _ => False

theorem flat_typed : ∀ (as : Args) (vs : List Val) (n : Nat), consSize as = some n → FitsArgs as vs →
    (constructExec.flat vs).length = n ∧ ∀ x ∈ constructExec.flat vs, isAtom x = true
  | .nil, [], n, h, _ => by
    simp only [consSize, Option.some.injEq] at h; subst h
    simp [constructExec.flat]
  | .nil, _ :: _, _, _, hf => by cases hf
  | .cons e rest, [], _, _, hf => by cases hf
  | .cons e rest, v :: vs, n, h, hf => by
    obtain ⟨hv, hrest⟩ := hf
    simp only [consSize] at h
    cases hsz : consSize rest with
    | none => simp [hsz] at h
    | some m =>
      obtain ⟨ihl, iha⟩ := flat_typed rest vs m hsz hrest
      cases hsh : shape (Expr.ty e) with
      | atom =>
        simp only [hsh, hsz, Option.some.injEq] at h
        subst h
        rw [hsh, fits_atom] at hv
        have : constructExec.flat (v :: vs) = v :: constructExec.flat vs := by
          cases v <;> simp [isAtom] at hv <;> rfl
        rw [this]
        refine ⟨by simp [ihl], ?_⟩
        intro x hx
        rcases List.mem_cons.1 hx with rfl | hx
        · exact hv
        · exact iha x hx
      | vec k =>
        simp only [hsh, hsz, Option.some.injEq] at h
        subst h
        rw [hsh, fits_vec] at hv
        obtain ⟨ws, rfl, hwl, hwa⟩ := fitsVec_inv hv
        have : constructExec.flat (.list ws :: vs) = ws ++ constructExec.flat vs := rfl
        rw [this]
        refine ⟨by simp [ihl, hwl] <;> omega, ?_⟩
        intro x hx
        rcases List.mem_append.1 hx with hx | hx
        · exact hwa x hx
        · exact iha x hx
      | mat r c => simp [hsh] at h
      | unit => simp [hsh] at h
      | bad => simp [hsh] at h

theorem rows_typed (c : Nat) : ∀ (as : Args) (vs : List Val), allRows c as = true → FitsArgs as vs →
    vs.length = argCount as ∧ ∀ x ∈ vs, fitsVec c x = true
  | .nil, [], _, _ => by simp [argCount]
  | .nil, _ :: _, _, hf => by cases hf
  | .cons e rest, [], _, hf => by cases hf
  | .cons e rest, v :: vs, h, hf => by
    obtain ⟨hv, hrest⟩ := hf
    simp only [allRows, Bool.and_eq_true, beq_iff_eq] at h
    obtain ⟨ihl, iha⟩ := rows_typed c rest vs h.2 hrest
    rw [h.1, fits_vec] at hv
    refine ⟨by simp [argCount, ihl], ?_⟩
    intro x hx
    rcases List.mem_cons.1 hx with rfl | hx
    · exact hv
    · exact iha x hx

theorem constructExec_typed {ty : ITy} {as : Args} {vs : List Val} {v : Val} (hok : okCons ty as = true)
    (hf : FitsArgs as vs) (h : constructExec ty vs = .ok v) : fits (shape ty) v = true := by
  cases ty with
  | vec s n =>
    simp only [okCons, beq_iff_eq] at hok
    simp only [constructExec, Except.ok.injEq] at h
    subst h
    obtain ⟨hl, ha⟩ := flat_typed as vs n hok hf
    rw [shape, fits_vec]
    exact fitsVec_mk hl ha
  | mat s r c =>
    simp only [okCons, Bool.and_eq_true, beq_iff_eq] at hok
    obtain ⟨hl, ha⟩ := rows_typed c as vs hok.1 hf
    simp only [constructExec] at h
    split at h
    · simp only [Except.ok.injEq] at h
      subst h
      exact fits_mat_mk (by omega) ha
    · cases h
  | sc s =>
    simp only [okCons] at hok
    match as, vs, hok, hf, h with
    | .cons e .nil, [x], hok, hf, h =>
      simp only [beq_iff_eq] at hok
      simp only [constructExec, Except.ok.injEq] at h
      subst h
      have := hf.1
      rw [hok] at this
      exact this
    | .cons e .nil, [], _, hf, _ => cases hf
    | .cons e .nil, _ :: _ :: _, _, hf, _ => exact absurd hf.2 (by simp [FitsArgs])
    | .nil, _, hok, _, _ => simp at hok
    | .cons _ (.cons _ _), _, hok, _, _ => simp at hok
  | arr e d => simp [okCons] at hok
  | struct nm f => simp [okCons] at hok
  | void => simp [okCons] at hok

end Vec
end Nsl
