import Nsl.Proofs.SimBase
import Nsl.Proofs.StorShape
/-!
# Storage core, basic facts: storage trees, the frame invariant, the aggregate instructions of the VM

* `Tree n v` – `v` is a storage tree of depth `n`: `n` navigation steps (list index / struct field) through
  aggregate values lead to a value that is not an alias.  `Tree 0 v` is "`v` is not an alias".
* `FrOKS Γ fr` – every local `x` of the frame is a tree of depth `Γ x`, the arguments are not aliases.
  (Registers are *not* constrained: they may hold aliases into the locals.)
* `DomLe Γ fr' fr` – every aggregate local that exists in `fr'` already existed in `fr`.
* one `stepI` lemma for each of `load`/`newVar` of an aggregate, `loadArr`, `storeArr`, `loadMem`, `storeMem`.
-/
set_option linter.unusedSimpArgs false
namespace Nsl
namespace Stor
open Core VM CoreSem Lower Sim

/-! ## Paths -/

theorem getPath_snoc {v c : Val} {p : List Key} (k : Key) (h : getPath v p = .ok c) :
    getPath v (p ++ [k]) = getKey c k := by
  induction p generalizing v with
  | nil =>
    simp only [getPath, Except.ok.injEq] at h
    subst h
    simp only [List.nil_append, getPath, bind, Except.bind]
    cases getKey v k <;> rfl
  | cons k0 ks ih =>
    simp only [getPath, bind, Except.bind] at h
    simp only [List.cons_append, getPath, bind, Except.bind]
    cases hk : getKey v k0 with
    | error e => simp [hk] at h
    | ok x =>
      simp only [hk] at h ⊢
      exact ih h

theorem getKey_list_idx {vs : List Val} {i : Nat} {x : Val} :
    getKey (.list vs) (.idx i) = .ok x ↔ vs[i]? = some x := by
  simp only [getKey]
  cases h : vs[i]? <;> simp

theorem getKey_struct_fld {fs : List (String × Val)} {n : String} {x : Val} :
    getKey (.struct fs) (.fld n) = .ok x ↔ Map.get fs n = some x := by
  simp only [getKey]
  cases h : Map.get fs n <;> simp

theorem indexOf_getKey {c i : Val} {k : Nat} (h : indexOf c i = .ok k) : ∃ x, getKey c (.idx k) = .ok x := by
  cases c with
  | list vs =>
    cases i with
    | int n =>
      simp only [indexOf] at h
      cases hn : normIndex vs.length n with
      | none => simp [hn] at h
      | some k' =>
        simp only [hn, Except.ok.injEq] at h
        subst h
        have hlt : k' < vs.length := by
          unfold normIndex at hn
          split at hn
          · split at hn
            · simp only [Option.some.injEq] at hn; omega
            · cases hn
          · split at hn
            · simp only [Option.some.injEq] at hn; omega
            · cases hn
        exact ⟨vs[k'], by rw [getKey_list_idx]; exact List.getElem?_eq_getElem hlt⟩
    | _ => simp [indexOf] at h
  | _ => simp [indexOf] at h

/-! ## Storage trees -/

def Tree : Nat → Val → Prop
  | 0, v => Val.isPtr v = false
  | n + 1, v => isAggVal v = true ∧ ∀ k x, getKey v k = .ok x → Tree n x

theorem Tree.noPtr : ∀ {n : Nat} {v : Val}, Tree n v → Val.isPtr v = false
  | 0, _, h => h
  | _ + 1, v, h => by
    have h1 := h.1
    cases v <;> simp [isAggVal] at h1 <;> rfl

theorem Tree.agg {n : Nat} {v : Val} (h : Tree (n + 1) v) : isAggVal v = true := h.1

theorem Tree.key {n : Nat} {v x : Val} {k : Key} (h : Tree (n + 1) v) (hk : getKey v k = .ok x) : Tree n x :=
  h.2 k x hk

theorem Tree.path : ∀ (p : List Key) {d : Nat} {v x : Val}, Tree (p.length + d) v → getPath v p = .ok x → Tree d x
  | [], d, v, x, h, hp => by
    simp only [getPath, Except.ok.injEq] at hp
    subst hp
    simpa using h
  | k :: ks, d, v, x, h, hp => by
    simp only [getPath, bind, Except.bind] at hp
    cases hk : getKey v k with
    | error e => simp [hk] at hp
    | ok y =>
      simp only [hk] at hp
      have h' : Tree ((ks.length + d) + 1) v := by
        have : (k :: ks).length + d = (ks.length + d) + 1 := by simp; omega
        rw [this] at h; exact h
      exact Tree.path ks (h'.key hk) hp

theorem Tree.setKey {n : Nat} {v y v' : Val} {k : Key} (h : Tree (n + 1) v) (hy : Tree n y)
    (hs : setKey v k y = .ok v') : Tree (n + 1) v' := by
  cases v with
  | list vs =>
    cases k with
    | idx i =>
      simp only [VM.setKey] at hs
      by_cases hi : i < vs.length
      · rw [if_pos hi] at hs
        simp only [Except.ok.injEq] at hs
        subst hs
        refine ⟨rfl, ?_⟩
        intro k' x hk'
        cases k' with
        | idx j =>
          rw [getKey_list_idx] at hk'
          rw [List.getElem?_set] at hk'
          by_cases hij : i = j
          · subst hij
            simp only [if_true] at hk'
            rw [if_pos hi] at hk'
            simp only [Option.some.injEq] at hk'; subst hk'; exact hy
          · rw [if_neg hij] at hk'
            exact h.key (k := .idx j) (getKey_list_idx.2 hk')
        | fld m => simp [getKey] at hk'
      · rw [if_neg hi] at hs; cases hs
    | fld m => simp [VM.setKey] at hs
  | struct fs =>
    cases k with
    | idx i => simp [VM.setKey] at hs
    | fld m =>
      simp only [VM.setKey, Except.ok.injEq] at hs
      subst hs
      refine ⟨rfl, ?_⟩
      intro k' x hk'
      cases k' with
      | idx j => simp [getKey] at hk'
      | fld m' =>
        rw [getKey_struct_fld] at hk'
        by_cases hmm : m = m'
        · subst hmm
          rw [Map.get_set_eq] at hk'
          simp only [Option.some.injEq] at hk'; subst hk'; exact hy
        · rw [Map.get_set_ne _ _ _ _ hmm] at hk'
          exact h.key (k := .fld m') (getKey_struct_fld.2 hk')
  | _ => simp [VM.setKey] at hs

theorem Tree.setPath : ∀ (p : List Key) {d : Nat} {v y v' : Val}, Tree (p.length + d) v → Tree d y →
    setPath v p y = .ok v' → Tree (p.length + d) v'
  | [], d, v, y, v', _, hy, hs => by
    simp only [VM.setPath, Except.ok.injEq] at hs
    subst hs
    simpa using hy
  | k :: ks, d, v, y, v', h, hy, hs => by
    have hlen : (k :: ks).length + d = (ks.length + d) + 1 := by simp; omega
    rw [hlen] at h ⊢
    simp only [VM.setPath, bind, Except.bind] at hs
    cases hk : getKey v k with
    | error e => simp [hk] at hs
    | ok child =>
      simp only [hk] at hs
      cases hc : VM.setPath child ks y with
      | error e => simp [hc] at hs
      | ok child' =>
        simp only [hc] at hs
        exact h.setKey (Tree.setPath ks (h.key hk) hy hc) hs

/-! ## Fresh instances are trees of the rank of their type -/

theorem createDims_noPtr {leaf : Val} (h : Val.isPtr leaf = false) : ∀ dims, Val.isPtr (createDims leaf dims) = false
  | [] => h
  | _ :: _ => rfl

theorem createInstance_noPtr : ∀ (ty : ITy), Val.isPtr (createInstance ty) = false
  | .sc _ => by simp [createInstance, Val.isPtr]
  | .vec _ _ => by simp [createInstance, Val.isPtr]
  | .mat _ _ _ => by simp [createInstance, Val.isPtr]
  | .arr elem dims => by
    have := createInstance_noPtr elem
    simp only [createInstance]
    exact createDims_noPtr this dims
  | .struct _ _ => by simp [createInstance, Val.isPtr]
  | .void => by simp [createInstance, Val.isPtr]

theorem createFields_get : ∀ (fs : List (String × ITy)) {n : String} {x : Val},
    Map.get (createFields fs) n = some x → Val.isPtr x = false
  | [], n, x, h => by simp [createFields] at h
  | (m, t) :: rest, n, x, h => by
    simp only [createFields, Map.get] at h
    by_cases hm : m = n
    · rw [if_pos hm] at h
      simp only [Option.some.injEq] at h
      subst h
      exact createInstance_noPtr t
    · rw [if_neg hm] at h
      exact createFields_get rest h

theorem tree_struct (n : String) (fs : List (String × ITy)) : Tree 1 (createInstance (.struct n fs)) := by
  simp only [createInstance]
  refine ⟨rfl, ?_⟩
  intro k x hk
  cases k with
  | idx i => simp [getKey] at hk
  | fld m =>
    rw [getKey_struct_fld] at hk
    exact createFields_get fs hk

theorem tree_createDims {leaf : Val} {r : Nat} (h : Tree r leaf) : ∀ dims, Tree (dims.length + r) (createDims leaf dims)
  | [] => by simpa [createDims] using h
  | d :: ds => by
    have hlen : (d :: ds).length + r = (ds.length + r) + 1 := by simp; omega
    rw [hlen]
    simp only [createDims]
    refine ⟨rfl, ?_⟩
    intro k x hk
    cases k with
    | idx i =>
      rw [getKey_list_idx, List.getElem?_replicate] at hk
      split at hk
      · simp only [Option.some.injEq] at hk; subst hk; exact tree_createDims h ds
      · cases hk
    | fld m => simp [getKey] at hk

theorem tree_createInstance (ty : ITy) : Tree (rank ty) (createInstance ty) := by
  cases ty with
  | arr elem dims =>
    have hci : createInstance (.arr elem dims) = createDims (createInstance elem) dims := by
      simp only [createInstance]
    rw [hci]
    cases elem with
    | struct n fs => simpa [rank] using tree_createDims (tree_struct n fs) dims
    | _ => simpa [rank] using tree_createDims (r := 0) (createInstance_noPtr _) dims
  | struct n fs => exact tree_struct n fs
  | _ => exact createInstance_noPtr _

/-! ## The frame invariant -/

def LocOK (Γ : Env) (m : Map String Val) : Prop := ∀ x v, Map.get m x = some v → Tree (Γ x) v

def FrOKS (Γ : Env) (fr : Frame) : Prop := LocOK Γ fr.locals ∧ ListOK fr.args

def DomLe (Γ : Env) (fr' fr : Frame) : Prop :=
  ∀ x, Γ x ≠ 0 → (Map.get fr'.locals x).isSome = true → (Map.get fr.locals x).isSome = true

theorem DomLe.refl (Γ : Env) (fr : Frame) : DomLe Γ fr fr := fun _ _ h => h

theorem DomLe.trans {Γ : Env} {a b c : Frame} (h1 : DomLe Γ a b) (h2 : DomLe Γ b c) : DomLe Γ a c :=
  fun x hx h => h2 x hx (h1 x hx h)

theorem LocOK.set {Γ : Env} {m : Map String Val} (h : LocOK Γ m) (x : String) {v : Val} (hv : Tree (Γ x) v) :
    LocOK Γ (Map.set m x v) := by
  intro y w hg
  by_cases hk : x = y
  · subst hk
    rw [Map.get_set_eq] at hg
    cases hg; exact hv
  · rw [Map.get_set_ne _ _ _ _ hk] at hg
    exact h y w hg

theorem LocOK.nil (Γ : Env) : LocOK Γ ([] : Map String Val) := by
  intro k v h; simp at h

theorem FrOKS.toFrOK {Γ : Env} {fr : Frame} (h : FrOKS Γ fr) : FrOK fr :=
  ⟨fun k v hk => (h.1 k v hk).noPtr, h.2⟩

theorem readRoot_noPtrS {Γ : Env} {fr : Frame} {g : Globals} {r : Root} {v : Val} (hf : FrOKS Γ fr) (hg : MapOK g)
    (h : readRoot fr g r = .ok v) : Val.isPtr v = false :=
  readRoot_noPtr hf.toFrOK hg h

theorem readRoot_loc {fr : Frame} {g : Globals} {x : String} {v : Val} :
    readRoot fr g (.loc x) = .ok v ↔ Map.get fr.locals x = some v := by
  simp only [readRoot]
  cases h : Map.get fr.locals x <;> simp

theorem readRoot_tree {Γ : Env} {fr : Frame} {g : Globals} {x : String} {v : Val} (hf : FrOKS Γ fr)
    (h : readRoot fr g (.loc x) = .ok v) : Tree (Γ x) v :=
  hf.1 x v (readRoot_loc.1 h)

/-- A scalar variable: its root is not an aggregate local. -/
theorem varOKS_rootOf {Γ : Env} {sc : Scope} {key : VarKey} (h : varOKS Γ sc key = true) :
    ∃ r, rootOf sc key = .ok r ∧ ∀ x, r = .loc x → Γ x = 0 := by
  cases sc <;> cases key <;> simp [varOKS] at h
  · exact ⟨_, rfl, by intro x hx; cases hx⟩
  · exact ⟨_, rfl, by intro x hx; cases hx⟩
  · exact ⟨_, rfl, by intro x hx; cases hx; exact h⟩

/-- Writing a non-alias to a scalar variable keeps the invariant. -/
theorem writeRoot_okS {Γ : Env} {fr : Frame} {g : Globals} {r : Root} {v : Val} {fr1 : Frame} {g1 : Globals}
    (hf : FrOKS Γ fr) (hg : MapOK g) (hv : Val.isPtr v = false) (hr : ∀ x, r = .loc x → Γ x = 0)
    (h : writeRoot fr g r v = .ok (fr1, g1)) : FrOKS Γ fr1 ∧ MapOK g1 ∧ DomLe Γ fr1 fr := by
  cases r with
  | loc n =>
    simp only [writeRoot, Except.ok.injEq, Prod.mk.injEq] at h
    obtain ⟨rfl, rfl⟩ := h
    have h0 := hr n rfl
    refine ⟨⟨hf.1.set n (by rw [h0]; exact hv), hf.2⟩, hg, ?_⟩
    intro x hx hs
    have hne : n ≠ x := by intro hh; subst hh; exact hx h0
    simpa [Map.get_set_ne _ _ _ _ hne] using hs
  | arg i =>
    simp only [writeRoot] at h
    by_cases hi : i < fr.args.length
    · rw [if_pos hi] at h
      simp only [Except.ok.injEq, Prod.mk.injEq] at h
      obtain ⟨rfl, rfl⟩ := h
      exact ⟨⟨hf.1, hf.2.set i hv⟩, hg, fun _ _ h => h⟩
    · rw [if_neg hi] at h; cases h
  | glob n =>
    simp only [writeRoot, Except.ok.injEq, Prod.mk.injEq] at h
    obtain ⟨rfl, rfl⟩ := h
    exact ⟨hf, hg.set n hv, fun _ _ h => h⟩

/-- Updating a leaf of an aggregate local keeps the invariant. -/
theorem writeLoc_okS {Γ : Env} {fr : Frame} {g : Globals} {x : String} {root root' v : Val} {p : List Key}
    {fr1 : Frame} {g1 : Globals}
    (hf : FrOKS Γ fr) (hv : Val.isPtr v = false) (hr : readRoot fr g (.loc x) = .ok root)
    (hlen : p.length + 0 = Γ x) (hs : setPath root p v = .ok root')
    (h : writeRoot fr g (.loc x) root' = .ok (fr1, g1)) : FrOKS Γ fr1 ∧ g1 = g ∧ DomLe Γ fr1 fr := by
  simp only [writeRoot, Except.ok.injEq, Prod.mk.injEq] at h
  obtain ⟨rfl, rfl⟩ := h
  have ht : Tree (p.length + 0) root := by rw [hlen]; exact readRoot_tree hf hr
  have ht' := Tree.setPath p ht hv hs
  rw [hlen] at ht'
  refine ⟨⟨hf.1.set x ht', hf.2⟩, rfl, ?_⟩
  intro y _ hs'
  by_cases hxy : x = y
  · subst hxy
    rw [readRoot_loc] at hr
    simp [hr]
  · simpa [Map.get_set_ne _ _ _ _ hxy] using hs'

/-! ## The aggregate instructions -/

variable {cf : String → List Val → Globals → Res} {code : List Instr} {pc : Nat} {fr : Frame} {g : Globals}

theorem step_load_agg {dst : Nat} {ty : ITy} {sc : Scope} {var : VarKey} {root : Root} {v : Val}
    (hc : code[pc]? = some (.load dst ty sc var)) (hroot : rootOf sc var = .ok root)
    (hr : readRoot fr g root = .ok v) (ha : ty.isAggregate = true) (hv : isAggVal v = true) :
    stepI cf code pc fr g = .next (pc + 1) (setReg fr dst (.ptr root [])) g := by
  simp [stepI, hc, liftE, hroot, hr, ha, hv]

theorem step_newVar_any {dst : Nat} {ty : ITy} {name : String} (hc : code[pc]? = some (.newVar dst ty name)) :
    ∃ w, stepI cf code pc fr g =
      .next (pc + 1) (setReg { fr with locals := Map.set fr.locals name (createInstance ty) } dst w) g := by
  cases ha : ty.isAggregate
  · exact ⟨createInstance ty, by simp [stepI, hc, ha]⟩
  · exact ⟨.ptr (.loc name) [], by simp [stepI, hc, ha]⟩

theorem step_loadArr {dst : Nat} {ty : ITy} {arr idx : Opd} {r : Root} {p : List Key} {i root c x : Val} {k : Nat}
    (hc : code[pc]? = some (.loadArr dst ty arr idx))
    (ha : evalOpd fr arr = .ok (.ptr r p)) (hi : evalOpd fr idx = .ok i) (hpi : Val.isPtr i = false)
    (hr : readRoot fr g r = .ok root) (hp : getPath root p = .ok c) (hk : indexOf c i = .ok k)
    (hx : getKey c (.idx k) = .ok x) :
    stepI cf code pc fr g =
      .next (pc + 1) (setReg fr dst (if ty.isAggregate && isAggVal x then .ptr r (p ++ [.idx k]) else x)) g := by
  simp only [stepI, hc, liftE, ha, evalVal_of_noPtr hi hpi, hr, hp, hk, hx, bind, Except.bind]
  split <;> rfl

theorem step_storeArr {arr idx src : Opd} {r : Root} {p : List Key} {i v root c root' : Val} {k : Nat}
    {fr' : Frame} {g' : Globals}
    (hc : code[pc]? = some (.storeArr arr idx src))
    (ha : evalOpd fr arr = .ok (.ptr r p)) (hi : evalOpd fr idx = .ok i) (hpi : Val.isPtr i = false)
    (hv : evalOpd fr src = .ok v) (hpv : Val.isPtr v = false)
    (hr : readRoot fr g r = .ok root) (hp : getPath root p = .ok c) (hk : indexOf c i = .ok k)
    (hs : setPath root (p ++ [.idx k]) v = .ok root') (hw : writeRoot fr g r root' = .ok (fr', g')) :
    stepI cf code pc fr g = .next (pc + 1) fr' g' := by
  simp only [stepI, hc, liftE, ha, evalVal_of_noPtr hi hpi, hv]
  cases v <;> simp_all [Val.isPtr, liftE]

theorem step_loadMem {dst : Nat} {ty : ITy} {obj : Opd} {field : String} {r : Root} {p : List Key} {root c x : Val}
    (hc : code[pc]? = some (.loadMem dst ty obj field))
    (ha : evalOpd fr obj = .ok (.ptr r p))
    (hr : readRoot fr g r = .ok root) (hp : getPath root p = .ok c) (hx : getKey c (.fld field) = .ok x) :
    stepI cf code pc fr g =
      .next (pc + 1) (setReg fr dst (if ty.isAggregate && isAggVal x then .ptr r (p ++ [.fld field]) else x)) g := by
  simp only [stepI, hc, liftE, ha, hr, hp, hx, bind, Except.bind]
  split <;> rfl

theorem step_storeMem {obj src : Opd} {field : String} {r : Root} {p : List Key} {v root root' : Val}
    {fr' : Frame} {g' : Globals}
    (hc : code[pc]? = some (.storeMem obj field src))
    (ha : evalOpd fr obj = .ok (.ptr r p)) (hv : evalOpd fr src = .ok v) (hpv : Val.isPtr v = false)
    (hr : readRoot fr g r = .ok root)
    (hs : setPath root (p ++ [.fld field]) v = .ok root') (hw : writeRoot fr g r root' = .ok (fr', g')) :
    stepI cf code pc fr g = .next (pc + 1) fr' g' := by
  simp only [stepI, hc, liftE, ha, hv]
  cases v <;> simp_all [Val.isPtr, liftE]

end Stor
end Nsl
