/-!
# S-expressions for the line protocol between the Python harness and the model driver
(not part of the verified model; trusted glue, see DESIGN.md §8)
-/
namespace Nsl

inductive Sexp
  | atom (s : String)
  | list (xs : List Sexp)
  deriving Inhabited

namespace Sexp

partial def toStr : Sexp → String
  | .atom s => s
  | .list xs => "(" ++ " ".intercalate (xs.map toStr) ++ ")"

/-- Tokenise: parentheses and whitespace-separated atoms. Atoms never contain spaces or parens
(strings are escaped by the harness). -/
def tokens (s : String) : List String := Id.run do
  let mut out : Array String := #[]
  let mut cur : String := ""
  for c in s.toList do
    if c == '(' || c == ')' then
      if cur != "" then out := out.push cur; cur := ""
      out := out.push (String.singleton c)
    else if c == ' ' || c == '\n' || c == '\t' || c == '\r' then
      if cur != "" then out := out.push cur; cur := ""
    else cur := cur.push c
  if cur != "" then out := out.push cur
  return out.toList

partial def parseList : List String → List Sexp → Option (List Sexp × List String)
  | [], _ => none
  | ")" :: rest, acc => some (acc.reverse, rest)
  | "(" :: rest, acc =>
    match parseList rest [] with
    | some (xs, rest') => parseList rest' (.list xs :: acc)
    | none => none
  | t :: rest, acc => parseList rest (.atom t :: acc)

def parse (s : String) : Option Sexp :=
  match tokens s with
  | "(" :: rest =>
    match parseList rest [] with
    | some (xs, []) => some (.list xs)
    | _ => none
  | [t] => some (.atom t)
  | _ => none

def a (s : String) : Sexp := .atom s
def l (xs : List Sexp) : Sexp := .list xs
def n (i : Int) : Sexp := .atom (toString i)

end Sexp
end Nsl
