import Nsl.Driver.Sexp
import Nsl.Model.Core
import Nsl.Model.VM
/-!
# Decoding/encoding of programs, IR and values for the line protocol (trusted glue)
-/
namespace Nsl
namespace Codec
open Sexp

def atomStr : Sexp → Option String
  | .atom s => some s
  | _ => none

def atomInt (s : Sexp) : Option Int := do (← atomStr s).toInt?
def atomNat (s : Sexp) : Option Nat := do (← atomStr s).toNat?

def decSc : String → Option Sc
  | "float" => some .float | "int" => some .int | "uint" => some .uint | _ => none

partial def decTy : Sexp → Option ITy
  | .atom "void" => some .void
  | .atom s => do some (.sc (← decSc s))
  | .list [.atom "vec", .atom c, n] => do some (.vec (← decSc c) (← atomNat n))
  | .list [.atom "mat", .atom c, r, k] => do some (.mat (← decSc c) (← atomNat r) (← atomNat k))
  | .list (.atom "arr" :: elem :: dims) => do some (.arr (← decTy elem) (← dims.mapM atomNat))
  | .list (.atom "struct" :: .atom name :: fields) => do
    let fs ← fields.mapM fun f => match f with
      | .list [.atom n, t] => do some (n, ← decTy t)
      | _ => none
    some (.struct name fs)
  | _ => none

partial def encTy : ITy → Sexp
  | .void => a "void"
  | .sc .float => a "float" | .sc .int => a "int" | .sc .uint => a "uint"
  | .vec c n => l [a "vec", encTy (.sc c), Sexp.n n]
  | .mat c r k => l [a "mat", encTy (.sc c), Sexp.n r, Sexp.n k]
  | .arr e ds => l (a "arr" :: encTy e :: ds.map (fun d => Sexp.n (d : Nat)))
  | .struct name fs => l (a "struct" :: a name :: fs.map (fun (n, t) => l [a n, encTy t]))

def decFloat (s : Sexp) : Option Float := do
  let n ← atomNat s
  some (Float.ofBits n.toUInt64)

def encFloat (f : Float) : Sexp := a (toString f.toBits.toNat)

partial def decVal : Sexp → Option Val
  | .list [.atom "i", n] => do some (.int (← atomInt n))
  | .list [.atom "f", b] => do some (.flt (← decFloat b))
  | .list [.atom "n"] => some .none
  | .list (.atom "l" :: xs) => do some (.list (← xs.mapM decVal))
  | .list (.atom "s" :: fs) => do
    let kv ← fs.mapM fun f => match f with
      | .list [.atom n, v] => do some (n, ← decVal v)
      | _ => none
    some (.struct kv)
  | _ => none

partial def encVal : Val → Sexp
  | .int i => l [a "i", Sexp.n i]
  | .flt f => l [a "f", encFloat f]
  | .none => l [a "n"]
  | .list vs => l (a "l" :: vs.map encVal)
  | .struct fs => l (a "s" :: fs.map (fun (n, v) => l [a n, encVal v]))
  | .ptr _ _ => l [a "ptr"]

def encErr : Err → Sexp
  | .divZero => l [a "err", a "divzero"]
  | .indexOOB => l [a "err", a "indexoob"]
  | .internal s => l [a "err", a "internal", a s]
  | .unsupported s => l [a "err", a "unsupported", a s]
  | .timeout => l [a "err", a "timeout"]

def decScope : String → Option Scope
  | "global" => some .global | "arg" => some .arg | "local" => some .local | _ => none

def decKey (sc : Scope) (s : Sexp) : Option VarKey :=
  match sc with
  | .arg => do some (.index (← atomNat s))
  | _ => do some (.name (← atomStr s))

def decBOp : String → Option Core.BOp
  | "add" => some .add | "sub" => some .sub | "mul" => some .mul | "div" => some .div
  | "mod" => some .mod | "lt" => some .lt | "le" => some .le | "gt" => some .gt | "ge" => some .ge
  | "eq" => some .eq | "ne" => some .ne | "land" => some .land | "lor" => some .lor
  | _ => none

mutual
  partial def decExpr : Sexp → Option Core.Expr
    | .list [.atom "i", n] => do some (.litI (← atomInt n))
    | .list [.atom "f", b] => do some (.litF (← decFloat b))
    | .list [.atom "var", .atom sc, key, t] => do
      let sc ← decScope sc
      some (.var sc (← decKey sc key) (← decTy t))
    | .list [.atom "bin", .atom op, t, x, y] => do
      some (.bin (← decBOp op) (← decTy t) (← decExpr x) (← decExpr y))
    | .list [.atom "cast", t, x] => do some (.cast (← decTy t) (← decExpr x))
    | .list [.atom "assign", x, y] => do some (.assign (← decExpr x) (← decExpr y))
    | .list [.atom "affix", .atom pp, .atom id, x] => do
      some (.affix (pp == "post") (id == "inc") (← decExpr x))
    | .list (.atom "call" :: .atom fn :: t :: args) => do
      some (.call fn (← decTy t) (← decArgs args))
    | .list [.atom "idx", .atom k, t, b, i] => do
      let k ← match k with
        | "arr" => some Core.IdxKind.arr | "vec" => some .vec | "mat" => some .mat | _ => none
      some (.index k (← decTy t) (← decExpr b) (← decExpr i))
    | .list [.atom "mem", t, b, .atom f] => do some (.member (← decTy t) (← decExpr b) f)
    | .list (.atom "swz" :: t :: b :: idx) => do
      some (.swizzle (← decTy t) (← decExpr b) (← idx.mapM atomNat))
    | .list (.atom "cons" :: t :: args) => do some (.construct (← decTy t) (← decArgs args))
    | _ => none
  partial def decArgs : List Sexp → Option Core.Args
    | [] => some .nil
    | x :: xs => do some (.cons (← decExpr x) (← decArgs xs))
end

def decOptExpr : Sexp → Option (Option Core.Expr)
  | .list [.atom "none"] => some none
  | s => do some (some (← decExpr s))

partial def decStmt : Sexp → Option Core.Stmt
  | .list [.atom "skip"] => some .skip
  | .list [.atom "decl", .atom x, t] => do some (.decl x (← decTy t) none)
  | .list [.atom "decl", .atom x, t, e] => do some (.decl x (← decTy t) (some (← decExpr e)))
  | .list [.atom "expr", e] => do some (.expr (← decExpr e))
  | .list (.atom "block" :: ss) => do
    let ss ← ss.mapM decStmt
    some (ss.foldr (fun s acc => .seq s acc) .skip)
  | .list [.atom "if", c, t] => do some (.ite1 (← decExpr c) (← decStmt t))
  | .list [.atom "ife", c, t, e] => do some (.ite2 (← decExpr c) (← decStmt t) (← decStmt e))
  | .list [.atom "while", c, b] => do some (.whileL (← decExpr c) (← decStmt b))
  | .list [.atom "do", b, c] => do some (.doL (← decStmt b) (← decExpr c))
  | .list [.atom "for", i, c, n, b] => do
    some (.forL (← decStmt i) (← decOptExpr c) (← decOptExpr n) (← decStmt b))
  | .list [.atom "break"] => some .brk
  | .list [.atom "continue"] => some .cont
  | .list [.atom "ret"] => some (.ret none)
  | .list [.atom "ret", e] => do some (.ret (some (← decExpr e)))
  | _ => none

def decParams (ps : List Sexp) : Option (List (String × ITy)) :=
  ps.mapM fun p => match p with
    | .list [.atom n, t] => do some (n, ← decTy t)
    | _ => none

def decModule : Sexp → Option Core.Module
  | .list [.atom "module", .list (.atom "globals" :: gs), .list (.atom "fns" :: fs)] => do
    let gs ← decParams gs
    let fs ← fs.mapM fun f => match f with
      | .list [.atom "fn", .atom name, .list (.atom "params" :: ps), ret, body] => do
        some ({ name := name, params := ← decParams ps, ret := ← decTy ret, body := ← decStmt body } : Core.FnDef)
      | _ => none
    some { globals := gs, fns := fs }
  | _ => none

/-! ### IR -/

def decOpd : Sexp → Option Opd
  | .list [.atom "r", n] => do some (.ref (← atomNat n))
  | .list [.atom "ci", n] => do some (.cInt (← atomInt n))
  | .list [.atom "cf", b] => do some (.cFlt (← decFloat b))
  | _ => none

def encOpd : Opd → Sexp
  | .ref n => l [a "r", Sexp.n n]
  | .cInt i => l [a "ci", Sexp.n i]
  | .cFlt f => l [a "cf", encFloat f]

def sopNames : List (String × SOp) :=
  [("add", .add), ("sub", .sub), ("mul", .mul), ("div", .div), ("mod", .mod),
   ("lg_and", .lgAnd), ("lg_or", .lgOr), ("cmp_gt", .gt), ("cmp_lt", .lt), ("cmp_le", .le),
   ("cmp_ge", .ge), ("cmp_ne", .ne), ("cmp_eq", .eq)]

def decBinOp (s : String) : Option BinOp :=
  match s with
  | "vector_mul_scalar" => some .vMulS
  | "vector_div_scalar" => some .vDivS
  | "matrix_mul_matrix" => some .mMulM
  | "matrix_mul_vector" => some .mMulV
  | "invalid" => some .invalid
  | _ =>
    if s.startsWith "vector_" then
      (sopNames.find? (fun p => "vector_" ++ p.1 == s)).map (fun p => BinOp.v p.2)
    else (sopNames.find? (fun p => p.1 == s)).map (fun p => BinOp.s p.2)

def encSOp (o : SOp) : String :=
  ((sopNames.find? (fun p => p.2 == o)).map (·.1)).getD "?"

def encBinOp : BinOp → String
  | .s o => encSOp o
  | .v o => "vector_" ++ encSOp o
  | .vMulS => "vector_mul_scalar" | .vDivS => "vector_div_scalar"
  | .mMulM => "matrix_mul_matrix" | .mMulV => "matrix_mul_vector" | .invalid => "invalid"

def encKey : VarKey → Sexp
  | .name s => a s
  | .index i => Sexp.n i

def encScope : Scope → Sexp
  | .global => a "global" | .arg => a "arg" | .local => a "local"

def decInstr : Sexp → Option Instr
  | .list [.atom "label", n] => do some (.label (← atomNat n))
  | .list [.atom "load", d, t, .atom sc, key] => do
    let sc ← decScope sc
    some (.load (← atomNat d) (← decTy t) sc (← decKey sc key))
  | .list [.atom "store", .atom sc, key, v] => do
    let sc ← decScope sc
    some (.store sc (← decKey sc key) (← decOpd v))
  | .list [.atom "newvar", d, t, .atom name] => do some (.newVar (← atomNat d) (← decTy t) name)
  | .list [.atom "bin", d, .atom op, t, x, y] => do
    some (.bin (← atomNat d) (← decBinOp op) (← decTy t) (← decOpd x) (← decOpd y))
  | .list [.atom "cast", d, t, x] => do some (.cast (← atomNat d) (← decTy t) (← decOpd x))
  | .list [.atom "br", t] => do some (.br (← atomNat t))
  | .list [.atom "brc", p, t, f] => do some (.brc (← decOpd p) (← atomNat t) (← atomNat f))
  | .list [.atom "ret"] => some (.ret none)
  | .list [.atom "ret", v] => do some (.ret (some (← decOpd v)))
  | .list (.atom "call" :: d :: t :: .atom fn :: args) => do
    some (.call (← atomNat d) (← decTy t) fn (← args.mapM decOpd))
  | .list [.atom "loadarr", d, t, x, i] => do
    some (.loadArr (← atomNat d) (← decTy t) (← decOpd x) (← decOpd i))
  | .list [.atom "storearr", x, i, v] => do some (.storeArr (← decOpd x) (← decOpd i) (← decOpd v))
  | .list [.atom "loadmem", d, t, x, .atom f] => do
    some (.loadMem (← atomNat d) (← decTy t) (← decOpd x) f)
  | .list [.atom "storemem", x, .atom f, v] => do some (.storeMem (← decOpd x) f (← decOpd v))
  | .list [.atom "vecget", d, t, x, i] => do
    some (.vecGet (← atomNat d) (← decTy t) (← decOpd x) (← decOpd i))
  | .list [.atom "vecset", d, t, x, i, v] => do
    some (.vecSet (← atomNat d) (← decTy t) (← decOpd x) (← decOpd i) (← decOpd v))
  | .list [.atom "matget", d, t, x, i] => do
    some (.matGet (← atomNat d) (← decTy t) (← decOpd x) (← decOpd i))
  | .list [.atom "matset", d, t, x, i, v] => do
    some (.matSet (← atomNat d) (← decTy t) (← decOpd x) (← decOpd i) (← decOpd v))
  | .list (.atom "shuffle" :: d :: t :: x :: y :: idx) => do
    some (.shuffle (← atomNat d) (← decTy t) (← decOpd x) (← decOpd y) (← idx.mapM atomNat))
  | .list (.atom "construct" :: d :: t :: vals) => do
    some (.construct (← atomNat d) (← decTy t) (← vals.mapM decOpd))
  | _ => none

def encInstr : Instr → Sexp
  | .label n => l [a "label", Sexp.n n]
  | .load d t sc k => l [a "load", Sexp.n d, encTy t, encScope sc, encKey k]
  | .store sc k v => l [a "store", encScope sc, encKey k, encOpd v]
  | .newVar d t name => l [a "newvar", Sexp.n d, encTy t, a name]
  | .bin d op t x y => l [a "bin", Sexp.n d, a (encBinOp op), encTy t, encOpd x, encOpd y]
  | .cast d t x => l [a "cast", Sexp.n d, encTy t, encOpd x]
  | .br t => l [a "br", Sexp.n t]
  | .brc p t f => l [a "brc", encOpd p, Sexp.n t, Sexp.n f]
  | .ret none => l [a "ret"]
  | .ret (some v) => l [a "ret", encOpd v]
  | .call d t fn args => l (a "call" :: Sexp.n d :: encTy t :: a fn :: args.map encOpd)
  | .loadArr d t x i => l [a "loadarr", Sexp.n d, encTy t, encOpd x, encOpd i]
  | .storeArr x i v => l [a "storearr", encOpd x, encOpd i, encOpd v]
  | .loadMem d t x f => l [a "loadmem", Sexp.n d, encTy t, encOpd x, a f]
  | .storeMem x f v => l [a "storemem", encOpd x, a f, encOpd v]
  | .vecGet d t x i => l [a "vecget", Sexp.n d, encTy t, encOpd x, encOpd i]
  | .vecSet d t x i v => l [a "vecset", Sexp.n d, encTy t, encOpd x, encOpd i, encOpd v]
  | .matGet d t x i => l [a "matget", Sexp.n d, encTy t, encOpd x, encOpd i]
  | .matSet d t x i v => l [a "matset", Sexp.n d, encTy t, encOpd x, encOpd i, encOpd v]
  | .shuffle d t x y idx => l (a "shuffle" :: Sexp.n d :: encTy t :: encOpd x :: encOpd y :: idx.map (fun i => Sexp.n (i : Nat)))
  | .construct d t vals => l (a "construct" :: Sexp.n d :: encTy t :: vals.map encOpd)

def decFunc : Sexp → Option Func
  | .list [.atom "func", .atom name, .list (.atom "params" :: ps), ret, .list (.atom "code" :: code)] => do
    some { name := name, params := ← decParams ps, ret := ← decTy ret, code := ← code.mapM decInstr }
  | _ => none

def encFunc (f : Func) : Sexp :=
  l [a "func", a f.name, l (a "params" :: f.params.map (fun (n, t) => l [a n, encTy t])), encTy f.ret,
     l (a "code" :: f.code.map encInstr)]

def decProgram : Sexp → Option Program
  | .list [.atom "program", .list (.atom "globals" :: gs), .list (.atom "funcs" :: fs)] => do
    some { globals := ← decParams gs, funcs := ← fs.mapM decFunc }
  | _ => none

def encProgram (p : Program) : Sexp :=
  l [a "program", l (a "globals" :: p.globals.map (fun (n, t) => l [a n, encTy t])),
     l (a "funcs" :: p.funcs.map encFunc)]

def decGlobals : Sexp → Option VM.Globals
  | .list (.atom "globals" :: gs) => gs.mapM fun g => match g with
    | .list [.atom n, v] => do some (n, ← decVal v)
    | _ => none
  | _ => none

def encGlobals (g : VM.Globals) : Sexp :=
  l (a "globals" :: g.map (fun (n, v) => l [a n, encVal v]))

end Codec
end Nsl
