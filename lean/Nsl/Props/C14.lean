import Nsl.Model.WF
import Nsl.Proofs.WF
/-!
# C14 – well-formedness of compiled IR: the certificate checker is sound

`wfCheck fn P = true` implies the declarative `WF fn P` (unique definitions, unique and existing
branch targets, calls resolve with matching arity, every used reference is defined earlier on
every control-flow path from the entry).  The proof of the path property is `path_inv`, an
induction over the path that only uses the edge-wise conditions re-verified by the checker; it is
independent of the (untrusted) data-flow analysis `computeIn`.
-/
namespace Nsl.WF

theorem wfCheck_sound (fn : Func) (P : Program) (h : wfCheck fn P = true) : WF fn P := by
  -- unpack the chain of checks
  have h0 : wfErr fn P = none := by
    simpa [wfCheck] using h
  unfold wfErr at h0
  obtain ⟨hdup, h0⟩ := orElse_none h0
  obtain ⟨hlab, h0⟩ := orElse_none h0
  obtain ⟨htgt, h0⟩ := orElse_none h0
  obtain ⟨hcall, h0⟩ := orElse_none h0
  obtain ⟨hentry, h0⟩ := orElse_none h0
  obtain ⟨huse, hedge⟩ := orElse_none h0
  have hdup' : firstDup (fn.code.filterMap defOf) = none := by simpa using hdup
  have hlab' : firstDup (fn.code.filterMap labelOf) = none := by simpa using hlab
  rw [List.findSome?_eq_none_iff] at htgt hcall huse hedge
  have hrange : ∀ {i : Nat} {ins : Instr}, fn.code[i]? = some ins →
      i ∈ List.range fn.code.length := fun hi =>
    List.mem_range.2 (List.getElem?_eq_some_iff.1 hi).1
  refine ⟨?_, ?_, ?_, ?_, ?_⟩
  · -- (a)
    exact firstDup_filterMap_idx defOf fn.code hdup'
  · -- (b1)
    intro i j l hi hj
    exact firstDup_filterMap_idx labelOf fn.code hlab' i j _ _ l hi hj rfl rfl
  · -- (b2)
    intro i ins l hi hl
    have := htgt i (hrange hi)
    simp only [labelErr, hi] at this
    rw [List.findSome?_eq_none_iff] at this
    have := this l hl
    cases hp : labelPos fn.code l with
    | none => simp [hp] at this
    | some p => exact ⟨p, rfl, labelPos_some hp⟩
  · -- (c)
    intro i dst ty f args hi
    have := hcall i (hrange hi)
    simp only [callErr, hi] at this
    cases hf : P.find f with
    | none => simp [hf] at this
    | some callee =>
      simp only [hf] at this
      by_cases hlen : callee.params.length = args.length
      · exact ⟨callee, rfl, hlen⟩
      · rw [if_neg hlen] at this
        cases this
  · -- (d)
    intro p q ins r hhead hpath hlast hq hr
    -- the certificate, as a function of the position
    let inn : Nat → List Nat := inAt (computeIn fn.code)
    have hedge' : ∀ pc s, s ∈ succs fn.code pc →
        ∀ r ∈ inn s, r ∈ inn pc ∨ defAt fn.code pc = some r := by
      intro pc s hs r' hr'
      have := hedge pc (List.mem_range.2 (succs_in_range hs))
      simp only [edgeErr] at this
      rw [List.findSome?_eq_none_iff] at this
      have := this s hs
      cases hsf : subFail (inAt (computeIn fn.code) s)
          (addDef (defAt fn.code pc) (inAt (computeIn fn.code) pc)) with
      | some x => simp [hsf] at this
      | none => exact mem_addDef (subFail_none _ _ hsf r' hr')
    have hentry' : ∀ r ∈ inn 0, False := by
      intro r' hr'
      by_cases he : (inAt (computeIn fn.code) 0).isEmpty = true
      · have : inAt (computeIn fn.code) 0 = [] := by simpa using he
        simp [inn, this] at hr'
      · rw [if_neg he] at hentry
        cases hentry
    have huse' : r ∈ inn q := by
      have := huse q (hrange hq)
      simp only [useErr, hq] at this
      rw [List.findSome?_eq_none_iff] at this
      have := this r hr
      by_cases hc : (inAt (computeIn fn.code) q).contains r = true
      · simpa using hc
      · rw [if_neg hc] at this
        cases this
    cases p with
    | nil => simp at hhead
    | cons a p' =>
      have ha : a = 0 := by simpa using hhead
      subst ha
      rcases path_inv fn.code inn hedge' p' 0 (fun _ => False) hpath hentry' q hlast r huse'
        with h | ⟨k, d, hk, hget, hdef⟩
      · exact h.elim
      · exact ⟨k, d, by simpa using hk, hget, hdef⟩

#print axioms wfCheck_sound

/-- `wfReport` says "ok" exactly when the checker accepts. -/
theorem wfReport_ok_iff (fn : Func) (P : Program) : wfReport fn P = "ok" ↔ wfCheck fn P = true := by
  unfold wfReport wfCheck
  cases h : wfErr fn P with
  | none => simp
  | some e => simpa using e.msg_ne_ok

#print axioms wfReport_ok_iff

/-- Corollary: a function whose report is "ok" is well-formed. -/
theorem wfReport_sound (fn : Func) (P : Program) (h : wfReport fn P = "ok") : WF fn P :=
  wfCheck_sound fn P ((wfReport_ok_iff fn P).1 h)

#print axioms wfReport_sound

/-! ## Non-vacuity: the checker accepts ordinary code and rejects each kind of defect -/

namespace Nsl.WF.Ex
def i32 : ITy := .sc .int
def mk (name : String) (np : Nat) (code : List Instr) : Func :=
  ⟨name, (List.range np).map (fun i => ("a" ++ toString i, i32)), i32, code⟩

/-- (1) straight-line code: `return a0 + a1` -/
def fStraight := mk "add" 2 [
  .label 0,
  .load 1 i32 .arg (.index 0),
  .load 2 i32 .arg (.index 1),
  .bin 3 (.s .add) i32 (.ref 1) (.ref 2),
  .ret (some (.ref 3))]

/-- (2) if/else diamond; both arms define different temporaries, the join only uses `%1`. -/
def fDiamond := mk "sel" 1 [
  .label 0,
  .load 1 i32 .arg (.index 0),
  .newVar 2 i32 "r",
  .bin 3 (.s .gt) i32 (.ref 1) (.cInt 0),
  .brc (.ref 3) 1 2,
  .label 1,
  .bin 4 (.s .add) i32 (.ref 1) (.cInt 1),
  .store .local (.name "r") (.ref 4),
  .br 3,
  .label 2,
  .bin 5 (.s .sub) i32 (.ref 1) (.cInt 1),
  .store .local (.name "r") (.ref 5),
  .br 3,
  .label 3,
  .load 6 i32 .local (.name "r"),
  .bin 7 (.s .mul) i32 (.ref 6) (.ref 1),
  .ret (some (.ref 7))]

/-- (3) while loop with a back edge. -/
def fLoop := mk "sum" 1 [
  .label 0,
  .load 1 i32 .arg (.index 0),
  .newVar 2 i32 "i",
  .store .local (.name "i") (.cInt 0),
  .br 1,
  .label 1,                                  -- loop header
  .load 3 i32 .local (.name "i"),
  .bin 4 (.s .lt) i32 (.ref 3) (.ref 1),
  .brc (.ref 4) 2 3,
  .label 2,                                  -- body
  .bin 5 (.s .add) i32 (.ref 3) (.cInt 1),
  .store .local (.name "i") (.ref 5),
  .br 1,                                     -- back edge
  .label 3,
  .ret (some (.ref 3))]

/-- (4) a function calling another. -/
def fCaller := mk "twice" 1 [
  .label 0,
  .load 1 i32 .arg (.index 0),
  .call 2 i32 "add" [.ref 1, .ref 1],
  .call 3 i32 "sum" [.ref 2],
  .ret (some (.ref 3))]

def prog : Program := ⟨[fStraight, fDiamond, fLoop, fCaller], []⟩

/-- use before def on one path only -/
def bOnePath := mk "bad1" 1 [
  .label 0,
  .load 1 i32 .arg (.index 0),
  .brc (.ref 1) 1 2,
  .label 1,
  .bin 2 (.s .add) i32 (.ref 1) (.cInt 1),
  .br 2,
  .label 2,
  .ret (some (.ref 2))]
def bDup := mk "bad2" 1 [
  .label 0,
  .load 1 i32 .arg (.index 0),
  .bin 1 (.s .add) i32 (.ref 1) (.cInt 1),
  .ret (some (.ref 1))]
def bLabel := mk "bad3" 1 [
  .label 0,
  .load 1 i32 .arg (.index 0),
  .brc (.ref 1) 1 5,
  .label 1,
  .ret (some (.ref 1))]
def bArity := mk "bad4" 1 [
  .label 0,
  .load 1 i32 .arg (.index 0),
  .call 2 i32 "add" [.ref 1],
  .ret (some (.ref 2))]
def bUnknown := mk "bad5" 1 [
  .label 0,
  .call 2 i32 "nope" [],
  .ret (some (.ref 2))]
def bUndef := mk "bad6" 1 [
  .label 0,
  .load 1 i32 .arg (.index 0),
  .bin 2 (.s .add) i32 (.ref 1) (.ref 9),
  .ret (some (.ref 2))]
/-- loop: value defined in body used in header (only defined on the back-edge path) -/
def bLoop := mk "bad7" 1 [
  .label 0,
  .load 1 i32 .arg (.index 0),
  .br 1,
  .label 1,
  .bin 4 (.s .lt) i32 (.ref 5) (.ref 1),
  .brc (.ref 4) 2 3,
  .label 2,
  .bin 5 (.s .add) i32 (.ref 1) (.cInt 1),
  .br 1,
  .label 3,
  .ret none]
def bDupLabel := mk "bad8" 1 [
  .label 0,
  .br 1,
  .label 1,
  .br 1,
  .label 1,
  .ret none]
end Nsl.WF.Ex

namespace Nsl.WF
open Ex

-- accepted
example : wfCheck fStraight prog = true := by decide +kernel
example : wfCheck fDiamond prog = true := by decide +kernel
example : wfCheck fLoop prog = true := by decide +kernel
example : wfCheck fCaller prog = true := by decide +kernel
example : WF fLoop prog := wfCheck_sound _ _ (by decide +kernel)

-- rejected, with the reported reason
example : wfCheck bOnePath prog = false := by decide +kernel
example : wfReport bOnePath prog = "use-before-def pc=7 ref=2" := by decide +kernel
example : wfReport bDup prog = "dup-def ref=1" := by decide +kernel
example : wfReport bLabel prog = "missing-label 5 pc=2" := by decide +kernel
example : wfReport bArity prog = "bad-call add pc=2 params=2 args=1" := by decide +kernel
example : wfReport bUnknown prog = "bad-call nope pc=1 unknown-function" := by decide +kernel
example : wfReport bUndef prog = "use-before-def pc=2 ref=9" := by decide +kernel
example : wfReport bLoop prog = "use-before-def pc=4 ref=5" := by decide +kernel
example : wfReport bDupLabel prog = "dup-label 1" := by decide +kernel

/-- The rejected one-path example really is ill-formed (so rejecting it is not over-caution):
along the path `0,1,2 → 6,7` (the `else` edge) `%2` is never defined. -/
example : ¬ WF bOnePath prog := by
  intro h
  obtain ⟨k, d, hk, hget, hdef⟩ :=
    h.definedOnAllPaths [0, 1, 2, 6, 7] 7 (.ret (some (.ref 2))) 2 rfl
      (by simp only [IsPath]; decide) rfl rfl (by decide)
  have hk' : k < 4 := by simp at hk; omega
  have : k = 0 ∨ k = 1 ∨ k = 2 ∨ k = 3 := by omega
  rcases this with rfl | rfl | rfl | rfl <;>
    (simp at hget; subst hget; revert hdef; decide)

end Nsl.WF
