import Nsl.Proofs.Link
import Nsl.Model.Lower
/-!
# C16 – separately compiled, imported and linked modules behave like one program

About the model `Link` of `Linker.AddModule` / `Linker.Link` / the module loader:

* `C16_link_is_union_of_closure` – when linking succeeds, the function table (and the global table) consists exactly of
  the bindings of the added modules and of every module *reachable* through imports (chains and diamonds of any
  length), in the order in which modules were merged, with pairwise distinct names;
* `C16_loaded_exactly_once` – the loaded module names are exactly the reachable ones, each once;
* `C16_order_independent` – two successful links of the same set of added modules (any order, any order in which the
  pending imports are worked off = any fuel/`set` iteration order) resolve every function name to the same function;
* `C16_duplicate_rejected` / `C16_nothing_replaced` – a module that defines an already bound function or global name is
  rejected; a successful merge leaves every earlier binding in place;
* `C16_separate_is_whole` – the IR of a function does not depend on the module it is compiled in: lowering two modules
  separately and concatenating gives the lowering of the merged module.
-/
namespace Nsl
open Link

theorem C16_link_is_union_of_closure (loader : Loader) (fuel : Nat) (added : List LModule) (s : LState)
    (h : link loader fuel added = .ok s) :
    (∀ name f, (name, f) ∈ s.funcs ↔
      (∃ m ∈ added, (name, f) ∈ m.funcs) ∨
      (∃ n m, Reach loader (roots added) n ∧ loader n = some m ∧ (name, f) ∈ m.funcs)) ∧
    (keys s.funcs).Nodup ∧ (keys s.globals).Nodup := by
  obtain ⟨_, _, hmods, hf, _, hk, hg⟩ := link_spec h
  refine ⟨?_, hk, hg⟩
  intro name f
  rw [hf, List.mem_flatMap]
  constructor
  · rintro ⟨m, hm, hmf⟩
    rcases (hmods m).1 hm with h1 | ⟨n, hr, hl⟩
    · exact Or.inl ⟨m, h1, hmf⟩
    · exact Or.inr ⟨n, m, hr, hl, hmf⟩
  · rintro (⟨m, hm, hmf⟩ | ⟨n, m, hr, hl, hmf⟩)
    · exact ⟨m, (hmods m).2 (Or.inl hm), hmf⟩
    · exact ⟨m, (hmods m).2 (Or.inr ⟨n, hr, hl⟩), hmf⟩

#print axioms C16_link_is_union_of_closure

theorem C16_loaded_exactly_once (loader : Loader) (fuel : Nat) (added : List LModule) (s : LState)
    (h : link loader fuel added = .ok s) :
    s.loaded.Nodup ∧ ∀ n, n ∈ s.loaded ↔ Reach loader (roots added) n := by
  obtain ⟨hl, hn, _⟩ := link_spec h
  exact ⟨hn, hl⟩

#print axioms C16_loaded_exactly_once

theorem findFn_iff {s : LState} (hk : (keys s.funcs).Nodup) (name : String) (f : Func) :
    s.findFn name = some f ↔ (name, f) ∈ s.funcs := by
  unfold LState.findFn
  generalize s.funcs = tbl at hk
  induction tbl with
  | nil => simp
  | cons p rest ih =>
    obtain ⟨k, v⟩ := p
    simp only [keys, List.map_cons, List.nodup_cons] at hk
    simp only [List.find?_cons]
    by_cases hkn : (k == name) = true
    · have hkn' : k = name := by simpa using hkn
      subst hkn'
      simp only [beq_self_eq_true, Option.map_some, Option.some.injEq, List.mem_cons, Prod.mk.injEq, true_and]
      constructor
      · intro h; exact Or.inl h.symm
      · rintro (h | h)
        · exact h.symm
        · exact absurd (List.mem_map.2 ⟨(k, f), h, rfl⟩) hk.1
    · have hkn' : k ≠ name := by simpa using hkn
      simp only [hkn]
      have := ih hk.2
      simp only [List.mem_cons, Prod.mk.injEq]
      constructor
      · intro h; exact Or.inr (this.1 h)
      · rintro (⟨h1, _⟩ | h)
        · exact absurd h1.symm hkn'
        · exact this.2 h

theorem C16_order_independent (loader : Loader) (f1 f2 : Nat) (added1 added2 : List LModule) (s1 s2 : LState)
    (hsame : ∀ m, m ∈ added1 ↔ m ∈ added2)
    (h1 : link loader f1 added1 = .ok s1) (h2 : link loader f2 added2 = .ok s2) :
    ∀ name, s1.findFn name = s2.findFn name := by
  obtain ⟨u1, k1, _⟩ := C16_link_is_union_of_closure loader f1 added1 s1 h1
  obtain ⟨u2, k2, _⟩ := C16_link_is_union_of_closure loader f2 added2 s2 h2
  have hroots : ∀ n, n ∈ roots added1 ↔ n ∈ roots added2 := by
    intro n
    simp only [roots, List.mem_flatMap]
    constructor
    · rintro ⟨m, hm, hn⟩; exact ⟨m, (hsame m).1 hm, hn⟩
    · rintro ⟨m, hm, hn⟩; exact ⟨m, (hsame m).2 hm, hn⟩
  have hreach : ∀ n, Reach loader (roots added1) n ↔ Reach loader (roots added2) n := by
    intro n
    constructor
    · intro h
      induction h with
      | root hn => exact Reach.root ((hroots _).1 hn)
      | step _ hl hi ih => exact Reach.step ih hl hi
    · intro h
      induction h with
      | root hn => exact Reach.root ((hroots _).2 hn)
      | step _ hl hi ih => exact Reach.step ih hl hi
  have hmem : ∀ name f, (name, f) ∈ s1.funcs ↔ (name, f) ∈ s2.funcs := by
    intro name f
    rw [u1, u2]
    constructor
    · rintro (⟨m, hm, hf⟩ | ⟨n, m, hr, hl, hf⟩)
      · exact Or.inl ⟨m, (hsame m).1 hm, hf⟩
      · exact Or.inr ⟨n, m, (hreach n).1 hr, hl, hf⟩
    · rintro (⟨m, hm, hf⟩ | ⟨n, m, hr, hl, hf⟩)
      · exact Or.inl ⟨m, (hsame m).2 hm, hf⟩
      · exact Or.inr ⟨n, m, (hreach n).2 hr, hl, hf⟩
  intro name
  cases hf1 : s1.findFn name with
  | some f =>
    have := (findFn_iff k2 name f).2 ((hmem name f).1 ((findFn_iff k1 name f).1 hf1))
    rw [this]
  | none =>
    cases hf2 : s2.findFn name with
    | none => rfl
    | some f =>
      have := (findFn_iff k1 name f).2 ((hmem name f).2 ((findFn_iff k2 name f).1 hf2))
      rw [hf1] at this; cases this

#print axioms C16_order_independent

/-- Merging a module that (re)defines an already bound function or global is rejected. -/
theorem C16_duplicate_rejected (s : LState) (m : LModule) (k : String)
    (h : (k ∈ keys m.funcs ∧ k ∈ keys s.funcs) ∨ (k ∈ keys m.globals ∧ k ∈ keys s.globals)) :
    ∃ e, addModule s m = .error e := by
  simp only [addModule, bind, Except.bind]
  rcases h with ⟨h1, h2⟩ | ⟨h1, h2⟩
  · obtain ⟨e, he⟩ := addAll_dup LErr.dupFunction m.funcs s.funcs k h1 h2
    exact ⟨e, by simp [he]⟩
  · cases hf : addAll LErr.dupFunction s.funcs m.funcs with
    | error e => exact ⟨e, by simp⟩
    | ok fs =>
      obtain ⟨e, he⟩ := addAll_dup LErr.dupGlobal m.globals s.globals k h1 h2
      exact ⟨e, by simp [he]⟩

#print axioms C16_duplicate_rejected

/-- A successful merge only appends: every earlier binding stays where it was. -/
theorem C16_nothing_replaced (s s' : LState) (m : LModule) (h : addModule s m = .ok s') :
    s'.funcs = s.funcs ++ m.funcs ∧ s'.globals = s.globals ++ m.globals := by
  obtain ⟨e1, e2, _⟩ := addModule_ok h
  exact ⟨e1, e2⟩

#print axioms C16_nothing_replaced

/-- The IR of a function is independent of the module it is compiled in. -/
theorem C16_separate_is_whole (g1 g2 : List (String × ITy)) (f1 f2 : List Core.FnDef) :
    (Lower.lowerModule ⟨g1 ++ g2, f1 ++ f2⟩).funcs =
      (Lower.lowerModule ⟨g1, f1⟩).funcs ++ (Lower.lowerModule ⟨g2, f2⟩).funcs ∧
    (Lower.lowerModule ⟨g1 ++ g2, f1 ++ f2⟩).globals =
      (Lower.lowerModule ⟨g1, f1⟩).globals ++ (Lower.lowerModule ⟨g2, f2⟩).globals := by
  simp [Lower.lowerModule]

#print axioms C16_separate_is_whole

/-! ## Non-vacuity: a diamond a → {b, c} → d links, d is loaded once -/
namespace C16Ex
def fn (n : String) : Func := ⟨n, [], .void, [.ret none]⟩
def mk (fs : List String) (imps : List String) : LModule := ⟨fs.map (fun n => (n, fn n)), [], imps⟩
def loader : Loader
  | "b" => some (mk ["fb"] ["d"])
  | "c" => some (mk ["fc"] ["d"])
  | "d" => some (mk ["fd"] [])
  | _ => none
def a : LModule := mk ["fa"] ["b", "c"]
example : (link loader 10 [a]).toOption.map (fun s => (keys s.funcs, s.loaded)) =
    some (["fa", "fb", "fc", "fd"], ["d", "c", "b"]) := by decide
end C16Ex

end Nsl
