import Nsl.Gen.OpMaps
/-!
# C09 table obligations: `op.IsComparison` and the operator enum values

Regenerated tables (`harness/extract.py`) are checked by `decide`; a change to the table in the Python
breaks the build of this file, and the check then searches for a failing input (DESIGN.md §2.3).
-/
namespace Nsl.GenObl
open Nsl.Gen

/-! ## C09: `op.IsComparison` and the opcode selection of `BinaryInstruction.FromOperation` -/

theorem c09_isComparison_exact :
    (OpMaps.binaryOps.filter (fun r => r.2.2.2)).map (·.1) = ["<", "<=", ">", ">=", "==", "!="] := by
  decide

/-- The enum values the Lean mirror `Types.opValue` uses are the ones in `op.py`. -/
theorem c09_opValues :
    OpMaps.binaryOps.map (fun r => (r.1, r.2.2.1)) =
      [("+", 102), ("-", 103), ("*", 104), ("/", 105), ("%", 106), ("<", 201), ("<=", 202), (">", 200),
       (">=", 203), ("==", 205), ("!=", 204), ("&&", 301), ("||", 300)] := by
  decide

end Nsl.GenObl

#print axioms Nsl.GenObl.c09_isComparison_exact
#print axioms Nsl.GenObl.c09_opValues
