import Nsl.Proofs.WFOpt
import Nsl.Props.C14
/-!
# C14 – well-formedness from block-locality, and its preservation by the optimiser

Final statements only; proofs are in `Nsl/Proofs/WFBlock.lean` (structure ⇒ `WF`) and `Nsl/Proofs/WFOpt.lean`
(the optimiser preserves the structural conditions).

* `blockLocal_uniqueDefs`, `blockLocal_definedOnAllPaths` – the two hard fields of `WF` from the optimiser's side
  conditions `defsDistinct` / `blockLocal`;
* `labelsDistinct_sound`, `targetsOK_sound`, `callsOK_sound` – the three easy fields from Boolean checkers;
* `wf_of_checks` – all five Boolean conditions give `WF fn P`;
* `C14_opt_preserves_checks` – all five conditions are preserved by `optFn` / `optProgram`;
* `C14_unopt_wf`, `C14_opt_preserves_wf` – `WF` of the unoptimised and of the optimised function from `optOK` and the
  three easy checkers (stated on the UNOPTIMISED code only).
-/
namespace Nsl
namespace Opt
open WF

/-! ## 1. Block-locality gives the hard parts of `WF` -/

theorem blockLocal_uniqueDefs (fn : Func) (hd : defsDistinct fn.code = true) :
    ∀ (i j : Nat) (a b : Instr) (r : Nat),
      fn.code[i]? = some a → fn.code[j]? = some b → defOf a = some r → defOf b = some r → i = j :=
  defsDistinct_uniqueDefs hd

#print axioms blockLocal_uniqueDefs

theorem blockLocal_definedOnAllPaths (fn : Func) (hb : blockLocal [] fn.code = true) :
    ∀ (p : List Nat) (q : Nat) (ins : Instr) (r : Nat),
      p.head? = some 0 → IsPath fn.code p → p.getLast? = some q →
      fn.code[q]? = some ins → r ∈ usesOf ins →
      ∃ k d, k + 1 < p.length ∧ p[k]? = some d ∧ defAt fn.code d = some r :=
  blockLocal_paths hb

#print axioms blockLocal_definedOnAllPaths

/-- The shape of every path into a non-label position, which is what the previous theorem rests on: if no position in
`(d, q]` is a label marker, a path from the entry whose `n`-th position is `q` has `q - k` at index `n - k` for every
`k ≤ q - d`. -/
theorem C14_path_suffix (code : List Instr) (p : List Nat) (n q d : Nat) (hhead : p[0]? = some 0)
    (hpath : IsPath code p) (hn : p[n]? = some q)
    (hnl : ∀ m, d < m → m ≤ q → ∀ l, code[m]? ≠ some (.label l)) :
    ∀ k, k ≤ q - d → k ≤ n ∧ p[n - k]? = some (q - k) :=
  path_suffix hhead hpath hn hnl

#print axioms C14_path_suffix

theorem labelsDistinct_sound (fn : Func) (hl : labelsDistinct fn.code = true) :
    ∀ (i j l : Nat), fn.code[i]? = some (.label l) → fn.code[j]? = some (.label l) → i = j :=
  labelsDistinct_uniqueLabels hl

theorem targetsOK_sound (fn : Func) (ht : targetsOK fn.code = true) :
    ∀ (i : Nat) (ins : Instr) (l : Nat), fn.code[i]? = some ins → l ∈ targetsOf ins →
      ∃ p, labelPos fn.code l = some p ∧ fn.code[p]? = some (.label l) :=
  targetsOK_targetsExist ht

theorem callsOK_sound (fn : Func) (P : Program) (hc : callsOK fn P = true) :
    ∀ (i dst : Nat) (ty : ITy) (f : String) (args : List Opd),
      fn.code[i]? = some (.call dst ty f args) →
      ∃ callee, P.find f = some callee ∧ callee.params.length = args.length :=
  callsOK_callsResolve hc

#print axioms labelsDistinct_sound
#print axioms targetsOK_sound
#print axioms callsOK_sound

theorem wf_of_checks (fn : Func) (P : Program)
    (h : (blockLocal [] fn.code && defsDistinct fn.code && labelsDistinct fn.code && targetsOK fn.code
      && callsOK fn P) = true) : WF fn P :=
  wf_of_wfChecks h

#print axioms wf_of_checks

/-! ## 2. The optimiser preserves the conditions -/

/-- The load-after-store pass keeps references block-local (no `forwardOK` needed). -/
theorem C14_las_preserves_blockLocal (code : List Instr) (hbl : blockLocal [] code = true)
    (hd : defsDistinct code = true) : blockLocal [] (pass lasDecide code) = true :=
  pass_las_blockLocal hbl (defsDistinct_nodup hd)

/-- Any pass keeps definitions distinct. -/
theorem C14_pass_preserves_defsDistinct (decide : Option Instr → Instr → Subst → Option (Nat × Opd))
    (code : List Instr) (hd : defsDistinct code = true) : defsDistinct (pass decide code) = true :=
  nodup_defsDistinct (pass_defs_nodup decide (defsDistinct_nodup hd))

/-- A pass keeps exactly the label markers of its input, and the targets of the kept branches. -/
theorem C14_pass_preserves_labels (decide : Option Instr → Instr → Subst → Option (Nat × Opd))
    (hdef : DecideDef decide) (code : List Instr) :
    (pass decide code).filterMap labelOf = code.filterMap labelOf ∧
      (targetsOK code = true → targetsOK (pass decide code) = true) :=
  ⟨pass_labels hdef code, pass_targetsOK hdef⟩

#print axioms C14_las_preserves_blockLocal
#print axioms C14_pass_preserves_defsDistinct
#print axioms C14_pass_preserves_labels

/-- All five structural conditions are preserved by the optimiser (both passes). -/
theorem C14_opt_preserves_checks (P : Program) (fn : Func)
    (h : (blockLocal [] fn.code && defsDistinct fn.code && labelsDistinct fn.code && targetsOK fn.code
      && callsOK fn P) = true) :
    (blockLocal [] (optFn fn).code && defsDistinct (optFn fn).code && labelsDistinct (optFn fn).code
      && targetsOK (optFn fn).code && callsOK (optFn fn) (optProgram P)) = true :=
  optFn_wfChecks (fn := fn) (P := P) h

#print axioms C14_opt_preserves_checks

theorem optOK_checks {fn : Func} {P : Program} (hok : optOK fn = true) (hl : labelsDistinct fn.code = true)
    (ht : targetsOK fn.code = true) (hc : callsOK fn P = true) : wfChecks fn P = true := by
  simp only [optOK, Bool.and_eq_true] at hok
  simp only [wfChecks, Bool.and_eq_true]
  exact ⟨⟨⟨⟨hok.1.1, hok.2⟩, hl⟩, ht⟩, hc⟩

/-- The unoptimised function is well-formed. -/
theorem C14_unopt_wf (P : Program) (fn : Func) (_hfn : fn ∈ P.funcs)
    (hok : optOK fn = true) (hl : labelsDistinct fn.code = true) (ht : targetsOK fn.code = true)
    (hc : callsOK fn P = true) :
    WF fn P :=
  wf_of_wfChecks (optOK_checks hok hl ht hc)

#print axioms C14_unopt_wf

/-- The optimised function is well-formed in the optimised program; all hypotheses are about the UNOPTIMISED code.
(`fn ∈ P.funcs` is not used: calls are checked against `P` by `callsOK fn P`.) -/
theorem C14_opt_preserves_wf (P : Program) (fn : Func) (_hfn : fn ∈ P.funcs)
    (hok : optOK fn = true) (hl : labelsDistinct fn.code = true) (ht : targetsOK fn.code = true)
    (hc : callsOK fn P = true) :
    WF (optFn fn) (optProgram P) :=
  wf_of_wfChecks (optFn_wfChecks (optOK_checks hok hl ht hc))

#print axioms C14_opt_preserves_wf

/-- Whole-program form: every function of the optimised program is well-formed. -/
theorem C14_optProgram_wf (P : Program)
    (h : ∀ fn ∈ P.funcs, optOK fn = true ∧ labelsDistinct fn.code = true ∧ targetsOK fn.code = true ∧
      callsOK fn P = true) :
    ∀ fn' ∈ (optProgram P).funcs, WF fn' (optProgram P) := by
  intro fn' hfn'
  simp only [optProgram, List.mem_map] at hfn'
  obtain ⟨fn, hfn, rfl⟩ := hfn'
  obtain ⟨hok, hl, ht, hc⟩ := h fn hfn
  exact C14_opt_preserves_wf P fn hfn hok hl ht hc

#print axioms C14_optProgram_wf

end Opt

/-! ## 3. Non-vacuity: a loop block, a call, a folded cast, a forwarded load -/
namespace C14OptEx
open Opt WF
def i32 : ITy := .sc .int

/-- `dec(a) = a - int(1)` -/
def dec : Func := { name := "dec", params := [("a", i32)], ret := i32, code := [
  .label 0,
  .load 1 i32 .arg (.index 0),
  .cast 2 i32 (.cInt 1),
  .bin 3 (.s .sub) i32 (.ref 1) (.ref 2),
  .ret (some (.ref 3))] }

/-- `x = n; while (x) { x = dec(x); last = x; } return float(2)` -/
def main : Func := { name := "main", params := [("n", i32)], ret := .sc .float, code := [
  .label 0,
  .newVar 1 i32 "x",
  .load 2 i32 .arg (.index 0),
  .store .local (.name "x") (.ref 2),
  .br 10,
  .label 10,
  .load 3 i32 .local (.name "x"),
  .brc (.ref 3) 11 12,
  .label 11,
  .load 4 i32 .local (.name "x"),
  .call 5 i32 "dec" [.ref 4],
  .store .local (.name "x") (.ref 5),
  .load 6 i32 .local (.name "x"),
  .store .global (.name "last") (.ref 6),
  .br 10,
  .label 12,
  .cast 7 (.sc .float) (.cInt 2),
  .ret (some (.ref 7))] }

def P : Program := { funcs := [main, dec], globals := [("last", i32)] }

/-- the optimiser really changes `main`: the load `%6` is forwarded (its user now reads `%5`), the cast `%7` is folded -/
example : (optFn main).code = [
  .label 0,
  .newVar 1 i32 "x",
  .load 2 i32 .arg (.index 0),
  .store .local (.name "x") (.ref 2),
  .br 10,
  .label 10,
  .load 3 i32 .local (.name "x"),
  .brc (.ref 3) 11 12,
  .label 11,
  .load 4 i32 .local (.name "x"),
  .call 5 i32 "dec" [.ref 4],
  .store .local (.name "x") (.ref 5),
  .store .global (.name "last") (.ref 5),
  .br 10,
  .label 12,
  .ret (some (.cFlt (Float.ofInt 2)))] := by rfl

-- every Boolean hypothesis evaluates to `true`
example : optOK main = true := by rfl
example : labelsDistinct main.code = true := by decide
example : targetsOK main.code = true := by decide
example : callsOK main P = true := by decide
example : wfChecks main P = true := by rfl
example : wfChecks dec P = true := by rfl
-- … and, as the preservation theorem says, so do the conditions of the optimised code
example : wfChecks (optFn main) (optProgram P) = true := by rfl

theorem hyps : ∀ fn ∈ P.funcs, optOK fn = true ∧ labelsDistinct fn.code = true ∧ targetsOK fn.code = true ∧
    callsOK fn P = true := by
  intro fn hfn
  simp only [P, List.mem_cons, List.not_mem_nil, or_false] at hfn
  rcases hfn with rfl | rfl <;> exact ⟨by rfl, by rfl, by rfl, by rfl⟩

/-- the theorems apply -/
theorem main_wf : WF main P :=
  C14_unopt_wf P main (by simp [P]) (hyps main (by simp [P])).1 (hyps main (by simp [P])).2.1
    (hyps main (by simp [P])).2.2.1 (hyps main (by simp [P])).2.2.2

theorem main_opt_wf : WF (optFn main) (optProgram P) :=
  C14_opt_preserves_wf P main (by simp [P]) (hyps main (by simp [P])).1 (hyps main (by simp [P])).2.1
    (hyps main (by simp [P])).2.2.1 (hyps main (by simp [P])).2.2.2

theorem all_opt_wf : ∀ fn' ∈ (optProgram P).funcs, WF fn' (optProgram P) := C14_optProgram_wf P hyps

#print axioms main_wf
#print axioms main_opt_wf
#print axioms all_opt_wf

/-- a real cyclic path of the optimised `main`: entry block, loop header, body, back edge, header again, body up to the
store to `last` (position 12), which reads `%5` after the forwarding -/
def cyc : List Nat := [0, 1, 2, 3, 4, 5, 6, 7, 8, 9, 10, 11, 12, 13, 5, 6, 7, 8, 9, 10, 11, 12]

/-- `definedOnAllPaths` instantiated on it: `%5` is defined at an earlier index of the path -/
example : ∃ k d, k + 1 < cyc.length ∧ cyc[k]? = some d ∧ defAt (optFn main).code d = some 5 :=
  main_opt_wf.definedOnAllPaths cyc 12 (.store .global (.name "last") (.ref 5)) 5 rfl
    (by simp only [cyc, IsPath]; decide) rfl (by rfl) (by decide)

/-- cross-check with the independent certificate checker of `Props/C14.lean` on the same code -/
example : wfCheck main P = true := by decide +kernel
example : wfCheck (optFn main) (optProgram P) = true := by decide +kernel

/-! ### The checkers reject what they should -/

/-- `%3` is used in a block that does not define it -/
def badCross : Func := { name := "badCross", params := [], ret := i32, code := [
  .label 0, .cast 3 i32 (.cInt 1), .br 1, .label 1, .ret (some (.ref 3))] }
example : blockLocal [] badCross.code = false := by rfl

def badDup : Func := { name := "badDup", params := [], ret := i32, code := [
  .label 0, .cast 3 i32 (.cInt 1), .br 1, .label 1, .cast 3 i32 (.cInt 2), .ret (some (.ref 3))] }
example : defsDistinct badDup.code = false := by rfl

def badLabels : Func := { name := "badLabels", params := [], ret := i32, code := [
  .label 0, .br 2, .label 0, .ret none] }
example : labelsDistinct badLabels.code = false := by rfl
example : targetsOK badLabels.code = false := by rfl

def badCall : Func := { name := "badCall", params := [], ret := i32, code := [
  .label 0, .call 1 i32 "dec" [], .call 2 i32 "nope" [], .ret none] }
example : callsOK badCall P = false := by rfl

/-- Block-locality is sufficient, not necessary: the diamond of `Props/C14.lean` reads `%1` (defined in the entry block)
in three other blocks; it is well-formed (certificate checker) but not block-local. -/
example : WF Nsl.WF.Ex.fDiamond Nsl.WF.Ex.prog ∧ blockLocal [] Nsl.WF.Ex.fDiamond.code = false :=
  ⟨wfCheck_sound _ _ (by decide +kernel), by rfl⟩

end C14OptEx
end Nsl
