import Nsl.Props.C01
import Nsl.Props.C01Storage
import Nsl.Props.LowerOK
/-!
# C05 – accepted programs do not go wrong   (partial)

The full statement (`C05_Statement`): for every program the front end accepts, every execution of the lowered program
(either optimisation level) on inputs of the declared types ends in a value, a division by zero or an index out of
range — never in an `internal` failure of the VM.  A proof needs a typing invariant over the whole language and is not
done.  Proved, for ALL operands / programs of the stated kind:

* `C05_scalar_op_no_internal`  – a scalar binary opcode applied to two numbers (int or float, any mix) never fails
  internally: it yields a value, `divZero`, or the (model-level) `unsupported` marker for float `%`;
* `C05_cast_no_internal`       – a scalar cast of a finite number never fails internally;
* `C05_default_instance_total` – `NEW_VARIABLE` creates an instance for every type (no failure site);
* `C05_scalar_core_runs`       – for the scalar core, whenever the reference semantics finishes, the VM finishes with
  the same result, in particular not with an internal failure (from `C01_compile_correct`).
The class and site of every failure after acceptance is observed on the real code by `harness/p_c05.py`.
-/
namespace Nsl
open VM Core Lower

def Err.isInternal : Err → Bool
  | .internal _ => true
  | _ => false

def Res.isInternal : Res → Bool
  | .fail e => Err.isInternal e
  | _ => false

/-- Full statement, parametric in the acceptance predicate of the front end and the typing of inputs. -/
def C05_Statement (Accepted : Core.Module → Prop) (InputsTyped : Core.Module → String → List Val → Globals → Prop) : Prop :=
  ∀ (M : Core.Module), Accepted M → ∀ (fuel : Nat) (name : String) (args : List Val) (g : Globals),
    InputsTyped M name args g → Res.isInternal (VM.invoke (lowerModule M) fuel name args g) = false

def Val.isNum : Val → Bool
  | .int _ => true
  | .flt _ => true
  | _ => false

theorem C05_scalar_op_no_internal (o : SOp) (it : Bool) (a b : Val) (ha : Val.isNum a = true) (hb : Val.isNum b = true) :
    (∀ v, scalarBin o it a b = .ok v → Val.isNum v = true) ∧
    (∀ e, scalarBin o it a b = .error e → Err.isInternal e = false) := by
  constructor
  · intro v h
    cases a <;> simp [Val.isNum] at ha <;> cases b <;> simp [Val.isNum] at hb <;>
    · unfold scalarBin at h
      simp only [Val.toFloat?] at h
      repeat' split at h
      all_goals first
        | (simp only [Except.ok.injEq] at h; subst h; simp [Val.isNum, Val.ofBool]; done)
        | (simp only [Except.ok.injEq] at h; subst h; simp only [Val.ofBool]; split <;> rfl)
        | (cases h; done)
        | simp_all
  · intro e h
    cases a <;> simp [Val.isNum] at ha <;> cases b <;> simp [Val.isNum] at hb <;>
    · unfold scalarBin at h
      simp only [Val.toFloat?] at h
      repeat' split at h
      all_goals first
        | (simp only [Except.error.injEq] at h; subst h; rfl)
        | (cases h; done)
        | simp_all

#print axioms C05_scalar_op_no_internal

theorem C05_cast_no_internal (s : Sc) (a : Val) (ha : Val.isNum a = true)
    (hfin : ∀ f, a = .flt f → (f.isNaN || f.isInf) = false) :
    (∀ v, castScalar s a = .ok v → Val.isNum v = true) ∧
    (∀ e, castScalar s a = .error e → Err.isInternal e = false) := by
  constructor
  · intro v h
    cases a <;> simp [Val.isNum] at ha <;>
    · unfold castScalar at h
      repeat' split at h
      all_goals first
        | (simp only [Except.ok.injEq] at h; subst h; rfl)
        | (cases h; done)
        | (simp only [bind, Except.bind] at h
           split at h
           · cases h
           · simp only [Except.ok.injEq] at h; subst h; rfl)
        | simp_all
  · intro e h
    cases a <;> simp [Val.isNum] at ha
    · cases s <;> simp [castScalar] at h
    · rename_i f
      have hf := hfin f rfl
      cases s <;> simp [castScalar, floorToInt, hf, bind, Except.bind] at h
      all_goals
        split at h
        · rename_i heq
          split at heq
          · cases heq
          · simp only [Except.error.injEq] at heq h; subst heq; subst h; rfl
        · cases h

#print axioms C05_cast_no_internal

/-- `NEW_VARIABLE` has no failure site: a default instance exists for every type. -/
theorem C05_default_instance_total (cf : String → List Val → Globals → Res) (code : List Instr) (pc : Nat) (fr : Frame)
    (g : Globals) (dst : Nat) (ty : ITy) (name : String) (hc : code[pc]? = some (.newVar dst ty name)) :
    ∃ fr', stepI cf code pc fr g = .next (pc + 1) fr' g := by
  simp only [stepI, hc]
  split <;> exact ⟨_, rfl⟩

#print axioms C05_default_instance_total

theorem C05_scalar_core_runs (M : Core.Module) (hM : ScalarCore M) (fuel : Nat) (name : String) (args : List Val)
    (g : Globals) (v : Val) (g' : Globals) (as : List Val) (hargs : HostVals args) (hg : HostGlobals g)
    (href : CoreSem.invoke M fuel name args g = .done v g' as) :
    ∃ fuel', Res.isInternal (VM.invoke (lowerModule M) fuel' name args g) = false := by
  obtain ⟨fuel', h⟩ := C01_compile_correct M hM fuel name args g v g' as hargs hg href
  exact ⟨fuel', by rw [h]; rfl⟩

#print axioms C05_scalar_core_runs

/-- The same with local arrays and structs used as storage. -/
theorem C05_storage_core_runs (M : Core.Module) (hM : StorageCore M) (fuel : Nat) (name : String) (args : List Val)
    (g : Globals) (v : Val) (g' : Globals) (as : List Val) (hargs : HostVals args) (hg : HostGlobals g)
    (href : CoreSem.invoke M fuel name args g = .done v g' as) :
    ∃ fuel', Res.isInternal (VM.invoke (lowerModule M) fuel' name args g) = false := by
  obtain ⟨fuel', h⟩ := C01_compile_correct_storage M hM fuel name args g v g' as hargs hg href
  exact ⟨fuel', by rw [h]; rfl⟩

#print axioms C05_storage_core_runs

/-- … and at the other optimisation level (scalar core). -/
theorem C05_scalar_core_runs_optimised (M : Core.Module) (hM : ScalarCore M) (hS : NoShadow M) (fuel : Nat) (name : String)
    (args : List Val) (g : Globals) (v : Val) (g' : Globals) (as : List Val) (hargs : HostVals args) (hg : HostGlobals g)
    (href : CoreSem.invoke M fuel name args g = .done v g' as) :
    ∃ fuel', Res.isInternal (VM.invoke (Opt.optProgram (lowerModule M)) fuel' name args g) = false := by
  obtain ⟨fuel', h⟩ := C01_opt_compile_correct M hM hS fuel name args g v g' as hargs hg href
  exact ⟨fuel', by rw [h]; rfl⟩

#print axioms C05_scalar_core_runs_optimised

end Nsl
