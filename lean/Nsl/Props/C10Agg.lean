import Nsl.Model.OverloadAgg
import Nsl.Proofs.OverloadAgg
import Nsl.Props.C10

/-!
# C10 — overload resolution over the full type universe (arrays, structures, optional parameters)

"A declaration is a candidate iff it has that name, the call passes at most as many arguments as
it has parameters, every parameter beyond the passed arguments is optional, and every argument is
convertible (`IsCompatible`) to the corresponding parameter.  Its cost is the number of positions
(among the passed arguments) at which argument and parameter types differ.  The call resolves to
the candidate of strictly least cost; no candidate → noMatch; least cost shared → ambiguous; no
declaration of that name in any scope of the chain → unknown; the innermost scope that declares
the name decides."

`findInScopeA` / `findFunctionA` mirror the Python `Scope.FindFunction` / `Function.Match` /
`Match` / `IsCompatible`; `SpecA.best` / `SpecA.resolve` are written from the text above.
-/

namespace Nsl.Overload
open Nsl.Types

/-! ## 1. The mirror computes the specification (scopes and chains of any length) -/

/-- `none` (defer to the parent) exactly when no function of that name is registered. -/
theorem findInScopeA_eq_none_iff (sc : ScopeA) (name : String) (args : List ATy) :
    findInScopeA sc name args = none ↔ ∀ s ∈ sc, s.name ≠ name := by
  rw [findInScopeA_eq]
  by_cases h : sc.all (fun s => s.name != name) = true
  · simp only [h, ↓reduceIte, true_iff]
    intro s hs; simpa using List.all_eq_true.mp h s hs
  · simp only [h, ↓reduceIte, reduceCtorEq, false_iff]
    intro h'; apply h
    rw [List.all_eq_true]; intro s hs; simpa using h' s hs
#print axioms findInScopeA_eq_none_iff

/-- Otherwise the answer is the one of the specification. -/
theorem findInScopeA_some_eq_spec (sc : ScopeA) (name : String) (args : List ATy)
    (h : ∃ s ∈ sc, s.name = name) :
    findInScopeA sc name args = some (SpecA.best sc name args) := by
  rw [findInScopeA_eq]
  obtain ⟨s, hs, hn⟩ := h
  have : ¬ sc.all (fun s => s.name != name) = true := by
    intro hall; have := List.all_eq_true.mp hall s hs; simp [hn] at this
  rw [if_neg this]
#print axioms findInScopeA_some_eq_spec

/-- The whole scope walk computes the specification. -/
theorem findFunctionA_eq_spec (chain : List ScopeA) (name : String) (args : List ATy) :
    findFunctionA chain name args = SpecA.resolve chain name args :=
  findFunctionA_eq_resolve chain name args
#print axioms findFunctionA_eq_spec

/-! ## 2. Declaration order does not matter -/

theorem bestA_perm (sc₁ sc₂ : ScopeA) (h : sc₁.Perm sc₂) (name : String) (args : List ATy) :
    SpecA.best sc₁ name args = SpecA.best sc₂ name args := by
  rw [SpecA.best_eq, SpecA.best_eq, h.all_eq, SpecA.bestOf_perm (h.filter _) args]
#print axioms bestA_perm

theorem findInScopeA_perm (sc₁ sc₂ : ScopeA) (h : sc₁.Perm sc₂) (name : String)
    (args : List ATy) :
    findInScopeA sc₁ name args = findInScopeA sc₂ name args := by
  rw [findInScopeA_eq, findInScopeA_eq, h.all_eq, bestA_perm sc₁ sc₂ h]
#print axioms findInScopeA_perm

/-- Reordering the declarations inside every scope of the chain does not change the outcome. -/
theorem findFunctionA_perm (chain₁ chain₂ : List ScopeA) (hlen : chain₁.length = chain₂.length)
    (h : ∀ (k : Nat) (h₁ : k < chain₁.length) (h₂ : k < chain₂.length),
      (chain₁[k]'h₁).Perm (chain₂[k]'h₂))
    (name : String) (args : List ATy) :
    findFunctionA chain₁ name args = findFunctionA chain₂ name args := by
  induction chain₁ generalizing chain₂ with
  | nil =>
    cases chain₂ with
    | nil => rfl
    | cons _ _ => simp at hlen
  | cons sc₁ rest₁ ih =>
    cases chain₂ with
    | nil => simp at hlen
    | cons sc₂ rest₂ =>
      have h0 : sc₁.Perm sc₂ := h 0 (by simp) (by simp)
      have hr := ih rest₂ (by simpa using hlen) (fun k h₁ h₂ => by
        have := h (k + 1) (by simpa using h₁) (by simpa using h₂)
        simpa only [List.getElem_cons_succ] using this)
      simp only [findFunctionA, findInScopeA_perm _ _ h0, hr]
#print axioms findFunctionA_perm

/-! ## 3. The chosen function is viable and strictly cheapest -/

theorem chosenA_viable (chain : List ScopeA) (name : String) (args : List ATy) (s : SigA)
    (h : findFunctionA chain name args = .ok s) :
    SpecA.viable s name args = true ∧ ∃ sc ∈ chain, s ∈ sc := by
  obtain ⟨pre, sc, post, hch, _, hb⟩ := findFunctionA_ok_scope h
  have := SpecA.best_ok hb
  exact ⟨this.2.1, sc, by simp [hch], this.1⟩
#print axioms chosenA_viable

/-- The answering scope is the innermost one that declares the name; the chosen function is
declared exactly once in it, and every other viable candidate of that scope needs strictly more
conversions. -/
theorem chosenA_minimal (chain : List ScopeA) (name : String) (args : List ATy) (s : SigA)
    (h : findFunctionA chain name args = .ok s) :
    ∃ pre sc post, chain = pre ++ sc :: post ∧
      (∀ sc' ∈ pre, ∀ t ∈ sc', t.name ≠ name) ∧
      s ∈ sc ∧ sc.count s = 1 ∧
      ∀ t ∈ sc, SpecA.viable t name args = true → t ≠ s →
        SpecA.cost s args < SpecA.cost t args := by
  obtain ⟨pre, sc, post, hch, hpre, hb⟩ := findFunctionA_ok_scope h
  have := SpecA.best_ok hb
  exact ⟨pre, sc, post, hch, hpre, this.1, this.2.2.1, this.2.2.2⟩
#print axioms chosenA_minimal

/-! ## 4. What is never chosen -/

/-- A candidate with one incompatible argument is never chosen. -/
theorem nonviableA_never_chosen (chain : List ScopeA) (name : String) (args : List ATy)
    (s : SigA) (i : Nat) (a : ATy) (p : ATy × Bool)
    (ha : args[i]? = some a) (hp : s.params[i]? = some p)
    (hc : isCompatibleA a p.1 = false) :
    findFunctionA chain name args ≠ .ok s := by
  intro h
  have hv := (chosenA_viable chain name args s h).1
  have := viableA_convertible hv ha hp
  rw [hc] at this; cases this
#print axioms nonviableA_never_chosen

/-- A function with fewer parameters than the call has arguments is never chosen. -/
theorem tooManyArgsA_never_chosen (chain : List ScopeA) (name : String) (args : List ATy)
    (s : SigA) (hl : s.params.length < args.length) :
    findFunctionA chain name args ≠ .ok s := by
  intro h
  have hv := (chosenA_viable chain name args s h).1
  have := compatAllA_length ((viableA_iff _ _ _).mp hv).2
  omega
#print axioms tooManyArgsA_never_chosen

/-- A function with a non-optional parameter beyond the passed arguments is never chosen. -/
theorem missingRequiredA_never_chosen (chain : List ScopeA) (name : String) (args : List ATy)
    (s : SigA) (i : Nat) (p : ATy × Bool) (hi : args.length ≤ i) (hp : s.params[i]? = some p)
    (hreq : p.2 = false) :
    findFunctionA chain name args ≠ .ok s := by
  intro h
  have hv := (chosenA_viable chain name args s h).1
  unfold SpecA.viable at hv
  simp only [Bool.and_eq_true, List.all_eq_true, List.mem_range] at hv
  have hil : i < s.params.length := by
    rcases Nat.lt_or_ge i s.params.length with hlt | hge
    · exact hlt
    · rw [List.getElem?_eq_none hge] at hp; cases hp
  have := hv.1.2 i hil
  simp only [SpecA.optionalAt, hp, hreq, Bool.or_false, decide_eq_true_eq] at this
  omega
#print axioms missingRequiredA_never_chosen

/-! ## 5. A scope without the name defers to its parent -/

theorem scopeA_defers (sc : ScopeA) (rest : List ScopeA) (name : String) (args : List ATy)
    (h : ∀ t ∈ sc, t.name ≠ name) :
    findFunctionA (sc :: rest) name args = findFunctionA rest name args := by
  have := (findInScopeA_eq_none_iff sc name args).mpr h
  simp only [findFunctionA, this]
#print axioms scopeA_defers

/-- Conversely a scope that declares the name answers, even with an error (shadowing). -/
theorem scopeA_answers (sc : ScopeA) (rest : List ScopeA) (name : String) (args : List ATy)
    (h : ∃ t ∈ sc, t.name = name) :
    findFunctionA (sc :: rest) name args = SpecA.best sc name args := by
  simp only [findFunctionA, findInScopeA_some_eq_spec sc name args h]
#print axioms scopeA_answers

/-- Completeness of the choice (converse of `chosenA_minimal`). -/
theorem unique_minA_chosen (pre : List ScopeA) (sc : ScopeA) (post : List ScopeA)
    (name : String) (args : List ATy) (s : SigA)
    (hpre : ∀ sc' ∈ pre, ∀ t ∈ sc', t.name ≠ name)
    (hs : s ∈ sc) (hv : SpecA.viable s name args = true) (hcount : sc.count s = 1)
    (hmin : ∀ t ∈ sc, SpecA.viable t name args = true → t ≠ s →
      SpecA.cost s args < SpecA.cost t args) :
    findFunctionA (pre ++ sc :: post) name args = .ok s := by
  induction pre with
  | nil =>
    have hname : s.name = name := ((viableA_iff _ _ _).mp hv).1
    rw [List.nil_append, scopeA_answers sc post name args ⟨s, hs, hname⟩]
    exact SpecA.best_of_unique_min hs hv hcount hmin
  | cons sc' pre ih =>
    rw [List.cons_append, scopeA_defers sc' _ name args (hpre sc' (by simp))]
    exact ih (fun sc'' h => hpre sc'' (List.mem_cons_of_mem _ h))
#print axioms unique_minA_chosen

/-! ## 6. Facts about `IsCompatible` / `Match` (proved in `Nsl/Proofs/OverloadAgg.lean`)

* `isCompatibleA_symm (a b) : isCompatibleA a b = isCompatibleA b a`
* `isCompatibleA_refl_struct (n f) : isCompatibleA (.struct n f) (.struct n f) = true`
* `isCompatibleA_struct_iff (n f b) : isCompatibleA (.struct n f) b = true ↔ b = .struct n f`
* `isCompatibleA_refl (a) : isCompatibleA a a = true`
* `matchTyA_self : isCompatibleA a a = true → matchTyA a a = 0`, `matchTyA_refl (a) : matchTyA a a = 0`
* `matchTyA_eq_zero_iff (a p) : matchTyA a p = 0 ↔ a = p ∧ isCompatibleA a a = true`
-/

#print axioms isCompatibleA_symm
#print axioms isCompatibleA_refl_struct
#print axioms isCompatibleA_struct_iff
#print axioms isCompatibleA_refl
#print axioms matchTyA_self
#print axioms matchTyA_refl
#print axioms matchTyA_eq_zero_iff

/-! ## 7. An exact match beats every converted one -/

theorem compatAllA_of_types_eq : ∀ (ps : List (ATy × Bool)) (as : List ATy),
    ps.map (·.1) = as → (∀ a ∈ as, isCompatibleA a a = true) → compatAllA as ps = true
  | [], as, h, _ => by subst h; simp [compatAllA]
  | p :: ps, as, h, hc => by
    subst h
    simp only [List.map_cons, compatAllA, Bool.and_eq_true]
    exact ⟨hc p.1 (by simp), compatAllA_of_types_eq ps _ rfl
      (fun a ha => hc a (by simp only [List.map_cons]; exact List.mem_cons_of_mem _ ha))⟩

theorem costA_pos_of_diff {s : SigA} {args : List ATy} {i : Nat} (hi : i < args.length)
    (hd : args[i]? ≠ (s.params[i]?).map (·.1)) : 0 < SpecA.cost s args := by
  unfold SpecA.cost
  apply List.length_pos_of_mem (a := i)
  rw [List.mem_filter]
  exact ⟨List.mem_range.mpr hi, by simpa using hd⟩

/-- If the parameter types of a declaration (declared once in the innermost scope having the
name) are exactly the argument types (all self-compatible — which always holds, see
`isCompatibleA_refl`) and every other viable candidate of that scope differs from the arguments
at some position, then that declaration is chosen: cost `0` is a strict minimum.  (This is the
statement that was violated for arrays and structures when `Match` compared them by identity.) -/
theorem exact_beats_converted (pre : List ScopeA) (sc : ScopeA) (post : List ScopeA)
    (name : String) (args : List ATy) (s : SigA)
    (hpre : ∀ sc' ∈ pre, ∀ t ∈ sc', t.name ≠ name)
    (hs : s ∈ sc) (hname : s.name = name) (hcount : sc.count s = 1)
    (hexact : s.params.map (·.1) = args)
    (hself : ∀ a ∈ args, isCompatibleA a a = true)
    (hother : ∀ t ∈ sc, SpecA.viable t name args = true → t ≠ s →
      ∃ i, i < args.length ∧ args[i]? ≠ (t.params[i]?).map (·.1)) :
    findFunctionA (pre ++ sc :: post) name args = .ok s := by
  have hv : SpecA.viable s name args = true :=
    (viableA_iff _ _ _).mpr ⟨hname, compatAllA_of_types_eq _ _ hexact hself⟩
  have h0 : SpecA.cost s args = 0 := by
    rw [costA_eq_zero_iff hv, hexact, List.take_of_length_le (Nat.le_refl _)]
  apply unique_minA_chosen pre sc post name args s hpre hs hv hcount
  intro t ht hvt hne
  obtain ⟨i, hi, hd⟩ := hother t ht hvt hne
  rw [h0]; exact costA_pos_of_diff hi hd
#print axioms exact_beats_converted

/-- The same without the (redundant) self-compatibility hypothesis. -/
theorem exact_beats_converted' (pre : List ScopeA) (sc : ScopeA) (post : List ScopeA)
    (name : String) (args : List ATy) (s : SigA)
    (hpre : ∀ sc' ∈ pre, ∀ t ∈ sc', t.name ≠ name)
    (hs : s ∈ sc) (hname : s.name = name) (hcount : sc.count s = 1)
    (hexact : s.params.map (·.1) = args)
    (hother : ∀ t ∈ sc, SpecA.viable t name args = true → t ≠ s →
      ∃ i, i < args.length ∧ args[i]? ≠ (t.params[i]?).map (·.1)) :
    findFunctionA (pre ++ sc :: post) name args = .ok s :=
  exact_beats_converted pre sc post name args s hpre hs hname hcount hexact
    (fun a _ => isCompatibleA_refl a) hother
#print axioms exact_beats_converted'

/-! ## 8. Embedding of the primitive model (`Nsl/Model/Overload.lean`) -/

/-- On primitive types and without optional parameters the new mirror is the old one. -/
theorem findFunctionA_embed (chain : List Scope) (name : String) (args : List Ty) :
    findFunctionA (chain.map (·.map embedSig)) name (args.map .prim) =
      (findFunction chain name args).map embedSig :=
  findFunctionA_embed_chain chain name args
#print axioms findFunctionA_embed

/-- The same for the specifications (via the two mirror = specification theorems). -/
theorem resolveA_embed (chain : List Scope) (name : String) (args : List Ty) :
    SpecA.resolve (chain.map (·.map embedSig)) name (args.map .prim) =
      (Spec.resolve chain name args).map embedSig := by
  rw [← findFunctionA_eq_spec, ← findFunction_eq_spec, findFunctionA_embed]
#print axioms resolveA_embed

theorem embedSig_injective : ∀ (s t : Sig), embedSig s = embedSig t → s = t := by
  intro s t h
  cases s with
  | mk n r ps =>
    cases t with
    | mk n' r' ps' =>
      simp only [embedSig, SigA.mk.injEq] at h
      obtain ⟨h1, h2, h3⟩ := h
      have : ps = ps' := by
        have := congrArg (List.map fun (p : ATy × Bool) => match p.1 with
          | .prim t => t | _ => Ty.scalar .float) h3
        simpa [List.map_map, Function.comp_def] using this
      rw [h1, h2, this]
#print axioms embedSig_injective

/-! ## 9. Non-vacuity -/

section Examples

private def f : ATy := .prim (.scalar .float)
private def i : ATy := .prim (.scalar .int)
private def u : ATy := .prim (.scalar .uint)
private def f2 : ATy := .prim (.vec .float 2)
private def fa3 : ATy := .arr f [3]
private def ia3 : ATy := .arr i [3]
private def ia4 : ATy := .arr i [4]
private def ia23 : ATy := .arr i [2, 3]
private def f2a3 : ATy := .arr f2 [3]
private def sP : ATy := .struct "P" [("x", f), ("y", ia3)]
private def sP' : ATy := .struct "P" [("x", f), ("y", fa3)]   -- same name, other declarations
private def sQ : ATy := .struct "Q" [("x", f), ("y", ia3)]    -- other name, same declarations

private def r (t : ATy) : ATy × Bool := (t, false)
private def o (t : ATy) : ATy × Bool := (t, true)

-- the array overload pair `g(float[3])`, `g(int[3])`
private def scG : ScopeA := [⟨"g", 0, [r fa3]⟩, ⟨"g", 1, [r ia3]⟩]

example : findFunctionA [scG] "g" [fa3] = .ok ⟨"g", 0, [r fa3]⟩ := by decide      -- exact
example : findFunctionA [scG] "g" [ia3] = .ok ⟨"g", 1, [r ia3]⟩ := by decide      -- exact
example : findFunctionA [scG.reverse] "g" [fa3] = .ok ⟨"g", 0, [r fa3]⟩ := by decide
example : findFunctionA [scG] "g" [.arr u [3]] = .error .ambiguous := by decide   -- both convert
example : findFunctionA [scG] "g" [ia4] = .error .noMatch := by decide            -- size differs
example : findFunctionA [scG] "g" [ia23] = .error .noMatch := by decide
example : findFunctionA [scG] "g" [f2a3] = .error .noMatch := by decide           -- element float2 ↛ float
example : findFunctionA [scG] "g" [f] = .error .noMatch := by decide              -- scalar ↛ array
example : SpecA.resolve [scG] "g" [fa3] = .ok ⟨"g", 0, [r fa3]⟩ := by decide
example : SpecA.cost ⟨"g", 0, [r fa3]⟩ [fa3] = 0 ∧ SpecA.cost ⟨"g", 1, [r ia3]⟩ [fa3] = 1 := by
  decide

-- a structure argument: only the structurally equal structure type is compatible
private def scS : ScopeA := [⟨"h", 0, [r sP', r f]⟩, ⟨"h", 1, [r sP, r i]⟩, ⟨"h", 2, [r sQ, r f]⟩]
example : findFunctionA [scS] "h" [sP, f] = .ok ⟨"h", 1, [r sP, r i]⟩ := by decide
example : findFunctionA [scS] "h" [sQ, f] = .ok ⟨"h", 2, [r sQ, r f]⟩ := by decide
example : findFunctionA [scS] "h" [.struct "P" [], f] = .error .noMatch := by decide
example : isCompatibleA sP sP = true ∧ isCompatibleA sP sP' = false ∧ isCompatibleA sP sQ = false ∧
    isCompatibleA sP f = false ∧ isCompatibleA fa3 sP = false ∧ matchTyA sP sP = 0 ∧
    matchTyA fa3 fa3 = 0 ∧ matchTyA fa3 ia3 = 1 ∧ matchTyA fa3 ia4 = -1 := by decide

-- optional parameters cut off
private def scO : ScopeA := [⟨"k", 0, [r f, o i, o f]⟩, ⟨"k", 1, [r i]⟩, ⟨"k", 2, [r f, r f2]⟩]
example : findFunctionA [scO] "k" [f] = .ok ⟨"k", 0, [r f, o i, o f]⟩ := by decide      -- 2 cut off
example : findFunctionA [scO] "k" [i] = .ok ⟨"k", 1, [r i]⟩ := by decide
example : findFunctionA [scO] "k" [f, i] = .ok ⟨"k", 0, [r f, o i, o f]⟩ := by decide   -- 1 cut off
example : findFunctionA [scO] "k" [f, f2] = .ok ⟨"k", 2, [r f, r f2]⟩ := by decide
example : findFunctionA [scO] "k" [] = .error .noMatch := by decide       -- a required one is missing
example : findFunctionA [scO] "k" [f, f, f, f] = .error .noMatch := by decide
example : findFunctionA [[⟨"k", 0, [o f]⟩]] "k" [] = .ok ⟨"k", 0, [o f]⟩ := by decide
example : findFunctionA [[⟨"k", 0, [r f, o i]⟩, ⟨"k", 1, [r f]⟩]] "k" [f] = .error .ambiguous := by
  decide

-- nested scopes: the innermost scope that has the name answers, even with an error
example : findFunctionA [[⟨"z", 9, [r f]⟩], scG] "g" [fa3] = .ok ⟨"g", 0, [r fa3]⟩ := by decide
example : findFunctionA [[⟨"g", 9, [r f]⟩], scG] "g" [fa3] = .error .noMatch := by decide
example : findFunctionA [[⟨"g", 9, [r fa3]⟩], scG] "g" [fa3] = .ok ⟨"g", 9, [r fa3]⟩ := by decide
example : findFunctionA [[], scG] "q" [fa3] = .error .unknown := by decide
example : SpecA.resolve [[⟨"g", 9, [r f]⟩], scG] "g" [fa3] = .error .noMatch := by decide

-- hypotheses of `exact_beats_converted` for `g(float[3])` behind a scope without `g`
example :
    (∀ sc' ∈ [([⟨"z", 9, [r f]⟩] : ScopeA)], ∀ t ∈ sc', t.name ≠ "g") ∧
    (⟨"g", 0, [r fa3]⟩ : SigA) ∈ scG ∧ scG.count ⟨"g", 0, [r fa3]⟩ = 1 ∧
    (SigA.mk "g" 0 [r fa3]).params.map (·.1) = [fa3] ∧
    (∀ t ∈ scG, SpecA.viable t "g" [fa3] = true → t ≠ ⟨"g", 0, [r fa3]⟩ →
      ∃ k, k < [fa3].length ∧ [fa3][k]? ≠ (t.params[k]?).map (·.1)) := by
  refine ⟨by decide, by decide, by decide, by decide, ?_⟩
  intro t ht _ hne
  refine ⟨0, by decide, ?_⟩
  revert t; decide
-- hypotheses of `nonviableA_never_chosen`, `missingRequiredA_never_chosen`
example : [ia4][0]? = some ia4 ∧ (SigA.mk "g" 1 [r ia3]).params[0]? = some (r ia3) ∧
    isCompatibleA ia4 (r ia3).1 = false := by decide
example : ([f] : List ATy).length ≤ 1 ∧ (SigA.mk "k" 2 [r f, r f2]).params[1]? = some (r f2) ∧
    (r f2).2 = false := by decide
-- the embedding on a concrete chain
example : findFunctionA ([[⟨"h", 1, [.scalar .float]⟩, ⟨"h", 2, [.scalar .int]⟩]].map
      (·.map embedSig)) "h" ([.scalar .uint].map .prim) = .error .ambiguous := by decide

-- driver helpers (checked by evaluation)
#guard (parseATy? "A[s:float;3]").isSome ∧ (parseATy? "S{P;x=s:float;y=A[s:int;3]}").isSome ∧
    (parseATy? "A[A[v:int:2;2];3;4]").isSome ∧ (parseATy? "S{P}").isSome ∧
    (parseATy? "A[s:float;3").isNone ∧ (parseATy? "S{P;x}").isNone ∧ (parseATy? "void").isNone
#guard runA "g" "A[s:float;3]" ["g/0/A[s:float;3]", "g/1/A[s:int;3]"] = "ok 0 ok 0"
#guard runA "g" "A[s:uint;3]" ["g/0/A[s:float;3]", "g/1/A[s:int;3]"] = "ambiguous ambiguous"
#guard runA "k" "s:float" ["k/0/s:float,?s:int,?s:float", "k/1/s:int"] = "ok 0 ok 0"
#guard runA "g" "s:float" ["h/0/s:float", "|", "g/1/s:int"] = "ok 1 ok 1"
#guard runA "g" "s:float" ["g/0/v:float:2", "|", "g/1/s:int"] = "nomatch nomatch"

end Examples

end Nsl.Overload
