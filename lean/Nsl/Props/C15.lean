import Nsl.Props.C01
import Nsl.Props.C01Storage
import Nsl.Props.LowerOK
/-!
# C15 – global state persists exactly across invocation histories; VMs are isolated

A host drives any number of VM instances created from one linked program with `SetGlobal`, `GetGlobal` and `Invoke`.
`HostRun Inv` is the history semantics parametric in the meaning `Inv` of one invocation; instantiating `Inv` with the
reference semantics gives the *reference state machine of the source program*, instantiating it with the VM model
gives the behaviour of `VirtualMachine`.

* `C15_history_refinement`: every history of the reference state machine (any length, any interleaving over any
  number of VMs) is a history of the VM with the same outputs and the same final global stores — by induction over the
  history from `C01_compile_correct`.
* `C15_isolated`: an operation on VM `i` leaves the globals of every other VM untouched; `C15_fresh_locals`: an
  invocation starts from a frame that contains only its arguments.
* `C15_vm_deterministic`: the VM's answer to an invocation is unique, so the refinement determines the VM's outputs.
-/
namespace Nsl
open Core VM Lower

inductive HostOp
  | set (vm : Nat) (name : String) (v : Val)
  | get (vm : Nat) (name : String)
  | invoke (vm : Nat) (fn : String) (args : List Val)

inductive HostOut
  | unit
  | got (v : Option Val)
  | ret (v : Val) (args : List Val)

/-- One global store per VM instance. -/
abbrev HostState := Nat → Globals

def HostState.upd (s : HostState) (i : Nat) (g : Globals) : HostState := fun j => if j = i then g else s j

/-- Meaning of one invocation: function, arguments, globals before ↦ value, globals after, final arguments. -/
abbrev InvRel := String → List Val → Globals → Val → Globals → List Val → Prop

def InvRef (M : Core.Module) : InvRel := fun fn args g v g' as =>
  ∃ fuel, CoreSem.invoke M fuel fn args g = .done v g' as

def InvVM (P : Program) : InvRel := fun fn args g v g' as =>
  ∃ fuel, VM.invoke P fuel fn args g = .done v g' as

inductive HostStep (Inv : InvRel) : HostState → HostOp → HostOut → HostState → Prop
  | set (s : HostState) (i : Nat) (n : String) (v : Val) :
      HostStep Inv s (.set i n v) .unit (s.upd i (Map.set (s i) n v))
  | get (s : HostState) (i : Nat) (n : String) :
      HostStep Inv s (.get i n) (.got (Map.get (s i) n)) s
  | invoke (s : HostState) (i : Nat) (fn : String) (args : List Val) (v : Val) (g' : Globals) (as : List Val) :
      Inv fn args (s i) v g' as → HostStep Inv s (.invoke i fn args) (.ret v as) (s.upd i g')

inductive HostRun (Inv : InvRel) : HostState → List HostOp → List HostOut → HostState → Prop
  | nil (s : HostState) : HostRun Inv s [] [] s
  | cons {s s1 s2 : HostState} {op : HostOp} {out : HostOut} {ops : List HostOp} {outs : List HostOut} :
      HostStep Inv s op out s1 → HostRun Inv s1 ops outs s2 → HostRun Inv s (op :: ops) (out :: outs) s2

/-- The host hands over plain values. -/
def HostOp.plain : HostOp → Prop
  | .set _ _ v => VM.Val.isPtr v = false
  | .get _ _ => True
  | .invoke _ _ args => HostVals args

def HostState.plain (s : HostState) : Prop := ∀ i, HostGlobals (s i)

theorem HostState.plain_upd {s : HostState} (h : s.plain) (i : Nat) {g : Globals} (hg : HostGlobals g) :
    (s.upd i g).plain := by
  intro j
  unfold HostState.upd
  by_cases hj : j = i
  · simp [hj]; exact hg
  · simp [hj]; exact h j

/-- Every history of the reference state machine is a history of the VM: same outputs, same final stores. -/
theorem C15_history_refinement (M : Core.Module) (hM : ScalarCore M) (s : HostState) (ops : List HostOp)
    (outs : List HostOut) (s' : HostState) (hs : s.plain) (hops : ∀ op ∈ ops, op.plain)
    (h : HostRun (InvRef M) s ops outs s') : HostRun (InvVM (lowerModule M)) s ops outs s' ∧ s'.plain := by
  induction h with
  | nil s => exact ⟨.nil s, hs⟩
  | @cons s s1 s2 op out ops outs hstep _ ih =>
    have hop := hops op (List.mem_cons_self ..)
    have hrest : ∀ o ∈ ops, o.plain := fun o ho => hops o (List.mem_cons_of_mem _ ho)
    cases hstep with
    | set i n v =>
      have h1 : (s.upd i (Map.set (s i) n v)).plain :=
        HostState.plain_upd hs i (Sim.MapOK.set (hs i) n hop)
      obtain ⟨r, p⟩ := ih h1 hrest
      exact ⟨.cons (.set s i n v) r, p⟩
    | get i n =>
      obtain ⟨r, p⟩ := ih hs hrest
      exact ⟨.cons (.get s i n) r, p⟩
    | invoke i fn args v g' as hinv =>
      obtain ⟨fuel, href⟩ := hinv
      have hvm := C01_compile_correct M hM fuel fn args (s i) v g' as hop (hs i) href
      have hpl := (C01_globals_plain M hM fuel fn args (s i) v g' as hop (hs i) href).1
      obtain ⟨r, p⟩ := ih (HostState.plain_upd hs i hpl) hrest
      exact ⟨.cons (.invoke s i fn args v g' as hvm) r, p⟩

#print axioms C15_history_refinement

/-- The refinement holds with local arrays and structs as storage too (stage 2 of C01) … -/
theorem C15_history_refinement_storage (M : Core.Module) (hM : StorageCore M) (s : HostState) (ops : List HostOp)
    (outs : List HostOut) (s' : HostState) (hs : s.plain) (hops : ∀ op ∈ ops, op.plain)
    (h : HostRun (InvRef M) s ops outs s') : HostRun (InvVM (lowerModule M)) s ops outs s' ∧ s'.plain := by
  induction h with
  | nil s => exact ⟨.nil s, hs⟩
  | @cons s s1 s2 op out ops outs hstep _ ih =>
    have hop := hops op (List.mem_cons_self ..)
    have hrest : ∀ o ∈ ops, o.plain := fun o ho => hops o (List.mem_cons_of_mem _ ho)
    cases hstep with
    | set i n v =>
      have h1 : (s.upd i (Map.set (s i) n v)).plain :=
        HostState.plain_upd hs i (Sim.MapOK.set (hs i) n hop)
      obtain ⟨r, p⟩ := ih h1 hrest
      exact ⟨.cons (.set s i n v) r, p⟩
    | get i n =>
      obtain ⟨r, p⟩ := ih hs hrest
      exact ⟨.cons (.get s i n) r, p⟩
    | invoke i fn args v g' as hinv =>
      obtain ⟨fuel, href⟩ := hinv
      have hvm := C01_compile_correct_storage M hM fuel fn args (s i) v g' as hop (hs i) href
      have hpl := (C01_globals_plain_storage M hM fuel fn args (s i) v g' as hop (hs i) href).1
      obtain ⟨r, p⟩ := ih (HostState.plain_upd hs i hpl) hrest
      exact ⟨.cons (.invoke s i fn args v g' as hvm) r, p⟩

#print axioms C15_history_refinement_storage

/-- … and for the OPTIMISED program of a scalar-core module: a store to a global that the optimiser forwards to a later
load is still written, so what later invocations and `GetGlobal` see is unchanged. -/
theorem C15_history_refinement_optimised (M : Core.Module) (hM : ScalarCore M) (hS : NoShadow M) (s : HostState)
    (ops : List HostOp) (outs : List HostOut) (s' : HostState) (hs : s.plain) (hops : ∀ op ∈ ops, op.plain)
    (h : HostRun (InvRef M) s ops outs s') :
    HostRun (InvVM (Opt.optProgram (lowerModule M))) s ops outs s' ∧ s'.plain := by
  induction h with
  | nil s => exact ⟨.nil s, hs⟩
  | @cons s s1 s2 op out ops outs hstep _ ih =>
    have hop := hops op (List.mem_cons_self ..)
    have hrest : ∀ o ∈ ops, o.plain := fun o ho => hops o (List.mem_cons_of_mem _ ho)
    cases hstep with
    | set i n v =>
      have h1 : (s.upd i (Map.set (s i) n v)).plain :=
        HostState.plain_upd hs i (Sim.MapOK.set (hs i) n hop)
      obtain ⟨r, p⟩ := ih h1 hrest
      exact ⟨.cons (.set s i n v) r, p⟩
    | get i n =>
      obtain ⟨r, p⟩ := ih hs hrest
      exact ⟨.cons (.get s i n) r, p⟩
    | invoke i fn args v g' as hinv =>
      obtain ⟨fuel, href⟩ := hinv
      have hvm := C01_opt_compile_correct M hM hS fuel fn args (s i) v g' as hop (hs i) href
      have hpl := (C01_globals_plain M hM fuel fn args (s i) v g' as hop (hs i) href).1
      obtain ⟨r, p⟩ := ih (HostState.plain_upd hs i hpl) hrest
      exact ⟨.cons (.invoke s i fn args v g' as hvm) r, p⟩

#print axioms C15_history_refinement_optimised

/-- An operation on one VM never changes the globals of another VM. -/
theorem C15_isolated (Inv : InvRel) (s : HostState) (op : HostOp) (out : HostOut) (s' : HostState)
    (h : HostStep Inv s op out s') (j : Nat)
    (hj : match op with | .set i _ _ => j ≠ i | .get _ _ => True | .invoke i _ _ => j ≠ i) : s' j = s j := by
  cases h with
  | set i n v => simp [HostState.upd, hj]
  | get i n => rfl
  | invoke i fn args v g' as _ => simp [HostState.upd, hj]

#print axioms C15_isolated

/-- Globals change only through invocations and `SetGlobal`: a `GetGlobal` returns the stored value and changes nothing. -/
theorem C15_get_reads_store (Inv : InvRel) (s : HostState) (i : Nat) (n : String) (out : HostOut) (s' : HostState)
    (h : HostStep Inv s (.get i n) out s') : out = .got (Map.get (s i) n) ∧ s' = s := by
  cases h; exact ⟨rfl, rfl⟩

#print axioms C15_get_reads_store

/-- An invocation starts from a frame with fresh (empty) locals and registers. -/
theorem C15_fresh_locals (P : Program) (fuel : Nat) (fn : String) (args : List Val) (g : Globals) (f : Func)
    (hf : P.find fn = some f) :
    VM.invoke P fuel fn args g = run P fuel f 0 { regs := [], locals := [], args := args } g := by
  simp [VM.invoke, hf]

#print axioms C15_fresh_locals

/-- The VM's answer to an invocation is unique. -/
theorem C15_vm_deterministic (P : Program) (fn : String) (args : List Val) (g : Globals) (v1 v2 : Val)
    (g1 g2 : Globals) (a1 a2 : List Val) (h1 : InvVM P fn args g v1 g1 a1) (h2 : InvVM P fn args g v2 g2 a2) :
    Res.done v1 g1 a1 = Res.done v2 g2 a2 := by
  obtain ⟨f1, e1⟩ := h1
  obtain ⟨f2, e2⟩ := h2
  have e1' := C01_fuel_irrelevant P f1 (max f1 f2) fn args g v1 g1 a1 e1 (Nat.le_max_left ..)
  have e2' := C01_fuel_irrelevant P f2 (max f1 f2) fn args g v2 g2 a2 e2 (Nat.le_max_right ..)
  rw [← e1', ← e2']

#print axioms C15_vm_deterministic

/-- Non-vacuity: a three-operation history on two VMs of the example module. -/
def exS0 : HostState := fun _ => [("g", .int 0)]

example : HostRun (InvRef C01Ex.M) exS0
    [.set 0 "g" (.int 10), .invoke 0 "f" [.int 5], .get 1 "g"]
    [.unit, .ret (.int 13) [.int 5], .got (some (.int 0))]
    ((exS0.upd 0 (Map.set (exS0 0) "g" (.int 10))).upd 0 [("g", .int 16)]) := by
  refine .cons (.set _ 0 "g" (.int 10)) (.cons (.invoke _ 0 "f" [.int 5] (.int 13) [("g", .int 16)] [.int 5] ⟨200, ?_⟩)
    (.cons (.get _ 1 "g") (.nil _)))
  exact C01Ex.ref_run

end Nsl
