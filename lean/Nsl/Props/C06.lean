import Nsl.Model.Wasm
import Nsl.Model.WasmEval
import Nsl.Model.VM
import Nsl.Proofs.WasmEval
import Nsl.Proofs.WasmInt
import Nsl.Proofs.WasmUInt
import Nsl.Props.C07

/-!
# C06 — the WebAssembly backend agrees with the VM or refuses

Models: `Nsl.Model.Wasm` (`genWasm`), `Nsl.Model.WasmEval` (`evalFunc`, WebAssembly 1.0 execution
of the emitted subset; i32 values are kept modulo 2^32, f32 operations are abstract),
`Nsl.Model.VM` (`VM.run`, `VM.invoke`: the reference VM, which computes with unbounded integers).
-/

namespace Nsl.Wasm

/-! ## 1. Refusal: nothing outside the supported subset is translated or dropped -/

/-- If some function of the program contains an instruction outside the supported subset
(`supported`: label markers, argument loads/stores, scalar `add sub mul div eq lt gt`, `return`),
the generator returns an error for the whole program. -/
theorem C06_refuses (P : List Func) (f : Func) (hf : f ∈ P)
    (h : ∃ i ∈ f.code, supported i = false) : ∃ e, genWasm P = .error e :=
  genWasmWith_error hf h
#print axioms C06_refuses

/-- Contrapositive: a generated module comes from a program all of whose instructions are
supported. -/
theorem C06_ok_supported (P : List Func) (m : WModule) (h : genWasm P = .ok m) :
    ∀ f ∈ P, ∀ i ∈ f.code, supported i = true := by
  intro f hf i hi
  cases hs : supported i with
  | true => rfl
  | false =>
    obtain ⟨e, he⟩ := C06_refuses P f hf ⟨i, hi, hs⟩
    rw [he] at h; cases h
#print axioms C06_ok_supported

/-- The generator also refuses a function whose returns do not match its signature (a value of another type, a missing
value, a value in a `void` function) or that has a result but no `return` at all: whatever it emits passed `retOK`. -/
theorem C06_returns_checked (P : List Func) (m : WModule) (h : genWasm P = .ok m) (idx : Nat) (f : Func)
    (hf : P[idx]? = some f) :
    ∃ ft ents, m.types[idx]? = some ft ∧ collectEntries f.params f.code [] = .ok ents ∧
      retOK ft.results ents f.code = true := by
  obtain ⟨fcs, hg, rfl⟩ := genWasmWith_ok h
  obtain ⟨fc, hfc, hgf⟩ := genFuncs_getElem P fcs hg idx f hf
  obtain ⟨ft, c⟩ := fc
  obtain ⟨ents, he, hr⟩ := genFunc_retOK hgf
  exact ⟨ft, ents, by simp [hfc], he, hr⟩
#print axioms C06_returns_checked

example : (match genWasm [⟨"h", [("a", .sc .float)], .sc .int,
    [.load 1 (.sc .float) .arg (.index 0), .ret (some (.ref 1))]⟩] with | .ok _ => false | .error _ => true) = true := by
  decide +kernel

/-- No instruction is dropped silently: the only IR items that translate to no WebAssembly
instruction are the basic-block label markers (which are not instructions in the Python IR). -/
theorem C06_no_silent_drop (fb : Float → Option Nat) (argc : Nat) (ents : List Entry) (i : Instr)
    (ws : List WInstr) (h : transInstr fb argc ents i = .ok ws) (hl : ∀ l, i ≠ .label l) :
    ws ≠ [] :=
  transInstr_nonempty h hl
#print axioms C06_no_silent_drop

/-! ## 2. Agreement on integer ring code -/

/-- For an integer function whose body is straight-line code over `+ - *` on arguments, earlier
results and integer constants, with loads and stores of arguments (`ringFunc`): whenever the VM
returns the integer `v` on integer arguments, the generated WebAssembly function, run on the
arguments reduced modulo 2^32, returns `v` reduced modulo 2^32.  (The VM computes with unbounded
integers, WebAssembly with 32-bit wrap-around; the VM never fails on such code except for
undefined references, running past the end, or lack of fuel.)

`Pg` (the program in which the VM resolves calls) is arbitrary: ring code contains no calls. -/
theorem C06_agree_ring {F : Type} (O : F32Ops F) (P : List Func) (m : WModule) (idx : Nat)
    (f : Func) (hgen : genWasm P = .ok m) (hf : P[idx]? = some f) (hring : ringFunc f = true)
    (args : List Int) (hlen : args.length = f.params.length)
    (Pg : Program) (fuel : Nat) (g g' : VM.Globals) (v : Int) (as : List Val)
    (hvm : VM.run Pg fuel f 0 { args := args.map Val.int } g = .done (.int v) g' as) :
    evalFunc O m idx (args.map fun a => WVal.i32 (wrap a)) = some [WVal.i32 (wrap v)] :=
  agree_ring_with O hgen hf hring args hlen Pg fuel g g' v as hvm
#print axioms C06_agree_ring

/-- The same through `VM.invoke` (the VM's entry point) for the program itself. -/
theorem C06_agree_ring_invoke {F : Type} (O : F32Ops F) (P : List Func) (globals : List (String × ITy))
    (m : WModule) (idx : Nat) (f : Func) (hgen : genWasm P = .ok m) (hf : P[idx]? = some f)
    (hfind : (Program.mk P globals).find f.name = some f)
    (hring : ringFunc f = true) (args : List Int) (hlen : args.length = f.params.length)
    (fuel : Nat) (g g' : VM.Globals) (v : Int) (as : List Val)
    (hvm : VM.invoke ⟨P, globals⟩ fuel f.name (args.map Val.int) g = .done (.int v) g' as) :
    evalFunc O m idx (args.map fun a => WVal.i32 (wrap a)) = some [WVal.i32 (wrap v)] := by
  unfold VM.invoke at hvm
  rw [hfind] at hvm
  exact C06_agree_ring O P m idx f hgen hf hring args hlen _ fuel g g' v as hvm
#print axioms C06_agree_ring_invoke

/-! ## 2b. Agreement on signed-integer code including `/` and comparisons, inside the i32 domain -/

/-- `runR` is `VM.run` with one check added after every step — every argument and value reference of the frame is a
signed 32-bit number (`frameS32`) — and nothing else: a finished range-checked run is a finished run of the VM with
the same result.  "The VM run stays inside the i32 domain" is the hypothesis `runR … = .done …`. -/
theorem C06_range_checked_run_is_run (Pg : Program) (fuel : Nat) (f : Func) (pc : Nat) (fr : VM.Frame)
    (g g' : VM.Globals) (v : Val) (as : List Val) (h : runR Pg fuel f pc fr g = .done v g' as) :
    VM.run Pg fuel f pc fr g = .done v g' as :=
  runR_run fuel h
#print axioms C06_range_checked_run_is_run

/-- For a function with `int` parameters and result whose body is straight-line code over `+ - * / == < >` on
arguments, earlier results and integer constants, with loads and stores of arguments (`intFunc`), and ALL arguments
that are signed 32-bit numbers: whenever the VM run stays inside the signed 32-bit domain and returns `v`, the
generated WebAssembly function returns `v` (as the i32 `v mod 2^32`).  In particular it does not trap: a division by
zero makes the VM fail, and `-2^31 / -1` leaves the domain. -/
theorem C06_agree_int {F : Type} (O : F32Ops F) (P : List Func) (m : WModule) (idx : Nat)
    (f : Func) (hgen : genWasm P = .ok m) (hf : P[idx]? = some f) (hint : intFunc f = true)
    (args : List Int) (hlen : args.length = f.params.length) (hargs : ∀ a ∈ args, inS32 a)
    (Pg : Program) (fuel : Nat) (g g' : VM.Globals) (v : Int) (as : List Val)
    (hvm : runR Pg fuel f 0 { args := args.map Val.int } g = .done (.int v) g' as) :
    VM.run Pg fuel f 0 { args := args.map Val.int } g = .done (.int v) g' as ∧
    evalFunc O m idx (args.map fun a => WVal.i32 (wrap a)) = some [WVal.i32 (wrap v)] :=
  ⟨runR_run fuel hvm, agree_int_with O hgen hf hint args hlen hargs Pg fuel g g' v as hvm⟩
#print axioms C06_agree_int

/-- The unsigned counterpart (`uint` parameters and result, `uintFunc`; `runRU` = `VM.run` plus the check that every
value stays in `[0, 2^32)`): whenever the VM run stays inside the unsigned 32-bit domain and returns `v`, the generated
function returns `v` — with `i32.div_u`, `i32.lt_u`, `i32.gt_u` selected, which matters for values ≥ 2^31. -/
theorem C06_agree_uint {F : Type} (O : F32Ops F) (P : List Func) (m : WModule) (idx : Nat)
    (f : Func) (hgen : genWasm P = .ok m) (hf : P[idx]? = some f) (hint : uintFunc f = true)
    (args : List Int) (hlen : args.length = f.params.length) (hargs : ∀ a ∈ args, inU32 a)
    (Pg : Program) (fuel : Nat) (g g' : VM.Globals) (v : Int) (as : List Val)
    (hvm : runRU Pg fuel f 0 { args := args.map Val.int } g = .done (.int v) g' as) :
    VM.run Pg fuel f 0 { args := args.map Val.int } g = .done (.int v) g' as ∧
    evalFunc O m idx (args.map fun a => WVal.i32 (wrap a)) = some [WVal.i32 (wrap v)] :=
  ⟨runRU_run fuel hvm, agree_uint_with O hgen hf hint args hlen hargs Pg fuel g g' v as hvm⟩
#print axioms C06_agree_uint

/-! ## 3. Partial: single operations including division and comparisons -/

/-- Signed operands (`int`): for every scalar operation the generator translates, if both VM
operands are signed 32-bit numbers and the VM computes the integer `z` (in particular the divisor is
not zero), the selected WebAssembly instruction applied to the operands modulo 2^32 yields `z`
modulo 2^32 — except for the one overflowing division `-2^31 / -1`, where WebAssembly traps. -/
theorem C06_binop_agree_partial {F : Type} (O : F32Ops F) (op : SOp) (nop : NumOp) (x y z : Int)
    (hsel : numOpFor op .i32s = .ok nop) (hx : inS32 x) (hy : inS32 y)
    (hov : ¬ (op = .div ∧ x = -2147483648 ∧ y = -1))
    (hvm : scalarBin op true (.int x) (.int y) = .ok (.int z)) :
    evalNum O nop (.i32 (wrap x)) (.i32 (wrap y)) = some (.i32 (wrap z)) :=
  binop_agree_signed O op nop x y z hsel hx hy hov hvm
#print axioms C06_binop_agree_partial

/-- Unsigned operands (`uint`), values in `[0, 2^32)`. -/
theorem C06_binop_agree_unsigned_partial {F : Type} (O : F32Ops F) (op : SOp) (nop : NumOp)
    (x y z : Int) (hsel : numOpFor op .i32u = .ok nop) (hx : inU32 x) (hy : inU32 y)
    (hvm : scalarBin op true (.int x) (.int y) = .ok (.int z)) :
    evalNum O nop (.i32 (wrap x)) (.i32 (wrap y)) = some (.i32 (wrap z)) :=
  binop_agree_unsigned O op nop x y z hsel hx hy hvm
#print axioms C06_binop_agree_unsigned_partial

/-- Division by zero: the VM reports `divZero`, both WebAssembly divisions trap. -/
theorem C06_div_zero_partial {F : Type} (O : F32Ops F) (x : Int) :
    scalarBin .div true (.int x) (.int 0) = .error .divZero ∧
    evalNum O .i32DivS (.i32 (wrap x)) (.i32 (wrap 0)) = none ∧
    evalNum O .i32DivU (.i32 (wrap x)) (.i32 (wrap 0)) = none :=
  div_zero_agree O x
#print axioms C06_div_zero_partial

/-- The overflow case really differs: the VM returns `2^31`, WebAssembly traps. -/
example : scalarBin .div true (.int (-2147483648)) (.int (-1)) = .ok (.int 2147483648) := by
  simp [scalarBin, truncDiv]

example : evalNum (F := Unit) ⟨fun _ => (), fun _ _ => (), fun _ _ => (), fun _ _ => (),
    fun _ _ => (), fun _ _ => true, fun _ _ => true, fun _ _ => true⟩
    .i32DivS (.i32 (wrap (-2147483648))) (.i32 (wrap (-1))) = none := by decide +kernel

/-! ## 4. Non-vacuity -/

/-- Trivial f32 operations (ring code never uses them). -/
def O0 : F32Ops Unit :=
  ⟨fun _ => (), fun _ _ => (), fun _ _ => (), fun _ _ => (), fun _ _ => (),
   fun _ _ => true, fun _ _ => true, fun _ _ => true⟩

/-- `int r(int a, int b) { b = a * b + 7 - a; return b * b; }` after lowering. -/
def exRing : Func := ⟨"r", [("a", .sc .int), ("b", .sc .int)], .sc .int,
  [.label 0,
   .load 1 (.sc .int) .arg (.index 0), .load 2 (.sc .int) .arg (.index 1),
   .bin 3 (.s .mul) (.sc .int) (.ref 1) (.ref 2),
   .bin 4 (.s .add) (.sc .int) (.ref 3) (.cInt 7),
   .load 5 (.sc .int) .arg (.index 0),
   .bin 6 (.s .sub) (.sc .int) (.ref 4) (.ref 5),
   .store .arg (.index 1) (.ref 6),
   .load 7 (.sc .int) .arg (.index 1),
   .bin 8 (.s .mul) (.sc .int) (.ref 7) (.ref 7),
   .ret (some (.ref 8))]⟩

example : ringFunc exRing = true := by decide +kernel

/-- The generated module (no float constants, so `genWasm` computes in the kernel). -/
def exRingModule : WModule where
  types := [⟨[.i32, .i32], [.i32]⟩]
  funcs := [0]
  tables := [0]
  exports := [⟨"r", 0⟩]
  codes :=
    [⟨[(9, .i32)],
      [.localGet 0, .localSet 2, .localGet 1, .localSet 3,
       .localGet 2, .localGet 3, .num .i32Mul, .localSet 4,
       .localGet 4, .i32Const 7, .num .i32Add, .localSet 5,
       .localGet 0, .localSet 6,
       .localGet 5, .localGet 6, .num .i32Sub, .localSet 7,
       .localGet 7, .localSet 1,
       .localGet 1, .localSet 9,
       .localGet 9, .localGet 9, .num .i32Mul, .localSet 10,
       .localGet 10, .ret]⟩]

theorem exRing_gen : genWasm [exRing] = .ok exRingModule := by decide +kernel

/-- The VM on `(3, 4)`: `(3*4+7-3)^2 = 256`. -/
theorem exRing_vm_small : VM.run ⟨[exRing], []⟩ 20 exRing 0 { args := [3, 4].map Val.int } [] =
    .done (.int 256) [] [.int 3, .int 16] := by rfl

/-- … and what the theorem then says about the generated code (also checked by computation). -/
example : evalFunc O0 exRingModule 0 ([3, 4].map fun a => WVal.i32 (wrap a)) =
    some [WVal.i32 (wrap 256)] :=
  C06_agree_ring O0 [exRing] exRingModule 0 exRing exRing_gen rfl (by decide +kernel) [3, 4] rfl
    ⟨[exRing], []⟩ 20 [] [] 256 _ exRing_vm_small

example : evalFunc O0 exRingModule 0 [.i32 3, .i32 4] = some [.i32 256] := by decide +kernel

/-- Wrap-around: on `(100000, 100000)` the VM returns `(10^10 + 7 - 10^5)^2`, the WebAssembly code
that number modulo 2^32. -/
theorem exRing_vm_big :
    VM.run ⟨[exRing], []⟩ 20 exRing 0 { args := [100000, 100000].map Val.int } [] =
    .done (.int 99998000149998600049) [] [.int 100000, .int 9999900007] := by rfl

example : evalFunc O0 exRingModule 0 [.i32 100000, .i32 100000] = some [.i32 102760305] ∧
    wrap 99998000149998600049 = 102760305 := by decide +kernel

/-- `int q(int a, int b) { a = a / b; return (a < b) + (a == 7); }` after lowering. -/
def exSInt : Func := ⟨"q", [("a", .sc .int), ("b", .sc .int)], .sc .int,
  [.label 0,
   .load 1 (.sc .int) .arg (.index 0), .load 2 (.sc .int) .arg (.index 1),
   .bin 3 (.s .div) (.sc .int) (.ref 1) (.ref 2),
   .store .arg (.index 0) (.ref 3),
   .load 4 (.sc .int) .arg (.index 0), .load 5 (.sc .int) .arg (.index 1),
   .bin 6 (.s .lt) (.sc .int) (.ref 4) (.ref 5),
   .load 7 (.sc .int) .arg (.index 0),
   .bin 8 (.s .eq) (.sc .int) (.ref 7) (.cInt 7),
   .bin 9 (.s .add) (.sc .int) (.ref 6) (.ref 8),
   .ret (some (.ref 9))]⟩

example : intFunc exSInt = true := by decide +kernel

def exSIntModule : WModule where
  types := [⟨[.i32, .i32], [.i32]⟩]
  funcs := [0]
  tables := [0]
  exports := [⟨"q", 0⟩]
  codes :=
    [⟨[(10, .i32)],
      [.localGet 0, .localSet 2, .localGet 1, .localSet 3,
       .localGet 2, .localGet 3, .num .i32DivS, .localSet 4,
       .localGet 4, .localSet 0,
       .localGet 0, .localSet 6, .localGet 1, .localSet 7,
       .localGet 6, .localGet 7, .num .i32LtS, .localSet 8,
       .localGet 0, .localSet 9,
       .localGet 9, .i32Const 7, .num .i32Eq, .localSet 10,
       .localGet 8, .localGet 10, .num .i32Add, .localSet 11,
       .localGet 11, .ret]⟩]

theorem exSInt_gen : genWasm [exSInt] = .ok exSIntModule := by decide +kernel

/-- The range-checked VM on `(-15, 2)`: `-15 / 2 = -7` (truncation), `(-7 < 2) + (-7 == 7) = 1`. -/
theorem exSInt_vm : runR ⟨[exSInt], []⟩ 20 exSInt 0 { args := [-15, 2].map Val.int } [] =
    .done (.int 1) [] [.int (-7), .int 2] := by rfl

example : evalFunc O0 exSIntModule 0 ([-15, 2].map fun a => WVal.i32 (wrap a)) =
    some [WVal.i32 (wrap 1)] :=
  (C06_agree_int O0 [exSInt] exSIntModule 0 exSInt exSInt_gen rfl (by decide +kernel) [-15, 2] rfl
    (by intro a ha; simp at ha; rcases ha with rfl | rfl <;> (unfold inS32; omega))
    ⟨[exSInt], []⟩ 20 [] [] 1 _ exSInt_vm).2

/-- Outside the domain the hypothesis fails, as it must: `-2^31 / -1`. -/
example : runR ⟨[exSInt], []⟩ 20 exSInt 0 { args := [-2147483648, -1].map Val.int } [] =
    .fail (.unsupported "outside-i32") := by rfl

/-- `uint u(uint a, uint b) { return (a / b) + (a > b); }` after lowering. -/
def exUInt : Func := ⟨"u", [("a", .sc .uint), ("b", .sc .uint)], .sc .uint,
  [.label 0,
   .load 1 (.sc .uint) .arg (.index 0), .load 2 (.sc .uint) .arg (.index 1),
   .bin 3 (.s .div) (.sc .uint) (.ref 1) (.ref 2),
   .load 4 (.sc .uint) .arg (.index 0), .load 5 (.sc .uint) .arg (.index 1),
   .bin 6 (.s .gt) (.sc .uint) (.ref 4) (.ref 5),
   .bin 7 (.s .add) (.sc .uint) (.ref 3) (.ref 6),
   .ret (some (.ref 7))]⟩

example : uintFunc exUInt = true := by decide +kernel

/-- On `(3000000000, 7)` — the first argument is ≥ 2^31, so signed instructions would be wrong. -/
theorem exUInt_vm : runRU ⟨[exUInt], []⟩ 20 exUInt 0 { args := [3000000000, 7].map Val.int } [] =
    .done (.int 428571429) [] [.int 3000000000, .int 7] := by rfl

def exUIntModule : WModule where
  types := [⟨[.i32, .i32], [.i32]⟩]
  funcs := [0]
  tables := [0]
  exports := [⟨"u", 0⟩]
  codes :=
    [⟨[(7, .i32)],
      [.localGet 0, .localSet 2, .localGet 1, .localSet 3,
       .localGet 2, .localGet 3, .num .i32DivU, .localSet 4,
       .localGet 0, .localSet 5, .localGet 1, .localSet 6,
       .localGet 5, .localGet 6, .num .i32GtU, .localSet 7,
       .localGet 4, .localGet 7, .num .i32Add, .localSet 8,
       .localGet 8, .ret]⟩]

theorem exUInt_gen : genWasm [exUInt] = .ok exUIntModule := by decide +kernel

example : evalFunc O0 exUIntModule 0 ([3000000000, 7].map fun a => WVal.i32 (wrap a)) =
    some [WVal.i32 (wrap 428571429)] :=
  (C06_agree_uint O0 [exUInt] exUIntModule 0 exUInt exUInt_gen rfl (by decide +kernel) [3000000000, 7] rfl
    (by intro a ha; simp at ha; rcases ha with rfl | rfl <;> (unfold inU32; omega))
    ⟨[exUInt], []⟩ 20 [] [] 428571429 _ exUInt_vm).2

/-- Refusal on a concrete program: a branch, a cast, a vector operation, a `mod`. -/
example : (match genWasm [⟨"h", [("a", .sc .int)], .sc .int,
    [.load 1 (.sc .int) .arg (.index 0), .bin 2 (.s .mod) (.sc .int) (.ref 1) (.cInt 3),
     .ret (some (.ref 2))]⟩] with | .ok _ => false | .error _ => true) = true := by decide +kernel

end Nsl.Wasm
