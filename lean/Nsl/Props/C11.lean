/-
  Property C11 — validation of `break` / `continue`.

  "A program is rejected if any break or continue statement is not lexically inside the body of a
  for, while or do loop of the same function, however deeply the statement is nested in blocks and
  if/else branches; a program whose break/continue statements are all inside loops is not rejected
  for that reason.  An accepted break or continue always refers to the innermost enclosing loop."

  `validate` / `validateFn` / `validateModule` model `ValidateFlowStatementVisitor`; `targets`
  models the loop-stack bookkeeping of `LowerToIR`; `Spec.occs`, `Spec.AllInLoop`,
  `Spec.occurrences` are the declarative reading (cross-checked against tree paths below).
  All theorems hold for statement trees of any depth.
-/
import Nsl.Proofs.Flow

namespace Nsl.Flow.C11

open Nsl.Flow Nsl.Flow.Spec

/-! ### 1. The validator accepts exactly the bodies whose break/continue are all inside loops -/

theorem validate_iff (s : S) : validateFn s = true ↔ Spec.AllInLoop s :=
  validate_zero_iff s
#print axioms validate_iff

/-- Depth-generalised: started inside `d` loops the visitor rejects only if `d = 0` and some
occurrence has no enclosing loop within `s`. -/
theorem validate_depth_iff (d : Nat) (s : S) :
    validate d s = true ↔ (d > 0 ∨ Spec.AllInLoop s) :=
  validate_iff_depth d s
#print axioms validate_depth_iff

/-- Rejection form of the first sentence: a body is rejected iff SOME break/continue occurrence
has no enclosing loop. -/
theorem rejected_iff (s : S) : validateFn s = false ↔ ∃ o ∈ Spec.occs s, o.2 = [] := by
  rw [← Bool.not_eq_true, validate_iff]
  unfold AllInLoop
  constructor
  · intro h; exact Classical.byContradiction fun hn => h fun o ho he => hn ⟨o, ho, he⟩
  · rintro ⟨o, ho, he⟩ h; exact h o ho he
#print axioms rejected_iff

/-! The specification is grounded in tree paths: `occs` lists exactly the break/continue leaves
(at any depth), each with the loops whose bodies are entered on the way down; so `AllInLoop` says
that every path to a break/continue passes through at least one loop body. -/

theorem occs_iff_paths (s : S) (b : Bool) (ls : List Nat) :
    (b, ls) ∈ Spec.occs s ↔
      ∃ p, Spec.sub s p = some (if b then S.brk else S.cont) ∧ Spec.enclosing s p = ls :=
  mem_occs_iff s b ls
#print axioms occs_iff_paths

theorem allInLoop_iff_paths (s : S) :
    Spec.AllInLoop s ↔
      ∀ p, (Spec.sub s p = some .brk ∨ Spec.sub s p = some .cont) → Spec.enclosing s p ≠ [] := by
  rw [Nsl.Flow.allInLoop_iff_paths]
  constructor
  · rintro h p (hp | hp)
    · exact h p true hp
    · exact h p false hp
  · intro h p b hp
    cases b
    · exact h p (Or.inr hp)
    · exact h p (Or.inl hp)
#print axioms allInLoop_iff_paths

/-! ### 2. Modules: every function is judged on its own -/

theorem validate_module_iff (fs : List S) :
    validateModule fs = true ↔ ∀ f ∈ fs, Spec.AllInLoop f := by
  simp [validateModule, validate_iff]
#print axioms validate_module_iff

/-- A loop in one function does not license a break/continue in another: whatever the other
functions look like, a function whose body is rejected on its own makes the module rejected. -/
theorem validate_module_no_cross (pre post : List S) (f : S) (h : validateFn f = false) :
    validateModule (pre ++ f :: post) = false := by
  simp [validateModule, h]
#print axioms validate_module_no_cross

/-! ### 3. An accepted program never indexes an empty loop stack -/

theorem targets_safe (s : S) (h : validateFn s = true) : (targets [] s).isSome := by
  rw [targets_isSome]; exact h
#print axioms targets_safe

theorem targets_none_rejected (s : S) (h : targets [] s = none) : validateFn s = false := by
  have := targets_isSome s []
  rw [h] at this
  exact this.symm
#print axioms targets_none_rejected

/-- Full strength, under any loop stack: `self.__loops[-1]` raises exactly when the validator
started at the depth of that stack rejects. -/
theorem targets_isSome_iff (stk : List Nat) (s : S) :
    (targets stk s).isSome = validate stk.length s :=
  targets_isSome s stk
#print axioms targets_isSome_iff

/-- The functional `targets` agrees with the walk that threads the stack as mutable state
(`BeginLoop` push / `EndLoop` pop); in particular the stack is restored after every statement. -/
theorem targetsSt_agrees (s : S) (stk : List Nat) :
    targetsSt s stk = (targets stk s).map fun xs => (xs, stk) :=
  targetsSt_eq s stk
#print axioms targetsSt_agrees

/-! ### 4. Every accepted break/continue is registered with its innermost enclosing loop -/

theorem targets_innermost (s : S) (h : validateFn s = true) :
    targets [] s = some (Spec.occurrences s) := by
  rw [targets_eq_resolve s [] h, resolve_nil]
#print axioms targets_innermost

/-- `Spec.occurrences` drops no occurrence of an accepted body: it is, entry by entry in source
order, the last (= nearest) of the enclosing loops of each occurrence. -/
theorem occurrences_complete (s : S) (h : validateFn s = true) :
    Spec.occurrences s = (Spec.occs s).map fun o => (o.1, o.2.getLastD 0) :=
  occurrences_eq_map s ((validate_iff s).1 h)
#print axioms occurrences_complete

theorem targets_length (s : S) (h : validateFn s = true) :
    (targets [] s).map List.length = some (Spec.occs s).length := by
  rw [targets_innermost s h, occurrences_complete s h]; simp
#print axioms targets_length

/-! ### 5. Closure facts -/

theorem validate_seq (d : Nat) (a b : S) :
    validate d (.seq a b) = (validate d a && validate d b) := rfl
#print axioms validate_seq

theorem validate_ite_none (d : Nat) (t : S) : validate d (.ite t none) = validate d t := rfl
#print axioms validate_ite_none

theorem validate_ite_some (d : Nat) (t e : S) :
    validate d (.ite t (some e)) = (validate d t && validate d e) := rfl
#print axioms validate_ite_some

theorem validate_loop (d : Nat) (k : LoopKind) (id : Nat) (b : S) :
    validate d (.loop k id b) = validate (d + 1) b := rfl
#print axioms validate_loop

/-- Wrapping an offending statement in any number of block / if / if-else layers keeps it
rejected. -/
theorem wrap_rejected {s w : S} (hw : Spec.Wraps s w) (d : Nat) (h : validate d s = false) :
    validate d w = false :=
  validate_wraps hw d h
#print axioms wrap_rejected

/-- In particular a bare break / continue under any number of such layers is rejected. -/
theorem wrap_brk_rejected {w : S} (hw : Spec.Wraps .brk w) : validateFn w = false :=
  validate_wraps hw 0 rfl
#print axioms wrap_brk_rejected

theorem wrap_cont_rejected {w : S} (hw : Spec.Wraps .cont w) : validateFn w = false :=
  validate_wraps hw 0 rfl
#print axioms wrap_cont_rejected

/-- Wrapping in a loop (of any kind) makes anything accepted. -/
theorem loop_accepted (k : LoopKind) (id : Nat) (s : S) : validateFn (.loop k id s) = true :=
  validate_pos s 1 (by decide)
#print axioms loop_accepted

/-- … and the registered targets of what was directly exposed are that loop. -/
theorem loop_brk_target (k : LoopKind) (id : Nat) :
    targets [] (.loop k id .brk) = some [(true, id)] := rfl
#print axioms loop_brk_target

/-! ### 6. Non-vacuity -/

section Examples

/-- `for { { if (..) { x; break; } else continue; } while { if (..) break; } continue; }` -/
def ex1 : S :=
  .loop .forL 0
    (.seq (.seq (.ite (.seq .other .brk) (some .cont)) .other)
      (.seq (.loop .whileL 1 (.ite .brk none)) .cont))

example : validateFn ex1 = true := by decide
example : Spec.AllInLoop ex1 := by decide
example : targets [] ex1 = some [(true, 0), (false, 0), (true, 1), (false, 0)] := by decide
example : Spec.occurrences ex1 = [(true, 0), (false, 0), (true, 1), (false, 0)] := by decide
example : Spec.occs ex1 = [(true, [0]), (false, [0]), (true, [0, 1]), (false, [0])] := by decide
example : (targets [] ex1).isSome := targets_safe ex1 (by decide)

/-- three nested loops, break under if inside block in the innermost: refers to loop 2 -/
def ex2 : S :=
  .loop .doL 0 (.loop .forL 1 (.seq .other (.loop .whileL 2 (.seq (.ite (.seq .brk .other) none) .other))))

example : validateFn ex2 = true := by decide
example : targets [] ex2 = some [(true, 2)] := by decide

/-- `while { } break;` at top level: the break after the loop is rejected -/
def ex3 : S := .seq (.loop .whileL 0 .other) .brk

example : validateFn ex3 = false := by decide
example : ¬ Spec.AllInLoop ex3 := by decide
example : targets [] ex3 = none := by decide
example : validateFn ex3 = false := targets_none_rejected ex3 (by decide)

/-- continue deep under blocks and if/else but in no loop -/
def ex4 : S := .seq .other (.ite .other (some (.seq (.ite (.seq .other .cont) none) .other)))

example : validateFn ex4 = false := by decide
example : Spec.Wraps .cont ex4 :=
  .seqR _ (.elseB _ (.seqL _ (.thenB _ (.seqR _ .refl))))
example : validateFn ex4 = false :=
  wrap_cont_rejected (.seqR _ (.elseB _ (.seqL _ (.thenB _ (.seqR _ .refl)))))
example : validateFn (.loop .doL 7 ex4) = true := by decide
example : targets [] (.loop .doL 7 ex4) = some [(false, 7)] := by decide

/-- two functions: the loop of the first does not license the break of the second -/
example : validateModule [ex1, .ite .brk none] = false := by decide
example : validateModule [ex1, .ite .brk none] = false :=
  validate_module_no_cross [ex1] [] (.ite .brk none) (by decide)
example : validateModule [ex1, ex2, .other] = true := by decide
example : validateFn (.ite .brk none) = false ∧ validateFn (.seq ex1 (.loop .forL 9 (.ite .brk none))) = true := by
  decide

/-- paths: the break of `ex2` sits at this path and passes through loops 0, 1, 2 -/
example : Spec.enclosing ex2 [.body, .body, .seqR, .body, .seqL, .thenB, .seqL] = [0, 1, 2] := by decide

/-- the prefix encoding (loop ids in pre-order); `String.splitOn` / `++` do not reduce in the
kernel, so the string-level `run` is checked by `#guard` in `Nsl/Proofs/Flow.lean` -/
example : (parseToks ["f", "s", "i", "s", "b", "o", "w", "e", "c", "b"]).map
      (fun s => (validateFn s, targets [] s)) =
    some (true, some [(true, 0), (false, 1), (true, 1)]) := by
  decide
example : (parseToks ["f", "s", "i", "s", "b", "o", "w", "e", "c", "b"]).map Spec.occs =
    some [(true, [0]), (false, [0, 1]), (true, [0, 1])] := by
  decide
example : (parseToks ["s", "d", "o", "b"]).map validateFn = some false := by decide
example : parseToks ["s", "o"] = none := by decide
example : parseToks ["o", "o"] = none := by decide

end Examples

end Nsl.Flow.C11
