import Nsl.Model.Static
import Nsl.Proofs.Static

/-!
# Property C13 — static checks on element selection

"A constant index is accepted only if it lies inside the dimension it selects - for arrays (each
dimension of a multi-dimensional array), vector components and matrix rows and columns - and
negative or too-large constants are rejected; an index expression must have integer type.  A
swizzle on a vector is accepted only if its mask uses one of the letter sets xyzw / rgba without
mixing them and names only components the vector has."

`checkChain base idxs` is the verdict of the three passes (`ComputeTypes`,
`ValidateArrayAccessType`, `ValidateArrayOutOfBoundsAccess`, repaired sources) on the access chain
`base[i1]…[ik]`; `validateMask` / `swizzleOK` mirror `ValidateSwizzleMask` and its visitor.  The
specifications `Spec.ChainOK`, `Spec.MaskOK` are in `Nsl/Model/Static.lean`.  All theorems hold for
every shape (any number of dimensions, any sizes), every integer constant and every mask over the
full `Char` alphabet.
-/

namespace Nsl.Static

open Spec

/-! ## 1. The three passes decide exactly the specification -/

theorem checkChain_iff_spec (base : Ty) (hwf : WF base) (idxs : List Idx) :
    checkChain base idxs = true ↔ Spec.ChainOK base idxs :=
  checkChain_iff base hwf idxs
#print axioms checkChain_iff_spec

theorem checkChain_eq_spec (base : Ty) (hwf : WF base) (idxs : List Idx) :
    checkChain base idxs = Spec.chainOK base idxs := by
  rw [Bool.eq_iff_iff, checkChain_iff base hwf idxs]
  simp [Spec.chainOK]
#print axioms checkChain_eq_spec

/-- The hypothesis is satisfiable: `float3x2[4][5][6]`, a chain through all five dimensions. -/
example : WF (.arr (.mat .float 3 2) [4, 5, 6]) ∧
    checkChain (.arr (.mat .float 3 2) [4, 5, 6])
      [.lit 3, .dyn (.scalar .uint), .lit 5, .lit 2, .lit 1] = true := by decide

/-- `WF` is needed: with an empty dimension list `GetSize()[0]` raises. -/
example : ¬ WF (.arr (.scalar .int) []) ∧
    checkChain (.arr (.scalar .int) []) [.lit 0] = false := by decide

/-! ## 2. Readable corollaries -/

/-- A constant index on an array is accepted iff it lies in the FIRST dimension. -/
theorem lit_in_bounds_iff (e : Ty) (d : Nat) (ds : List Nat) (v : Int) :
    checkChain (.arr e (d :: ds)) [.lit v] = true ↔ 0 ≤ v ∧ v < (d : Int) := by
  rw [checkChain_cons, Bool.and_eq_true, stepOK_iff _ _ d ds (by simp [size])]
  have : ∃ t', indexResult (.arr e (d :: ds)) = some t' := by
    cases ds <;> cases e <;> simp [indexResult, size]
  obtain ⟨t', ht⟩ := this
  simp [ht, checkChain_nil, IdxOK]
#print axioms lit_in_bounds_iff

/-- The second index is compared with the SECOND size (regression of the "last dimension" defect). -/
theorem second_dim_uses_second_size (e : Ty) (d1 d2 : Nat) (a b : Int) :
    checkChain (.arr e [d1, d2]) [.lit a, .lit b] = true ↔
      (0 ≤ a ∧ a < (d1 : Int)) ∧ (0 ≤ b ∧ b < (d2 : Int)) := by
  have h1 : indexResult (.arr e [d1, d2]) = some (.arr e [d2]) := by
    cases e <;> simp [indexResult, size, componentType]
  have h2 : ∃ t', indexResult (.arr e [d2]) = some t' := by
    cases e <;> simp [indexResult, size]
  obtain ⟨t', ht⟩ := h2
  simp only [checkChain_cons, h1, ht, checkChain_nil, Bool.and_true, Bool.and_eq_true]
  rw [stepOK_iff _ _ d1 [d2] (by simp [size]), stepOK_iff _ _ d2 [] (by simp [size])]
  simp [IdxOK]
#print axioms second_dim_uses_second_size

/-- The OLD (defective) rule of `ValidateArrayOutOfBoundsAccess`: compare with the LAST size of
the parent, no test for negative values. -/
def oldBound (v : Int) (sizes : List Nat) : Bool := decide (v < (sizes.getLast! : Nat))

/-- On `int[2][3] t`, the old rule accepted the first step of `t[2][0]` (2 < 3); on `int[3][2] t`
it rejected the first step of `t[2][1]` (¬ 2 < 2); it accepted `t[-1]`.  The repaired passes give
the right verdicts. -/
example : oldBound 2 [2, 3] = true ∧
    checkChain (.arr (.scalar .int) [2, 3]) [.lit 2, .lit 0] = false := by decide
example : oldBound 2 [3, 2] = false ∧
    checkChain (.arr (.scalar .int) [3, 2]) [.lit 2, .lit 1] = true := by decide
example : oldBound (-1) [2, 3] = true ∧
    checkChain (.arr (.scalar .int) [2, 3]) [.lit (-1)] = false := by decide

/-- A negative constant is rejected wherever it stands in the chain, on every base type. -/
theorem negative_rejected (base : Ty) (pre post : List Idx) (v : Int) (hv : v < 0) :
    checkChain base (pre ++ .lit v :: post) = false :=
  checkChain_bad_step base pre _ post (fun p => stepOK_neg p v hv)
#print axioms negative_rejected

/-- A constant outside the dimension it selects (negative or too large) is rejected. -/
theorem const_out_of_range_rejected (base : Ty) (hwf : WF base) (idxs : List Idx) (j : Nat)
    (v : Int) (d : Nat) (hi : idxs[j]? = some (.lit v)) (hd : (dimsOf base)[j]? = some d)
    (hv : v < 0 ∨ (d : Int) ≤ v) : checkChain base idxs = false := by
  rw [Bool.eq_false_iff]
  intro h
  have := ((checkChain_iff base hwf idxs).1 h).2
  obtain ⟨hj, hij⟩ := List.getElem?_eq_some_iff.1 hi
  obtain ⟨hj', hdj⟩ := List.getElem?_eq_some_iff.1 hd
  have := this j hj hj'
  rw [hij, hdj] at this
  simp only [IdxOK] at this
  omega
#print axioms const_out_of_range_rejected

/-- A chain cannot select more dimensions than the type has. -/
theorem too_many_indices_rejected (base : Ty) (hwf : WF base) (idxs : List Idx)
    (h : (dimsOf base).length < idxs.length) : checkChain base idxs = false := by
  rw [Bool.eq_false_iff]
  intro hc
  have := ((checkChain_iff base hwf idxs).1 hc).1
  omega
#print axioms too_many_indices_rejected

/-- Matrix: the first constant selects a row, the second a column. -/
theorem matrix_rows_then_columns (c : Comp) (r k : Nat) (a b : Int) :
    checkChain (.mat c r k) [.lit a, .lit b] = true ↔
      (0 ≤ a ∧ a < (r : Int)) ∧ (0 ≤ b ∧ b < (k : Int)) := by
  have h1 : indexResult (.mat c r k) = some (.vec c k) := by simp [indexResult, size]
  have h2 : indexResult (.vec c k) = some (.scalar c) := by
    simp [indexResult, size, componentType]
  simp only [checkChain_cons, h1, h2, checkChain_nil, Bool.and_true, Bool.and_eq_true]
  rw [stepOK_iff _ _ r [k] (by simp [size]), stepOK_iff _ _ k [] (by simp [size])]
  simp [IdxOK]
#print axioms matrix_rows_then_columns

/-- Vector: a constant selects one of the `n` components. -/
theorem vector_components (c : Comp) (n : Nat) (v : Int) :
    checkChain (.vec c n) [.lit v] = true ↔ 0 ≤ v ∧ v < (n : Int) := by
  have h : indexResult (.vec c n) = some (.scalar c) := by
    simp [indexResult, size, componentType]
  rw [checkChain_cons, h, Bool.and_eq_true, stepOK_iff _ _ n [] (by simp [size])]
  simp [checkChain_nil, IdxOK]
#print axioms vector_components

/-- An index of type `float` (a float literal included) is rejected. -/
theorem float_index_rejected (base : Ty) (pre post : List Idx) :
    checkChain base (pre ++ .dyn (.scalar .float) :: post) = false :=
  checkChain_bad_step base pre _ post
    (fun p => stepOK_nonint p _ (by decide) (by decide))
#print axioms float_index_rejected

/-- An index of vector type is rejected (even an integer vector). -/
theorem vector_index_rejected (base : Ty) (pre post : List Idx) (c : Comp) (n : Nat) :
    checkChain base (pre ++ .dyn (.vec c n) :: post) = false :=
  checkChain_bad_step base pre _ post
    (fun p => stepOK_nonint p _ (by simp) (by simp))
#print axioms vector_index_rejected

/-- In general: only `int` and `uint` expressions are accepted as indices. -/
theorem noninteger_index_rejected (base : Ty) (pre post : List Idx) (t : Ty)
    (h1 : t ≠ .scalar .int) (h2 : t ≠ .scalar .uint) :
    checkChain base (pre ++ .dyn t :: post) = false :=
  checkChain_bad_step base pre _ post (fun p => stepOK_nonint p t h1 h2)
#print axioms noninteger_index_rejected

/-- Non-constant `int` / `uint` indices are accepted without a bounds test. -/
theorem dynamic_integer_index_accepted (e : Ty) (d : Nat) (ds : List Nat) (c : Comp)
    (hc : c = .int ∨ c = .uint) :
    checkChain (.arr e (d :: ds)) [.dyn (.scalar c)] = true := by
  have : ∃ t', indexResult (.arr e (d :: ds)) = some t' := by
    cases ds <;> cases e <;> simp [indexResult, size]
  obtain ⟨t', ht⟩ := this
  rw [checkChain_cons, ht, Bool.and_eq_true, stepOK_iff _ _ d ds (by simp [size])]
  rcases hc with rfl | rfl <;> simp [checkChain_nil, IdxOK]
#print axioms dynamic_integer_index_accepted

/-! ## 3. Swizzle masks -/

theorem validateMask_iff_spec' (n : Nat) (mask : List Char) (hne : mask ≠ []) :
    validateMask mask n = true ↔ Spec.MaskOK n mask :=
  validateMask_iff_spec n mask hne
#print axioms validateMask_iff_spec'

theorem validateMask_eq_spec (n : Nat) (mask : List Char) (hne : mask ≠ []) :
    validateMask mask n = Spec.maskOK n mask := by
  rw [Bool.eq_iff_iff, validateMask_iff_spec n mask hne]
  simp [Spec.maskOK]
#print axioms validateMask_eq_spec

/-- The hypothesis is satisfiable, with both verdicts. -/
example : ['x', 'z', 'y'] ≠ [] ∧ validateMask ['x', 'z', 'y'] 3 = true ∧
    validateMask ['x', 'w', 'y'] 3 = false := by decide

/-- `hne` is needed: `ValidateSwizzleMask("")` raises nothing (but `v.` is a syntax error, the
empty mask cannot be written). -/
example : validateMask [] 3 = true ∧ Spec.maskOK 3 [] = false := by decide

/-- A mask with a letter of each set is rejected. -/
theorem mixed_rejected (mask : List Char) (n : Nat) (c1 c2 : Char)
    (h1 : c1 ∈ mask) (hx : c1 ∈ xyzw) (h2 : c2 ∈ mask) (hr : c2 ∈ rgba) :
    validateMask mask n = false := by
  rw [Bool.eq_false_iff]
  intro h
  exact ((validateMask_iff mask n).1 h).2.2 ⟨⟨c1, h1, hx⟩, ⟨c2, h2, hr⟩⟩
#print axioms mixed_rejected

/-- A mask with a character outside `xyzwrgba` is rejected. -/
theorem foreign_letter_rejected (mask : List Char) (n : Nat) (c : Char)
    (h1 : c ∈ mask) (hc : c ∉ letters) : validateMask mask n = false := by
  rw [Bool.eq_false_iff]
  intro h
  exact hc (((validateMask_iff mask n).1 h).1 c h1)
#print axioms foreign_letter_rejected

/-- A mask naming a component the vector does not have is rejected. -/
theorem out_of_range_rejected (mask : List Char) (n : Nat) (c : Char) (i : Nat)
    (h1 : c ∈ mask) (hi : componentIndex c = some i) (hn : n ≤ i) :
    validateMask mask n = false := by
  rw [Bool.eq_false_iff]
  intro h
  obtain ⟨i', hi', hlt⟩ := ((validateMask_iff mask n).1 h).2.1 c h1
  rw [hi] at hi'
  cases hi'
  omega
#print axioms out_of_range_rejected

/-- `z` (and `b`) on a 2-vector. -/
example : swizzleOK (.vec .float 2) ['x', 'z'] = false ∧
    swizzleOK (.vec .float 2) ['b'] = false ∧ swizzleOK (.vec .float 2) ['y', 'x'] = true := by
  decide

/-- Repetition is allowed: `rrrr` on any vector. -/
theorem repetition_ok (c : Comp) (n : Nat) (hn : 1 ≤ n) :
    swizzleOK (.vec c n) ['r', 'r', 'r', 'r'] = true := by
  simp only [swizzleOK]
  rw [validateMask_iff_spec n _ (by simp)]
  refine ⟨by simp, Or.inr (by simp [rgba]), ?_⟩
  intro ch hch
  have : ch = 'r' := by simpa using hch
  subst this
  refine ⟨fun h => absurd h (by decide), fun _ => ?_⟩
  have : rgba.idxOf 'r' = 0 := by decide
  omega
#print axioms repetition_ok

/-- Matrices cannot be swizzled. -/
theorem swizzle_matrix_rejected (c : Comp) (r k : Nat) (mask : List Char) :
    swizzleOK (.mat c r k) mask = false := rfl
#print axioms swizzle_matrix_rejected

/-- On a vector, `swizzleOK` is the specification with `n` = its component count. -/
theorem swizzleOK_vec_iff (c : Comp) (n : Nat) (mask : List Char) (hne : mask ≠ []) :
    swizzleOK (.vec c n) mask = true ↔ Spec.MaskOK n mask :=
  validateMask_iff_spec n mask hne
#print axioms swizzleOK_vec_iff

/-! ## 4. Type of an accepted swizzle (`ComputeSwizzleType`) -/

theorem swizzle_type (c : Comp) (n : Nat) (mask : List Char)
    (hok : swizzleOK (.vec c n) mask = true) :
    (mask.length = 1 → swizzleType (.vec c n) mask = some (.scalar c)) ∧
    (2 ≤ mask.length → swizzleType (.vec c n) mask = some (.vec c mask.length)) := by
  constructor
  · intro h; simp [swizzleType, hok, computeSwizzleType, componentType, h]
  · intro h
    have : mask.length ≠ 1 := by omega
    simp [swizzleType, hok, computeSwizzleType, componentType, this]
#print axioms swizzle_type

/-- Scalars can be swizzled too (`s.xxx` builds a vector); same typing rule. -/
theorem swizzle_type_scalar (c : Comp) (mask : List Char)
    (hok : swizzleOK (.scalar c) mask = true) :
    (mask.length = 1 → swizzleType (.scalar c) mask = some (.scalar c)) ∧
    (2 ≤ mask.length → swizzleType (.scalar c) mask = some (.vec c mask.length)) := by
  constructor
  · intro h; simp [swizzleType, hok, computeSwizzleType, componentType, h]
  · intro h
    have : mask.length ≠ 1 := by omega
    simp [swizzleType, hok, computeSwizzleType, componentType, this]
#print axioms swizzle_type_scalar

/-- A rejected swizzle has no type. -/
theorem swizzle_type_none (t : Ty) (mask : List Char) (h : swizzleOK t mask = false) :
    swizzleType t mask = none := by
  simp [swizzleType, h]
#print axioms swizzle_type_none

/-! ## 5. Non-vacuity -/

-- `float3[2][3] a`: `a[1][2][2]` accepted, `a[1][2][3]`, `a[1][3][0]`, `a[2][0][0]` and
-- `a[1][2][2][0]` rejected.
example : checkChain (.arr (.vec .float 3) [2, 3]) [.lit 1, .lit 2, .lit 2] = true := by decide
example : checkChain (.arr (.vec .float 3) [2, 3]) [.lit 1, .lit 2, .lit 3] = false := by decide
example : checkChain (.arr (.vec .float 3) [2, 3]) [.lit 1, .lit 3, .lit 0] = false := by decide
example : checkChain (.arr (.vec .float 3) [2, 3]) [.lit 2, .lit 0, .lit 0] = false := by decide
example : checkChain (.arr (.vec .float 3) [2, 3]) [.lit 1, .lit 2, .lit 2, .lit 0] = false := by
  decide
-- the specification gives the same verdicts
example : Spec.ChainOK (.arr (.vec .float 3) [2, 3]) [.lit 1, .lit 2, .lit 2] := by decide
example : ¬ Spec.ChainOK (.arr (.vec .float 3) [2, 3]) [.lit 1, .lit 2, .lit 3] := by decide
example : Spec.dimsOf (.arr (.mat .float 3 2) [4, 5, 6]) = [4, 5, 6, 3, 2] := by decide
-- `float2x3 m`: `m[1][2]` accepted, `m[2][1]` rejected (2 rows, 3 columns)
example : checkChain (.mat .float 2 3) [.lit 1, .lit 2] = true ∧
    checkChain (.mat .float 2 3) [.lit 2, .lit 1] = false := by decide
-- index types
example : checkChain (.vec .int 4) [.dyn (.scalar .uint)] = true ∧
    checkChain (.vec .int 4) [.dyn (.scalar .float)] = false ∧
    checkChain (.vec .int 4) [.dyn (.vec .int 2)] = false ∧
    checkChain (.scalar .int) [.lit 0] = false := by decide
-- result types of chains
example : chainType (.arr (.mat .float 3 2) [4, 5]) [.lit 0] = some (.arr (.mat .float 3 2) [5]) ∧
    chainType (.arr (.mat .float 3 2) [4, 5]) [.lit 0, .lit 0] = some (.mat .float 3 2) ∧
    chainType (.arr (.mat .float 3 2) [4, 5]) [.lit 0, .lit 0, .lit 0] = some (.vec .float 2) ∧
    chainType (.arr (.mat .float 3 2) [4, 5]) [.lit 0, .lit 0, .lit 0, .lit 0]
      = some (.scalar .float) := by decide
-- swizzles
example : swizzleOK (.vec .float 4) ['x', 'y', 'z', 'w'] = true ∧
    swizzleOK (.vec .float 4) ['a', 'b', 'g', 'r'] = true ∧
    swizzleOK (.vec .float 4) ['x', 'g'] = false ∧
    swizzleOK (.vec .float 4) ['x', 'q'] = false ∧
    swizzleOK (.vec .float 3) ['w'] = false ∧
    swizzleOK (.scalar .float) ['x', 'x'] = true ∧
    swizzleOK (.scalar .float) ['y'] = false := by decide
example : Spec.MaskOK 3 ['b', 'g', 'r'] ∧ ¬ Spec.MaskOK 3 ['b', 'g', 'x'] ∧
    ¬ Spec.MaskOK 3 ['a'] := by decide
example : swizzleType (.vec .int 3) ['z'] = some (.scalar .int) ∧
    swizzleType (.vec .int 3) ['z', 'x'] = some (.vec .int 2) ∧
    swizzleType (.vec .int 3) ['z', 'x', 'x', 'y'] = some (.vec .int 4) ∧
    swizzleType (.vec .int 3) ['w'] = none := by decide
end Nsl.Static
