import Nsl.Proofs.StorMain
import Nsl.Props.C01
/-!
# C01, stage 2 – compiled programs compute what the source says: local arrays and structs used as storage

`StorageCore` (`Nsl/Model/StorageCore.lean`) extends `ScalarCore` by declarations of local aggregates (arrays of
any number of dimensions, structs, arrays of structs), reads `a[i]`, `a[i][j]`, `s.f`, `a[i].f` of scalar type and
assignments / `++` / `--` to such elements and fields (index expressions are arbitrary storage-core expressions,
possibly with side effects).  The statement is the one of `C01_compile_correct`: a finished run of the reference
semantics `CoreSem.invoke` (which entails that every dynamic index was in range) is reproduced by `VM.invoke` on
the lowered module – same value, same globals, same final argument list.  No extra hypothesis is needed.

Proof: `Nsl/Proofs/Stor*.lean`, course-of-values induction on the fuel of the reference run (`Stor.sim_allS`).
The invariant no longer forbids aliases everywhere: registers may hold `.ptr (.loc x) path`, while every local `x`
is a storage tree of depth `Γ x` (`Stor.Tree`, `Stor.FrOKS`) and arguments, globals and values of expressions are
never aliases.
-/
namespace Nsl
open Core VM Lower

theorem scalarCore_storageCore {M : Core.Module} (h : ScalarCore M) : StorageCore M :=
  fun f hf => Stor.okFn_okFnS (h f hf)

#print axioms scalarCore_storageCore

theorem C01_compile_correct_storage : C01_Statement StorageCore := by
  intro M hM fuel name args g v g' as hargs hg href
  obtain ⟨_, _, _, _, hC⟩ := Stor.sim_allS M hM fuel
  obtain ⟨D, hD, _, _⟩ := hC name args g v g' as href hargs hg
  refine ⟨D, ?_⟩
  have : VM.invoke (lowerModule M) D name args g = callD (lowerModule M) D name args g := rfl
  rw [this]; exact hD

#print axioms C01_compile_correct_storage

/-- Globals and results stay plain values (never aliases into a dead frame). -/
theorem C01_globals_plain_storage (M : Core.Module) (hM : StorageCore M) (fuel : Nat) (name : String) (args : List Val)
    (g : Globals) (v : Val) (g' : Globals) (as : List Val) (hargs : HostVals args) (hg : HostGlobals g)
    (href : CoreSem.invoke M fuel name args g = .done v g' as) : HostGlobals g' ∧ VM.Val.isPtr v = false := by
  obtain ⟨_, _, _, _, hC⟩ := Stor.sim_allS M hM fuel
  obtain ⟨D, _, hv, hg'⟩ := hC name args g v g' as href hargs hg
  exact ⟨hg', hv⟩

#print axioms C01_globals_plain_storage

/-- The old theorem is an instance of the new one. -/
example : C01_Statement ScalarCore :=
  fun M hM => C01_compile_correct_storage M (scalarCore_storageCore hM)

/-! ## Non-vacuity: a local 2-D array, a struct, an array of structs, loops writing elements -/
namespace C01StorEx
def i32 : ITy := .sc .int
def rowT : ITy := .arr i32 [3]
def arrT : ITy := .arr i32 [2, 3]
def pT : ITy := .struct "P" [("x", i32), ("y", i32)]
def psT : ITy := .arr pT [2]
def va (i : Nat) : Expr := .var .arg (.index i) i32
def vl (n : String) : Expr := .var .local (.name n) i32
def vg (n : String) : Expr := .var .global (.name n) i32
def b (op : BOp) (l r : Expr) : Expr := .bin op i32 l r
/-- `a[i][j]` -/
def a2 (i j : Expr) : Expr := .index .arr i32 (.index .arr rowT (.var .local (.name "a") arrT) i) j
/-- `s.f` -/
def sf (f : String) : Expr := .member i32 (.var .local (.name "s") pT) f
/-- `ps[i].f` -/
def psf (i : Expr) (f : String) : Expr := .member i32 (.index .arr pT (.var .local (.name "ps") psT) i) f

/-- ```
export function f(int n) -> int {
  int a[2][3]; P s; P ps[2];
  for (int i = 0; i < 2; ++i) for (int j = 0; j < 3; ++j) a[i][j] = i * 3 + j + n;
  s.x = a[1][2]; s.y = 0;
  a[0][1]++;
  int k = 0;
  while (k < 2) { s.y = s.y + a[k][1]; ps[k].x = a[k][2]; k++; }
  g = ps[--k].x;
  return s.x * 100 + s.y + --ps[0].x;
}``` -/
def f : FnDef := ⟨"f", [("n", i32)], i32,
  .seq (.decl "a" arrT none)
  (.seq (.decl "s" pT none)
  (.seq (.decl "ps" psT none)
  (.seq (.forL (.decl "i" i32 (some (.litI 0))) (some (b .lt (vl "i") (.litI 2))) (some (.affix false true (vl "i")))
      (.forL (.decl "j" i32 (some (.litI 0))) (some (b .lt (vl "j") (.litI 3))) (some (.affix false true (vl "j")))
        (.expr (.assign (a2 (vl "i") (vl "j")) (b .add (b .add (b .mul (vl "i") (.litI 3)) (vl "j")) (va 0))))))
  (.seq (.expr (.assign (sf "x") (a2 (.litI 1) (.litI 2))))
  (.seq (.expr (.assign (sf "y") (.litI 0)))
  (.seq (.expr (.affix true true (a2 (.litI 0) (.litI 1))))
  (.seq (.decl "k" i32 (some (.litI 0)))
  (.seq (.whileL (b .lt (vl "k") (.litI 2))
      (.seq (.expr (.assign (sf "y") (b .add (sf "y") (a2 (vl "k") (.litI 1)))))
      (.seq (.expr (.assign (psf (vl "k") "x") (a2 (vl "k") (.litI 2))))
            (.expr (.affix true true (vl "k"))))))
  (.seq (.expr (.assign (vg "g") (psf (.affix false false (vl "k")) "x")))
        (.ret (some (b .add (b .add (b .mul (sf "x") (.litI 100)) (sf "y"))
          (.affix false false (psf (.litI 0) "x"))))))))))))))⟩

def M : Core.Module := ⟨[("g", i32)], [f]⟩

theorem storageCore : StorageCore M := by decide

/-- The reference run is in the domain (computed by the kernel): `a = [[5,6,7],[8,9,10]]`, `s.x = 10`, `a[0][1]` becomes 7,
the loop leaves `s.y = 7 + 9`, `ps[0].x = 7`, `ps[1].x = 10`, `k = 2`; `g = ps[--k].x = 10`;
result `10 * 100 + 16 + 6`. -/
theorem ref_run : CoreSem.invoke M 400 "f" [.int 5] [("g", .int 0)] = .done (.int 1022) [("g", .int 10)] [.int 5] := by
  rfl

/-- Hence (by the theorem, not by running it) the VM returns 1022 and leaves g = 10. -/
example : ∃ fuel', VM.invoke (lowerModule M) fuel' "f" [.int 5] [("g", .int 0)] = .done (.int 1022) [("g", .int 10)] [.int 5] :=
  C01_compile_correct_storage M storageCore 400 "f" [.int 5] [("g", .int 0)] _ _ _
    (by intro a ha; simp at ha; subst ha; rfl)
    (by intro n x hx; simp [Map.get] at hx; obtain ⟨_, rfl⟩ := hx; rfl)
    ref_run

end C01StorEx

end Nsl
