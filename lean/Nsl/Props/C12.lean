import Nsl.Model.Names
import Nsl.Proofs.Names
import Nsl.Proofs.NamesBinding
import Nsl.Proofs.NamesStatic

/-!
# C12 — uniqueness of visible variable names, lexical binding

"A variable declaration is rejected exactly when its name is already visible at that point - as a
parameter of the function, a global, or a variable of the same or an enclosing block, loop header
or branch - while disjoint sibling scopes may reuse a name.  Consequently every use of a name in
an accepted program reads and writes the one declaration that is lexically visible there, and a
variable declared in a block or loop header is not visible after it."
-/

namespace Nsl.Names

open Spec

/-! ## 1. The checker accepts exactly the modules without a visible redeclaration -/

/-- The mirror of `ValidateVariableNames.py` accepts a module iff no declaration (global,
parameter, declaration statement, `for` header) sits at a position where its name is visible
(`Spec.visibleAt`), for any nesting depth. -/
theorem check_iff (m : Mod) : checkMod m = true ↔ Spec.NoVisibleRedecl m := by
  rw [checkMod_eq_okMod, okMod_iff]

#print axioms check_iff

/-- The position-based reading of the body condition, spelled out. -/
theorem check_iff_positions (m : Mod) :
    checkMod m = true ↔
      m.globals.Nodup ∧
      ∀ f ∈ m.fns, (m.globals ++ f.params).Nodup ∧
        ∀ (p : List Dir) (s' : S) (x : String),
          subAt f.body p = some s' → declares s' = some x →
            x ∉ visibleAt (m.globals ++ f.params) f.body p :=
  check_iff m

#print axioms check_iff_positions

/-! ## 2. Disjoint sibling scopes may reuse a name -/

/-- Two sibling blocks that are each accepted in a context are accepted one after the other in
that context, whatever they declare. -/
theorem sibling_reuse (ctx : Ctx) (a b : S)
    (ha : (check ctx (.block a)).isSome = true) (hb : (check ctx (.block b)).isSome = true) :
    check ctx (.seq (.block a) (.block b)) = some ctx := by
  simp only [check] at ha hb ⊢
  cases h1 : check ([] :: ctx) a with
  | none => simp [h1] at ha
  | some c1 =>
    cases h2 : check ([] :: ctx) b with
    | none => simp [h2] at hb
    | some c2 => simp [h2]

#print axioms sibling_reuse

/-- `{ int x; } { int x; }` is accepted whenever `x` is not visible before. -/
theorem sibling_reuse_decl (ctx : Ctx) (x : String) (h : visible ctx x = false) :
    check ctx (.seq (.block (.decl x)) (.block (.decl x))) = some ctx := by
  apply sibling_reuse <;> simp [check, add, visible, h]

#print axioms sibling_reuse_decl

/-- The same at the level of the specification. -/
theorem sibling_reuse_spec (V : List String) (a b : S) (ha : ok V a = true) (hb : ok V b = true) :
    ok V (.seq (.block a) (.block b)) = true := by
  simp [ok, adds, ha, hb]

#print axioms sibling_reuse_spec

/-! ## 3. Declarations do not leak out of a block, loop or if -/

/-- After a block, `for`, `while`, `do` or `if`, the context threaded onward is the one before. -/
theorem not_visible_after (ctx ctx' : Ctx) (s : S) (hs : opensScope s = true)
    (h : check ctx s = some ctx') : ctx' = ctx := by
  cases s with
  | decl x => simp [opensScope] at hs
  | use x => simp [opensScope] at hs
  | skip => simp [opensScope] at hs
  | seq a b => simp [opensScope] at hs
  | block s =>
    simp only [check] at h
    cases h1 : check ([] :: ctx) s with
    | none => simp [h1] at h
    | some c => simp [h1] at h; exact h.symm
  | ite t e =>
    simp only [check] at h
    cases h1 : check ([] :: ctx) t with
    | none => simp [h1] at h
    | some c =>
      simp only [h1] at h
      cases h2 : check c e with
      | none => simp [h2] at h
      | some c2 => simp [h2] at h; exact h.symm
  | forL i b =>
    simp only [check] at h
    split at h
    · simp at h
    · split at h
      · simp at h
      · simp at h; exact h.symm
  | whileL s =>
    simp only [check] at h
    cases h1 : check ([] :: ctx) s with
    | none => simp [h1] at h
    | some c => simp [h1] at h; exact h.symm
  | doL s =>
    simp only [check] at h
    cases h1 : check ([] :: ctx) s with
    | none => simp [h1] at h
    | some c => simp [h1] at h; exact h.symm

#print axioms not_visible_after

/-- Consequence: a name that was not visible before an accepted block / loop / if can be declared
right after it, even if the block / loop header declared it too. -/
theorem redeclare_after (ctx ctx' : Ctx) (s : S) (x : String) (hs : opensScope s = true)
    (h : check ctx s = some ctx') (hx : visible ctx x = false) :
    (check ctx (.seq s (.decl x))).isSome = true := by
  have := not_visible_after ctx ctx' s hs h
  subst this
  simp only [check, h, add, hx]
  cases ctx' <;> simp

#print axioms redeclare_after

/-- In particular `for (int i …) { … } int i;` and `{ int x; } int x;`. -/
theorem redeclare_after_for (ctx : Ctx) (i : String) (body : S)
    (h : (check ctx (.forL (some i) body)).isSome = true) :
    (check ctx (.seq (.forL (some i) body) (.decl i))).isSome = true := by
  cases hc : check ctx (.forL (some i) body) with
  | none => simp [hc] at h
  | some ctx' =>
    apply redeclare_after ctx ctx' _ i rfl hc
    simp only [check, add] at hc
    cases hv : visible ([] :: ctx) i with
    | true => simp [hv] at hc
    | false => simpa [visible] using hv

#print axioms redeclare_after_for

/-! ## 4. Binding: the flat dictionary of the VM realises lexical scoping -/

/-- Whenever checking succeeds, the flat run logs the same uses in the same order as the lexically
scoped run, and every use that the lexical rule resolves (nearest enclosing visible declaration)
reads exactly that declaration from the flat dictionary — for every function, every path through
ifs and every number of loop iterations (oracle `o`). -/
theorem flat_refines_lexical (m : Mod) (h : checkMod m = true) :
    ∀ f ∈ m.fns, ∀ o : List Nat, Refines (lexTrace m f o) (flatTrace m f o) := by
  intro f hf o
  have hok := (okMod_fn h hf).2
  have := sim (P := paramScope f) (G := globalScope m) (.block f.body) 0 _
    (show ok (m.globals ++ f.params) (.block f.body) = true from hok) _ _ (rel_init m f o)
  exact this.2.2.2

#print axioms flat_refines_lexical

/-- The statement asked for: equality of the two traces for every accepted module. -/
def flat_eq_lexical_Statement : Prop :=
  ∀ m : Mod, checkMod m = true → ∀ f ∈ m.fns, ∀ o : List Nat, flatTrace m f o = lexTrace m f o

/-- It is FALSE as it stands: `{ int x; } x;` is accepted by this pass (it only looks at
declarations); lexically `x` is an unknown symbol after the block, but the flat dictionary still
holds the binding. -/
example : ¬ flat_eq_lexical_Statement := by
  intro h
  have := h ⟨[], [⟨[], .seq (.block (.decl "x")) (.use "x")⟩]⟩ (by decide) _ (List.mem_singleton.mpr rfl) []
  revert this
  decide

/-- The strongest true variant: if moreover every use is definitely preceded by a declaration in
scope (`Spec.usesDeclared`, i.e. no unknown symbols — checked by another pass of the compiler),
the two traces are EQUAL: every executed use reads, in the flat execution, exactly the declaration
that the lexical rule designates. -/
theorem flat_eq_lexical_partial (m : Mod) (h : checkMod m = true) (hd : usesDeclared m = true) :
    ∀ f ∈ m.fns, ∀ o : List Nat, flatTrace m f o = lexTrace m f o := by
  intro f hf o
  apply Refines.eq_of_allSome (flat_refines_lexical m h f hf o)
  simp only [usesDeclared, List.all_eq_true] at hd
  have := resolved (.block f.body) 0 _
    (show declaredOk (m.globals ++ f.params) (.block f.body) = true from hd f hf) _ (relD_init m f o)
  exact this.2.2

#print axioms flat_eq_lexical_partial

/-- Under the same hypotheses no executed use is an unknown symbol, in either interpreter. -/
theorem uses_resolve (m : Mod) (h : checkMod m = true) (hd : usesDeclared m = true) :
    ∀ f ∈ m.fns, ∀ o : List Nat, ∀ e ∈ flatTrace m f o, e.2.isSome = true := by
  intro f hf o
  rw [flat_eq_lexical_partial m h hd f hf o]
  simp only [usesDeclared, List.all_eq_true] at hd
  exact (resolved (.block f.body) 0 _
    (show declaredOk (m.globals ++ f.params) (.block f.body) = true from hd f hf) _
    (relD_init m f o)).2.2

#print axioms uses_resolve

/-- The scoped run is the STATIC lexical rule: `lexTable` resolves every use occurrence of the
program text once (no oracle), each use slot exactly once; every event of the lexically scoped run
is a use slot of the table, and if the run resolved it, it resolved it to the table's entry. -/
theorem lexical_run_static (m : Mod) (h : checkMod m = true) :
    ∀ f ∈ m.fns, ∀ o : List Nat, ∀ e ∈ lexTrace m f o,
      ∃ d, (e.1, d) ∈ lexTable m f ∧ (e.2 = none ∨ e.2 = d) := by
  intro f hf o e he
  have hok := (okMod_fn h hf).2
  rcases static_sim (.block f.body) 0 _
    (show ok (m.globals ++ f.params) (.block f.body) = true from hok)
    ⟨[paramScope f, globalScope m], o, []⟩ [paramScope f, globalScope m] (by simp) (by simp)
    (le_init m f) e he with h' | h'
  · simp at h'
  · exact h'

#print axioms lexical_run_static

theorem lexTable_slots_nodup (m : Mod) (f : Fn) : ((lexTable m f).map Prod.fst).Nodup :=
  table_nodup _ _ _

#print axioms lexTable_slots_nodup

/-- Slots identify occurrences: the slots of a statement, in pre-order, are `k, k+1, …`. -/
theorem slots_unique (s : S) (k : Nat) : (occs s k).map Prod.fst = List.range' k (size s) :=
  occs_slots s k

#print axioms slots_unique

/-- Altogether: in an accepted module without unknown symbols, every use executed by the flat
(VM-like) interpreter reads exactly the declaration that static lexical resolution assigns to that
use occurrence. -/
theorem flat_reads_static (m : Mod) (h : checkMod m = true) (hd : usesDeclared m = true) :
    ∀ f ∈ m.fns, ∀ o : List Nat, ∀ e ∈ flatTrace m f o, e ∈ lexTable m f := by
  intro f hf o e he
  have hs := uses_resolve m h hd f hf o e he
  rw [flat_eq_lexical_partial m h hd f hf o] at he
  obtain ⟨d, h1, h2⟩ := lexical_run_static m h f hf o e he
  rcases h2 with h2 | h2
  · simp [h2] at hs
  · rw [← h2] at h1; exact h1

#print axioms flat_reads_static

/-- No local or parameter of an accepted module has the name of a global, and no local has the
name of a parameter of its function (locals: every declaration statement and `for` header, at any
depth). -/
theorem local_never_shadows_global (m : Mod) (h : checkMod m = true) :
    ∀ f ∈ m.fns,
      (∀ p ∈ f.params, p ∉ m.globals) ∧
      ∀ x ∈ locals f.body, x ∉ m.globals ∧ x ∉ f.params := by
  intro f hf
  obtain ⟨hnd, hok⟩ := okMod_fn h hf
  refine ⟨?_, ?_⟩
  · intro p hp hg
    exact (List.nodup_append.mp hnd).2.2 p hg p hp rfl
  · intro x hx
    have := ok_locals f.body _ hok x hx
    simpa [not_or] using this

#print axioms local_never_shadows_global

/-! ## 5. Non-vacuity -/

-- `if (c) int a = 1; else int a = 2;` : both branches share the if's context
example : checkMod ⟨[], [⟨[], .ite (.decl "a") (.decl "a")⟩]⟩ = false := by decide
-- braced branches open their own contexts
example : checkMod ⟨[], [⟨[], .ite (.block (.decl "a")) (.block (.decl "a"))⟩]⟩ = true := by decide
-- `for (int i …) { int i; }` : the body block is a child of the for context
example : checkMod ⟨[], [⟨[], .forL (some "i") (.block (.decl "i"))⟩]⟩ = false := by decide
-- reuse after the loop
example : checkMod ⟨[], [⟨[], .seq (.forL (some "i") (.block (.decl "j")))
    (.seq (.forL (some "i") .skip) (.seq (.decl "j") (.decl "i")))⟩]⟩ = true := by decide
-- parameter vs local
example : checkMod ⟨[], [⟨["p"], .decl "p"⟩]⟩ = false := by decide
-- global vs local (the global is visible whatever the textual order)
example : checkMod ⟨["g"], [⟨[], .block (.whileL (.decl "g"))⟩]⟩ = false := by decide
-- global vs parameter, duplicate parameters, duplicate globals
example : checkMod ⟨["g"], [⟨["g"], .skip⟩]⟩ = false := by decide
example : checkMod ⟨[], [⟨["p", "p"], .skip⟩]⟩ = false := by decide
example : checkMod ⟨["g", "g"], []⟩ = false := by decide
-- two functions reusing parameter and local names
example : checkMod ⟨["g"], [⟨["p"], .seq (.decl "a") (.use "a")⟩, ⟨["p"], .decl "a"⟩]⟩ = true := by
  decide
-- a nested declaration of an outer name is rejected at any depth
example : checkMod ⟨[], [⟨[], .seq (.decl "a")
    (.whileL (.block (.doL (.ite .skip (.block (.forL none (.decl "a")))))))⟩]⟩ = false := by decide
-- the specification side is decidable too, and agrees
example : Spec.NoVisibleRedecl ⟨["g"], [⟨["p"], .seq (.block (.decl "a")) (.block (.decl "a"))⟩]⟩ := by
  decide
example : ¬ Spec.NoVisibleRedecl ⟨[], [⟨[], .ite (.decl "a") (.decl "a")⟩]⟩ := by decide
-- hypotheses of `sibling_reuse`, `not_visible_after`, `redeclare_after` are satisfiable
example : (check [["p"], ["g"]] (.block (.decl "x"))).isSome = true := by decide
example : check [["p"], ["g"]] (.forL (some "i") (.block (.decl "x"))) = some [["p"], ["g"]] := by
  decide

/-! ### Stage 2 -/

example : checkMod exLoop = true := by decide
example : usesDeclared exLoop = false := by decide
-- two iterations, then-branch first, else-branch second: the flat dictionary still holds the
-- `x` of the first iteration, lexically it is unknown; everything else agrees
example : lexTrace exLoop exLoop.fns[0]! [2, 1, 0] =
    [(3, some (.loc 0)), (4, some (.param 0)), (5, some (.global 0)),
     (2, none), (3, some (.loc 0)), (4, some (.param 0)), (5, some (.global 0))] := by decide
example : flatTrace exLoop exLoop.fns[0]! [2, 1, 0] =
    [(3, some (.loc 0)), (4, some (.param 0)), (5, some (.global 0)),
     (2, some (.loc 1)), (3, some (.loc 0)), (4, some (.param 0)), (5, some (.global 0))] := by decide
example : Refines (lexTrace exLoop exLoop.fns[0]! [2, 1, 0]) (flatTrace exLoop exLoop.fns[0]! [2, 1, 0]) := by
  decide

-- the hypotheses of `flat_eq_lexical_partial` are satisfiable, and the traces are not trivial
example : checkMod exGood = true ∧ usesDeclared exGood = true := by decide
example : flatTrace exGood exGood.fns[0]! [2, 0] =
    [(3, some (.loc 2)), (4, some (.loc 1)), (5, some (.loc 0)),
     (3, some (.loc 2)), (4, some (.loc 1)), (5, some (.loc 0)),
     (7, some (.loc 6)), (8, some (.param 0)), (9, some (.global 0))] := by decide
example : flatTrace exGood exGood.fns[0]! [2, 0] = lexTrace exGood exGood.fns[0]! [2, 0] := by decide
example : lexTable exGood exGood.fns[0]! =
    [(3, some (.loc 2)), (4, some (.loc 1)), (5, some (.loc 0)),
     (7, some (.loc 6)), (8, some (.param 0)), (9, some (.global 0))] := by decide
-- statically, the `x` in the else branch of `exLoop` denotes the un-braced declaration of the then
-- branch (one scope for the whole if); the run, which takes one branch only, finds nothing
example : lexTable exLoop exLoop.fns[0]! =
    [(2, some (.loc 1)), (3, some (.loc 0)), (4, some (.param 0)), (5, some (.global 0))] := by decide
-- without the checker's guarantee the flat dictionary does NOT implement lexical scoping:
-- `{ int a; { int a; } a; }` reads the inner `a` (slot 1) instead of the outer one (slot 0)
example : checkMod ⟨[], [⟨[], .seq (.decl "a") (.seq (.block (.decl "a")) (.use "a"))⟩]⟩ = false := by
  decide
example :
    let m : Mod := ⟨[], [⟨[], .seq (.decl "a") (.seq (.block (.decl "a")) (.use "a"))⟩]⟩
    lexTrace m m.fns[0]! [] = [(2, some (.loc 0))] ∧ flatTrace m m.fns[0]! [] = [(2, some (.loc 1))] := by
  decide

end Nsl.Names
