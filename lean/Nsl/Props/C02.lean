import Nsl.Proofs.Opt
import Nsl.Proofs.OptSimConv
/-!
# C02 – optimisation never changes observable behaviour

`Opt.optProgram` is the model of `OptimizeConstantCasts` followed by `OptimizeLoadAfterStore` (with the deferred
replace / replace-uses bookkeeping).  The full statement is `C02_Statement`; what is proved in this file are the facts
the soundness argument consists of, each for ALL programs / states:

* `C02_same_interface`   – optimisation keeps every function (name, parameters, return type) and the globals: the same
                           invocations resolve, so the accept/link/resolve behaviour is unchanged;
* `C02_only_casts_and_loads_removed` – a pass keeps every label, branch, store, call, return, declaration … in order
                           (operands rewired); only casts and loads can disappear;
* `C02_removed_cast_justified` / `C02_removed_load_justified` – exactly which ones: a cast of a constant that folds, a
                           load whose predecessor in the block is a store to the same variable; users are rewired to the
                           folded constant / the stored operand (chains resolved);
* `C02_fold_sound`       – the folded constant is the value the VM's CAST computes, for every constant and target type;
* `C02_forward_sound`    – in every state, a store followed by the load leaves exactly the stored operand's value in the
                           load's register and changes nothing else.
The global statement is proved in the second half of this file (`C02_opt_correct`, `C02_opt_correct_fail`,
`C02_opt_complete`, `C02_opt_complete_fail`) under the decidable side conditions `optOK`, which the harness evaluates on
every real IR.  `C02_Statement` below — the first formulation, with `forwardOK` as its only hypothesis — is FALSE
(`C02_Statement_false`): the substitution is per function, so references must be defined once (`defsDistinct`) and used
in the block that defines them (`blockLocal`).
-/
namespace Nsl
open VM Opt

/-- Full statement: under the side conditions checked on every IR (`forwardOK`), a finished unoptimised run is
reproduced by the optimised program. -/
def C02_Statement : Prop :=
  ∀ (P : Program), (∀ f ∈ P.funcs, forwardOK none (pass ccDecide f.code) = true) →
  ∀ (fuel : Nat) (name : String) (args : List Val) (g : Globals) (v : Val) (g' : Globals) (as : List Val),
    VM.invoke P fuel name args g = .done v g' as →
    ∃ fuel', VM.invoke (optProgram P) fuel' name args g = .done v g' as

theorem C02_same_interface (P : Program) (name : String) :
    (optProgram P).find name = (P.find name).map optFn ∧ (optProgram P).globals = P.globals ∧
      ∀ f, (optFn f).name = f.name ∧ (optFn f).params = f.params ∧ (optFn f).ret = f.ret := by
  refine ⟨?_, rfl, fun f => ⟨rfl, rfl, rfl⟩⟩
  unfold Program.find optProgram
  simp only
  induction P.funcs with
  | nil => rfl
  | cons f rest ih =>
    simp only [List.map_cons, List.find?_cons]
    have : (optFn f).name = f.name := rfl
    rw [this]
    cases f.name == name
    · simpa using ih
    · simp

#print axioms C02_same_interface

theorem C02_only_casts_and_loads_removed (code : List Instr) :
    ∃ σ₁ σ₂, (optCode code).filter (fun i => !removable i) =
      ((code.filter (fun i => !removable i)).map (substInstr σ₁)).map (substInstr σ₂) := by
  obtain ⟨σ₁, h1⟩ := pass_keeps ccDecide ccDecide_dec code
  obtain ⟨σ₂, h2⟩ := pass_keeps lasDecide lasDecide_dec (pass ccDecide code)
  exact ⟨σ₁, σ₂, by unfold optCode; rw [h2, h1]⟩

#print axioms C02_only_casts_and_loads_removed

theorem C02_removed_cast_justified (prev : Option Instr) (ins : Instr) (σ : Subst) (d : Nat) (o : Opd)
    (h : ccDecide prev ins σ = some (d, o)) :
    ∃ ty a x y, ins = .cast d ty a ∧ constVal a = some x ∧ constVal o = some y ∧ castExec ty x = .ok y := by
  obtain ⟨ty, a, rfl, hf⟩ := ccDecide_removable h
  obtain ⟨x, y, hx, hy, hc⟩ := foldCast_sound hf
  exact ⟨ty, a, x, y, rfl, hx, hy, hc⟩

#print axioms C02_removed_cast_justified

theorem C02_removed_load_justified (prev : Option Instr) (ins : Instr) (σ : Subst) (d : Nat) (o : Opd)
    (h : lasDecide prev ins σ = some (d, o)) :
    ∃ ty sc var sc' src, ins = .load d ty sc var ∧ prev = some (.store sc' var src) ∧ o = substOpd σ src :=
  lasDecide_removable h

#print axioms C02_removed_load_justified

theorem C02_fold_sound (ty : ITy) (o c : Opd) (h : foldCast ty o = some c) (fr : Frame) :
    ∃ x y, evalOpd fr o = .ok x ∧ evalOpd fr c = .ok y ∧ castExec ty x = .ok y := by
  obtain ⟨x, y, hx, hy, hc⟩ := foldCast_sound h
  exact ⟨x, y, evalOpd_const hx, evalOpd_const hy, hc⟩

#print axioms C02_fold_sound

theorem C02_forward_sound (cf : String → List Val → Globals → Res) (code : List Instr) (pc : Nat) (fr : Frame)
    (g : Globals) (sc : Scope) (var : VarKey) (src : Opd) (d : Nat) (ty : ITy)
    (hs : code[pc]? = some (.store sc var src)) (hl : code[pc + 1]? = some (.load d ty sc var))
    (hty : ty.isAggregate = false) (pc1 : Nat) (fr1 : Frame) (g1 : Globals)
    (h1 : stepI cf code pc fr g = .next pc1 fr1 g1) :
    ∃ v, evalOpd fr src = .ok v ∧ pc1 = pc + 1 ∧ fr1.regs = fr.regs ∧
      stepI cf code (pc + 1) fr1 g1 = .next (pc + 2) (setReg fr1 d v) g1 :=
  store_load_forward cf code pc fr g sc var src d ty hs hl hty pc1 fr1 g1 h1

#print axioms C02_forward_sound

/-! ## Non-vacuity: `int x = a; if (x) …` and a folded cast -/
namespace C02Ex
def i32 : ITy := .sc .int
def code : List Instr := [
  .label 0,
  .newVar 1 i32 "x",
  .load 2 i32 .arg (.index 0),
  .cast 3 (.sc .float) (.cInt 2),
  .store .local (.name "x") (.ref 2),
  .load 5 i32 .local (.name "x"),
  .brc (.ref 5) 6 7,
  .label 6, .ret (some (.ref 3)),
  .label 7, .ret (some (.ref 5))]

/-- the cast is folded, the load forwarded, the branch and the return rewired -/
example : optCode code = [
  .label 0,
  .newVar 1 i32 "x",
  .load 2 i32 .arg (.index 0),
  .store .local (.name "x") (.ref 2),
  .brc (.ref 2) 6 7,
  .label 6, .ret (some (.cFlt (Float.ofInt 2))),
  .label 7, .ret (some (.ref 2))] := by rfl

example : forwardOK none (pass ccDecide code) = true := by rfl
end C02Ex

end Nsl

/-!
# C02 – the global simulation theorem for the IR optimiser model

Under the decidable side conditions `optOK` (checked by the harness on every real IR), every run of the unoptimised
program that does not run out of fuel is reproduced by the optimised program with the SAME fuel: same returned value,
same final globals, same final argument list (`C02_opt_correct`), and same defined failure (`C02_opt_correct_fail`).
Conversely every outcome of the optimised program other than `timeout` is the outcome of the original program for some
larger fuel (`C02_opt_complete`, `C02_opt_complete_fail`).  `optOK f` is
`blockLocal [] f.code && forwardOK none (pass ccDecide f.code) && defsDistinct f.code`; the last conjunct is necessary
(see `C02GlobalEx.bad`).  Proofs: `Nsl/Proofs/OptSim*.lean`; overview in `C02_NOTES.md`.
-/
namespace Nsl
open VM Opt

theorem C02_opt_correct (P : Program) (hok : ∀ f ∈ P.funcs, optOK f = true)
    (fuel : Nat) (name : String) (args : List Val) (g : Globals) (v : Val) (g' : Globals) (as : List Val)
    (h : VM.invoke P fuel name args g = .done v g' as) :
    VM.invoke (optProgram P) fuel name args g = .done v g' as := by
  rw [← h]
  exact optProgram_invoke_sim P hok fuel name args g (by rw [h]; intro e; cases e)

#print axioms C02_opt_correct

/-- `C02_Statement` (of `Props/C02.lean`) with its hypothesis strengthened to `optOK`. -/
def C02_Statement_optOK : Prop :=
  ∀ (P : Program), (∀ f ∈ P.funcs, optOK f = true) →
  ∀ (fuel : Nat) (name : String) (args : List Val) (g : Globals) (v : Val) (g' : Globals) (as : List Val),
    VM.invoke P fuel name args g = .done v g' as →
    ∃ fuel', VM.invoke (optProgram P) fuel' name args g = .done v g' as

theorem C02_statement_optOK : C02_Statement_optOK :=
  fun P hok fuel name args g v g' as h => ⟨fuel, C02_opt_correct P hok fuel name args g v g' as h⟩

#print axioms C02_statement_optOK

/-- `optOK` contains the hypothesis of `C02_Statement`. -/
theorem optOK_forwardOK (f : Func) (h : optOK f = true) : forwardOK none (pass ccDecide f.code) = true := by
  simp only [optOK, Bool.and_eq_true] at h
  exact h.1.2

#print axioms optOK_forwardOK

theorem C02_opt_correct_fail (P : Program) (hok : ∀ f ∈ P.funcs, optOK f = true)
    (fuel : Nat) (name : String) (args : List Val) (g : Globals) (e : Err) (hne : e ≠ .timeout)
    (h : VM.invoke P fuel name args g = .fail e) :
    VM.invoke (optProgram P) fuel name args g = .fail e := by
  rw [← h]
  exact optProgram_invoke_sim P hok fuel name args g (by rw [h]; intro e'; cases e'; exact hne rfl)

#print axioms C02_opt_correct_fail

/-- Converse direction: a finished run of the OPTIMISED program is a finished run of the original program, with the
same result, for some larger fuel (the original executes the removed instructions in addition). -/
theorem C02_opt_complete (P : Program) (hok : ∀ f ∈ P.funcs, optOK f = true)
    (fuel : Nat) (name : String) (args : List Val) (g : Globals) (v : Val) (g' : Globals) (as : List Val)
    (h : VM.invoke (optProgram P) fuel name args g = .done v g' as) :
    ∃ fuel', fuel ≤ fuel' ∧ VM.invoke P fuel' name args g = .done v g' as := by
  obtain ⟨F, hle, hF⟩ := optProgram_invoke_conv P hok fuel name args g (by rw [h]; intro e; cases e)
  exact ⟨F, hle, by rw [hF, h]⟩

#print axioms C02_opt_complete

/-- … and likewise for defined failures: the optimiser never introduces (or hides) a failure. -/
theorem C02_opt_complete_fail (P : Program) (hok : ∀ f ∈ P.funcs, optOK f = true)
    (fuel : Nat) (name : String) (args : List Val) (g : Globals) (e : Err) (hne : e ≠ .timeout)
    (h : VM.invoke (optProgram P) fuel name args g = .fail e) :
    ∃ fuel', fuel ≤ fuel' ∧ VM.invoke P fuel' name args g = .fail e := by
  obtain ⟨F, hle, hF⟩ := optProgram_invoke_conv P hok fuel name args g
    (by rw [h]; intro e'; cases e'; exact hne rfl)
  exact ⟨F, hle, by rw [hF, h]⟩

#print axioms C02_opt_complete_fail

/-! ## Non-vacuity: a loop, a folded cast inside the loop, a forwarded load, a call -/
namespace C02GlobalEx
def i32 : ITy := .sc .int

/-- `dec(a) = a - int(1)` -/
def dec : Func := { name := "dec", params := [("a", i32)], ret := i32, code := [
  .label 0,
  .load 1 i32 .arg (.index 0),
  .cast 2 i32 (.cInt 1),
  .bin 3 (.s .sub) i32 (.ref 1) (.ref 2),
  .ret (some (.ref 3))] }

/-- `x = n; while (x) { x = dec(x); last = x; } return float(2)` -/
def main : Func := { name := "main", params := [("n", i32)], ret := .sc .float, code := [
  .label 0,
  .newVar 1 i32 "x",
  .load 2 i32 .arg (.index 0),
  .store .local (.name "x") (.ref 2),
  .br 10,
  .label 10,
  .load 3 i32 .local (.name "x"),
  .brc (.ref 3) 11 12,
  .label 11,
  .load 4 i32 .local (.name "x"),
  .call 5 i32 "dec" [.ref 4],
  .store .local (.name "x") (.ref 5),
  .load 6 i32 .local (.name "x"),
  .store .global (.name "last") (.ref 6),
  .br 10,
  .label 12,
  .cast 7 (.sc .float) (.cInt 2),
  .ret (some (.ref 7))] }

def P : Program := { funcs := [main, dec], globals := [("last", i32)] }

example : (optFn main).code = [
  .label 0,
  .newVar 1 i32 "x",
  .load 2 i32 .arg (.index 0),
  .store .local (.name "x") (.ref 2),
  .br 10,
  .label 10,
  .load 3 i32 .local (.name "x"),
  .brc (.ref 3) 11 12,
  .label 11,
  .load 4 i32 .local (.name "x"),
  .call 5 i32 "dec" [.ref 4],
  .store .local (.name "x") (.ref 5),
  .store .global (.name "last") (.ref 5),
  .br 10,
  .label 12,
  .ret (some (.cFlt (Float.ofInt 2)))] := by rfl

theorem ok : ∀ f ∈ P.funcs, optOK f = true := by
  intro f hf
  simp only [P, List.mem_cons, List.not_mem_nil, or_false] at hf
  rcases hf with rfl | rfl <;> rfl

theorem orig_run : VM.invoke P 30 "main" [.int 1] [("last", .int 7)] =
    .done (.flt (Float.ofInt 2)) [("last", .int 0)] [.int 1] := by rfl

/-- the theorem applies: the optimised program returns the same value, globals and arguments with the same fuel -/
example : VM.invoke (optProgram P) 30 "main" [.int 1] [("last", .int 7)] =
    .done (.flt (Float.ofInt 2)) [("last", .int 0)] [.int 1] :=
  C02_opt_correct P ok 30 "main" [.int 1] [("last", .int 7)] _ _ _ orig_run

/-- a defined failure (index error on a missing argument) is reproduced as well -/
theorem orig_fail : VM.invoke P 30 "main" [] [] = .fail (.internal "IndexError-arg") := by rfl

example : VM.invoke (optProgram P) 30 "main" [] [] = .fail (.internal "IndexError-arg") :=
  C02_opt_correct_fail P ok 30 "main" [] [] _ (by intro h; cases h) orig_fail

/-- the converse applies as well -/
example : ∃ fuel', 25 ≤ fuel' ∧ VM.invoke P fuel' "main" [.int 1] [("last", .int 7)] =
    .done (.flt (Float.ofInt 2)) [("last", .int 0)] [.int 1] :=
  C02_opt_complete P ok 25 "main" [.int 1] [("last", .int 7)] _ _ _ (by rfl)

/-! ### The added side condition `defsDistinct` is necessary

`bad` satisfies `blockLocal` and `forwardOK`, but reference 5 is defined in two blocks: once by a cast that is folded
and once by a load that is kept.  The substitution is global, so the use of the load's value is rewired to the folded
constant and the optimised function returns 7 instead of its argument. -/
def bad : Func := { name := "bad", params := [("a", i32)], ret := i32, code := [
  .label 0,
  .load 1 i32 .arg (.index 0),
  .brc (.ref 1) 1 2,
  .label 1,
  .cast 5 i32 (.cInt 7),
  .ret (some (.ref 5)),
  .label 2,
  .load 5 i32 .arg (.index 0),
  .ret (some (.ref 5))] }

def Pbad : Program := { funcs := [bad], globals := [] }

example : blockLocal [] bad.code = true ∧ forwardOK none (pass ccDecide bad.code) = true ∧
    defsDistinct bad.code = false ∧ optOK bad = false := ⟨rfl, rfl, rfl, rfl⟩
example : VM.invoke Pbad 20 "bad" [.int 0] [] = .done (.int 0) [] [.int 0] := by rfl
example : VM.invoke (optProgram Pbad) 20 "bad" [.int 0] [] = .done (.int 7) [] [.int 0] := by rfl
end C02GlobalEx

/-- The original `C02_Statement` (hypothesis `forwardOK` only) does not hold: `bad` is a counterexample. -/
theorem C02_Statement_false : ¬ C02_Statement := by
  intro h
  obtain ⟨fuel', hf⟩ := h C02GlobalEx.Pbad
    (by intro f hf; simp only [C02GlobalEx.Pbad, List.mem_cons, List.not_mem_nil, or_false] at hf; subst hf; rfl)
    20 "bad" [.int 0] [] (.int 0) [] [.int 0] (by rfl)
  have h7 : VM.invoke (optProgram C02GlobalEx.Pbad) 20 "bad" [.int 0] [] = .done (.int 7) [] [.int 0] := by rfl
  have a := invoke_mono_ne _ "bad" [.int 0] [] fuel' (max fuel' 20) (Nat.le_max_left _ _)
    (by rw [hf]; intro e; cases e)
  have b := invoke_mono_ne _ "bad" [.int 0] [] 20 (max fuel' 20) (Nat.le_max_right _ _)
    (by rw [h7]; intro e; cases e)
  rw [hf] at a
  rw [h7, a] at b
  simp at b

#print axioms C02_Statement_false

end Nsl
