import Nsl.Proofs.Opt
/-!
# C02 – optimisation never changes observable behaviour

`Opt.optProgram` is the model of `OptimizeConstantCasts` followed by `OptimizeLoadAfterStore` (with the deferred
replace / replace-uses bookkeeping).  The full statement is `C02_Statement`; what is proved in this file are the facts
the soundness argument consists of, each for ALL programs / states:

* `C02_same_interface`   – optimisation keeps every function (name, parameters, return type) and the globals: the same
                           invocations resolve, so the accept/link/resolve behaviour is unchanged;
* `C02_only_casts_and_loads_removed` – a pass keeps every label, branch, store, call, return, declaration … in order
                           (operands rewired); only casts and loads can disappear;
* `C02_removed_cast_justified` / `C02_removed_load_justified` – exactly which ones: a cast of a constant that folds, a
                           load whose predecessor in the block is a store to the same variable; users are rewired to the
                           folded constant / the stored operand (chains resolved);
* `C02_fold_sound`       – the folded constant is the value the VM's CAST computes, for every constant and target type;
* `C02_forward_sound`    – in every state, a store followed by the load leaves exactly the stored operand's value in the
                           load's register and changes nothing else.
`C02_partial`: what is NOT yet machine-checked is the global simulation that glues these local facts along whole
executions (loops, calls); the behavioural correspondence (optimised vs unoptimised real modules on all inputs) and the
structural correspondence (model optimiser on the real unoptimised IR = real optimised IR) carry that part.
-/
namespace Nsl
open VM Opt

/-- Full statement: under the side conditions checked on every IR (`forwardOK`), a finished unoptimised run is
reproduced by the optimised program. -/
def C02_Statement : Prop :=
  ∀ (P : Program), (∀ f ∈ P.funcs, forwardOK none (pass ccDecide f.code) = true) →
  ∀ (fuel : Nat) (name : String) (args : List Val) (g : Globals) (v : Val) (g' : Globals) (as : List Val),
    VM.invoke P fuel name args g = .done v g' as →
    ∃ fuel', VM.invoke (optProgram P) fuel' name args g = .done v g' as

theorem C02_same_interface (P : Program) (name : String) :
    (optProgram P).find name = (P.find name).map optFn ∧ (optProgram P).globals = P.globals ∧
      ∀ f, (optFn f).name = f.name ∧ (optFn f).params = f.params ∧ (optFn f).ret = f.ret := by
  refine ⟨?_, rfl, fun f => ⟨rfl, rfl, rfl⟩⟩
  unfold Program.find optProgram
  simp only
  induction P.funcs with
  | nil => rfl
  | cons f rest ih =>
    simp only [List.map_cons, List.find?_cons]
    have : (optFn f).name = f.name := rfl
    rw [this]
    cases f.name == name
    · simpa using ih
    · simp

#print axioms C02_same_interface

theorem C02_only_casts_and_loads_removed (code : List Instr) :
    ∃ σ₁ σ₂, (optCode code).filter (fun i => !removable i) =
      ((code.filter (fun i => !removable i)).map (substInstr σ₁)).map (substInstr σ₂) := by
  obtain ⟨σ₁, h1⟩ := pass_keeps ccDecide ccDecide_dec code
  obtain ⟨σ₂, h2⟩ := pass_keeps lasDecide lasDecide_dec (pass ccDecide code)
  exact ⟨σ₁, σ₂, by unfold optCode; rw [h2, h1]⟩

#print axioms C02_only_casts_and_loads_removed

theorem C02_removed_cast_justified (prev : Option Instr) (ins : Instr) (σ : Subst) (d : Nat) (o : Opd)
    (h : ccDecide prev ins σ = some (d, o)) :
    ∃ ty a x y, ins = .cast d ty a ∧ constVal a = some x ∧ constVal o = some y ∧ castExec ty x = .ok y := by
  obtain ⟨ty, a, rfl, hf⟩ := ccDecide_removable h
  obtain ⟨x, y, hx, hy, hc⟩ := foldCast_sound hf
  exact ⟨ty, a, x, y, rfl, hx, hy, hc⟩

#print axioms C02_removed_cast_justified

theorem C02_removed_load_justified (prev : Option Instr) (ins : Instr) (σ : Subst) (d : Nat) (o : Opd)
    (h : lasDecide prev ins σ = some (d, o)) :
    ∃ ty sc var sc' src, ins = .load d ty sc var ∧ prev = some (.store sc' var src) ∧ o = substOpd σ src :=
  lasDecide_removable h

#print axioms C02_removed_load_justified

theorem C02_fold_sound (ty : ITy) (o c : Opd) (h : foldCast ty o = some c) (fr : Frame) :
    ∃ x y, evalOpd fr o = .ok x ∧ evalOpd fr c = .ok y ∧ castExec ty x = .ok y := by
  obtain ⟨x, y, hx, hy, hc⟩ := foldCast_sound h
  exact ⟨x, y, evalOpd_const hx, evalOpd_const hy, hc⟩

#print axioms C02_fold_sound

theorem C02_forward_sound (cf : String → List Val → Globals → Res) (code : List Instr) (pc : Nat) (fr : Frame)
    (g : Globals) (sc : Scope) (var : VarKey) (src : Opd) (d : Nat) (ty : ITy)
    (hs : code[pc]? = some (.store sc var src)) (hl : code[pc + 1]? = some (.load d ty sc var))
    (hty : ty.isAggregate = false) (pc1 : Nat) (fr1 : Frame) (g1 : Globals)
    (h1 : stepI cf code pc fr g = .next pc1 fr1 g1) :
    ∃ v, evalOpd fr src = .ok v ∧ pc1 = pc + 1 ∧ fr1.regs = fr.regs ∧
      stepI cf code (pc + 1) fr1 g1 = .next (pc + 2) (setReg fr1 d v) g1 :=
  store_load_forward cf code pc fr g sc var src d ty hs hl hty pc1 fr1 g1 h1

#print axioms C02_forward_sound

/-! ## Non-vacuity: `int x = a; if (x) …` and a folded cast -/
namespace C02Ex
def i32 : ITy := .sc .int
def code : List Instr := [
  .label 0,
  .newVar 1 i32 "x",
  .load 2 i32 .arg (.index 0),
  .cast 3 (.sc .float) (.cInt 2),
  .store .local (.name "x") (.ref 2),
  .load 5 i32 .local (.name "x"),
  .brc (.ref 5) 6 7,
  .label 6, .ret (some (.ref 3)),
  .label 7, .ret (some (.ref 5))]

/-- the cast is folded, the load forwarded, the branch and the return rewired -/
example : optCode code = [
  .label 0,
  .newVar 1 i32 "x",
  .load 2 i32 .arg (.index 0),
  .store .local (.name "x") (.ref 2),
  .brc (.ref 2) 6 7,
  .label 6, .ret (some (.cFlt (Float.ofInt 2))),
  .label 7, .ret (some (.ref 2))] := by rfl

example : forwardOK none (pass ccDecide code) = true := by rfl
end C02Ex

end Nsl
