import Nsl.Model.Overload
import Nsl.Proofs.Overload

/-!
# C10 — overload resolution

"A call resolves to a declared function of that name only if the argument count matches and
every argument is convertible to the corresponding parameter; among those candidates the one
needing the fewest conversions is chosen and is the function that runs.  If no candidate is
viable, the name is unknown, or the best score is shared, the program is rejected; the outcome
does not depend on the order in which the overloads are declared."

`findInScope` / `findFunction` mirror the (repaired) Python `Scope.FindFunction`;
`Spec.best` / `Spec.resolve` are written from the text above.
-/

namespace Nsl.Overload
open Nsl.Types

/-! ## 1. The mirror computes the specification (scopes of any length) -/

/-- `none` (defer to the parent) exactly when no function of that name is registered. -/
theorem findInScope_eq_none_iff (sc : Scope) (name : String) (args : List Ty) :
    findInScope sc name args = none ↔ ∀ s ∈ sc, s.name ≠ name := by
  rw [findInScope_eq]
  by_cases h : sc.all (fun s => s.name != name) = true
  · simp only [h, ↓reduceIte, true_iff]
    intro s hs; simpa using List.all_eq_true.mp h s hs
  · simp only [h, ↓reduceIte, reduceCtorEq, false_iff]
    intro h'; apply h
    rw [List.all_eq_true]; intro s hs; simpa using h' s hs
#print axioms findInScope_eq_none_iff

/-- Otherwise the answer is the one of the specification. -/
theorem findInScope_some_eq_spec (sc : Scope) (name : String) (args : List Ty)
    (h : ∃ s ∈ sc, s.name = name) :
    findInScope sc name args = some (Spec.best sc name args) := by
  rw [findInScope_eq]
  obtain ⟨s, hs, hn⟩ := h
  have : ¬ sc.all (fun s => s.name != name) = true := by
    intro hall; have := List.all_eq_true.mp hall s hs; simp [hn] at this
  rw [if_neg this]
#print axioms findInScope_some_eq_spec

theorem findInScope_eq_spec (sc : Scope) (name : String) (args : List Ty) :
    (findInScope sc name args).getD (.error .unknown) = Spec.best sc name args := by
  rw [findInScope_eq]
  by_cases h : sc.all (fun s => s.name != name) = true
  · simp [h, Spec.best]
  · simp [h]
#print axioms findInScope_eq_spec

/-- The whole scope walk computes the specification. -/
theorem findFunction_eq_spec (chain : List Scope) (name : String) (args : List Ty) :
    findFunction chain name args = Spec.resolve chain name args :=
  findFunction_eq_resolve chain name args
#print axioms findFunction_eq_spec

/-! ## 2. Declaration order does not matter -/

theorem best_perm (sc₁ sc₂ : Scope) (h : sc₁.Perm sc₂) (name : String) (args : List Ty) :
    Spec.best sc₁ name args = Spec.best sc₂ name args := by
  rw [Spec.best_eq, Spec.best_eq, h.all_eq, Spec.bestOf_perm (h.filter _) args]
#print axioms best_perm

theorem findInScope_perm (sc₁ sc₂ : Scope) (h : sc₁.Perm sc₂) (name : String) (args : List Ty) :
    findInScope sc₁ name args = findInScope sc₂ name args := by
  rw [findInScope_eq, findInScope_eq, h.all_eq, best_perm sc₁ sc₂ h]
#print axioms findInScope_perm

/-- Reordering the declarations inside every scope of the chain does not change the outcome. -/
theorem findFunction_perm (chain₁ chain₂ : List Scope) (hlen : chain₁.length = chain₂.length)
    (h : ∀ (k : Nat) (h₁ : k < chain₁.length) (h₂ : k < chain₂.length),
      (chain₁[k]'h₁).Perm (chain₂[k]'h₂))
    (name : String) (args : List Ty) :
    findFunction chain₁ name args = findFunction chain₂ name args := by
  induction chain₁ generalizing chain₂ with
  | nil =>
    cases chain₂ with
    | nil => rfl
    | cons _ _ => simp at hlen
  | cons sc₁ rest₁ ih =>
    cases chain₂ with
    | nil => simp at hlen
    | cons sc₂ rest₂ =>
      have h0 : sc₁.Perm sc₂ := h 0 (by simp) (by simp)
      have hr := ih rest₂ (by simpa using hlen) (fun k h₁ h₂ => by
        have := h (k + 1) (by simpa using h₁) (by simpa using h₂)
        simpa only [List.getElem_cons_succ] using this)
      simp only [findFunction, findInScope_perm _ _ h0, hr]
#print axioms findFunction_perm

/-! ## 3. The chosen function is viable and strictly cheapest -/

theorem chosen_viable (chain : List Scope) (name : String) (args : List Ty) (s : Sig)
    (h : findFunction chain name args = .ok s) :
    Spec.viable s name args = true ∧ ∃ sc ∈ chain, s ∈ sc := by
  obtain ⟨pre, sc, post, hch, _, hb⟩ := findFunction_ok_scope h
  have := Spec.best_ok hb
  exact ⟨this.2.1, sc, by simp [hch], this.1⟩
#print axioms chosen_viable

/-- The answering scope is the innermost one that declares the name; the chosen function is
declared exactly once in it, and every other viable candidate of that scope needs strictly more
conversions. -/
theorem chosen_minimal (chain : List Scope) (name : String) (args : List Ty) (s : Sig)
    (h : findFunction chain name args = .ok s) :
    ∃ pre sc post, chain = pre ++ sc :: post ∧
      (∀ sc' ∈ pre, ∀ t ∈ sc', t.name ≠ name) ∧
      s ∈ sc ∧ sc.count s = 1 ∧
      ∀ t ∈ sc, Spec.viable t name args = true → t ≠ s → Spec.cost s args < Spec.cost t args := by
  obtain ⟨pre, sc, post, hch, hpre, hb⟩ := findFunction_ok_scope h
  have := Spec.best_ok hb
  exact ⟨pre, sc, post, hch, hpre, this.1, this.2.2.1, this.2.2.2⟩
#print axioms chosen_minimal

/-! ## 4. A candidate with one incompatible argument is never chosen -/

theorem nonviable_never_chosen (chain : List Scope) (name : String) (args : List Ty) (s : Sig)
    (i : Nat) (a p : Ty) (ha : args[i]? = some a) (hp : s.params[i]? = some p)
    (hc : isCompatible a p = false) :
    findFunction chain name args ≠ .ok s := by
  intro h
  have hv := (chosen_viable chain name args s h).1
  have := viable_convertible hv ha hp
  rw [hc] at this; cases this
#print axioms nonviable_never_chosen

/-- A function of the wrong arity is never chosen either. -/
theorem wrong_arity_never_chosen (chain : List Scope) (name : String) (args : List Ty) (s : Sig)
    (hl : s.params.length ≠ args.length) :
    findFunction chain name args ≠ .ok s := by
  intro h
  have hv := (chosen_viable chain name args s h).1
  simp [Spec.viable, hl] at hv
#print axioms wrong_arity_never_chosen

/-- The UNREPAIRED `Function.Match`: the plain sum of the per-argument scores. -/
def matchSigSum (s : Sig) (args : List Ty) : Int :=
  if args.length ≠ s.params.length then -1
  else (List.zipWith matchTy args s.params).sum

/-- Regression: with the summing rule, `g(float2, float)` (declaration 1) is chosen for the call
`g(float, int)` although `float` is not convertible to `float2`: `-1 + 1 = 0` looks exact and
beats the correct `g(float, float)` (declaration 2, score `0 + 1 = 1`). -/
example :
    findInScopeWith matchSigSum
      [⟨"g", 1, [.vec .float 2, .scalar .float]⟩, ⟨"g", 2, [.scalar .float, .scalar .float]⟩]
      "g" [.scalar .float, .scalar .int]
    = some (.ok ⟨"g", 1, [.vec .float 2, .scalar .float]⟩) := by decide

/-- The repaired rule picks declaration 2 on the same input, in both declaration orders. -/
example :
    findInScope
      [⟨"g", 1, [.vec .float 2, .scalar .float]⟩, ⟨"g", 2, [.scalar .float, .scalar .float]⟩]
      "g" [.scalar .float, .scalar .int]
    = some (.ok ⟨"g", 2, [.scalar .float, .scalar .float]⟩) := by decide
example :
    findInScope
      [⟨"g", 2, [.scalar .float, .scalar .float]⟩, ⟨"g", 1, [.vec .float 2, .scalar .float]⟩]
      "g" [.scalar .float, .scalar .int]
    = some (.ok ⟨"g", 2, [.scalar .float, .scalar .float]⟩) := by decide

/-- The hypotheses of `nonviable_never_chosen` are satisfiable (argument 0 of that call against
parameter 0 of declaration 1). -/
example :
    ([Ty.scalar .float, .scalar .int])[0]? = some (.scalar .float) ∧
    (Sig.mk "g" 1 [.vec .float 2, .scalar .float]).params[0]? = some (.vec .float 2) ∧
    isCompatible (.scalar .float) (.vec .float 2) = false := by decide

/-! ## 5. A scope without the name defers to its parent -/

theorem scope_defers (sc : Scope) (rest : List Scope) (name : String) (args : List Ty)
    (h : ∀ t ∈ sc, t.name ≠ name) :
    findFunction (sc :: rest) name args = findFunction rest name args := by
  have := (findInScope_eq_none_iff sc name args).mpr h
  simp only [findFunction, this]
#print axioms scope_defers

/-- Conversely a scope that declares the name answers, even with an error (shadowing). -/
theorem scope_answers (sc : Scope) (rest : List Scope) (name : String) (args : List Ty)
    (h : ∃ t ∈ sc, t.name = name) :
    findFunction (sc :: rest) name args = Spec.best sc name args := by
  simp only [findFunction, findInScope_some_eq_spec sc name args h]
#print axioms scope_answers

/-! ## 5b. Completeness of the choice (converse of `chosen_minimal`) -/

/-- Completeness of the choice: in the innermost scope declaring the name, a viable declaration
that is declared once and needs strictly fewer conversions than every other viable declaration
of that scope is the one returned. -/
theorem unique_min_chosen (pre : List Scope) (sc : Scope) (post : List Scope) (name : String)
    (args : List Ty) (s : Sig)
    (hpre : ∀ sc' ∈ pre, ∀ t ∈ sc', t.name ≠ name)
    (hs : s ∈ sc) (hv : Spec.viable s name args = true) (hcount : sc.count s = 1)
    (hmin : ∀ t ∈ sc, Spec.viable t name args = true → t ≠ s →
      Spec.cost s args < Spec.cost t args) :
    findFunction (pre ++ sc :: post) name args = .ok s := by
  induction pre with
  | nil =>
    have hname : s.name = name := ((viable_iff _ _ _).mp hv).1
    rw [List.nil_append, scope_answers sc post name args ⟨s, hs, hname⟩]
    exact Spec.best_of_unique_min hs hv hcount hmin
  | cons sc' pre ih =>
    rw [List.cons_append, scope_defers sc' _ name args (hpre sc' (by simp))]
    exact ih (fun sc'' h => hpre sc'' (List.mem_cons_of_mem _ h))
#print axioms unique_min_chosen

/-! ## 6. Non-vacuity -/

section Examples

private def f : Ty := .scalar .float
private def i : Ty := .scalar .int
private def u : Ty := .scalar .uint
private def f2 : Ty := .vec .float 2
private def i1 : Ty := .vec .int 1
private def m34 : Ty := .mat .float 3 4

private def sc0 : Scope :=
  [⟨"h", 1, [f, f]⟩, ⟨"g", 2, [f2, f]⟩, ⟨"h", 3, [i, i]⟩, ⟨"h", 4, [i, f]⟩, ⟨"k", 5, [m34]⟩,
   ⟨"h", 6, [f]⟩]

-- every outcome class occurs
example : findFunction [sc0] "h" [i, f] = .ok ⟨"h", 4, [i, f]⟩ := by decide          -- exact
example : findFunction [sc0] "h" [u, i] = .ok ⟨"h", 3, [i, i]⟩ := by decide          -- 1 conversion beats 2
example : findFunction [sc0] "h" [u, u] = .error .ambiguous := by decide             -- three at cost 2
example : findFunction [sc0] "h" [f2, f] = .error .noMatch := by decide              -- float2 ↛ scalar
example : findFunction [sc0] "h" [f, f, f] = .error .noMatch := by decide            -- arity
example : findFunction [sc0] "q" [f] = .error .unknown := by decide
example : findFunction [sc0] "h" [i1] = .ok ⟨"h", 6, [f]⟩ := by decide               -- int1 → float
example : findFunction [sc0] "k" [.mat .int 3 4] = .ok ⟨"k", 5, [m34]⟩ := by decide
example : findFunction [sc0] "k" [.mat .int 4 3] = .error .noMatch := by decide
-- identical parameter lists: ambiguous, whatever the return type
example : findFunction [[⟨"h", 1, [f]⟩, ⟨"h", 2, [f]⟩]] "h" [f] = .error .ambiguous := by decide

-- mirror and specification agree on these inputs without appeal to the theorem
example : Spec.best sc0 "h" [u, i] = .ok ⟨"h", 3, [i, i]⟩ := by decide
example : Spec.best sc0 "h" [u, u] = .error .ambiguous := by decide
example : Spec.cost ⟨"h", 3, [i, i]⟩ [u, i] = 1 ∧ Spec.cost ⟨"h", 4, [i, f]⟩ [u, i] = 2 ∧
    Spec.cost ⟨"h", 1, [f, f]⟩ [u, i] = 2 := by decide

-- a genuinely different declaration order (hypothesis of `best_perm` / `findInScope_perm`)
example : sc0.Perm sc0.reverse := List.reverse_perm sc0 |>.symm
example : sc0 ≠ sc0.reverse := by decide
example : findFunction [sc0.reverse] "h" [u, i] = .ok ⟨"h", 3, [i, i]⟩ := by decide

-- hypotheses of `chosen_viable` / `chosen_minimal` (an `.ok` answer from an outer scope, with
-- competing viable candidates of larger cost), of `scope_defers` and of `scope_answers`
example : findFunction [[⟨"g", 9, [f]⟩], sc0] "h" [u, i] = .ok ⟨"h", 3, [i, i]⟩ := by decide
example : ∀ t ∈ ([⟨"g", 9, [f]⟩] : Scope), t.name ≠ "h" := by decide
example : ∃ t ∈ sc0, t.name = "h" := by decide
-- shadowing: the inner scope answers with an error although the outer one has a match
example : findFunction [[⟨"h", 9, [f2]⟩], sc0] "h" [i, f] = .error .noMatch := by decide
example : findFunction [sc0] "h" [i, f] = .ok ⟨"h", 4, [i, f]⟩ := by decide
-- hypotheses of `unique_min_chosen` for that call (`sc0` behind a scope without `h`)
example :
    (∀ sc' ∈ [([⟨"g", 9, [f]⟩] : Scope)], ∀ t ∈ sc', t.name ≠ "h") ∧
    (⟨"h", 3, [i, i]⟩ : Sig) ∈ sc0 ∧ Spec.viable ⟨"h", 3, [i, i]⟩ "h" [u, i] = true ∧
    sc0.count ⟨"h", 3, [i, i]⟩ = 1 ∧
    (∀ t ∈ sc0, Spec.viable t "h" [u, i] = true → t ≠ ⟨"h", 3, [i, i]⟩ →
      Spec.cost ⟨"h", 3, [i, i]⟩ [u, i] < Spec.cost t [u, i]) := by decide
-- hypothesis of `findFunction_perm` on a two-scope chain
example : ([[⟨"g", 9, [f]⟩], sc0] : List Scope).length = [[⟨"g", 9, [f]⟩], sc0.reverse].length := rfl
-- hypothesis of `wrong_arity_never_chosen`
example : (Sig.mk "h" 6 [f]).params.length ≠ [i, f].length := by decide

-- driver helpers (`String.splitOn` does not reduce in the kernel: checked by evaluation)
#guard parseTy? "s:float" = some f ∧ parseTy? "v:int:1" = some i1 ∧
    parseTy? "m:float:3:4" = some m34 ∧ parseTy? "v:int:0" = none ∧ parseTy? "x" = none
example : resultStr (findFunction [sc0] "h" [u, i]) = "ok 3" ∧
    resultStr (findFunction [sc0] "h" [u, u]) = "ambiguous" ∧
    resultStr (findFunction [sc0] "h" [f2, f]) = "nomatch" ∧
    resultStr (findFunction [sc0] "q" []) = "unknown" := by decide

end Examples

end Nsl.Overload
