import Nsl.Model.Wasm
import Nsl.Proofs.Wasm
import Nsl.Proofs.WasmGen

/-!
# C07 — every emitted WebAssembly binary is well-formed and valid

Model: `Nsl.Model.Wasm`.
* `encModule` mirrors `Module.WriteTo` of `nsl/WebAssembly.py` (`Py.encModule` is the same writer
  literally through `PackInteger`);
* `decModule` is a decoder written from the WebAssembly 1.0 binary format;
* `validModule` is the WebAssembly 1.0 validation algorithm for the subset;
* `genWasm` mirrors `nsl/passes/GenerateWasm.py` on the linear IR.
-/

namespace Nsl.Wasm
open Nsl.Leb

/-! ## 1. The writer through `PackInteger` is the writer through standard unsigned LEB128 -/

theorem encModulePy_eq (m : WModule) : Py.encModule m = encModule m := py_encModule_eq m
#print axioms encModulePy_eq

/-! ## 2. Binary format: the independent decoder recovers every module the writer can encode -/

/-- For every module whose `i32.const` immediates are signed 32-bit numbers and whose `f32.const`
immediates are 32-bit patterns (nothing else is required), the decoder accepts the written bytes,
consumes them exactly and returns the module. -/
theorem dec_enc (m : WModule) (h : WellFormed m) : decModule (encModule m) = some m :=
  dec_enc' m h
#print axioms dec_enc

/-- The same for the bytes exactly as the Python writes them. -/
theorem dec_encPy (m : WModule) (h : WellFormed m) : decModule (Py.encModule m) = some m := by
  rw [encModulePy_eq]; exact dec_enc m h
#print axioms dec_encPy

/-- Hence the writer is injective on encodable modules. -/
theorem encModule_injective (m m' : WModule) (h : WellFormed m) (h' : WellFormed m')
    (he : encModule m = encModule m') : m = m' := by
  have := dec_enc m h
  rw [he, dec_enc m' h'] at this
  exact (Option.some.inj this).symm
#print axioms encModule_injective

/-- Everything the writer emits is a byte (no hypothesis on `m`). -/
theorem encModule_bytes (m : WModule) : ∀ b ∈ Py.encModule m, b < 256 := by
  rw [encModulePy_eq]; exact allBytes_encModule m
#print axioms encModule_bytes

/-- Section structure of the output (no hypothesis on `m`): after the 8-byte preamble the output
is exactly a sequence of sections `id, LEB128(size), size bytes`; the ids are strictly ascending
and among 1, 3, 4, 7, 10; a scanner that only reads ids and size fields splits the output into
exactly these sections, i.e. every size field equals the number of payload bytes that follow and
the last section ends at the end of the output. -/
theorem enc_sections_ascending_exact (m : WModule) :
    encModule m = magic ++ (version ++ (sectionsOf m).flatMap fun s => sectionBytes s.1 s.2) ∧
    ((sectionsOf m).map (·.1)).Pairwise (· < ·) ∧
    (∀ s ∈ sectionsOf m, s.1 ∈ [1, 3, 4, 7, 10]) ∧
    scanSections (sectionsOf m).length ((encModule m).drop 8) = some (sectionsOf m) := by
  refine ⟨encModule_sections m, sectionsOf_ascending m, ?_, ?_⟩
  · intro s hs
    simp only [sectionsOf, List.mem_cons, List.mem_append] at hs
    rcases hs with hs | hs | hs | hs | hs
    · simp [hs]
    all_goals (have := optSectionEntry_id _ _ _ s hs; simp [this])
  · rw [encModule_sections]
    have : (magic ++ (version ++ (sectionsOf m).flatMap fun s => sectionBytes s.1 s.2)).drop 8 =
        (sectionsOf m).flatMap fun s => sectionBytes s.1 s.2 := by simp [magic, version]
    rw [this, scanSections_flatMap]
#print axioms enc_sections_ascending_exact

/-- Code bodies: the payload of the code section is a vector of size-prefixed bodies; reading only
the count and the size fields splits it into exactly the bodies, and every body ends with `end`
(`0x0B`). -/
theorem enc_code_bodies_exact (cs : List WCode) (rest : List Nat) :
    decVec unframe (encVec encCode cs ++ rest) = some (cs.map encCodeBody, rest) ∧
    ∀ c ∈ cs, (encCodeBody c).getLast? = some 0x0B := by
  refine ⟨code_payload_bodies cs rest, ?_⟩
  intro c _
  simp [encCodeBody, ← List.append_assoc]
#print axioms enc_code_bodies_exact

/-! ## 3. The generator produces encodable and valid modules -/

theorem genWasm_wellFormed (P : List Func) (m : WModule) (h : genWasm P = .ok m) :
    WellFormed m :=
  genWasmWith_wellFormed packF32_ok h
#print axioms genWasm_wellFormed

/-- Every generated module survives the round trip through the binary format. -/
theorem genWasm_roundtrip (P : List Func) (m : WModule) (h : genWasm P = .ok m) :
    decModule (Py.encModule m) = some m :=
  dec_encPy m (genWasm_wellFormed P m h)
#print axioms genWasm_roundtrip

/-- Validity: if the IR is typed (operands have the types the instructions expect, functions with
a result contain a `return`, function names are distinct) then whatever the generator emits passes
WebAssembly validation. -/
theorem genWasm_valid (P : List Func) (m : WModule) (h : genWasm P = .ok m) (ht : IRTyped P) :
    validModule m = true :=
  genWasmWith_valid h ht
#print axioms genWasm_valid

/-- The same two statements for an arbitrary float packer (used by the examples below, because
`Float` arithmetic is opaque to the kernel). -/
theorem genWasmWith_sound (fb : Float → Option Nat) (hfb : ∀ f b, fb f = some b → b < 2 ^ 32)
    (P : List Func) (m : WModule) (h : genWasmWith fb P = .ok m) :
    decModule (Py.encModule m) = some m ∧ (IRTyped P → validModule m = true) :=
  ⟨dec_encPy m (genWasmWith_wellFormed hfb h), genWasmWith_valid h⟩
#print axioms genWasmWith_sound

/-! ## 4. Non-vacuity -/

/-- `int f(int a, int b) { int t = a * b + 7 - a; b = t < 100; return t; }` after lowering. -/
def exInt : Func := ⟨"f", [("a", .sc .int), ("b", .sc .int)], .sc .int,
  [.label 0,
   .load 1 (.sc .int) .arg (.index 0), .load 2 (.sc .int) .arg (.index 1),
   .bin 3 (.s .mul) (.sc .int) (.ref 1) (.ref 2),
   .bin 4 (.s .add) (.sc .int) (.ref 3) (.cInt 7),
   .load 5 (.sc .int) .arg (.index 0),
   .bin 6 (.s .sub) (.sc .int) (.ref 4) (.ref 5),
   .bin 7 (.s .lt) (.sc .int) (.ref 6) (.cInt 100),
   .store .arg (.index 1) (.ref 7),
   .ret (some (.ref 6))]⟩

/-- `float g(float x) { float y = x * 1.5; int c = y > 1.5; return y; }` after lowering. -/
def exFlt : Func := ⟨"g", [("x", .sc .float)], .sc .float,
  [.label 0,
   .load 1 (.sc .float) .arg (.index 0),
   .bin 2 (.s .mul) (.sc .float) (.ref 1) (.cFlt 1.5),
   .bin 3 (.s .gt) (.sc .int) (.ref 2) (.cFlt 1.5),
   .ret (some (.ref 2))]⟩

/-- Stand-in for `packF32` in kernel computations: the pattern of `1.5f`. -/
def fbStub : Float → Option Nat := fun _ => some 0x3FC00000

-- the real packer agrees on the constant used (evaluated, not proved: `Float` is opaque)
#guard packF32 1.5 == some 0x3FC00000

def exModule : WModule where
  types := [⟨[.i32, .i32], [.i32]⟩, ⟨[.f32], [.f32]⟩]
  funcs := [0, 1]
  tables := [0]
  exports := [⟨"f", 0⟩, ⟨"g", 1⟩]
  codes :=
    [⟨[(8, .i32)],
      [.localGet 0, .localSet 2, .localGet 1, .localSet 3,
       .localGet 2, .localGet 3, .num .i32Mul, .localSet 4,
       .localGet 4, .i32Const 7, .num .i32Add, .localSet 5,
       .localGet 0, .localSet 6,
       .localGet 5, .localGet 6, .num .i32Sub, .localSet 7,
       .localGet 7, .i32Const 100, .num .i32LtS, .localSet 8,
       .localGet 8, .localSet 1,
       .localGet 7, .ret]⟩,
     ⟨[(2, .f32), (1, .i32)],
      [.localGet 0, .localSet 1,
       .localGet 1, .f32Const 0x3FC00000, .num .f32Mul, .localSet 2,
       .localGet 2, .f32Const 0x3FC00000, .num .f32Gt, .localSet 3,
       .localGet 2, .ret]⟩]

deriving instance DecidableEq for Except

/-- The two-function program generates exactly `exModule`. -/
example : genWasmWith fbStub [exInt, exFlt] = .ok exModule := by decide +kernel

/-- With the real packer `packF32`, given only its value on the constant `1.5`. -/
example (h : packF32 1.5 = some 0x3FC00000) : genWasm [exInt, exFlt] = .ok exModule := by
  simp [genWasm, genWasmWith, genFuncs, genFunc, exInt, exFlt, exModule, convertFuncType, convertVTs,
    convertVT, collectEntries, instrEntry, nonVoid, ITy.isVoid, addEntry, hasRef, transCode, transInstr,
    lookupRef, pushOpd, selectOp, isSelCmp, opdITy, otOfITy, numOpFor, groupLocals, addLocalRev, retOK, retInstrOK, retVT, isReturn,
    mkExports, h, List.range, List.range.loop]

/-- The hypotheses of `genWasm_valid` hold for it, and the module validates (by computation). -/
example : IRTyped [exInt, exFlt] := by decide +kernel
example : validModule exModule = true := by decide +kernel
example : WellFormed exModule := by decide +kernel

/-- The written bytes, and the round trip through the independent decoder (by computation). -/
example : hex (Py.encModule exModule) =
    "0061736d01000000010c0260027f7f017f60017d017d030302000104040170000007090201660000016700010a58023401087f2000210220012103200220036c2104200441076a210520002106200520066b2107200741e4004821082008210120070f0b2102027d017f200021012001430000c03f9421022002430000c03f5e210320020f0b" := by
  decide +kernel
example : decModule (Py.encModule exModule) = some exModule := by decide +kernel

/-- Negative examples: the validator and the decoder reject what they should. -/
-- a body that leaves the result missing
example : validModule { exModule with codes := [⟨[], []⟩, ⟨[], []⟩] } = false := by decide +kernel
-- an f32 operand for an i32 instruction
example : checkCode ⟨[.f32, .i32], [.i32]⟩ ⟨[], [.localGet 0, .localGet 1, .num .i32Add]⟩ = false := by
  decide +kernel
-- values left on the stack at `end`
example : checkCode ⟨[.i32], []⟩ ⟨[], [.localGet 0]⟩ = false := by decide +kernel
-- local index out of range
example : checkCode ⟨[.i32], []⟩ ⟨[(1, .i32)], [.localGet 2, .localSet 0]⟩ = false := by decide +kernel
-- after `return` the stack is polymorphic
example : checkCode ⟨[.i32], [.i32]⟩ ⟨[], [.localGet 0, .ret, .num .i32Add]⟩ = true := by decide +kernel
-- a wrong section size, sections out of order, a trailing byte, an unknown opcode
example : decModule ([0, 0x61, 0x73, 0x6D, 1, 0, 0, 0] ++ [1, 2, 0]) = none := by decide +kernel
example : decModule ([0, 0x61, 0x73, 0x6D, 1, 0, 0, 0] ++ [3, 1, 0] ++ [1, 1, 0]) = none := by
  decide +kernel
example : decModule ([0, 0x61, 0x73, 0x6D, 1, 0, 0, 0] ++ [1, 1, 0] ++ [0]) = none := by
  decide +kernel
example : decModule ([0, 0x61, 0x73, 0x6D, 1, 0, 0, 0] ++ [1, 1, 0]) = some ⟨[], [], [], [], []⟩ := by
  decide +kernel
example : decCodeBody [0, 0x1A, 0x0B] = none := by decide +kernel
example : decCodeBody [0, 0x0B, 0x0B] = none := by decide +kernel
-- `IRTyped` cannot be dropped from `genWasm_valid`: the generator does not type-check, an
-- ill-typed IR function (int addition of two float values) is translated into an invalid module
example : ∃ m, genWasm [⟨"bad", [("x", .sc .float)], .sc .int,
      [.load 1 (.sc .float) .arg (.index 0), .bin 2 (.s .add) (.sc .int) (.ref 1) (.ref 1),
       .ret (some (.ref 2))]⟩] = .ok m ∧ validModule m = false :=
  ⟨_, rfl, by decide +kernel⟩
-- the generator refuses what it cannot translate
example : (match genWasm [⟨"h", [], .void, [.br 0]⟩] with | .ok _ => false | .error _ => true) = true := by
  decide +kernel

end Nsl.Wasm
