import Nsl.Props.C10
import Nsl.Props.C16
import Nsl.Props.C17
import Nsl.Proofs.LowerShape
/-!
# C18 – compilation is deterministic and independent of earlier compilations   (partial by nature)

Hash seeds, on-disk parser tables, default-argument objects and module-level state are runtime behaviour of CPython that
no executable model exhibits; they are covered by the correspondence runs of `harness/p_c18.py` only.  What the model
contributes are the facts that make those runs meaningful for ALL orders, not only the sampled ones:

* `C18_overload_registration_order` – the outcome of overload resolution does not depend on the order in which the
  signatures of a scope were registered (imports are a Python `set`: their registration order depends on the hash
  seed) — from the permutation theorem of C10;
* `C18_link_order` – the linked program resolves every name to the same function whatever the order in which modules
  are added and pending imports are worked off (C16);
* `C18_output_is_function_of_typed_program` – the model compiler is a function of the typed program: numbering of
  value references and blocks comes from one counter threaded through the lowering, no other state
  (`Lower.lowerFn` / `lowerModule` take nothing but the function / module), and the numbering of a fragment starts at
  the counter it is given (`C18_counter_monotone`), so a function's listing cannot depend on what was compiled before.
-/
namespace Nsl

theorem C18_overload_registration_order (sc₁ sc₂ : Overload.Scope) (h : sc₁.Perm sc₂) (rest : List Overload.Scope)
    (name : String) (args : List Types.Ty) :
    Overload.findFunction (sc₁ :: rest) name args = Overload.findFunction (sc₂ :: rest) name args := by
  simp only [Overload.findFunction, Overload.findInScope_perm _ _ h]

#print axioms C18_overload_registration_order

theorem C18_link_order (loader : Link.Loader) (f1 f2 : Nat) (added1 added2 : List Link.LModule)
    (s1 s2 : Link.LState) (hsame : ∀ m, m ∈ added1 ↔ m ∈ added2)
    (h1 : Link.link loader f1 added1 = .ok s1) (h2 : Link.link loader f2 added2 = .ok s2) :
    ∀ name, s1.findFn name = s2.findFn name :=
  C16_order_independent loader f1 f2 added1 added2 s1 s2 hsame h1 h2

#print axioms C18_link_order

/-- Two compilations of the same typed module give the same program; the lowering of a function does not look at
the other functions of the module nor at anything compiled before. -/
theorem C18_output_is_function_of_typed_program (M : Core.Module) (extra : List Core.FnDef) :
    (Lower.lowerModule M).funcs = M.fns.map Lower.lowerFn ∧
    (Lower.lowerModule ⟨M.globals, M.fns ++ extra⟩).funcs =
      (Lower.lowerModule M).funcs ++ extra.map Lower.lowerFn := by
  constructor
  · rfl
  · simp [Lower.lowerModule]

#print axioms C18_output_is_function_of_typed_program

/-- The numbering of a scalar-core fragment starts at the counter it is given and only grows. -/
theorem C18_counter_monotone (s : Core.Stmt) (inLoop : Bool) (h : Core.okS inLoop s = true) (brk cont : Option Nat)
    (k : Nat) (c : List Instr) (k' : Nat) (hl : Lower.lowerS brk cont s k = (c, k')) :
    k ≤ k' ∧ ∀ l ∈ Lower.labels c, k ≤ l ∧ l < k' := by
  obtain ⟨h1, h2, _⟩ := Lower.lowerS_shape s inLoop h brk cont k c k' hl
  exact ⟨h1, h2⟩

#print axioms C18_counter_monotone

end Nsl
