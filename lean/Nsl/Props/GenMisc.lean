import Nsl.Gen.OpMaps
import Nsl.Gen.Flags
import Nsl.Model.Lower
import Nsl.Model.Types
/-!
# Table obligations staged for C01/C02/C05 (opcode selection, pass pipeline); not part of any registered check yet

Regenerated tables (`harness/extract.py`) are checked by `decide`; a change to the table in the Python
breaks the build of this file, and the check then searches for a failing input (DESIGN.md §2.3).
-/
namespace Nsl.GenObl
open Nsl.Gen

def bopOfStr : String → Option Core.BOp
  | "+" => some .add | "-" => some .sub | "*" => some .mul | "/" => some .div | "%" => some .mod
  | "<" => some .lt | "<=" => some .le | ">" => some .gt | ">=" => some .ge | "==" => some .eq
  | "!=" => some .ne | "&&" => some .land | "||" => some .lor | _ => none

def sopName : SOp → String
  | .add => "add" | .sub => "sub" | .mul => "mul" | .div => "div" | .mod => "mod"
  | .lgAnd => "lg_and" | .lgOr => "lg_or" | .gt => "cmp_gt" | .lt => "cmp_lt" | .le => "cmp_le"
  | .ge => "cmp_ge" | .ne => "cmp_ne" | .eq => "cmp_eq"

def binOpName : BinOp → String
  | .s o => sopName o
  | .v o => "vector_" ++ sopName o
  | .vMulS => "vector_mul_scalar" | .vDivS => "vector_div_scalar"
  | .mMulM => "matrix_mul_matrix" | .mMulV => "matrix_mul_vector" | .invalid => "invalid"

def shapeTypes : String → Option (ITy × ITy × ITy)
  | "s" => some (.sc .int, .sc .int, .sc .int)
  | "v" => some (.vec .int 3, .vec .int 3, .vec .int 3)
  | "vs" => some (.vec .int 3, .vec .int 3, .sc .int)
  | "sv" => some (.vec .int 3, .sc .int, .vec .int 3)
  | _ => none

/-- The model's `Lower.fromOperation` selects the opcode (and operand order) that the Python
`BinaryInstruction.FromOperation` selects, on every operator and shape class. -/
def fromOperationRow (r : String × String × String × Bool) : Bool :=
  match bopOfStr r.1, shapeTypes r.2.1 with
  | some op, some (rt, t1, t2) =>
    binOpName (Lower.fromOperation op rt t1 t2).1 == r.2.2.1 &&
      (Lower.fromOperation op rt t1 t2).2 == r.2.2.2
  | _, _ => false

theorem c01_fromOperation_table : ∀ r ∈ OpMaps.fromOperation, fromOperationRow r = true := by
  decide

theorem c01_fromOperation_table_complete : OpMaps.fromOperation.length = 52 := by decide

/-! ## C02/C05: pass pipeline -/

/-- Exactly the two `optimize-*` passes carry `IsOptimization`. -/
theorem c02_optimization_flags :
    Flags.irPasses =
      [("rewrite-function-arg-accessor", false), ("optimize-constant-cast", true),
       ("optimize-load-after-store", true), ("print-linear-ir", false)] := by
  decide

/-- The six validators and the type pass all run (before lowering: they are AST passes). -/
theorem c05_validators_run :
    ∀ n ∈ ["ComputeTypesPass", "validate-array-access-type", "validate-array-out-of-bounds-access",
           "validate-exported-functions", "validate-flow-statements", "validate-swizzle-mask",
           "validate-variable-names", "add-implicit-casts", "rewrite-assign-equal", "update-locations"],
      n ∈ Flags.astPasses := by
  decide

end Nsl.GenObl

#print axioms Nsl.GenObl.c01_fromOperation_table
#print axioms Nsl.GenObl.c01_fromOperation_table_complete
#print axioms Nsl.GenObl.c02_optimization_flags
#print axioms Nsl.GenObl.c05_validators_run
