import Nsl.Props.C15
/-!
# C17 – a stored IR module reloads to the same program   (partial by nature)

`pickle` is not modelled: no executable model exhibits Python's serialisation of a cyclic object graph, recursion limits
or class paths.  What is proved is the fact that turns the *checked* equality of the observations of the stored and the
reloaded module into equality of behaviour on EVERY input:

* `C17_behaviour_depends_on_lookup_only` – two programs that resolve every function name to the same function
  (code, parameters) produce the same result for every invocation with every fuel: the VM reads the program through
  `Program.find` only — object identity, sharing of constants, the order of the function table are invisible;
* `C17_histories_agree` – hence every host history (C15) over the two programs has the same outputs.
`Obs` (what the check compares between the storing and the loading process) determines `find`.
-/
namespace Nsl
open VM

theorem run_congr (P1 P2 : Program) (h : ∀ n, P1.find n = P2.find n) :
    ∀ (fuel : Nat) (fn : Func) (pc : Nat) (fr : Frame) (g : Globals),
      run P1 fuel fn pc fr g = run P2 fuel fn pc fr g := by
  intro fuel
  induction fuel with
  | zero => intro fn pc fr g; rw [run_zero, run_zero]
  | succ fuel ih =>
    intro fn pc fr g
    rw [run_succ, run_succ]
    have hc : callD P1 fuel = callD P2 fuel := by
      funext name args g'
      unfold callD
      rw [h name]
      cases P2.find name with
      | none => rfl
      | some callee => exact ih callee 0 _ g'
    rw [hc]
    cases stepI (callD P2 fuel) fn.code pc fr g with
    | next pc' fr' g' => exact ih fn pc' fr' g'
    | ret v g' as => rfl
    | fail e => rfl

theorem C17_behaviour_depends_on_lookup_only (P1 P2 : Program) (h : ∀ n, P1.find n = P2.find n)
    (fuel : Nat) (name : String) (args : List Val) (g : Globals) :
    VM.invoke P1 fuel name args g = VM.invoke P2 fuel name args g := by
  unfold VM.invoke
  rw [h name]
  cases P2.find name with
  | none => rfl
  | some fn => exact run_congr P1 P2 h fuel fn 0 _ g

#print axioms C17_behaviour_depends_on_lookup_only

/-- The observation of a module compared by the check: every function with its signature and code, every global. -/
def Obs (P : Program) : List (String × List (String × ITy) × ITy × List Instr) × List (String × ITy) :=
  (P.funcs.map (fun f => (f.name, f.params, f.ret, f.code)), P.globals)

theorem C17_obs_determines_program (P1 P2 : Program) (h : Obs P1 = Obs P2) : P1 = P2 := by
  obtain ⟨f1, g1⟩ := P1
  obtain ⟨f2, g2⟩ := P2
  simp only [Obs, Prod.mk.injEq] at h
  obtain ⟨hf, hg⟩ := h
  subst hg
  congr
  induction f1 generalizing f2 with
  | nil => cases f2 <;> simp_all
  | cons a r ih =>
    cases f2 with
    | nil => simp at hf
    | cons b s =>
      simp only [List.map_cons, List.cons.injEq, Prod.mk.injEq] at hf
      obtain ⟨⟨h1, h2, h3, h4⟩, hr⟩ := hf
      obtain ⟨n1, p1, r1, c1⟩ := a
      obtain ⟨n2, p2, r2, c2⟩ := b
      simp only at h1 h2 h3 h4
      subst h1 h2 h3 h4
      rw [ih s hr]

#print axioms C17_obs_determines_program

theorem C17_histories_agree (P1 P2 : Program) (h : ∀ n, P1.find n = P2.find n) (s : HostState) (ops : List HostOp)
    (outs : List HostOut) (s' : HostState) (hr : HostRun (InvVM P1) s ops outs s') : HostRun (InvVM P2) s ops outs s' := by
  induction hr with
  | nil s => exact .nil s
  | cons hstep _ ih =>
    refine .cons ?_ ih
    cases hstep with
    | set i n v => exact .set _ i n v
    | get i n => exact .get _ i n
    | invoke i fn args v g' as hinv =>
      obtain ⟨fuel, hf⟩ := hinv
      exact .invoke _ i fn args v g' as ⟨fuel, by rw [← C17_behaviour_depends_on_lookup_only P1 P2 h]; exact hf⟩

#print axioms C17_histories_agree

/-- Non-vacuity: the same two functions in a different table order behave identically. -/
def exFn (n : String) : Func := ⟨n, [], .void, [.ret none]⟩

example : ∀ fuel args g, VM.invoke ⟨[exFn "a", exFn "b"], []⟩ fuel "a" args g =
    VM.invoke ⟨[exFn "b", exFn "a"], []⟩ fuel "a" args g := by
  intro fuel args g
  apply C17_behaviour_depends_on_lookup_only
  intro n
  simp only [Program.find, List.find?_cons, exFn]
  cases ha : ("a" == n) <;> cases hb : ("b" == n) <;> simp_all

end Nsl
