import Nsl.Proofs.IRTypeRun
import Nsl.Props.C05
/-!
# C05 at the IR level – "well-typed IR never fails internally in the VM"

`IRType.irTypeCheck` (`Nsl/Model/IRType.lean`) is an executable type checker for whole IR programs, covering ALL 20
instruction forms of the IR (scalars, control flow, calls, globals, vectors, matrices, swizzles, constructors, casts,
arrays and structs through aliases).  Proved here, for every program the checker accepts, every function of it, every
fuel, and all arguments / globals of the declared types:

* `C05_typed_ir_no_internal`    – strict checker (`irTypeCheckStrict`, which additionally refuses float → int
  conversions): the VM never fails with an `internal` error – every failure is `divZero`, `indexOOB`,
  `unsupported _` or `timeout`;
* `C05_typed_ir_only_floor`     – plain checker (`irTypeCheck`): the only possible internal failure is
  `floor-of-nan-or-inf` (`math.floor` of a NaN / an infinity in a float → int cast – a genuine run-time failure of the
  VM that no static typing can exclude);
* `C05_typed_ir_result`         – a finished run returns a value of the declared return type and leaves every global
  with a value of its declared type (so the theorems compose over successive invocations);
* `C05_typed_ir_isInternal`     – the strict statement with the Boolean `Res.isInternal` of `Nsl/Props/C05.lean`;
* `C05_scalar_layer`, `C05_flat_layer` – the same for the syntactically restricted layers (corollaries).
The hypothesis on the inputs: `valsOK` (same number of arguments as parameters, each a tree of the parameter's type –
in particular no alias) and `GlobalsOK` (every declared global is present with a value of its type).
-/
namespace Nsl
open VM IRType

/-- every global declared by `P` is present in `g` with a value of its declared type -/
abbrev GlobalsTyped (P : Program) (g : Globals) : Prop :=
  ∀ n T, Map.get P.globals n = some T → ∃ w, Map.get g n = some w ∧ valOK T w = true

theorem C05_typed_ir_no_internal (P : Program) (hP : irTypeCheckStrict P = true)
    (fuel : Nat) (name : String) (args : List Val) (g : Globals)
    (f : Func) (hf : P.find name = some f)
    (hargs : valsOK (f.params.map (·.2)) args = true) (hg : GlobalsTyped P g) :
    ∀ e, VM.invoke P fuel name args g = .fail e → ¬ (∃ s, e = .internal s) := by
  intro e he ⟨s, hs⟩
  have h := invoke_sound (strict := true) hP fuel name args g f hf hargs hg
  rw [he] at h
  exact absurd (h s hs).1 (by decide)

#print axioms C05_typed_ir_no_internal

theorem C05_typed_ir_only_floor (P : Program) (hP : irTypeCheck P = true)
    (fuel : Nat) (name : String) (args : List Val) (g : Globals)
    (f : Func) (hf : P.find name = some f)
    (hargs : valsOK (f.params.map (·.2)) args = true) (hg : GlobalsTyped P g) :
    ∀ e s, VM.invoke P fuel name args g = .fail e → e = .internal s → s = "floor-of-nan-or-inf" := by
  intro e s he hs
  have h := invoke_sound (strict := false) hP fuel name args g f hf hargs hg
  rw [he] at h
  exact (h s hs).2

#print axioms C05_typed_ir_only_floor

theorem C05_typed_ir_result (P : Program) (hP : irTypeCheck P = true)
    (fuel : Nat) (name : String) (args : List Val) (g : Globals)
    (f : Func) (hf : P.find name = some f)
    (hargs : valsOK (f.params.map (·.2)) args = true) (hg : GlobalsTyped P g) :
    ∀ v g' as, VM.invoke P fuel name args g = .done v g' as → valOK f.ret v = true ∧ GlobalsTyped P g' := by
  intro v g' as hd
  have h := invoke_sound (strict := false) hP fuel name args g f hf hargs hg
  rw [hd] at h
  exact h

#print axioms C05_typed_ir_result

theorem C05_typed_ir_isInternal (P : Program) (hP : irTypeCheckStrict P = true)
    (fuel : Nat) (name : String) (args : List Val) (g : Globals)
    (f : Func) (hf : P.find name = some f)
    (hargs : valsOK (f.params.map (·.2)) args = true) (hg : GlobalsTyped P g) :
    Res.isInternal (VM.invoke P fuel name args g) = false := by
  cases hr : VM.invoke P fuel name args g with
  | done v g' as => rfl
  | fail e =>
    cases e with
    | internal s => exact absurd ⟨s, rfl⟩ (C05_typed_ir_no_internal P hP fuel name args g f hf hargs hg _ hr)
    | _ => rfl

#print axioms C05_typed_ir_isInternal

/-- Layer 1 (scalars, control flow, calls, globals only; every other program is refused by `irTypeCheckScalar`).
The layers are stated for the plain checker; `irTypeCheckStrict` gives the absolute statement on any program. -/
theorem C05_scalar_layer (P : Program) (hP : irTypeCheckScalar P = true)
    (fuel : Nat) (name : String) (args : List Val) (g : Globals)
    (f : Func) (hf : P.find name = some f)
    (hargs : valsOK (f.params.map (·.2)) args = true) (hg : GlobalsTyped P g) :
    ∀ e s, VM.invoke P fuel name args g = .fail e → e = .internal s → s = "floor-of-nan-or-inf" := by
  simp only [irTypeCheckScalar, Bool.and_eq_true] at hP
  exact C05_typed_ir_only_floor P hP.2 fuel name args g f hf hargs hg

#print axioms C05_scalar_layer

/-- Layer 2 (layer 1 + vectors, matrices, swizzles, constructors; no arrays / structs). -/
theorem C05_flat_layer (P : Program) (hP : irTypeCheckFlat P = true)
    (fuel : Nat) (name : String) (args : List Val) (g : Globals)
    (f : Func) (hf : P.find name = some f)
    (hargs : valsOK (f.params.map (·.2)) args = true) (hg : GlobalsTyped P g) :
    ∀ e s, VM.invoke P fuel name args g = .fail e → e = .internal s → s = "floor-of-nan-or-inf" := by
  simp only [irTypeCheckFlat, Bool.and_eq_true] at hP
  exact C05_typed_ir_only_floor P hP.2 fuel name args g f hf hargs hg

#print axioms C05_flat_layer

/-- The (so far unproved) `C05_Statement` of `Nsl/Props/C05.lean` holds when "accepted" means: the lowered program passes
the strict IR type checker (a decidable condition that the harness evaluates on the IR of every compiled program –
translation validation), and "inputs typed" means `valsOK` / `GlobalsTyped` for the lowered program. -/
theorem C05_Statement_checked :
    C05_Statement (fun M => irTypeCheckStrict (Lower.lowerModule M) = true)
      (fun M name args g => ∃ f, (Lower.lowerModule M).find name = some f ∧
        valsOK (f.params.map (·.2)) args = true ∧ GlobalsTyped (Lower.lowerModule M) g) := by
  intro M hM fuel name args g ⟨f, hf, hargs, hg⟩
  exact C05_typed_ir_isInternal _ hM fuel name args g f hf hargs hg

#print axioms C05_Statement_checked

/-- the same for the optimised program (or any other transformation of the lowered IR): the check is on the IR that runs -/
theorem C05_Statement_checked_opt :
    ∀ (M : Core.Module), irTypeCheckStrict (Opt.optProgram (Lower.lowerModule M)) = true →
      ∀ (fuel : Nat) (name : String) (args : List Val) (g : Globals) (f : Func),
        (Opt.optProgram (Lower.lowerModule M)).find name = some f → valsOK (f.params.map (·.2)) args = true →
        GlobalsTyped (Opt.optProgram (Lower.lowerModule M)) g →
        Res.isInternal (VM.invoke (Opt.optProgram (Lower.lowerModule M)) fuel name args g) = false := by
  intro M hM fuel name args g f hf hargs hg
  exact C05_typed_ir_isInternal _ hM fuel name args g f hf hargs hg

#print axioms C05_Statement_checked_opt

/-! ## Non-vacuity: a program with a loop, a call, a vector operation, a global, an array and a struct -/

namespace C05IRExample

def tVec : ITy := .vec .float 3
def tArr : ITy := .arr (.sc .int) [2]
def tSt : ITy := .struct "S" [("w", .sc .float)]

/-- `float sq(float x) { return x * x; }` -/
def sq : Func :=
  { name := "sq", params := [("x", .sc .float)], ret := .sc .float,
    code := [.label 0, .load 1 (.sc .float) .arg (.index 0), .bin 2 (.s .mul) (.sc .float) (.ref 1) (.ref 1),
             .ret (some (.ref 2))] }

/-- ```
float main(int n, float3 v) {
  float acc; int i = 0; int[2] a; S s;
  while (i < n) { acc = acc + sq((v * 2.0)[0]); a[i] = i; s.w = acc; gl = gl + a[0]; i = i + 1; }
  return acc + s.w;
}``` -/
def main : Func :=
  { name := "main", params := [("n", .sc .int), ("v", tVec)], ret := .sc .float,
    code := [
      .label 0,
      .newVar 1 (.sc .float) "acc", .newVar 2 (.sc .int) "i", .store .local (.name "i") (.cInt 0),
      .newVar 3 tArr "a", .newVar 4 tSt "s",
      .br 1,
      .label 1,
      .load 5 (.sc .int) .local (.name "i"), .load 6 (.sc .int) .arg (.index 0),
      .bin 7 (.s .lt) (.sc .int) (.ref 5) (.ref 6),
      .brc (.ref 7) 2 3,
      .label 2,
      .load 8 tVec .arg (.index 1),
      .bin 9 .vMulS tVec (.ref 8) (.cFlt 2.0),
      .vecGet 10 (.sc .float) (.ref 9) (.cInt 0),
      .call 11 (.sc .float) "sq" [.ref 10],
      .load 12 (.sc .float) .local (.name "acc"),
      .bin 13 (.s .add) (.sc .float) (.ref 12) (.ref 11),
      .store .local (.name "acc") (.ref 13),
      .load 14 (.sc .int) .local (.name "i"),
      .load 15 tArr .local (.name "a"),
      .storeArr (.ref 15) (.ref 14) (.ref 14),
      .load 16 tSt .local (.name "s"),
      .storeMem (.ref 16) "w" (.ref 13),
      .loadArr 17 (.sc .int) (.ref 15) (.cInt 0),
      .load 18 (.sc .int) .global (.name "gl"),
      .bin 19 (.s .add) (.sc .int) (.ref 18) (.ref 17),
      .store .global (.name "gl") (.ref 19),
      .bin 20 (.s .add) (.sc .int) (.ref 14) (.cInt 1),
      .store .local (.name "i") (.ref 20),
      .br 1,
      .label 3,
      .load 21 (.sc .float) .local (.name "acc"),
      .load 22 tSt .local (.name "s"),
      .loadMem 23 (.sc .float) (.ref 22) "w",
      .bin 24 (.s .add) (.sc .float) (.ref 21) (.ref 23),
      .ret (some (.ref 24))] }

def prog : Program := { funcs := [sq, main], globals := [("gl", .sc .int)] }

theorem prog_checks : irTypeCheckStrict prog = true := by decide

/-- the theorem instantiated: whatever `n`, the vector components, the initial global and the fuel are, running `main`
never ends in an internal failure (here: the only possible failures are `indexOOB` — `a[i]` for `i ≥ 2` — and
`timeout`) -/
theorem main_never_internal (fuel : Nat) (n gl : Int) (x y z : Float) :
    ∀ e, VM.invoke prog fuel "main" [.int n, .list [.flt x, .flt y, .flt z]] [("gl", .int gl)] = .fail e →
      ¬ (∃ s, e = .internal s) :=
  C05_typed_ir_no_internal prog prog_checks fuel "main" _ _ main rfl rfl
    (by
      intro nm T h
      simp only [prog, Map.get] at h
      split at h
      · rename_i hn
        simp only [Option.some.injEq] at h
        subst h; subst hn
        exact ⟨.int gl, by simp [Map.get], rfl⟩
      · cases h)

#print axioms main_never_internal

end C05IRExample

end Nsl
