import Nsl.Proofs.LowerLocalV5
import Nsl.Props.C04Sim
import Nsl.Props.C02
import Nsl.Props.LowerWF
/-!
# The lowering of the VECTOR core satisfies the optimiser's and the well-formedness side conditions

`Props/LowerOK.lean` / `Props/LowerOKStorage.lean` / `Props/LowerWF.lean` for vector and matrix programs — and more:
the two conditions that were open for the general lowering hold for EVERY module of the typed core.

* §0 general theorems.  `lower_defsDistinct_general`, `lower_blockLocal_general`: NO hypothesis (all expression forms,
  the recursive `lowerStore`, the row loops, every statement form).  `lower_forwardOK_general`, `lower_optOK_general`:
  under `ValueVars M` (no `var` node is annotated with an array/struct type — decidable) and `NoShadow M`.
  `lower_wfChecks_general`, `C14_lowered_wf_general`, `C14_lowered_optimised_wf_general`: under `FlowOK M` and
  `callsResolve M` (both decidable, both necessary — `Props/LowerWF.lean`).
* §1 the vector core: the statements of the task, `VectorCore M → ValueVars M ∧ FlowOK M`.
  `C04_opt_compile_correct_vector`: the OPTIMISING compiler model is correct on the vector core (hypotheses of
  `C04_compile_correct_vector` plus `NoShadow M`).  `C14_lowered_wf_vector`, `C14_lowered_optimised_wf_vector`.
* §2 instances: the module of `C04SimEx` (swizzle write, row loops, nested element writes, matrix product, a call with
  a vector argument, a global vector), an optimised vector function, necessity of `NoShadow` in the vector core.

Proofs: `Nsl/Proofs/LowerLocalV1.lean` … `LowerLocalV5.lean`.  Notes: `LOWERV_NOTES.md`.
-/
namespace Nsl
open Core VM Lower Opt

/-! ## 0. Every module of the typed core -/

/-- No hypothesis: every value reference of a lowered function is defined by exactly one instruction. -/
theorem lower_defsDistinct_general (M : Core.Module)
    (f : Func) (hf : f ∈ (Lower.lowerModule M).funcs) : defsDistinct f.code = true := by
  obtain ⟨fd, _, rfl⟩ := List.mem_map.1 hf
  exact lowerFn_defsDistinct_general fd

#print axioms lower_defsDistinct_general

/-- No hypothesis: value references of a lowered function are block-local. -/
theorem lower_blockLocal_general (M : Core.Module)
    (f : Func) (hf : f ∈ (Lower.lowerModule M).funcs) : blockLocal [] f.code = true := by
  obtain ⟨fd, _, rfl⟩ := List.mem_map.1 hf
  exact lowerFn_blockLocal_general fd

#print axioms lower_blockLocal_general

theorem lower_forwardOK_general (M : Core.Module) (hV : ValueVars M) (hS : NoShadow M)
    (f : Func) (hf : f ∈ (Lower.lowerModule M).funcs) : forwardOK none (pass ccDecide f.code) = true := by
  obtain ⟨fd, hfd, rfl⟩ := List.mem_map.1 hf
  exact lowerFn_forwardOK_general fd (hV fd hfd) (hS fd hfd)

#print axioms lower_forwardOK_general

theorem lower_optOK_general (M : Core.Module) (hV : ValueVars M) (hS : NoShadow M)
    (f : Func) (hf : f ∈ (Lower.lowerModule M).funcs) : optOK f = true := by
  obtain ⟨fd, hfd, rfl⟩ := List.mem_map.1 hf
  exact lowerFn_optOK_general fd (hV fd hfd) (hS fd hfd)

#print axioms lower_optOK_general

theorem lower_wfChecks_general (M : Core.Module) (hF : FlowOK M) (hC : Core.callsResolve M = true)
    (f : Func) (hf : f ∈ (Lower.lowerModule M).funcs) : wfChecks f (Lower.lowerModule M) = true := by
  simp only [wfChecks, Bool.and_eq_true]
  exact ⟨⟨⟨⟨lower_blockLocal_general M f hf, lower_defsDistinct_general M f hf⟩, lower_labelsDistinct_general M f hf⟩,
    lower_targetsOK_general M hF f hf⟩, lower_callsOK_general M hF hC f hf⟩

#print axioms lower_wfChecks_general

theorem C14_lowered_wf_general (M : Core.Module) (hF : FlowOK M) (hC : Core.callsResolve M = true)
    (f : Func) (hf : f ∈ (Lower.lowerModule M).funcs) : WF.WF f (Lower.lowerModule M) :=
  wf_of_checks f (Lower.lowerModule M) (lower_wfChecks_general M hF hC f hf)

#print axioms C14_lowered_wf_general

theorem C14_lowered_optimised_wf_general (M : Core.Module) (hF : FlowOK M) (hC : Core.callsResolve M = true) :
    ∀ f' ∈ (Opt.optProgram (Lower.lowerModule M)).funcs, WF.WF f' (Opt.optProgram (Lower.lowerModule M)) := by
  intro f' hf'
  obtain ⟨f, hf, rfl⟩ := List.mem_map.1 hf'
  exact wf_of_checks _ _ (C14_opt_preserves_checks (Lower.lowerModule M) f (lower_wfChecks_general M hF hC f hf))

#print axioms C14_lowered_optimised_wf_general

/-! ## 1. The vector core -/

/-- Vector and matrix variables are values: no `var` node of a vector-core module has an aggregate annotation. -/
theorem vectorCore_valueVars {M : Core.Module} (h : VectorCore M) : ValueVars M :=
  fun f hf => okFnV_valVarsS (h f hf)

theorem vectorCore_flowOK {M : Core.Module} (h : VectorCore M) : FlowOK M :=
  fun f hf => okFnV_flowS (h f hf)

set_option linter.unusedVariables false in
/-- The signature asked for; `hM` is not used (`lower_defsDistinct_general` needs no hypothesis). -/
theorem lower_defsDistinct_vector (M : Core.Module) (hM : VectorCore M)
    (f : Func) (hf : f ∈ (Lower.lowerModule M).funcs) : defsDistinct f.code = true :=
  lower_defsDistinct_general M f hf

#print axioms lower_defsDistinct_vector

set_option linter.unusedVariables false in
/-- The signature asked for; `hM` is not used (`lower_blockLocal_general` needs no hypothesis). -/
theorem lower_blockLocal_vector (M : Core.Module) (hM : VectorCore M)
    (f : Func) (hf : f ∈ (Lower.lowerModule M).funcs) : blockLocal [] f.code = true :=
  lower_blockLocal_general M f hf

#print axioms lower_blockLocal_vector

theorem lower_forwardOK_vector (M : Core.Module) (hM : VectorCore M) (hS : NoShadow M)
    (f : Func) (hf : f ∈ (Lower.lowerModule M).funcs) : forwardOK none (pass ccDecide f.code) = true :=
  lower_forwardOK_general M (vectorCore_valueVars hM) hS f hf

#print axioms lower_forwardOK_vector

theorem lower_optOK_vector (M : Core.Module) (hM : VectorCore M) (hS : NoShadow M)
    (f : Func) (hf : f ∈ (Lower.lowerModule M).funcs) : optOK f = true :=
  lower_optOK_general M (vectorCore_valueVars hM) hS f hf

#print axioms lower_optOK_vector

/-- The optimising compiler is correct on the vector core: hypotheses of `C04_compile_correct_vector` plus
`NoShadow M`; the conclusion is the same with `lowerModule M` replaced by `optProgram (lowerModule M)`. -/
theorem C04_opt_compile_correct_vector (M : Core.Module) (hM : VectorCore M) (hS : NoShadow M)
    (fuel : Nat) (name : String) (args : List Val) (g : Globals) (v : Val) (g' : Globals) (as : List Val)
    (hargs : HostArgsFit M name args) (hg : GlobalsFit M.globals g)
    (href : CoreSem.invoke M fuel name args g = .done v g' as) :
    ∃ fuel', VM.invoke (Opt.optProgram (Lower.lowerModule M)) fuel' name args g = .done v g' as := by
  obtain ⟨fuel', h⟩ := C04_compile_correct_vector M hM fuel name args g v g' as hargs hg href
  exact ⟨fuel', C02_opt_correct (lowerModule M) (lower_optOK_vector M hM hS) fuel' name args g v g' as h⟩

#print axioms C04_opt_compile_correct_vector

/-- `C04_Statement` for the optimised program. -/
def C04_opt_Statement (Domain : Core.Module → Prop) : Prop :=
  ∀ (M : Core.Module), Domain M →
  ∀ (fuel : Nat) (name : String) (args : List Val) (g : Globals) (v : Val) (g' : Globals) (as : List Val),
    HostArgsFit M name args → GlobalsFit M.globals g →
    CoreSem.invoke M fuel name args g = .done v g' as →
    ∃ fuel', VM.invoke (optProgram (lowerModule M)) fuel' name args g = .done v g' as

theorem C04_opt_statement_vector : C04_opt_Statement (fun M => VectorCore M ∧ NoShadow M) :=
  fun M hM fuel name args g v g' as ha hg href =>
    C04_opt_compile_correct_vector M hM.1 hM.2 fuel name args g v g' as ha hg href

#print axioms C04_opt_statement_vector

/-! ### Well-formedness at both optimisation levels (C14) -/

theorem lower_wfChecks_vector (M : Core.Module) (hM : VectorCore M) (hC : Core.callsResolve M = true)
    (f : Func) (hf : f ∈ (Lower.lowerModule M).funcs) : wfChecks f (Lower.lowerModule M) = true :=
  lower_wfChecks_general M (vectorCore_flowOK hM) hC f hf

#print axioms lower_wfChecks_vector

theorem C14_lowered_wf_vector (M : Core.Module) (hM : VectorCore M) (hC : Core.callsResolve M = true)
    (f : Func) (hf : f ∈ (Lower.lowerModule M).funcs) : WF.WF f (Lower.lowerModule M) :=
  wf_of_checks f (Lower.lowerModule M) (lower_wfChecks_vector M hM hC f hf)

#print axioms C14_lowered_wf_vector

theorem C14_lowered_optimised_wf_vector (M : Core.Module) (hM : VectorCore M) (hC : Core.callsResolve M = true) :
    ∀ f' ∈ (Opt.optProgram (Lower.lowerModule M)).funcs, WF.WF f' (Opt.optProgram (Lower.lowerModule M)) :=
  C14_lowered_optimised_wf_general M (vectorCore_flowOK hM) hC

#print axioms C14_lowered_optimised_wf_vector

/-- Both optimisation levels in one statement, "for ALL programs of the vector core". -/
theorem C14_statement_vector :
    ∀ (M : Core.Module), VectorCore M → Core.callsResolve M = true →
      (∀ f ∈ (lowerModule M).funcs, WF.WF f (lowerModule M)) ∧
      (∀ f' ∈ (optProgram (lowerModule M)).funcs, WF.WF f' (optProgram (lowerModule M))) :=
  fun M hM hC => ⟨C14_lowered_wf_vector M hM hC, C14_lowered_optimised_wf_vector M hM hC⟩

#print axioms C14_statement_vector

/-- The scalar- and storage-core `defsDistinct`/`blockLocal` theorems are instances of the general ones. -/
example (M : Core.Module) (_ : StorageCore M) : ∀ f ∈ (lowerModule M).funcs,
    defsDistinct f.code = true ∧ blockLocal [] f.code = true :=
  fun f hf => ⟨lower_defsDistinct_general M f hf, lower_blockLocal_general M f hf⟩

/-! ## 2. Instances -/
namespace LowerOKVEx
open C04SimEx

/-- The module of `C04SimEx` (swizzle write, `v + w * 2`, matrix·vector, element write in a loop, `rowsMM/MS/SM`,
`r[1][0] = 7`, `r[0].yx = …`, matrix product, a call with a constructed vector argument, the global vector `gacc`)
has no shadowing and all its calls resolve — both decided on the TYPED CORE. -/
theorem noShadow : NoShadow C04SimEx.M := by decide

theorem callsResolve_M : Core.callsResolve C04SimEx.M = true := by decide

/-- Hence, by the theorems (not by evaluation), its three lowered functions satisfy the optimiser's side conditions … -/
example : ∀ f ∈ (lowerModule C04SimEx.M).funcs,
    defsDistinct f.code = true ∧ blockLocal [] f.code = true ∧ forwardOK none (pass ccDecide f.code) = true ∧
      optOK f = true :=
  fun f hf => ⟨lower_defsDistinct_vector _ vectorCore f hf, lower_blockLocal_vector _ vectorCore f hf,
    lower_forwardOK_vector _ vectorCore noShadow f hf, lower_optOK_vector _ vectorCore noShadow f hf⟩

/-- … are well-formed, unoptimised and optimised … -/
theorem M_wf : ∀ f ∈ (lowerModule C04SimEx.M).funcs, WF.WF f (lowerModule C04SimEx.M) :=
  C14_lowered_wf_vector _ vectorCore callsResolve_M

theorem M_opt_wf : ∀ f' ∈ (optProgram (lowerModule C04SimEx.M)).funcs, WF.WF f' (optProgram (lowerModule C04SimEx.M)) :=
  C14_lowered_optimised_wf_vector _ vectorCore callsResolve_M

/-- … and the OPTIMISED lowered program computes the reference results of `f` and `g`. -/
example : ∃ fuel', VM.invoke (optProgram (lowerModule C04SimEx.M)) fuel' "f" args g0 =
    .done (li [239, 212, 85, 40]) [("gacc", li [40, 85, 212, 239])]
      [li [20, 2, 10, 4], li [10, 20, 30, 40], .list [li [1, 0, 0, 0], li [0, 2, 0, 0], li [0, 0, 3, 0], li [1, 1, 1, 1]]] :=
  C04_opt_compile_correct_vector C04SimEx.M vectorCore noShadow 40 "f" args g0 _ _ _ argsFit globalsFit ref_run

example : ∃ fuel', VM.invoke (optProgram (lowerModule C04SimEx.M)) fuel' "g" gargs g0 =
    .done (.list [li [6, 5], li [7, 264]]) [("gacc", li [700, 1000, 1500, 2200])] gargs :=
  C04_opt_compile_correct_vector C04SimEx.M vectorCore noShadow 40 "g" gargs g0 _ _ _ gargsFit globalsFit ref_run_g

#print axioms M_wf
#print axioms M_opt_wf

/-! ### A small vector function whose lowered code is optimised

`function demo(float4 v) -> float4 { float4 u = v; return u.wzyx; }` -/
def demo : FnDef := ⟨"demo", [("v", f4)], f4,
  .seq (.decl "u" f4 (some (va 0 f4))) (.ret (some (.swizzle f4 (vl "u" f4) [3, 2, 1, 0])))⟩

def Mdemo : Core.Module := ⟨[], [demo]⟩

theorem demo_code : (lowerFn demo).code =
    [.newVar 0 f4 "u", .load 1 f4 .arg (.index 0), .store .local (.name "u") (.ref 1),
     .load 3 f4 .local (.name "u"), .shuffle 4 f4 (.ref 3) (.ref 3) [3, 2, 1, 0], .ret (some (.ref 4))] := by
  simp [lowerFn, demo, lowerS, lowerE, va, vl]

theorem demo_ok : VectorCore Mdemo ∧ NoShadow Mdemo ∧ Core.callsResolve Mdemo = true := by decide

/-- by the theorem -/
example : optOK (lowerFn demo) = true :=
  lower_optOK_vector Mdemo demo_ok.1 demo_ok.2.1 _ (by simp [lowerModule, Mdemo])

/-- by evaluation of the checker on the concrete code -/
example : optOK (lowerFn demo) = true := by
  simp only [optOK, demo_code]; rfl

/-- the vector load after the store is forwarded into the shuffle (a vector is a value, not an alias) -/
example : (optFn (lowerFn demo)).code =
    [.newVar 0 f4 "u", .load 1 f4 .arg (.index 0), .store .local (.name "u") (.ref 1),
     .shuffle 4 f4 (.ref 1) (.ref 1) [3, 2, 1, 0], .ret (some (.ref 4))] := by
  simp only [optFn, demo_code]; rfl

/-! ### `NoShadow` is needed for `forwardOK` in the vector core too

`function shadow(float4 w) -> float4 { float4 x; x = w; return ::x; }` with a global `float4 x`: in the vector core
(the local `x` is declared, the global is declared), block-local and single-definition, but the store to the local is
directly followed by a load of the same key in the global scope. -/
def shadow : FnDef := ⟨"shadow", [("w", f4)], f4,
  .seq (.decl "x" f4 none)
  (.seq (.expr (.assign (vl "x" f4) (va 0 f4))) (.ret (some (.var .global (.name "x") f4))))⟩

def Mshadow : Core.Module := ⟨[("x", f4)], [shadow]⟩

theorem shadow_vectorCore : VectorCore Mshadow := by decide

theorem shadow_code : (lowerFn shadow).code =
    [.newVar 0 f4 "x", .load 1 f4 .arg (.index 0), .store .local (.name "x") (.ref 1),
     .load 3 f4 .global (.name "x"), .ret (some (.ref 3))] := by
  simp [lowerFn, shadow, lowerS, lowerE, lowerStore, va, vl]

theorem shadow_not_forwardOK :
    VectorCore Mshadow ∧ ¬ NoShadow Mshadow ∧
    ∃ f ∈ (lowerModule Mshadow).funcs, defsDistinct f.code = true ∧ blockLocal [] f.code = true ∧
      forwardOK none (pass ccDecide f.code) = false ∧ optOK f = false := by
  refine ⟨shadow_vectorCore, by decide, lowerFn shadow, by simp [lowerModule, Mshadow], ?_⟩
  refine ⟨lower_defsDistinct_vector _ shadow_vectorCore _ (by simp [lowerModule, Mshadow]),
    lower_blockLocal_vector _ shadow_vectorCore _ (by simp [lowerModule, Mshadow]), ?_, ?_⟩
  · rw [shadow_code]; rfl
  · simp only [optOK, shadow_code]; rfl

#print axioms shadow_not_forwardOK

/-! ### `ValueVars` is needed for the GENERAL `forwardOK` theorem (it is a consequence of `VectorCore`, not a hypothesis there)

`function agg() -> int { int a[3]; int b[3]; a = b; return a[0]; }` — a whole-array assignment, outside every core
predicate: no shadowing (all names are locals), yet the `store a` is directly followed by the aggregate `load a`
(an alias), which the optimiser model must not forward. -/
def arrT : ITy := .arr (.sc .int) [3]

def agg : FnDef := ⟨"agg", [], i32,
  .seq (.decl "a" arrT none)
  (.seq (.decl "b" arrT none)
  (.seq (.expr (.assign (vl "a" arrT) (vl "b" arrT)))
        (.ret (some (.index .arr i32 (vl "a" arrT) (.litI 0))))))⟩

def Magg : Core.Module := ⟨[], [agg]⟩

theorem agg_code : (lowerFn agg).code =
    [.newVar 0 arrT "a", .newVar 1 arrT "b", .load 2 arrT .local (.name "b"), .store .local (.name "a") (.ref 2),
     .load 4 arrT .local (.name "a"), .loadArr 5 i32 (.ref 4) (.cInt 0), .ret (some (.ref 5))] := by
  simp [lowerFn, agg, lowerS, lowerE, lowerStore, vl]

theorem agg_not_forwardOK :
    NoShadow Magg ∧ ¬ ValueVars Magg ∧
    ∃ f ∈ (lowerModule Magg).funcs, defsDistinct f.code = true ∧ blockLocal [] f.code = true ∧
      forwardOK none (pass ccDecide f.code) = false ∧ optOK f = false := by
  refine ⟨by decide, by decide, lowerFn agg, by simp [lowerModule, Magg], ?_⟩
  refine ⟨lower_defsDistinct_general Magg _ (by simp [lowerModule, Magg]),
    lower_blockLocal_general Magg _ (by simp [lowerModule, Magg]), ?_, ?_⟩
  · rw [agg_code]; rfl
  · simp only [optOK, agg_code]; rfl

#print axioms agg_not_forwardOK

end LowerOKVEx

end Nsl
