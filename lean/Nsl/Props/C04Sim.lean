import Nsl.Proofs.VecMain
import Nsl.Props.C01
/-!
# C04 (stage 3 of C01) – compiled vector and matrix programs compute what the source says

`VectorCore` (`Nsl/Model/VectorCore.lean`): `ScalarCore`-style programs with vector and matrix VALUES in locals,
parameters and globals — declarations, whole-value assignment, `construct`, swizzle reads and (non-repeating) swizzle
writes, element/row reads and writes with constant or dynamic index, component-wise operators, vector∘scalar,
scalar*vector, matrix product, matrix·vector, row-wise matrix operators (`rowsMM/MS/SM`), calls with vector arguments
and results.  The predicate is a *shape discipline* (every annotation agrees with the declared shape of the variable /
callee / operator).

`C04_compile_correct_vector : C04_Statement VectorCore`.  `C04_Statement` is `C01_Statement` with the host hypothesis
"never an alias at top level" replaced by "arguments and globals have the declared shapes" (`HostArgsFit`,
`GlobalsFit`).  This change is forced: `C01_Statement VectorCore` is FALSE, proved below by two modules of `VectorCore`
— a host vector with an alias *inside* (`C01_Statement_fails_nested_alias`: reference 1, VM 0) and a host vector of the
wrong length under a swizzle write (`C01_Statement_fails_wrong_length`: the store shuffle is built from the static size).
`ScalarCore` is a form discipline without shape checks, so `ScalarCore M → VectorCore M` fails for ill-annotated modules
(`scalarCore_not_vectorCore`); the union of both domains is covered by `C04_compile_correct_union`.
-/
namespace Nsl
open Core VM Lower

/-- The host passes, for the invoked function, arguments of the declared parameter shapes. -/
def HostArgsFit (M : Core.Module) (name : String) (args : List Val) : Prop :=
  ∀ f, CoreSem.findFn M name = some f → ArgsFit f.params args

/-- `C01_Statement` for typed host values. -/
def C04_Statement (Domain : Core.Module → Prop) : Prop :=
  ∀ (M : Core.Module), Domain M →
  ∀ (fuel : Nat) (name : String) (args : List Val) (g : Globals) (v : Val) (g' : Globals) (as : List Val),
    HostArgsFit M name args → GlobalsFit M.globals g →
    CoreSem.invoke M fuel name args g = .done v g' as →
    ∃ fuel', VM.invoke (lowerModule M) fuel' name args g = .done v g' as

theorem C04_compile_correct_vector : C04_Statement VectorCore := by
  intro M hM fuel name args g v g' as hargs hg href
  obtain ⟨_, _, _, _, hC⟩ := Vec.sim_allV M hM fuel
  obtain ⟨D, hD, _, _⟩ := hC name args g v g' as href hargs hg
  refine ⟨D, ?_⟩
  have : VM.invoke (lowerModule M) D name args g = callD (lowerModule M) D name args g := rfl
  rw [this]; exact hD

#print axioms C04_compile_correct_vector

/-- Type preservation across an invocation: the globals keep their declared shapes (so the next invocation may rely on
them) and the result has the shape of the declared result type. -/
theorem C04_result_shapes (M : Core.Module) (hM : VectorCore M) (fuel : Nat) (name : String) (args : List Val)
    (g : Globals) (v : Val) (g' : Globals) (as : List Val) (hargs : HostArgsFit M name args)
    (hg : GlobalsFit M.globals g) (href : CoreSem.invoke M fuel name args g = .done v g' as) :
    GlobalsFit M.globals g' ∧ ∀ f, CoreSem.findFn M name = some f → fits (shape f.ret) v = true := by
  obtain ⟨_, _, _, _, hC⟩ := Vec.sim_allV M hM fuel
  obtain ⟨D, _, hv, hg'⟩ := hC name args g v g' as href hargs hg
  exact ⟨hg', hv⟩

#print axioms C04_result_shapes

/-- Both domains at once (host values: no top-level alias AND of the declared shapes). -/
theorem C04_compile_correct_union (M : Core.Module) (hM : ScalarCore M ∨ VectorCore M)
    (fuel : Nat) (name : String) (args : List Val) (g : Globals) (v : Val) (g' : Globals) (as : List Val)
    (hv : HostVals args) (hgl : HostGlobals g) (hargs : HostArgsFit M name args) (hg : GlobalsFit M.globals g)
    (href : CoreSem.invoke M fuel name args g = .done v g' as) :
    ∃ fuel', VM.invoke (lowerModule M) fuel' name args g = .done v g' as := by
  rcases hM with hM | hM
  · exact C01_compile_correct M hM fuel name args g v g' as hv hgl href
  · exact C04_compile_correct_vector M hM fuel name args g v g' as hargs hg href

#print axioms C04_compile_correct_union

/-- The union of the two domains as a predicate (what "extends `ScalarCore`" can mean for a shape discipline). -/
def VectorCoreU (M : Core.Module) : Prop := ScalarCore M ∨ VectorCore M

instance (M : Core.Module) : Decidable (VectorCoreU M) := by unfold VectorCoreU; infer_instance

theorem scalarCore_vectorCoreU {M : Core.Module} (h : ScalarCore M) : VectorCoreU M := Or.inl h
theorem vectorCore_vectorCoreU {M : Core.Module} (h : VectorCore M) : VectorCoreU M := Or.inr h

/-- `C01_Statement` with both host hypotheses. -/
def C04_StatementH (Domain : Core.Module → Prop) : Prop :=
  ∀ (M : Core.Module), Domain M →
  ∀ (fuel : Nat) (name : String) (args : List Val) (g : Globals) (v : Val) (g' : Globals) (as : List Val),
    HostVals args → HostGlobals g → HostArgsFit M name args → GlobalsFit M.globals g →
    CoreSem.invoke M fuel name args g = .done v g' as →
    ∃ fuel', VM.invoke (lowerModule M) fuel' name args g = .done v g' as

theorem C04_compile_correct_vectorU : C04_StatementH VectorCoreU :=
  fun M hM fuel name args g v g' as hv hgl hargs hg href =>
    C04_compile_correct_union M hM fuel name args g v g' as hv hgl hargs hg href

#print axioms C04_compile_correct_vectorU

/-! ## Why the host hypothesis of `C01_Statement` cannot be kept -/
namespace C04Cx
def f4 : ITy := .vec .float 4
def f2 : ITy := .vec .float 2
def fl : ITy := .sc .float
def i32 : ITy := .sc .int

/-- `function f(float4 v) -> int { if (v[0]) return 1; return 0; }` -/
def f1 : FnDef := ⟨"f", [("v", f4)], i32,
  .seq (.ite1 (.index .vec fl (.var .arg (.index 0) f4) (.litI 0)) (.ret (some (.litI 1)))) (.ret (some (.litI 0)))⟩
def M1 : Core.Module := ⟨[("g", i32)], [f1]⟩
/-- A host vector whose first component is an alias of the global `g` (allowed by `HostVals`: not an alias itself). -/
def a1 : List Val := [.list [.ptr (.glob "g") [], .int 0, .int 0, .int 0]]
def g1 : Globals := [("g", .int 0)]

theorem M1_vectorCore : VectorCore M1 := by decide
theorem a1_host : HostVals a1 := by intro a ha; simp [a1] at ha; subst ha; rfl
theorem g1_host : HostGlobals g1 := by intro n x hx; simp [g1, Map.get] at hx; obtain ⟨_, rfl⟩ := hx; rfl
theorem ref1 : CoreSem.invoke M1 20 "f" a1 g1 = .done (.int 1) g1 a1 := by rfl
theorem vm1 : VM.invoke (lowerModule M1) 20 "f" a1 g1 = .done (.int 0) g1 a1 := by
  simp only [lowerModule, M1, f1, lowerFn, lowerS, lowerE, List.map]
  rfl

/-- `function f(float4 v) -> float4 { v.wx = float2(8, 9); return v; }` -/
def f2fn : FnDef := ⟨"f", [("v", f4)], f4,
  .seq (.expr (.assign (.swizzle f2 (.var .arg (.index 0) f4) [3, 0])
          (.construct f2 (.cons (.litI 8) (.cons (.litI 9) .nil)))))
       (.ret (some (.var .arg (.index 0) f4)))⟩
def M2 : Core.Module := ⟨[], [f2fn]⟩
/-- A host "float4" with five components. -/
def a2 : List Val := [.list [.int 1, .int 2, .int 3, .int 4, .int 5]]
def r2 : Val := .list [.int 9, .int 2, .int 3, .int 8, .int 5]
def r2vm : Val := .list [.int 8, .int 2, .int 3, .int 5]

theorem M2_vectorCore : VectorCore M2 := by decide
theorem a2_host : HostVals a2 := by intro a ha; simp [a2] at ha; subst ha; rfl
theorem ref2 : CoreSem.invoke M2 20 "f" a2 [] = .done r2 [] [r2] := by rfl
theorem vm2 : VM.invoke (lowerModule M2) 20 "f" a2 [] = .done r2vm [] [r2vm] := by
  simp only [lowerModule, M2, f2fn, lowerFn, lowerS, lowerE, lowerArgs, lowerStore, List.map]
  rfl
end C04Cx

/-- A vector supplied by the host with an alias inside: the reference semantics tests the alias (true), the VM
dereferences it (0, false).  No predicate containing this three-line module satisfies `C01_Statement`. -/
theorem C01_Statement_fails_nested_alias (D : Core.Module → Prop) (hD : D C04Cx.M1) : ¬ C01_Statement D := by
  intro hst
  obtain ⟨fuel', h'⟩ := hst C04Cx.M1 hD 20 "f" C04Cx.a1 C04Cx.g1 _ _ _ C04Cx.a1_host C04Cx.g1_host C04Cx.ref1
  have h1 := C01_fuel_irrelevant _ _ (max 20 fuel') _ _ _ _ _ _ h' (Nat.le_max_right ..)
  have h2 := C01_fuel_irrelevant _ _ (max 20 fuel') _ _ _ _ _ _ C04Cx.vm1 (Nat.le_max_left ..)
  rw [h1] at h2
  simp only [Res.done.injEq, Val.int.injEq] at h2
  omega

/-- A host vector longer than its declared type under a swizzle write: the lowering builds the store shuffle from
the static size 4, the reference semantics updates the actual list. -/
theorem C01_Statement_fails_wrong_length (D : Core.Module → Prop) (hD : D C04Cx.M2) : ¬ C01_Statement D := by
  intro hst
  obtain ⟨fuel', h'⟩ := hst C04Cx.M2 hD 20 "f" C04Cx.a2 [] _ _ _ C04Cx.a2_host
    (by intro n x hx; simp at hx) C04Cx.ref2
  have h1 := C01_fuel_irrelevant _ _ (max 20 fuel') _ _ _ _ _ _ h' (Nat.le_max_right ..)
  have h2 := C01_fuel_irrelevant _ _ (max 20 fuel') _ _ _ _ _ _ C04Cx.vm2 (Nat.le_max_left ..)
  rw [h1] at h2
  simp [C04Cx.r2, C04Cx.r2vm] at h2

theorem C01_Statement_vectorCore_false : ¬ C01_Statement VectorCore :=
  C01_Statement_fails_nested_alias VectorCore C04Cx.M1_vectorCore

#print axioms C01_Statement_vectorCore_false

#print axioms C01_Statement_fails_nested_alias
#print axioms C01_Statement_fails_wrong_length

/-! ## `ScalarCore` and `VectorCore` -/
namespace C04Sc
/-- `function f() -> int { return x; }` with `x` never declared: in `ScalarCore` (forms only), not in `VectorCore`. -/
def M : Core.Module := ⟨[], [⟨"f", [], .sc .int, .ret (some (.var .local (.name "x") (.sc .int)))⟩]⟩
end C04Sc

/-- `ScalarCore` checks forms only (a `var` may carry any scalar annotation whatever the declarations say), so it is
not included in the shape discipline … -/
theorem scalarCore_not_vectorCore : ∃ M, ScalarCore M ∧ ¬ VectorCore M :=
  ⟨C04Sc.M, by decide, by decide⟩

/-- … while consistently annotated scalar programs are in both (the non-vacuity example of `C01`). -/
theorem C01Ex_vectorCore : VectorCore C01Ex.M := by decide

#print axioms scalarCore_not_vectorCore

/-! ## Non-vacuity: swizzle write, component-wise expression, matrix·vector, element write in a loop, row-wise matrix
operators, nested component writes, matrix product, a call with a vector argument and result, a global vector -/
namespace C04SimEx
def f4 : ITy := .vec .float 4
def f2 : ITy := .vec .float 2
def m44 : ITy := .mat .float 4 4
def m22 : ITy := .mat .float 2 2
def fl : ITy := .sc .float
def i32 : ITy := .sc .int
def va (i : Nat) (t : ITy) : Expr := .var .arg (.index i) t
def vl (n : String) (t : ITy) : Expr := .var .local (.name n) t

/-- ```
export function f(float4 v, float4 w, float4x4 m) -> float4 {
  v.zx = w.xy;                                  // swizzle write through the store shuffle
  float4 u = v + w * 2;                         // component-wise +, vector * scalar
  float4 t = m * u;                             // matrix · vector
  for (int i = 0; i < 4; ++i) t[i] = t[i] + i;  // element write with a dynamic index
  gacc = t;                                     // whole-value assignment to a global vector
  return t.wzyx;                                // swizzle read
}``` -/
def f : FnDef := ⟨"f", [("v", f4), ("w", f4), ("m", m44)], f4,
  .seq (.expr (.assign (.swizzle f2 (va 0 f4) [2, 0]) (.swizzle f2 (va 1 f4) [0, 1])))
  (.seq (.decl "u" f4 (some (.bin .add f4 (va 0 f4) (.bin .mul f4 (va 1 f4) (.litI 2)))))
  (.seq (.decl "t" f4 (some (.bin .mul f4 (va 2 m44) (vl "u" f4))))
  (.seq (.forL (.decl "i" i32 (some (.litI 0))) (some (.bin .lt i32 (vl "i" i32) (.litI 4)))
          (some (.affix false true (vl "i" i32)))
          (.expr (.assign (.index .vec fl (vl "t" f4) (vl "i" i32))
             (.bin .add fl (.index .vec fl (vl "t" f4) (vl "i" i32)) (vl "i" i32)))))
  (.seq (.expr (.assign (.var .global (.name "gacc") f4) (vl "t" f4)))
        (.ret (some (.swizzle f4 (vl "t" f4) [3, 2, 1, 0])))))))⟩

/-- `function scale(float4 a, float s) -> float4 { return a * s; }` -/
def scale : FnDef := ⟨"scale", [("a", f4), ("s", fl)], f4, .ret (some (.bin .mul f4 (va 0 f4) (va 1 fl)))⟩

/-- ```
export function g(float2x2 p, float2x2 q) -> float2x2 {
  float2x2 r = p + q;  r = r * 2;  r = 3 * r;   // rowsMM, rowsMS, rowsSM
  r[1][0] = 7;                                  // element of a row: vecSet, matSet, store
  r[0].yx = float2(5, 6);                       // swizzle of a row: shuffle, matSet, store
  float2x2 pr = p * q;                          // matrix product
  float4 c = scale(float4(pr[0], pr[1]), 10);   // construct from rows, call with vector argument and result
  gacc = c;
  return r;
}``` -/
def g : FnDef := ⟨"g", [("p", m22), ("q", m22)], m22,
  .seq (.decl "r" m22 (some (.bin .add m22 (va 0 m22) (va 1 m22))))
  (.seq (.expr (.assign (vl "r" m22) (.bin .mul m22 (vl "r" m22) (.litI 2))))
  (.seq (.expr (.assign (vl "r" m22) (.bin .mul m22 (.litI 3) (vl "r" m22))))
  (.seq (.expr (.assign (.index .vec fl (.index .mat f2 (vl "r" m22) (.litI 1)) (.litI 0)) (.litI 7)))
  (.seq (.expr (.assign (.swizzle f2 (.index .mat f2 (vl "r" m22) (.litI 0)) [1, 0])
          (.construct f2 (.cons (.litI 5) (.cons (.litI 6) .nil)))))
  (.seq (.decl "pr" m22 (some (.bin .mul m22 (va 0 m22) (va 1 m22))))
  (.seq (.decl "c" f4 (some (.call "scale" f4 (.cons (.construct f4 (.cons (.index .mat f2 (vl "pr" m22) (.litI 0))
            (.cons (.index .mat f2 (vl "pr" m22) (.litI 1)) .nil))) (.cons (.litI 10) .nil)))))
  (.seq (.expr (.assign (.var .global (.name "gacc") f4) (vl "c" f4)))
        (.ret (some (vl "r" m22))))))))))⟩

def M : Core.Module := ⟨[("gacc", f4)], [f, scale, g]⟩

def li (l : List Int) : Val := .list (l.map .int)
def args : List Val :=
  [li [1, 2, 3, 4], li [10, 20, 30, 40], .list [li [1, 0, 0, 0], li [0, 2, 0, 0], li [0, 0, 3, 0], li [1, 1, 1, 1]]]
def gargs : List Val := [.list [li [1, 2], li [3, 4]], .list [li [10, 20], li [30, 40]]]
def g0 : Globals := [("gacc", li [0, 0, 0, 0])]

theorem vectorCore : VectorCore M := by decide

theorem argsFit : HostArgsFit M "f" args := by
  intro fn hfn
  have : fn = f := by
    have h : CoreSem.findFn M "f" = some f := by rfl
    rw [h] at hfn; exact (Option.some.inj hfn).symm
  subst this
  exact Vec.argsFit_of_check _ _ (by rfl)

theorem gargsFit : HostArgsFit M "g" gargs := by
  intro fn hfn
  have : fn = g := by
    have h : CoreSem.findFn M "g" = some g := by rfl
    rw [h] at hfn; exact (Option.some.inj hfn).symm
  subst this
  exact Vec.argsFit_of_check _ _ (by rfl)

theorem globalsFit : GlobalsFit M.globals g0 := Vec.globalsFit_of_check _ _ (by rfl)

/-- `v.zx = w.xy` makes `v = (20,2,10,4)`; `u = (40,42,70,84)`; `t = m·u = (40,84,210,236)`; after the loop
`(40,85,212,239)`; the function returns `t.wzyx`, leaves `t` in `gacc` and the updated `v` in argument 0. -/
theorem ref_run : CoreSem.invoke M 40 "f" args g0 =
    .done (li [239, 212, 85, 40]) [("gacc", li [40, 85, 212, 239])]
      [li [20, 2, 10, 4], li [10, 20, 30, 40], .list [li [1, 0, 0, 0], li [0, 2, 0, 0], li [0, 0, 3, 0], li [1, 1, 1, 1]]] := by
  rfl

/-- Hence (by the theorem, not by running it) the VM returns the same vector, global and arguments. -/
example : ∃ fuel', VM.invoke (lowerModule M) fuel' "f" args g0 =
    .done (li [239, 212, 85, 40]) [("gacc", li [40, 85, 212, 239])]
      [li [20, 2, 10, 4], li [10, 20, 30, 40], .list [li [1, 0, 0, 0], li [0, 2, 0, 0], li [0, 0, 3, 0], li [1, 1, 1, 1]]] :=
  C04_compile_correct_vector M vectorCore 40 "f" args g0 _ _ _ argsFit globalsFit ref_run

/-- `r = 3 * ((p + q) * 2) = ((66,132),(198,264))`, then `r[1][0] = 7`, `r[0].yx = (5,6)`; `p * q = ((70,100),(150,220))`. -/
theorem ref_run_g : CoreSem.invoke M 40 "g" gargs g0 =
    .done (.list [li [6, 5], li [7, 264]]) [("gacc", li [700, 1000, 1500, 2200])] gargs := by
  rfl

example : ∃ fuel', VM.invoke (lowerModule M) fuel' "g" gargs g0 =
    .done (.list [li [6, 5], li [7, 264]]) [("gacc", li [700, 1000, 1500, 2200])] gargs :=
  C04_compile_correct_vector M vectorCore 40 "g" gargs g0 _ _ _ gargsFit globalsFit ref_run_g

/-- The predicate rejects a repeating swizzle mask as a store target, and a vector function that may fall off its end. -/
example : ¬ VectorCore ⟨[], [⟨"h", [("v", f4)], f4,
    .seq (.expr (.assign (.swizzle f2 (va 0 f4) [1, 1]) (.swizzle f2 (va 0 f4) [0, 1]))) (.ret (some (va 0 f4)))⟩]⟩ := by
  decide
example : ¬ VectorCore ⟨[], [⟨"h", [("v", f4)], f4, .ite1 (.litI 1) (.ret (some (va 0 f4)))⟩]⟩ := by decide
end C04SimEx

end Nsl
