import Nsl.Model.VM
import Nsl.Model.Lower
import Nsl.Proofs.StepLemmas
/-!
# C04 – vectors and matrices are values: component operations, swizzles, copies

About the VM model's vector/matrix opcodes and the index arithmetic of the lowering, for vectors of ANY size and masks
of ANY length (the implementation only spells 2–4):

* `C04_swizzle_read`   – a swizzle read (`SHUFFLE` of the value with itself) yields exactly the selected components,
                         in mask order, with repetition;
* `C04_swizzle_write`  – the store shuffle built by the lowering (`storeShuffleIdx`) yields the old vector with exactly
                         the masked components replaced by the assigned components (non-repeating mask), every other
                         component and the length unchanged;
* `C04_element_write`  – `VECTOR_SET`/`MATRIX_SET` change exactly the selected element/row of a *copy*;
* `C04_set_is_copy`    – executing `VECTOR_SET` leaves the operand's register (and every other register, local, argument,
                         global) untouched: a copy of a vector or matrix is independent of its source;
* `C04_vector_compare_01`, `C04_componentwise` – element-wise binary operations are the scalar operation applied per
                         component; comparisons give 0/1 per component;
* `C04_construct_flattens` – construction from scalars and smaller vectors concatenates the components in order.
PARTIAL: the simulation theorem of C01 does not cover vector/matrix typed expressions; that the lowering evaluates a
vector expression as its component-wise source meaning is tied by the behavioural correspondence (`p_c04.py`).
-/
namespace Nsl
open VM Lower

/-- `l[i]` with a default (only used inside its bounds). -/
def nth (l : List Val) (i : Nat) : Val := l[i]?.getD default

theorem nth_lt {l : List Val} {i : Nat} (h : i < l.length) : nth l i = l[i] := by
  simp [nth, List.getElem?_eq_getElem h]

theorem pick_spec (combined : List Val) : ∀ (mask : List Nat), (∀ i ∈ mask, i < combined.length) →
    shuffleExec.pick combined mask = .ok (mask.map (nth combined)) := by
  intro mask
  induction mask with
  | nil => intro _; rfl
  | cons i rest ih =>
    intro h
    have hi : i < combined.length := h i (List.mem_cons_self ..)
    have hr := ih (fun j hj => h j (List.mem_cons_of_mem _ hj))
    simp only [shuffleExec.pick, List.getElem?_eq_getElem hi, hr, bind, Except.bind, List.map_cons, nth_lt hi]

theorem C04_swizzle_read (s : Sc) (v : List Val) (mask : List Nat) (hm : ∀ i ∈ mask, i < v.length)
    (hlen : mask.length ≠ 1) :
    shuffleExec (.vec s mask.length) (.list v) (.list v) mask = .ok (.list (mask.map (nth v))) := by
  have hp := pick_spec (v ++ v) mask (fun i hi => by have := hm i hi; simp; omega)
  simp only [shuffleExec, hp, bind, Except.bind]
  congr 2
  apply List.map_congr_left
  intro i hi
  have := hm i hi
  simp [nth, List.getElem?_append_left this]

#print axioms C04_swizzle_read

/-- a one-component swizzle of a vector is the component itself (a scalar, not a one-element list) -/
theorem C04_swizzle_read_single (s : Sc) (v : List Val) (i : Nat) (hi : i < v.length) :
    shuffleExec (.sc s) (.list v) (.list v) [i] = .ok (nth v i) := by
  have hp := pick_spec (v ++ v) [i] (fun j hj => by simp at hj; subst hj; simp; omega)
  simp only [shuffleExec, hp, bind, Except.bind, List.map_cons, List.map_nil]
  simp [nth, List.getElem?_append_left hi]

#print axioms C04_swizzle_read_single

/-! ### swizzle write -/

/-- Specification of a swizzle store: component `mask[i]` takes the `i`-th assigned component. -/
def swizzleWriteSpec (v : List Val) : List Nat → List Val → List Val
  | [], _ => v
  | _, [] => v
  | w :: ws, e :: es => swizzleWriteSpec (v.set w e) ws es

theorem swizzleWriteSpec_length (v : List Val) (mask : List Nat) (es : List Val) :
    (swizzleWriteSpec v mask es).length = v.length := by
  induction mask generalizing v es with
  | nil => simp [swizzleWriteSpec]
  | cons a r ih => cases es <;> simp [swizzleWriteSpec, ih]

/-- Picking through the store indices = the specification (non-repeating mask, in range), by induction on the mask.
`cur` is the vector the indices built so far denote. -/
theorem pick_go (v es : List Val) : ∀ (mask : List Nat) (idx : List Nat) (i : Nat) (cur : List Val),
    idx.length = v.length → cur.length = v.length → i + mask.length ≤ es.length →
    (∀ w ∈ mask, w < v.length) → mask.Nodup →
    (∀ j, j < v.length → ∃ (h : j < idx.length), idx[j] < (v ++ es).length ∧ nth (v ++ es) idx[j] = nth cur j) →
    shuffleExec.pick (v ++ es) (storeShuffleIdx.go v.length idx i mask) = .ok (swizzleWriteSpec cur mask (es.drop i)) := by
  intro mask
  induction mask with
  | nil =>
    intro idx i cur hl hc _ _ _ hrel
    simp only [storeShuffleIdx.go, swizzleWriteSpec]
    rw [pick_spec (v ++ es) idx (fun x hx => by
      obtain ⟨j, hj, rfl⟩ := List.getElem_of_mem hx
      obtain ⟨_, hb, _⟩ := hrel j (by omega)
      exact hb)]
    congr 1
    apply List.ext_getElem
    · simp [hl, hc]
    · intro j h1 h2
      have hj : j < idx.length := by simpa using h1
      obtain ⟨_, _, he⟩ := hrel j (by omega)
      simp only [List.getElem_map]
      rw [he, nth_lt (by omega)]
  | cons w ws ih =>
    intro idx i cur hl hc hlen hw hnd hrel
    have hwl : w < v.length := hw w (List.mem_cons_self ..)
    obtain ⟨hwn, hnd'⟩ := List.nodup_cons.1 hnd
    have hi : i < es.length := by simp at hlen; omega
    have hdrop : es.drop i = es[i] :: es.drop (i + 1) := List.drop_eq_getElem_cons hi
    simp only [storeShuffleIdx.go]
    rw [hdrop, swizzleWriteSpec]
    apply ih (idx.set w (v.length + i)) (i + 1) (cur.set w es[i]) (by simpa using hl) (by simpa using hc)
      (by simp at hlen ⊢; omega) (fun x hx => hw x (List.mem_cons_of_mem _ hx)) hnd'
    intro j hj
    obtain ⟨hj', hb, he⟩ := hrel j hj
    refine ⟨by simpa using hj', ?_⟩
    by_cases hjw : j = w
    · subst hjw
      simp only [List.getElem_set_self]
      refine ⟨by simp; omega, ?_⟩
      rw [nth_lt (by simp; omega), List.getElem_append_right (by omega), nth_lt (by simp; omega)]
      simp
    · rw [List.getElem_set_ne (fun h => hjw h.symm)]
      refine ⟨hb, ?_⟩
      rw [he]
      simp [nth, List.getElem?_set_ne (fun h => hjw h.symm)]

theorem C04_swizzle_write (s : Sc) (v es : List Val) (mask : List Nat) (hw : ∀ w ∈ mask, w < v.length)
    (hnd : mask.Nodup) (hlen : mask.length = es.length) :
    shuffleExec (.vec s v.length) (.list v) (.list es) (storeShuffleIdx v.length mask) =
      .ok (.list (swizzleWriteSpec v mask es)) := by
  have := pick_go v es mask (List.range v.length) 0 v (by simp) rfl (by omega) hw hnd
    (by
      intro j hj
      refine ⟨by simpa using hj, ?_, ?_⟩
      · simp; omega
      · simp [nth, List.getElem?_append_left hj])
  simp only [List.drop_zero] at this
  simp only [shuffleExec, storeShuffleIdx, this, bind, Except.bind]

#print axioms C04_swizzle_write

/-- The specification changes exactly the masked components. -/
theorem swizzleWriteSpec_other (v : List Val) (mask : List Nat) (es : List Val) (j : Nat) (hj : j ∉ mask) :
    (swizzleWriteSpec v mask es)[j]? = v[j]? := by
  induction mask generalizing v es with
  | nil => simp [swizzleWriteSpec]
  | cons a r ih =>
    cases es with
    | nil => simp [swizzleWriteSpec]
    | cons e es' =>
      simp only [swizzleWriteSpec]
      rw [ih _ _ (fun h => hj (List.mem_cons_of_mem _ h))]
      have hne : a ≠ j := fun h => hj (by rw [← h]; exact List.mem_cons_self ..)
      exact List.getElem?_set_ne hne

#print axioms swizzleWriteSpec_other

/-! ### element writes and copies -/

theorem C04_element_write (v : List Val) (i : Nat) (x : Val) (hi : i < v.length) :
    setKey (.list v) (.idx i) x = .ok (.list (v.set i x)) ∧ (v.set i x).length = v.length ∧
      (v.set i x)[i]? = some x ∧ ∀ j, j ≠ i → (v.set i x)[j]? = v[j]? := by
  refine ⟨by simp [setKey, hi], by simp, by simp [hi], fun j hj => List.getElem?_set_ne (fun h => hj h.symm)⟩

#print axioms C04_element_write

/-- `VECTOR_SET` writes its result to its own register and changes nothing else: the source keeps its value. -/
theorem C04_set_is_copy (cf : String → List Val → Globals → Res) (code : List Instr) (pc : Nat) (fr : Frame)
    (g : Globals) (dst : Nat) (ty : ITy) (v idx src : Opd) (pc' : Nat) (fr' : Frame) (g' : Globals)
    (hc : code[pc]? = some (.vecSet dst ty v idx src) ∨ code[pc]? = some (.matSet dst ty v idx src))
    (h : stepI cf code pc fr g = .next pc' fr' g') :
    g' = g ∧ fr'.locals = fr.locals ∧ fr'.args = fr.args ∧ ∀ r, r ≠ dst → Map.get fr'.regs r = Map.get fr.regs r := by
  have key : ∀ z, StepOut.next (pc + 1) (setReg fr dst z) g = StepOut.next pc' fr' g' →
      g' = g ∧ fr'.locals = fr.locals ∧ fr'.args = fr.args ∧ ∀ r, r ≠ dst → Map.get fr'.regs r = Map.get fr.regs r := by
    intro z hz
    simp only [StepOut.next.injEq] at hz
    obtain ⟨_, rfl, rfl⟩ := hz
    exact ⟨rfl, rfl, rfl, fun r hr => Map.get_set_ne _ _ _ _ (fun h => hr h.symm)⟩
  rcases hc with hc | hc <;>
  · simp only [stepI, hc, liftE] at h
    repeat' split at h
    all_goals first | exact key _ h | cases h

#print axioms C04_set_is_copy

/-! ### component-wise operations -/

theorem C04_componentwise (o : SOp) (it : Bool) : ∀ (xs ys : List Val) (zs : List Val),
    zipBin o it xs ys = .ok zs → zs.length = min xs.length ys.length ∧
      ∀ i (h1 : i < xs.length) (h2 : i < ys.length) (h3 : i < zs.length), scalarBin o it xs[i] ys[i] = .ok zs[i] := by
  intro xs
  induction xs with
  | nil => intro ys zs h; simp [zipBin] at h; subst h; simp
  | cons x xr ih =>
    intro ys zs h
    cases ys with
    | nil => simp [zipBin] at h; subst h; simp
    | cons y yr =>
      simp only [zipBin, bind, Except.bind] at h
      cases hz : scalarBin o it x y with
      | error e => simp [hz] at h
      | ok z =>
        simp only [hz] at h
        cases hr : zipBin o it xr yr with
        | error e => simp [hr] at h
        | ok zr =>
          simp only [hr, Except.ok.injEq] at h
          subst h
          obtain ⟨hl, hi⟩ := ih yr zr hr
          refine ⟨by simp [hl], ?_⟩
          intro i h1 h2 h3
          cases i with
          | zero => simpa using hz
          | succ j => simpa using hi j (by simpa using h1) (by simpa using h2) (by simpa using h3)

#print axioms C04_componentwise

theorem C04_vector_compare_01 (o : SOp) (ho : o.isCmp = true) (it : Bool) (x y z : Val)
    (h : scalarBin o it x y = .ok z) : z = .int 0 ∨ z = .int 1 := by
  have key : ∀ b : Bool, Val.ofBool b = .int 0 ∨ Val.ofBool b = .int 1 := by
    intro b; cases b <;> simp [Val.ofBool]
  cases o <;> simp [SOp.isCmp] at ho <;>
  · cases x <;> cases y <;> simp [scalarBin, Val.toFloat?] at h <;> (subst h; exact key _)

#print axioms C04_vector_compare_01

theorem C04_construct_flattens (s : Sc) (n : Nat) (vals : List Val) :
    constructExec (.vec s n) vals = .ok (.list (constructExec.flat vals)) ∧
    constructExec.flat ([] : List Val) = [] ∧
    (∀ vs rest, constructExec.flat (.list vs :: rest) = vs ++ constructExec.flat rest) ∧
    (∀ i rest, constructExec.flat (.int i :: rest) = .int i :: constructExec.flat rest) ∧
    (∀ f rest, constructExec.flat (.flt f :: rest) = .flt f :: constructExec.flat rest) := by
  refine ⟨rfl, rfl, fun _ _ => rfl, fun _ _ => rfl, fun _ _ => rfl⟩

#print axioms C04_construct_flattens

/-! ## Non-vacuity -/
example : shuffleExec (.vec .float 4) (.list [.int 1, .int 2, .int 3]) (.list [.int 1, .int 2, .int 3]) [2, 2, 0, 1]
    = .ok (.list [.int 3, .int 3, .int 1, .int 2]) := by rfl
example : storeShuffleIdx 4 [2, 0] = [5, 1, 4, 3] := by rfl
example : swizzleWriteSpec [.int 1, .int 2, .int 3, .int 4] [2, 0] [.int 9, .int 8] = [.int 8, .int 2, .int 9, .int 4] := by rfl

end Nsl
