import Nsl.Proofs.LowerLocalS3
import Nsl.Props.C01Storage
import Nsl.Props.C02
/-!
# The lowering model only produces block-local, single-definition, forwardable code (STORAGE core)

`Props/LowerOK.lean` for the larger domain `StorageCore` (scalar core + LOCAL arrays / structs / arrays of structs used
as storage).  For every module `M` of the storage core, every function of `Lower.lowerModule M` satisfies the side
conditions `optOK` under which the optimiser model is proved correct (`C02_opt_correct`):
* `lower_defsDistinct_storage`, `lower_blockLocal_storage` – need `StorageCore M` only;
* `lower_forwardOK_storage` – needs in addition the SAME decidable hypothesis as the scalar result, `NoShadow M`
  (inside one function no variable key is accessed under two different scopes).  No further hypothesis: that a store
  directly followed by a load of the same variable never forwards an aggregate alias follows from the rank discipline
  of `StorageCore` (a `store` writes a local of rank 0, an aggregate `load` reads a local of positive rank, and a name
  has one rank).  `NoShadow` is needed for the aggregate clause too: `LowerOKSEx.shadowAgg_not_forwardOK`.
Composition with C01 (stage 2) and C02: `C01_opt_compile_correct_storage` — the OPTIMISING compiler model is correct on
the storage core.

Proofs: `Nsl/Proofs/LowerLocalS1.lean` (expressions, access chains, assignment targets), `LowerLocalS2.lean`
(statements), `LowerLocalS3.lean` (`forwardOK`).  Notes: `LOWERS_NOTES.md`.
-/
namespace Nsl
open Core VM Lower Opt

theorem lower_defsDistinct_storage (M : Core.Module) (hM : StorageCore M)
    (f : Func) (hf : f ∈ (Lower.lowerModule M).funcs) : defsDistinct f.code = true := by
  obtain ⟨fd, hfd, rfl⟩ := List.mem_map.1 hf
  exact lowerFn_defsDistinctS fd (hM fd hfd)

#print axioms lower_defsDistinct_storage

theorem lower_blockLocal_storage (M : Core.Module) (hM : StorageCore M)
    (f : Func) (hf : f ∈ (Lower.lowerModule M).funcs) : blockLocal [] f.code = true := by
  obtain ⟨fd, hfd, rfl⟩ := List.mem_map.1 hf
  exact lowerFn_blockLocalS fd (hM fd hfd)

#print axioms lower_blockLocal_storage

theorem lower_forwardOK_storage (M : Core.Module) (hM : StorageCore M) (hS : NoShadow M)
    (f : Func) (hf : f ∈ (Lower.lowerModule M).funcs) : forwardOK none (pass ccDecide f.code) = true := by
  obtain ⟨fd, hfd, rfl⟩ := List.mem_map.1 hf
  exact lowerFn_forwardOKS fd (hM fd hfd) (hS fd hfd)

#print axioms lower_forwardOK_storage

theorem lower_optOK_storage (M : Core.Module) (hM : StorageCore M) (hS : NoShadow M)
    (f : Func) (hf : f ∈ (Lower.lowerModule M).funcs) : optOK f = true := by
  obtain ⟨fd, hfd, rfl⟩ := List.mem_map.1 hf
  exact lowerFn_optOKS fd (hM fd hfd) (hS fd hfd)

#print axioms lower_optOK_storage

/-- The optimising compiler is correct on the storage core: hypotheses of `C01_compile_correct_storage` plus
`NoShadow M`; the conclusion is the same with `lowerModule M` replaced by `optProgram (lowerModule M)`. -/
theorem C01_opt_compile_correct_storage (M : Core.Module) (hM : StorageCore M) (hS : NoShadow M)
    (fuel : Nat) (name : String) (args : List Val) (g : Globals) (v : Val) (g' : Globals) (as : List Val)
    (hargs : HostVals args) (hg : HostGlobals g)
    (href : CoreSem.invoke M fuel name args g = .done v g' as) :
    ∃ fuel', VM.invoke (Opt.optProgram (Lower.lowerModule M)) fuel' name args g = .done v g' as := by
  obtain ⟨fuel', h⟩ := C01_compile_correct_storage M hM fuel name args g v g' as hargs hg href
  exact ⟨fuel', C02_opt_correct (lowerModule M) (lower_optOK_storage M hM hS) fuel' name args g v g' as h⟩

#print axioms C01_opt_compile_correct_storage

/-- The same in the shape of `C01_Statement`, for the domain `StorageCore ∧ NoShadow` and the optimised program. -/
theorem C01_opt_statement_storage :
    ∀ (M : Core.Module), StorageCore M ∧ NoShadow M →
    ∀ (fuel : Nat) (name : String) (args : List Val) (g : Globals) (v : Val) (g' : Globals) (as : List Val),
      HostVals args → HostGlobals g →
      CoreSem.invoke M fuel name args g = .done v g' as →
      ∃ fuel', VM.invoke (Opt.optProgram (lowerModule M)) fuel' name args g = .done v g' as :=
  fun M hM fuel name args g v g' as ha hg href =>
    C01_opt_compile_correct_storage M hM.1 hM.2 fuel name args g v g' as ha hg href

#print axioms C01_opt_statement_storage

/-- The scalar-core results are instances (`ScalarCore M → StorageCore M`). -/
example (M : Core.Module) (hM : ScalarCore M) (hS : NoShadow M) : ∀ f ∈ (lowerModule M).funcs, optOK f = true :=
  lower_optOK_storage M (scalarCore_storageCore hM) hS

/-! ## Instances -/
namespace LowerOKSEx
open C01StorEx

/-- The module of `C01StorEx` (local `int a[2][3]`, struct `P s`, array of structs `P ps[2]`, nested `for`, `while`,
element/field writes, `++`/`--` on elements, an index with a side effect, a global) has no shadowing. -/
theorem noShadow : NoShadow C01StorEx.M := by
  intro fn hfn
  simp only [C01StorEx.M, List.mem_cons, List.mem_nil_iff, or_false] at hfn
  subst hfn; decide

/-- Hence, by the theorems (not by evaluation), its lowered function satisfies the three conditions … -/
example : ∀ f ∈ (lowerModule C01StorEx.M).funcs,
    defsDistinct f.code = true ∧ blockLocal [] f.code = true ∧ forwardOK none (pass ccDecide f.code) = true ∧
      optOK f = true :=
  fun f hf => ⟨lower_defsDistinct_storage _ C01StorEx.storageCore f hf,
    lower_blockLocal_storage _ C01StorEx.storageCore f hf,
    lower_forwardOK_storage _ C01StorEx.storageCore noShadow f hf,
    lower_optOK_storage _ C01StorEx.storageCore noShadow f hf⟩

/-- … and the OPTIMISED lowered program returns 1022 and leaves g = 10 on `f(5)`. -/
example : ∃ fuel', VM.invoke (optProgram (lowerModule C01StorEx.M)) fuel' "f" [.int 5] [("g", .int 0)] =
    .done (.int 1022) [("g", .int 10)] [.int 5] :=
  C01_opt_compile_correct_storage C01StorEx.M C01StorEx.storageCore noShadow 400 "f" [.int 5] [("g", .int 0)] _ _ _
    (by intro a ha; simp at ha; subst ha; rfl)
    (by intro n x hx; simp [Map.get] at hx; obtain ⟨_, rfl⟩ := hx; rfl)
    C01StorEx.ref_run

/-! ### A small function with a 2-D array and a struct whose lowered code is optimised

```
function demo(int n) -> int { int a[2][3]; P s; int x = n; a[1][x] = x + 1; s.y = a[1][x]; return s.y + x; }
``` -/
def demo : FnDef := ⟨"demo", [("n", i32)], i32,
  .seq (.decl "a" arrT none)
  (.seq (.decl "s" pT none)
  (.seq (.decl "x" i32 (some (va 0)))
  (.seq (.expr (.assign (a2 (.litI 1) (vl "x")) (b .add (vl "x") (.litI 1))))
  (.seq (.expr (.assign (sf "y") (a2 (.litI 1) (vl "x"))))
        (.ret (some (b .add (sf "y") (vl "x")))))))) ⟩

def Mdemo : Core.Module := ⟨[], [demo]⟩

theorem demo_ok : StorageCore Mdemo ∧ NoShadow Mdemo := by
  constructor <;>
  · intro fn hfn
    simp only [Mdemo, List.mem_cons, List.mem_nil_iff, or_false] at hfn
    subst hfn; decide

/-- The demo is NOT in the scalar core: the old theorems do not apply to it. -/
example : ¬ ScalarCore Mdemo := by
  intro h
  have := h demo (by simp [Mdemo])
  revert this; decide

theorem demo_code : (lowerFn demo).code =
    [.newVar 0 arrT "a", .newVar 1 pT "s", .newVar 2 i32 "x",
     .load 3 i32 .arg (.index 0), .store .local (.name "x") (.ref 3),
     -- a[1][x] = x + 1   (the load of `x` right after the store is forwarded)
     .load 5 i32 .local (.name "x"), .bin 6 (.s .add) i32 (.ref 5) (.cInt 1),
     .load 7 arrT .local (.name "a"), .loadArr 8 rowT (.ref 7) (.cInt 1), .load 9 i32 .local (.name "x"),
     .storeArr (.ref 8) (.ref 9) (.ref 6),
     -- s.y = a[1][x]
     .load 11 arrT .local (.name "a"), .loadArr 12 rowT (.ref 11) (.cInt 1), .load 13 i32 .local (.name "x"),
     .loadArr 14 i32 (.ref 12) (.ref 13),
     .load 15 pT .local (.name "s"), .storeMem (.ref 15) "y" (.ref 14),
     -- return s.y + x
     .load 17 pT .local (.name "s"), .loadMem 18 i32 (.ref 17) "y", .load 19 i32 .local (.name "x"),
     .bin 20 (.s .add) i32 (.ref 18) (.ref 19), .ret (some (.ref 20))] := by
  simp [lowerFn, demo, lowerS, lowerE, lowerStore, mkBin, fromOperation, Expr.ty, ITy.isMatrix, ITy.isScalar, va, vl, b,
    i32, BOp.toSOp, a2, sf, arrT, rowT, pT]

/-- by the theorem -/
example : optOK (lowerFn demo) = true :=
  lower_optOK_storage Mdemo demo_ok.1 demo_ok.2 _ (by simp [lowerModule, Mdemo])

/-- by evaluation of the checker on the concrete code -/
example : optOK (lowerFn demo) = true := by
  simp only [optOK, demo_code]; rfl

/-- the load of `x` after the store is forwarded; the aggregate loads (aliases of `a`, `s`) stay -/
example : (optFn (lowerFn demo)).code =
    [.newVar 0 arrT "a", .newVar 1 pT "s", .newVar 2 i32 "x",
     .load 3 i32 .arg (.index 0), .store .local (.name "x") (.ref 3),
     .bin 6 (.s .add) i32 (.ref 3) (.cInt 1),
     .load 7 arrT .local (.name "a"), .loadArr 8 rowT (.ref 7) (.cInt 1), .load 9 i32 .local (.name "x"),
     .storeArr (.ref 8) (.ref 9) (.ref 6),
     .load 11 arrT .local (.name "a"), .loadArr 12 rowT (.ref 11) (.cInt 1), .load 13 i32 .local (.name "x"),
     .loadArr 14 i32 (.ref 12) (.ref 13),
     .load 15 pT .local (.name "s"), .storeMem (.ref 15) "y" (.ref 14),
     .load 17 pT .local (.name "s"), .loadMem 18 i32 (.ref 17) "y", .load 19 i32 .local (.name "x"),
     .bin 20 (.s .add) i32 (.ref 18) (.ref 19), .ret (some (.ref 20))] := by
  simp only [optFn, demo_code]; rfl

/-- The reference run of the demo, and (by the theorem) the run of the OPTIMISED compiled program: `demo(1)`
stores 2 into `a[1][1]`, copies it to `s.y`, returns `2 + 1`. -/
theorem demo_ref : CoreSem.invoke Mdemo 50 "demo" [.int 1] [] = .done (.int 3) [] [.int 1] := by
  rfl

example : ∃ fuel', VM.invoke (optProgram (lowerModule Mdemo)) fuel' "demo" [.int 1] [] = .done (.int 3) [] [.int 1] :=
  C01_opt_compile_correct_storage Mdemo demo_ok.1 demo_ok.2 50 "demo" [.int 1] [] _ _ _
    (by intro a ha; simp at ha; subst ha; rfl)
    (by intro n x hx; simp [Map.get] at hx)
    demo_ref

/-! ### `NoShadow` is needed for the aggregate clause of `forwardOK` as well

`function shadowAgg() -> int { int a[3]; return (::a = 1) + a[0]; }` with a global scalar `a` and a local array `a`:
in the storage core, block-local and single-definition, but the store to the global `a` is directly followed by the
(aggregate) load of the local `a` — the optimiser model would forward the stored `1` as the array alias. -/
def shadowAgg : FnDef := ⟨"shadowAgg", [], i32,
  .seq (.decl "a" (.arr i32 [3]) none)
    (.ret (some (b .add (.assign (vg "a") (.litI 1))
      (.index .arr i32 (.var .local (.name "a") (.arr i32 [3])) (.litI 0)))))⟩

def MshadowAgg : Core.Module := ⟨[("a", i32)], [shadowAgg]⟩

theorem shadowAgg_storageCore : StorageCore MshadowAgg := by decide

theorem shadowAgg_code : (lowerFn shadowAgg).code =
    [.newVar 0 (.arr i32 [3]) "a", .store .global (.name "a") (.cInt 1),
     .load 2 (.arr i32 [3]) .local (.name "a"), .loadArr 3 i32 (.ref 2) (.cInt 0),
     .bin 4 (.s .add) i32 (.cInt 1) (.ref 3), .ret (some (.ref 4))] := by
  simp [lowerFn, shadowAgg, lowerS, lowerE, lowerStore, mkBin, fromOperation, Expr.ty, ITy.isMatrix, ITy.isScalar, vg, b,
    i32, BOp.toSOp]

theorem shadowAgg_not_forwardOK :
    StorageCore MshadowAgg ∧ ¬ NoShadow MshadowAgg ∧
    ∃ f ∈ (lowerModule MshadowAgg).funcs, defsDistinct f.code = true ∧ blockLocal [] f.code = true ∧
      forwardOK none (pass ccDecide f.code) = false ∧ optOK f = false := by
  refine ⟨shadowAgg_storageCore, ?_, lowerFn shadowAgg, by simp [lowerModule, MshadowAgg], ?_⟩
  · intro h
    have := h shadowAgg (by simp [MshadowAgg])
    revert this; decide
  · refine ⟨lower_defsDistinct_storage _ shadowAgg_storageCore _ (by simp [lowerModule, MshadowAgg]),
      lower_blockLocal_storage _ shadowAgg_storageCore _ (by simp [lowerModule, MshadowAgg]), ?_, ?_⟩
    · rw [shadowAgg_code]; rfl
    · simp only [optOK, shadowAgg_code]; rfl

#print axioms shadowAgg_not_forwardOK

end LowerOKSEx

end Nsl
