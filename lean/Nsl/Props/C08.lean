import Nsl.Model.Prec
import Nsl.Proofs.Prec

/-!
# Property C08 — operator precedence and associativity of binary-operator chains

"An expression `a op1 b op2 c` without parentheses is evaluated with the grouping given by the
language's precedence levels (from loosest: `||`, `&&`, `== !=`, `< <= > >=`, `+ -`, `* / %`),
operators of the same level group left to right, …, and parentheses override the default grouping."

`parse lvl a rest` is the yacc/PLY shift/reduce loop on the chain `a o1 x1 o2 x2 …` (reduce iff the
operator on the stack has level `≥` the lookahead's, all levels `left`).  The theorems hold for
chains of any length and for ANY level function `lvl : Op → Nat`.
-/

namespace Nsl.Prec

variable {Op α : Type}

/-- 1. The parse tree contains exactly the operands and operators of the chain, in order. -/
theorem parse_yield (lvl : Op → Nat) (a : α) (rest : List (Op × α)) :
    yield (parse lvl a rest) = (a, rest) := by
  unfold parse
  rw [yield_parseLoop]
  simp [reduceAll, yield]
#print axioms parse_yield

/-- 2. The parse tree is grouped according to the precedence levels, left-associatively. -/
theorem parse_wg (lvl : Op → Nat) (a : α) (rest : List (Op × α)) :
    WellGrouped lvl (parse lvl a rest) :=
  wg_parseLoop lvl rest [] a trivial
#print axioms parse_wg

/-- 4. Every well-grouped tree is what the parser produces from its own yield. -/
theorem parse_roundtrip (lvl : Op → Nat) (t : Tree Op α) (h : WellGrouped lvl t) :
    parse lvl (yield t).1 (yield t).2 = t := by
  have := parseLoop_yield lvl t [] [] h trivial trivial
  simpa [parse, parseLoop, reduceAll] using this
#print axioms parse_roundtrip

/-- 3. A chain has at most one well-grouped tree (so 1 + 2 determine `parse` completely). -/
theorem wg_unique (lvl : Op → Nat) (t u : Tree Op α)
    (ht : WellGrouped lvl t) (hu : WellGrouped lvl u) (h : yield t = yield u) : t = u := by
  rw [← parse_roundtrip lvl t ht, ← parse_roundtrip lvl u hu, h]
#print axioms wg_unique

/-- 5a. `a o1 b o2 c` with `o1` binding at least as tightly as `o2` (higher level, or same level:
left to right) is `(a o1 b) o2 c`. -/
theorem pair_left (lvl : Op → Nat) (a b c : α) (o1 o2 : Op) (h : lvl o1 ≥ lvl o2) :
    parse lvl a [(o1, b), (o2, c)] = .node o2 (.node o1 (.leaf a) (.leaf b)) (.leaf c) := by
  simp [parse, parseLoop, reduceWhile, reduceAll, h]
#print axioms pair_left

/-- 5b. `a o1 b o2 c` with `o2` binding strictly tighter than `o1` is `a o1 (b o2 c)`. -/
theorem pair_right (lvl : Op → Nat) (a b c : α) (o1 o2 : Op) (h : lvl o1 < lvl o2) :
    parse lvl a [(o1, b), (o2, c)] = .node o1 (.leaf a) (.node o2 (.leaf b) (.leaf c)) := by
  have h' : ¬ lvl o2 ≤ lvl o1 := by omega
  simp [parse, parseLoop, reduceWhile, reduceAll, h']
#print axioms pair_right

/-! ### Parentheses override the default grouping

`Chain Op α` is a chain whose operands are atoms or parenthesised sub-chains; `parseFull` parses
every group on its own and then treats it as an operand of the enclosing chain; `unparse` prints a
tree and wraps a child in a group exactly when leaving it bare would violate `WellGrouped`
(left child: level `<` the parent's, right child: level `≤` the parent's). -/

/-- 7. EVERY binary expression tree (every grouping whatsoever) can be written down with
parentheses and is recovered by the parser. -/
theorem parseFull_unparse (lvl : Op → Nat) (e : Tree Op α) :
    parseFull lvl (unparse lvl e) = e :=
  parseFull_unparse_aux lvl e
#print axioms parseFull_unparse

/-- 8. On a chain without parentheses `parseFull` is `parse`. -/
theorem parseFull_ofList (lvl : Op → Nat) (a : α) (rest : List (Op × α)) :
    parseFull lvl (Chain.ofList a rest) = parse lvl a rest :=
  parseFull_ofList_aux lvl a rest
#print axioms parseFull_ofList

/-- 9. A well-grouped tree is printed without any parentheses: as its bare yield. -/
theorem unparse_of_wg (lvl : Op → Nat) (t : Tree Op α) (h : WellGrouped lvl t) :
    unparse lvl t = Chain.ofList (yield t).1 (yield t).2 :=
  unparse_of_wg_aux lvl t h
#print axioms unparse_of_wg

/-- 10. A parenthesised group behaves like an atom: `( c ) o b` is `node o ⟦c⟧ b` and
`a o ( c )` is `node o a ⟦c⟧`, whatever operators occur inside `c`. -/
theorem group_left (lvl : Op → Nat) (c : Chain Op α) (o : Op) (b : α) :
    parseFull lvl (.cons (.group c) o (.one (.atom b)))
      = .node o (parseFull lvl c) (.leaf b) := by
  simp [parseFull, chainOperands, parseOperand, parse, parseLoop, reduceWhile, reduceAll, join]
#print axioms group_left

theorem group_right (lvl : Op → Nat) (a : α) (o : Op) (c : Chain Op α) :
    parseFull lvl (.cons (.atom a) o (.one (.group c)))
      = .node o (.leaf a) (parseFull lvl c) := by
  simp [parseFull, chainOperands, parseOperand, parse, parseLoop, reduceWhile, reduceAll, join]
#print axioms group_right

/-! ### 6. Non-vacuity with the nsl level table -/

section Examples

/-- The 13 binary operators of nsl's `bin_op`. -/
inductive BinOp
  | lor | land | eq | ne | lt | le | gt | ge | plus | minus | times | divide | mod
  deriving DecidableEq, Repr

open BinOp

/-- nsl's precedence levels, loosest first (`||`=1 … `* / %`=6). -/
def nslLvl : BinOp → Nat
  | lor => 1
  | land => 2
  | eq | ne => 3
  | lt | le | gt | ge => 4
  | plus | minus => 5
  | times | divide | mod => 6

local notation "L" => (Tree.leaf : String → Tree BinOp String)
local notation "N" => (Tree.node : BinOp → Tree BinOp String → Tree BinOp String → Tree BinOp String)

-- `a - b - c` is `(a - b) - c`
example : parse nslLvl "a" [(minus, "b"), (minus, "c")]
    = N minus (N minus (L "a") (L "b")) (L "c") := by decide
-- `a - b + c` is `(a - b) + c` (same level, different operators)
example : parse nslLvl "a" [(minus, "b"), (plus, "c")]
    = N plus (N minus (L "a") (L "b")) (L "c") := by decide
-- `a * b + c` is `(a * b) + c`
example : parse nslLvl "a" [(times, "b"), (plus, "c")]
    = N plus (N times (L "a") (L "b")) (L "c") := by decide
-- `a + b * c` is `a + (b * c)`
example : parse nslLvl "a" [(plus, "b"), (times, "c")]
    = N plus (L "a") (N times (L "b") (L "c")) := by decide
-- `a < b == c && d || e` is `(((a < b) == c) && d) || e`
example : parse nslLvl "a" [(lt, "b"), (eq, "c"), (land, "d"), (lor, "e")]
    = N lor (N land (N eq (N lt (L "a") (L "b")) (L "c")) (L "d")) (L "e") := by decide
-- `a || b && c == d < e + f * g` nests entirely to the right
example : parse nslLvl "a" [(lor, "b"), (land, "c"), (eq, "d"), (lt, "e"), (plus, "f"), (times, "g")]
    = N lor (L "a") (N land (L "b") (N eq (L "c") (N lt (L "d")
        (N plus (L "e") (N times (L "f") (L "g")))))) := by decide
-- `a + b * c - d / e < f` is `((a + (b * c)) - (d / e)) < f`
example : parse nslLvl "a" [(plus, "b"), (times, "c"), (minus, "d"), (divide, "e"), (lt, "f")]
    = N lt (N minus (N plus (L "a") (N times (L "b") (L "c"))) (N divide (L "d") (L "e"))) (L "f") := by
  decide

-- the hypotheses of `pair_left` / `pair_right` / `wg_unique` / `parse_roundtrip` are satisfiable
example : nslLvl minus ≥ nslLvl plus := by decide
example : nslLvl plus < nslLvl times := by decide
example : WellGrouped nslLvl (N plus (N minus (L "a") (L "b")) (N times (L "c") (L "d"))) := by
  decide
-- … and `WellGrouped` is not trivially true: `a - (b - c)` and `(a + b) * c` are not default groupings
example : ¬ WellGrouped nslLvl (N minus (L "a") (N minus (L "b") (L "c"))) := by decide
example : ¬ WellGrouped nslLvl (N times (N plus (L "a") (L "b")) (L "c")) := by decide
-- two different trees with the same yield, only one of which is well grouped
example : yield (N minus (L "a") (N minus (L "b") (L "c")))
    = yield (N minus (N minus (L "a") (L "b")) (L "c")) := by decide

/-! Parentheses -/

local notation "A" => (Operand.atom : String → Operand BinOp String)

-- `a - (b - c)`: the printer inserts the group, the parser recovers the right-nested tree
example : unparse nslLvl (N minus (L "a") (N minus (L "b") (L "c")))
    = .cons (A "a") minus (.one (.group (.cons (A "b") minus (.one (A "c"))))) := by rfl
example : parseFull nslLvl (.cons (A "a") minus (.one (.group (.cons (A "b") minus (.one (A "c"))))))
    = N minus (L "a") (N minus (L "b") (L "c")) := by decide
-- `(a + b) * c`
example : unparse nslLvl (N times (N plus (L "a") (L "b")) (L "c"))
    = .cons (.group (.cons (A "a") plus (.one (A "b")))) times (.one (A "c")) := by rfl
example : parseFull nslLvl (.cons (.group (.cons (A "a") plus (.one (A "b")))) times (.one (A "c")))
    = N times (N plus (L "a") (L "b")) (L "c") := by decide
-- `(a - b) - c` needs no parentheses
example : unparse nslLvl (N minus (N minus (L "a") (L "b")) (L "c"))
    = .cons (A "a") minus (.cons (A "b") minus (.one (A "c"))) := by rfl
-- nested groups: `a * ((b || c) && d)`
example : unparse nslLvl (N times (L "a") (N land (N lor (L "b") (L "c")) (L "d")))
    = .cons (A "a") times (.one (.group
        (.cons (.group (.cons (A "b") lor (.one (A "c")))) land (.one (A "d"))))) := by rfl
example : parseFull nslLvl (.cons (A "a") times (.one (.group
        (.cons (.group (.cons (A "b") lor (.one (A "c")))) land (.one (A "d"))))))
    = N times (L "a") (N land (N lor (L "b") (L "c")) (L "d")) := by decide
-- redundant parentheses are harmless: `(a * b) + c` parses like `a * b + c`
example : parseFull nslLvl (.cons (.group (.cons (A "a") times (.one (A "b")))) plus (.one (A "c")))
    = parse nslLvl "a" [(times, "b"), (plus, "c")] := by decide

end Examples

end Nsl.Prec
