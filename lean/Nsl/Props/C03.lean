import Nsl.Props.C01
import Nsl.Props.C01Storage
import Nsl.Props.LowerOK
import Nsl.Props.C04Sim
import Nsl.Props.LowerOKVector
/-!
# C03 – calls pass arguments by value into isolated frames and reach the chosen overload

1. `C03_call_isolated` (VM model, any program, any callee – well-behaved or not): a `CALL` instruction that completes
   changes nothing of the calling activation except its destination register: the caller's argument list, its locals
   and every other register are exactly as before, whatever the callee did to its own parameters and locals.  The
   callee starts from a fresh frame holding only the evaluated arguments (`C03_callee_fresh_frame`).
2. `C03_reference_by_value`: in the reference semantics a call leaves the caller's frame exactly as it was after the
   evaluation of the arguments.  With `C01_compile_correct` this transfers to the VM for every call graph of the
   scalar core: nested, repeated, direct and mutual recursion (`C03_vm_agrees_with_reference`).
3. `C03_callee_is_resolved_name`: the lowering emits the call to exactly the (mangled or exported) name the typed
   core carries, i.e. the statically resolved overload (resolution itself is property C10), and the program table
   looks functions up by that name (`Sim.find_lowerModule`).
-/
namespace Nsl
open Core VM Lower CoreSem

/-- A completed call changes only the destination register of the caller. -/
theorem C03_call_isolated (cf : String → List Val → Globals → Res) (code : List Instr) (pc : Nat) (fr : Frame)
    (g : Globals) (dst : Nat) (ty : ITy) (fn : String) (args : List Opd) (pc' : Nat) (fr' : Frame) (g' : Globals)
    (hc : code[pc]? = some (.call dst ty fn args))
    (h : stepI cf code pc fr g = .next pc' fr' g') :
    fr'.args = fr.args ∧ fr'.locals = fr.locals ∧ (∀ r, r ≠ dst → Map.get fr'.regs r = Map.get fr.regs r) ∧
      pc' = pc + 1 := by
  simp only [stepI, hc, liftE] at h
  cases hv : evalVals fr g args with
  | error e => simp [hv] at h
  | ok vs =>
    simp only [hv] at h
    cases hr : cf fn vs g with
    | fail e => simp [hr] at h
    | done v g1 as =>
      simp only [hr, StepOut.next.injEq] at h
      obtain ⟨rfl, rfl, rfl⟩ := h
      refine ⟨rfl, rfl, ?_, rfl⟩
      intro r hr'
      exact Map.get_set_ne _ _ _ _ (fun h => hr' h.symm)

#print axioms C03_call_isolated

/-- The callee runs in a frame of its own: only the evaluated arguments, no locals, no registers of the caller. -/
theorem C03_callee_fresh_frame (P : Program) (D : Nat) (name : String) (vs : List Val) (g : Globals) (callee : Func)
    (hf : P.find name = some callee) :
    callD P D name vs g = run P D callee 0 { regs := [], locals := [], args := vs } g := by
  simp [callD, hf]

#print axioms C03_callee_fresh_frame

/-- Reference semantics: the caller's frame after a call is its frame after evaluating the arguments. -/
theorem C03_reference_by_value (M : Core.Module) (n : Nat) (fn : String) (ty : ITy) (args : Args) (fr : Frame)
    (g : Globals) (v : Val) (fr' : Frame) (g' : Globals)
    (h : evalE M (n + 1) (.call fn ty args) fr g = .val v fr' g') :
    ∃ vs g1 as, evalArgs M n args fr g = .vals vs fr' g1 ∧ callFn M n fn vs g1 = .done v g' as := by
  simp only [evalE] at h
  cases h1 : evalArgs M n args fr g with
  | fail er => simp [h1] at h
  | vals vs fr1 g1 =>
    simp only [h1] at h
    cases h2 : callFn M n fn vs g1 with
    | fail er => simp [h2] at h
    | done w g2 as =>
      simp only [h2, EOut.val.injEq] at h
      obtain ⟨rfl, rfl, rfl⟩ := h
      exact ⟨vs, g1, as, rfl, h2⟩

#print axioms C03_reference_by_value

/-- For every call graph of the scalar core the VM computes what the by-value reference semantics computes. -/
theorem C03_vm_agrees_with_reference (M : Core.Module) (hM : ScalarCore M) (fuel : Nat) (name : String)
    (args : List Val) (g : Globals) (v : Val) (g' : Globals) (as : List Val)
    (hargs : HostVals args) (hg : HostGlobals g)
    (href : CoreSem.invoke M fuel name args g = .done v g' as) :
    ∃ fuel', VM.invoke (lowerModule M) fuel' name args g = .done v g' as :=
  C01_compile_correct M hM fuel name args g v g' as hargs hg href

#print axioms C03_vm_agrees_with_reference

/-- The same for call graphs whose functions use local arrays and structs as storage (stage 2 of C01). -/
theorem C03_vm_agrees_with_reference_storage (M : Core.Module) (hM : StorageCore M) (fuel : Nat) (name : String)
    (args : List Val) (g : Globals) (v : Val) (g' : Globals) (as : List Val)
    (hargs : HostVals args) (hg : HostGlobals g)
    (href : CoreSem.invoke M fuel name args g = .done v g' as) :
    ∃ fuel', VM.invoke (lowerModule M) fuel' name args g = .done v g' as :=
  C01_compile_correct_storage M hM fuel name args g v g' as hargs hg href

#print axioms C03_vm_agrees_with_reference_storage

/-- … and for the OPTIMISED program of a scalar-core module: forwarding loads and folding casts across the code that
surrounds calls does not let a callee's writes leak into the caller. -/
theorem C03_optimised_vm_agrees_with_reference (M : Core.Module) (hM : ScalarCore M) (hS : NoShadow M) (fuel : Nat)
    (name : String) (args : List Val) (g : Globals) (v : Val) (g' : Globals) (as : List Val)
    (hargs : HostVals args) (hg : HostGlobals g)
    (href : CoreSem.invoke M fuel name args g = .done v g' as) :
    ∃ fuel', VM.invoke (Opt.optProgram (lowerModule M)) fuel' name args g = .done v g' as :=
  C01_opt_compile_correct M hM hS fuel name args g v g' as hargs hg href

#print axioms C03_optimised_vm_agrees_with_reference

/-- … for call graphs passing and returning vectors and matrices (stage 3; host values of the declared shapes) … -/
theorem C03_vm_agrees_with_reference_vector (M : Core.Module) (hM : VectorCore M) (fuel : Nat) (name : String)
    (args : List Val) (g : Globals) (v : Val) (g' : Globals) (as : List Val)
    (hargs : HostArgsFit M name args) (hg : GlobalsFit M.globals g)
    (href : CoreSem.invoke M fuel name args g = .done v g' as) :
    ∃ fuel', VM.invoke (lowerModule M) fuel' name args g = .done v g' as :=
  C04_compile_correct_vector M hM fuel name args g v g' as hargs hg href

#print axioms C03_vm_agrees_with_reference_vector

/-- … and for their optimised programs. -/
theorem C03_optimised_vm_agrees_with_reference_vector (M : Core.Module) (hM : VectorCore M) (hS : NoShadow M)
    (fuel : Nat) (name : String) (args : List Val) (g : Globals) (v : Val) (g' : Globals) (as : List Val)
    (hargs : HostArgsFit M name args) (hg : GlobalsFit M.globals g)
    (href : CoreSem.invoke M fuel name args g = .done v g' as) :
    ∃ fuel', VM.invoke (Opt.optProgram (lowerModule M)) fuel' name args g = .done v g' as :=
  C04_opt_compile_correct_vector M hM hS fuel name args g v g' as hargs hg href

#print axioms C03_optimised_vm_agrees_with_reference_vector

/-- The lowering of a call names exactly the resolved callee and passes the lowered arguments in order. -/
theorem C03_callee_is_resolved_name (fn : String) (ty : ITy) (args : Args) (k : Nat) :
    ∃ c os k1, lowerArgs args k = (c, os, k1) ∧
      lowerE (.call fn ty args) k = (c ++ [.call k1 ty fn os], .ref k1, k1 + 1) := by
  rcases h : lowerArgs args k with ⟨c, os, k1⟩
  exact ⟨c, os, k1, rfl, by simp [lowerE, h]⟩

#print axioms C03_callee_is_resolved_name

/-- Non-vacuity: the recursive `fact` of `C01Ex` — the caller reads its own parameter after the recursive call. -/
example : CoreSem.invoke C01Ex.M 100 "fact" [.int 5] [] = .done (.int 120) [] [.int 5] := by rfl

end Nsl
