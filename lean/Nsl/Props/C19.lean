import Nsl.Model.Leb
import Nsl.Proofs.Leb

/-!
# C19 — LEB128 integers, length-prefixed names, section / body size fields

Model: `Nsl.Model.Leb` (`packInteger` mirrors `PackInteger` of `/repo/nsl/WebAssembly.py`,
`encS` mirrors the added `PackSignedInteger`; `encU`/`decU`/`decS` are the textbook LEB128
encoder / decoders; `frame` = `WriteInteger(len(p)); write(p)`; `sectionBytes` = `WriteByte(id)` + frame).
-/

namespace Nsl.Leb

/-! ## 1. Unsigned round trip -/

theorem decU_encU (n : Nat) (rest : List Nat) : decU (encU n ++ rest) = some (n, rest) :=
  decU_encU' n rest
#print axioms decU_encU

/-! ## 2. Signed round trip (the encoder that `PackSignedInteger` implements) -/

theorem decS_encS (z : Int) (rest : List Nat) : decS (encS z ++ rest) = some (z, rest) := by
  unfold decS; rw [decSLoop_encS]; simp
#print axioms decS_encS

/-! ## 3. The Python loop is the standard unsigned encoder on every natural -/

theorem pack_eq_encU (n : Nat) : packInteger (n : Int) = encU n := packInteger_nat n
#print axioms pack_eq_encU

/-- Every count / size / index the writer emits is recovered by the standard unsigned decoder. -/
theorem decU_pack (n : Nat) (rest : List Nat) :
    decU (packInteger (n : Int) ++ rest) = some (n, rest) := by
  rw [pack_eq_encU, decU_encU]
#print axioms decU_pack

/-! ## 4. Bytes and continuation-bit structure -/

theorem encU_bytes (n : Nat) : ∀ b ∈ encU n, b < 256 := (encU_selfDelimiting n).bytes
#print axioms encU_bytes

theorem encS_bytes (z : Int) : ∀ b ∈ encS z, b < 256 := (encS_selfDelimiting z).bytes
#print axioms encS_bytes

theorem pack_bytes (n : Nat) : ∀ b ∈ packInteger (n : Int), b < 256 := by
  rw [pack_eq_encU]; exact encU_bytes n
#print axioms pack_bytes

/-- Shape: `pre ++ [last]`, all of `pre` in `[128, 256)` (continuation bit set), `last < 128`. -/
theorem encU_continuation (n : Nat) :
    ∃ pre last, encU n = pre ++ [last] ∧ (∀ b ∈ pre, 128 ≤ b ∧ b < 256) ∧ last < 128 :=
  encU_selfDelimiting n
#print axioms encU_continuation

theorem encS_continuation (z : Int) :
    ∃ pre last, encS z = pre ++ [last] ∧ (∀ b ∈ pre, 128 ≤ b ∧ b < 256) ∧ last < 128 :=
  encS_selfDelimiting z
#print axioms encS_continuation

/-- The same, phrased with `dropLast` / `getLast?`. -/
theorem encU_continuation' (n : Nat) :
    (∀ b ∈ (encU n).dropLast, 128 ≤ b) ∧ ∃ l, (encU n).getLast? = some l ∧ l < 128 :=
  ⟨(encU_selfDelimiting n).dropLast, (encU_selfDelimiting n).getLast⟩
#print axioms encU_continuation'

theorem encS_continuation' (z : Int) :
    (∀ b ∈ (encS z).dropLast, 128 ≤ b) ∧ ∃ l, (encS z).getLast? = some l ∧ l < 128 :=
  ⟨(encS_selfDelimiting z).dropLast, (encS_selfDelimiting z).getLast⟩
#print axioms encS_continuation'

/-! ## 5. WebAssembly length limits -/

theorem encU_length_u32 (n : Nat) (h : n < 2 ^ 32) : (encU n).length ≤ 5 :=
  encU_length_le 4 n (by omega)
#print axioms encU_length_u32

theorem encS_length_i32 (z : Int) (h : -2 ^ 31 ≤ z ∧ z < 2 ^ 31) : (encS z).length ≤ 5 :=
  encS_length_le 4 z (by omega) (by omega)
#print axioms encS_length_i32

-- hypotheses satisfiable, bounds tight
example : (2 ^ 32 - 1 : Nat) < 2 ^ 32 ∧ (encU (2 ^ 32 - 1)).length = 5 := by decide
example : (-2 ^ 31 ≤ (-2 ^ 31 : Int) ∧ (-2 ^ 31 : Int) < 2 ^ 31) ∧ (encS (-2 ^ 31)).length = 5 := by
  decide
example : (-2 ^ 31 ≤ (2 ^ 31 - 1 : Int) ∧ (2 ^ 31 - 1 : Int) < 2 ^ 31) ∧
    (encS (2 ^ 31 - 1)).length = 5 := by decide

/-! ## 6. Framing: size field = number of payload bytes that follow -/

theorem unframe_frame (p rest : List Nat) : unframe (frame p ++ rest) = some (p, rest) :=
  unframe_frame' p rest
#print axioms unframe_frame

/-- The decoded size field equals the number of payload bytes, which follow immediately. -/
theorem frame_length (p rest : List Nat) :
    decU (frame p ++ rest) = some (p.length, p ++ rest) := by
  unfold frame; rw [List.append_assoc, decU_encU]
#print axioms frame_length

/-- What the Python writes (size through `PackInteger`) is exactly that frame. -/
theorem framePy_eq_frame (p : List Nat) : framePy p = frame p := by
  unfold framePy frame; rw [pack_eq_encU]
#print axioms framePy_eq_frame

theorem unframe_framePy (p rest : List Nat) : unframe (framePy p ++ rest) = some (p, rest) := by
  rw [framePy_eq_frame, unframe_frame]
#print axioms unframe_framePy

/-- Sections: id byte, size, payload; a reader gets all three back plus the untouched rest. -/
theorem unsection_section (id : Nat) (p rest : List Nat) :
    unsection (sectionBytes id p ++ rest) = some (id, p, rest) := by
  simp only [sectionBytes, List.cons_append, unsection, unframe_frame]
#print axioms unsection_section

theorem sectionBytesPy_eq (id : Nat) (p : List Nat) : sectionBytesPy id p = sectionBytes id p := by
  unfold sectionBytesPy sectionBytes; rw [framePy_eq_frame]
#print axioms sectionBytesPy_eq

theorem section_size_field (id : Nat) (p rest : List Nat) :
    ∃ tail, sectionBytesPy id p ++ rest = id :: tail ∧ decU tail = some (p.length, p ++ rest) := by
  refine ⟨frame p ++ rest, ?_, frame_length p rest⟩
  rw [sectionBytesPy_eq]; rfl
#print axioms section_size_field

/-- Names: length-prefixed UTF-8, prefix = byte length of the string, bytes recoverable. -/
theorem writeString_roundtrip (s : String) (rest : List Nat) :
    unframe (writeStringPy s ++ rest) = some (utf8 s, rest) := by
  unfold writeStringPy; rw [unframe_framePy]
#print axioms writeString_roundtrip

theorem writeString_size_field (s : String) (rest : List Nat) :
    decU (writeStringPy s ++ rest) = some (s.utf8ByteSize, utf8 s ++ rest) := by
  unfold writeStringPy; rw [framePy_eq_frame, frame_length, utf8_length']
#print axioms writeString_size_field

theorem utf8_bytes (s : String) : ∀ b ∈ utf8 s, b < 256 := utf8_bytes' s
#print axioms utf8_bytes

theorem utf8_injective (s t : String) (h : utf8 s = utf8 t) : s = t := utf8_inj h
#print axioms utf8_injective

example : unsection (sectionBytesPy 10 (List.replicate 200 7) ++ [1, 2]) =
    some (10, List.replicate 200 7, [1, 2]) := by decide +kernel
example : sectionBytesPy 10 (List.replicate 200 7) = 10 :: 0xC8 :: 0x01 :: List.replicate 200 7 := by
  decide +kernel

/-! ## 7. Signed immediates: where the unsigned packer is / is not a signed encoding

The writer sends `i32.const` immediates through `WriteInteger` = `packInteger`.
The property "recovered exactly by the standard *signed* decoder over the whole i32 range"
is FALSE for that path. -/

/-- The (false) full-strength statement for the current `PackInteger` path. -/
def packInteger_signed_Statement : Prop :=
  ∀ (z : Int), -2 ^ 31 ≤ z ∧ z < 2 ^ 31 → ∀ rest, decS (packInteger z ++ rest) = some (z, rest)

-- required concrete witnesses
example : packInteger 64 ≠ encS 64 := by decide
example : decS (packInteger 64) = some (-64, []) := by decide
example : packInteger (-65) ≠ encS (-65) := by decide
example : decS (packInteger (-65)) = some (63, []) := by decide
example : packInteger (-123456) = encS (-123456) := by decide
example : hex (packInteger 64) = "40" ∧ hex (encS 64) = "c000" := by decide

theorem packInteger_signed_false : ¬ packInteger_signed_Statement := by
  intro h
  have := h 64 (by decide) []
  revert this
  decide
#print axioms packInteger_signed_false

/-- Exact boundary: signed decoding of `PackInteger`'s output is right iff that output *is* the
signed encoding. -/
theorem decS_pack_iff (z : Int) (rest : List Nat) :
    decS (packInteger z ++ rest) = some (z, rest) ↔ packInteger z = encS z :=
  decS_packInteger_iff z rest
#print axioms decS_pack_iff

/-- General characterisation, non-negative case: bit 6 of the top 7-bit group must be clear. -/
theorem packInteger_eq_encS_iff_nat (n : Nat) :
    packInteger (n : Int) = encS (n : Int) ↔ (n = 0 ∨ bitLength n % 7 ≠ 0) :=
  packInteger_eq_encS_nat n
#print axioms packInteger_eq_encS_iff_nat

/-- General characterisation, negative case (`z = -m`, `m > 0`): the top group computed from
`bit_length(|z|)` must already carry the sign bit; `bitLength (m-1) < bitLength m` iff `m` is a
power of two (`bitLength_pred_lt_iff`). -/
theorem packInteger_eq_encS_iff_neg (m : Nat) (hm : 0 < m) :
    packInteger (-(m : Int)) = encS (-(m : Int)) ↔
      (bitLength m % 7 ≠ 0 ∨ bitLength (m - 1) < bitLength m) :=
  packInteger_eq_encS_neg m hm
#print axioms packInteger_eq_encS_iff_neg

example : (0 : Nat) < 123456 ∧ bitLength 123456 % 7 ≠ 0 := by decide

/-- Unified form over all integers, and its executable test `packIsSigned`. -/
theorem packInteger_eq_encS_iff (z : Int) :
    packInteger z = encS z ↔
      (z = 0 ∨ bitLength z.natAbs % 7 ≠ 0 ∨
        (z < 0 ∧ bitLength (z.natAbs - 1) < bitLength z.natAbs)) :=
  packInteger_eq_encS_iff' z
#print axioms packInteger_eq_encS_iff

theorem packIsSigned_spec (z : Int) : packIsSigned z = true ↔ packInteger z = encS z :=
  packIsSigned_iff z
#print axioms packIsSigned_spec

/-- Strongest true variant for the current writer: under the decidable side condition,
the signed decoder recovers the value (for all integers, not only i32). -/
theorem packInteger_signed_partial (z : Int) (h : packIsSigned z = true) (rest : List Nat) :
    decS (packInteger z ++ rest) = some (z, rest) :=
  (decS_pack_iff z rest).2 ((packIsSigned_spec z).1 h)
#print axioms packInteger_signed_partial

/-- ... and the side condition is necessary. -/
theorem packInteger_signed_partial_converse (z : Int) (rest : List Nat)
    (h : decS (packInteger z ++ rest) = some (z, rest)) : packIsSigned z = true :=
  (packIsSigned_spec z).2 ((decS_pack_iff z rest).1 h)
#print axioms packInteger_signed_partial_converse

example : packIsSigned (-123456) = true := by decide
example : packIsSigned 63 = true ∧ packIsSigned 64 = false ∧ packIsSigned 127 = false ∧
    packIsSigned 128 = true ∧ packIsSigned (-64) = true ∧ packIsSigned (-65) = false ∧
    packIsSigned (-128) = true := by decide

/-- With `PackSignedInteger` (= `encS`) the full-strength statement holds, within 5 bytes. -/
theorem encS_i32 (z : Int) (h : -2 ^ 31 ≤ z ∧ z < 2 ^ 31) (rest : List Nat) :
    decS (encS z ++ rest) = some (z, rest) ∧ (encS z).length ≤ 5 ∧ ∀ b ∈ encS z, b < 256 :=
  ⟨decS_encS z rest, encS_length_i32 z h, encS_bytes z⟩
#print axioms encS_i32

end Nsl.Leb
