import Nsl.Model.Types
import Nsl.Proofs.Types

/-!
# C09 — typing of binary operators

`resolveBinary` mirrors `ResolveBinaryExpressionType` (repaired `nsl/types.py`);
`Spec.binary` is the specification written from the English statement.
Everything is proved for all sizes ≥ 1.
-/

namespace Nsl.Types
open Spec

/-- The additive-like operators `+ - % && ||`. -/
abbrev additiveOps : List BOp := [.add, .sub, .mod, .land, .lor]

/-- The six comparisons `< <= > >= == !=`. -/
abbrev comparisonOps : List BOp := [.lt, .le, .gt, .ge, .eq, .ne]

/-! ## 1. Mirror = specification -/

theorem resolveBinary_eq_spec (o : BOp) (l r : Ty) (hl : WF l) (hr : WF r)
    (hm : ¬ (isComparison o ∧ l.isMat ∧ r.isMat)) :
    resolveBinary o l r = Spec.binary o l r := by
  have _ := hm
  exact resolveBinary_eq_spec_aux o l r hl hr
#print axioms resolveBinary_eq_spec

/-- The excluded case: the code rejects comparisons with a matrix on the left (hence of two
matrices), whatever the sizes. -/
theorem cmp_mat_rejected (o : BOp) (hc : isComparison o) (l r : Ty) (hl : l.isMat) :
    resolveBinary o l r = none := by
  simp [resolveBinary, hc, hl]
#print axioms cmp_mat_rejected

/-! ## 3. `op.IsComparison` selects exactly the six comparisons -/

theorem isComparison_exact (o : BOp) : isComparison o = true ↔ o ∈ comparisonOps := by
  cases o <;> decide
#print axioms isComparison_exact

/-- `wider` is the maximum for the order float > int > uint. -/
theorem wider_is_max (a b : Comp) :
    (wider a b = a ∨ wider a b = b) ∧ rank a ≤ rank (wider a b) ∧ rank b ≤ rank (wider a b) := by
  cases a <;> cases b <;> decide
#print axioms wider_is_max

/-! ## 2. Readable corollaries -/

/-- Two scalars: every operator is accepted; comparisons give `int`, all others the wider
component type; both operands are converted to the wider component type. -/
theorem scalar_promote (o : BOp) (a b : Comp) :
    resolveBinary o (.scalar a) (.scalar b) =
      some (.scalar (if isComparison o then .int else wider a b),
            .scalar (wider a b), .scalar (wider a b)) := by
  rw [resolveBinary_eq_spec_aux _ _ _ rfl rfl]
  cases o <;> rfl
#print axioms scalar_promote

/-- Comparison of two vectors: equal sizes give an int vector of that size, different sizes are
rejected. -/
theorem cmp_vec (o : BOp) (hc : isComparison o) (a b : Comp) (n m : Nat)
    (hn : 1 ≤ n) (hm : 1 ≤ m) :
    resolveBinary o (.vec a n) (.vec b m) =
      if n = m then some (.vec .int n, .vec (wider a b) n, .vec (wider a b) m) else none := by
  rw [resolveBinary_eq_spec_aux _ _ _ (by simp [WF, hn]) (by simp [WF, hm])]
  cases o <;> first
    | (exact absurd hc (by decide))
    | (simp only [binary, classify, shapeOf, resultShape, compOf, resultComp]
       split <;> simp [build])
#print axioms cmp_vec

/-- Comparison of operands of different kinds (scalar / vector / matrix) is rejected. -/
theorem cmp_mixed_kinds_rejected (o : BOp) (hc : isComparison o) (l r : Ty)
    (hk : l.kind ≠ r.kind) : resolveBinary o l r = none := by
  simp [resolveBinary, hc, hk]
#print axioms cmp_mixed_kinds_rejected

/-- `+ - % && ||` on operands of identical shape: accepted, result and both operands have that
shape and the wider component type. -/
theorem additive_same_shape (o : BOp) (ho : o ∈ additiveOps) (l r : Ty) (hl : WF l) (hr : WF r)
    (hs : shapeOf l = shapeOf r) :
    resolveBinary o l r =
      some (build (wider (compOf l) (compOf r)) (shapeOf l),
            build (wider (compOf l) (compOf r)) (shapeOf l),
            build (wider (compOf l) (compOf r)) (shapeOf l)) := by
  rw [resolveBinary_eq_spec_aux _ _ _ hl hr]
  have hcls : classify o = .additive := by
    simp [additiveOps] at ho; rcases ho with rfl | rfl | rfl | rfl | rfl <;> rfl
  cases l <;> cases r <;> simp [shapeOf] at hs <;>
    simp [binary, hcls, resultShape, shapeOf, build, compOf, resultComp, hs]
#print axioms additive_same_shape

/-- The vector instance of `additive_same_shape`. -/
theorem additive_vec (o : BOp) (ho : o ∈ additiveOps) (a b : Comp) (n : Nat) (hn : 1 ≤ n) :
    resolveBinary o (.vec a n) (.vec b n) =
      some (.vec (wider a b) n, .vec (wider a b) n, .vec (wider a b) n) :=
  additive_same_shape o ho _ _ (by simp [WF, hn]) (by simp [WF, hn]) rfl
#print axioms additive_vec

/-- The matrix instance of `additive_same_shape`. -/
theorem additive_mat (o : BOp) (ho : o ∈ additiveOps) (a b : Comp) (r k : Nat)
    (hr : 1 ≤ r) (hk : 1 ≤ k) :
    resolveBinary o (.mat a r k) (.mat b r k) =
      some (.mat (wider a b) r k, .mat (wider a b) r k, .mat (wider a b) r k) :=
  additive_same_shape o ho _ _ (by simp [WF, hr, hk]) (by simp [WF, hr, hk]) rfl
#print axioms additive_mat

/-- `+ - % && ||` on operands of different shapes (scalar with vector, vectors of different
size, vector with matrix, matrices of different size, …) is rejected. -/
theorem additive_shape_mismatch_rejected (o : BOp) (ho : o ∈ additiveOps) (l r : Ty)
    (hl : WF l) (hr : WF r) (hs : shapeOf l ≠ shapeOf r) :
    resolveBinary o l r = none := by
  rw [resolveBinary_eq_spec_aux _ _ _ hl hr]
  have hcls : classify o = .additive := by
    simp [additiveOps] at ho; rcases ho with rfl | rfl | rfl | rfl | rfl <;> rfl
  cases l <;> cases r <;> simp [shapeOf] at hs <;>
    simp [binary, hcls, resultShape, shapeOf, hs] <;> omega
#print axioms additive_shape_mismatch_rejected

/-- `/` with a scalar right operand is accepted under any left shape; the result has the
shape of the left operand. -/
theorem div_scalar_right (l : Ty) (hl : WF l) (b : Comp) :
    resolveBinary .div l (.scalar b) =
      some (build (wider (compOf l) b) (shapeOf l),
            build (wider (compOf l) b) (shapeOf l),
            .scalar (wider (compOf l) b)) := by
  rw [resolveBinary_eq_spec_aux _ _ _ hl rfl]
  cases l <;> rfl
#print axioms div_scalar_right

/-- `/` with a vector or matrix on the right is rejected. -/
theorem div_nonscalar_right_rejected (l r : Ty) (hr : ¬ r.isScalar) :
    resolveBinary .div l r = none := by
  simp [resolveBinary, isComparison, opValue, hr]
#print axioms div_nonscalar_right_rejected

/-- `*` takes a scalar on either side; the result has the shape of the other operand. -/
theorem mul_scalar_either_side (t : Ty) (ht : WF t) (c : Comp) :
    resolveBinary .mul (.scalar c) t =
        some (build (wider c (compOf t)) (shapeOf t),
              .scalar (wider c (compOf t)),
              build (wider c (compOf t)) (shapeOf t)) ∧
    resolveBinary .mul t (.scalar c) =
        some (build (wider (compOf t) c) (shapeOf t),
              build (wider (compOf t) c) (shapeOf t),
              .scalar (wider (compOf t) c)) := by
  rw [resolveBinary_eq_spec_aux _ _ _ rfl ht, resolveBinary_eq_spec_aux _ _ _ ht rfl]
  cases t <;> exact ⟨rfl, rfl⟩
#print axioms mul_scalar_either_side

/-- Matrix times matrix / matrix times vector: accepted iff the inner dimensions agree; the
result is shaped rows(left) × columns(right), a single column being a vector. -/
theorem mul_mat_inner (a b : Comp) (r k : Nat) (hr : 1 ≤ r) (hk : 1 ≤ k) :
    (∀ k' c, 1 ≤ k' → 1 ≤ c →
      resolveBinary .mul (.mat a r k) (.mat b k' c) =
        if k = k' then
          some (if c = 1 then .vec (wider a b) r else .mat (wider a b) r c,
                .mat (wider a b) r k, .mat (wider a b) k' c)
        else none) ∧
    (∀ n, 1 ≤ n →
      resolveBinary .mul (.mat a r k) (.vec b n) =
        if k = n then some (.vec (wider a b) r, .mat (wider a b) r k, .vec (wider a b) n)
        else none) := by
  refine ⟨fun k' c hk' hc => ?_, fun n hn => ?_⟩
  · rw [resolveBinary_eq_spec_aux _ _ _ (by simp [WF, hr, hk]) (by simp [WF, hk', hc])]
    simp only [binary, classify, shapeOf, resultShape, compOf, resultComp, productShape]
    by_cases h1 : k = k' <;> by_cases h2 : c = 1 <;> simp [build, h1, h2]
  · rw [resolveBinary_eq_spec_aux _ _ _ (by simp [WF, hr, hk]) (by simp [WF, hn])]
    simp only [binary, classify, shapeOf, resultShape, compOf, resultComp, productShape]
    split <;> simp [build]
#print axioms mul_mat_inner

/-- Vector times vector and vector times matrix are rejected (also for 1-component vectors). -/
theorem mul_vec_left_rejected (a : Comp) (n : Nat) (r : Ty) (hr : ¬ r.isScalar) :
    resolveBinary .mul (.vec a n) r = none := by
  cases r <;> simp [Ty.isScalar] at hr <;>
    simp [resolveBinary, isComparison, opValue, Ty.isScalar, Ty.isMat]
#print axioms mul_vec_left_rejected

/-- Accepted combinations yield well-formed types. -/
theorem result_wf (o : BOp) (l r : Ty) (hl : WF l) (hr : WF r) (res lt rt : Ty)
    (h : resolveBinary o l r = some (res, lt, rt)) : WF res ∧ WF lt ∧ WF rt := by
  rw [resolveBinary_eq_spec_aux _ _ _ hl hr] at h
  cases l <;> cases r <;> simp [WF] at hl hr <;> cases o <;>
    simp [binary, classify, shapeOf, resultShape, compOf, resultComp, productShape, build] at h
  all_goals grind [WF]
#print axioms result_wf

/-- Accepted combinations: each operand keeps its own shape and is converted to the common
(wider) component type; the result has that component type, except `int` for comparisons.
(Proved directly on the mirror; no well-formedness hypothesis is needed.) -/
theorem operands_converted (o : BOp) (l r : Ty) (res lt rt : Ty)
    (h : resolveBinary o l r = some (res, lt, rt)) :
    lt = build (wider (compOf l) (compOf r)) (shapeOf l) ∧
    rt = build (wider (compOf l) (compOf r)) (shapeOf r) ∧
    compOf res = (if isComparison o then .int else wider (compOf l) (compOf r)) := by
  cases l <;> cases r <;> cases o <;>
    simp [resolveBinary, isComparison, opValue, Ty.kind, Ty.isMat, Ty.isVec,
      Ty.isScalar, commonPrimitive, commonScalar_eq_wider, mkVec, mkMat, withComp,
      rowsColumns, Ty.comp] at h
  all_goals grind [isComparison, opValue, compOf, shapeOf, build, Spec.wider_self]
#print axioms operands_converted

/-! ## 4. Non-vacuity: concrete instances (all by evaluation) -/

section Examples
open Comp Ty BOp

-- hypotheses of `resolveBinary_eq_spec` are satisfiable, also for a comparison
example : WF (mat float 3 3) ∧ WF (vec float 3) ∧
    ¬ (isComparison mul ∧ (mat float 3 3).isMat ∧ (vec float 3).isMat) := by decide
example : WF (vec int 3) ∧ WF (vec float 3) ∧
    ¬ (isComparison lt ∧ (vec int 3).isMat ∧ (vec float 3).isMat) := by decide
example : WF (mat float 2 2) ∧ WF (mat float 2 2) ∧
    ¬ (isComparison add ∧ (mat float 2 2).isMat ∧ (mat float 2 2).isMat) := by decide
-- hypotheses of the corollaries
example : isComparison ge = true ∧ (scalar int).kind ≠ (vec int 3).kind := by decide
example : isComparison eq = true ∧ (mat float 2 2).isMat = true := by decide
example : mod ∈ additiveOps ∧ WF (mat int 2 3) ∧ WF (mat uint 2 3) ∧
    shapeOf (mat int 2 3) = shapeOf (mat uint 2 3) := by decide
example : land ∈ additiveOps ∧ WF (vec int 2) ∧ WF (vec int 3) ∧
    shapeOf (vec int 2) ≠ shapeOf (vec int 3) := by decide
example : ¬ (vec float 3).isScalar := by decide

-- float3x3 * float3 : float3
example : resolveBinary mul (mat float 3 3) (vec float 3) =
    some (vec float 3, mat float 3 3, vec float 3) := rfl
-- int2x3 * float3x4 : float2x4, operands converted to float
example : resolveBinary mul (mat int 2 3) (mat float 3 4) =
    some (mat float 2 4, mat float 2 3, mat float 3 4) := rfl
-- a one-column product is a vector: float3x3 * float3x1 : float3
example : resolveBinary mul (mat float 3 3) (mat float 3 1) =
    some (vec float 3, mat float 3 3, mat float 3 1) := rfl
-- inner dimensions disagree
example : resolveBinary mul (mat float 3 4) (vec float 3) = none := rfl
example : resolveBinary mul (mat float 2 3) (mat float 2 3) = none := rfl
-- never vector * vector, vector * matrix (also 1-component)
example : resolveBinary mul (vec float 3) (vec float 3) = none := rfl
example : resolveBinary mul (vec float 1) (vec float 1) = none := rfl
example : resolveBinary mul (vec float 3) (mat float 3 3) = none := rfl
example : resolveBinary mul (vec float 1) (mat float 1 3) = none := rfl
-- scalar on either side of *
example : resolveBinary mul (scalar int) (mat float 3 4) =
    some (mat float 3 4, scalar float, mat float 3 4) := rfl
example : resolveBinary mul (vec uint 7) (scalar int) =
    some (vec int 7, vec int 7, scalar int) := rfl
-- int2 + float2 : float2
example : resolveBinary add (vec int 2) (vec float 2) =
    some (vec float 2, vec float 2, vec float 2) := rfl
example : resolveBinary lor (mat uint 2 2) (mat int 2 2) =
    some (mat int 2 2, mat int 2 2, mat int 2 2) := rfl
example : resolveBinary add (vec int 2) (vec int 3) = none := rfl
example : resolveBinary sub (scalar float) (vec float 3) = none := rfl
example : resolveBinary mod (vec float 1) (scalar float) = none := rfl
example : resolveBinary add (mat float 2 3) (mat float 3 2) = none := rfl
-- float4 / int : float4
example : resolveBinary div (vec float 4) (scalar int) =
    some (vec float 4, vec float 4, scalar float) := rfl
example : resolveBinary div (mat int 2 3) (scalar uint) =
    some (mat int 2 3, mat int 2 3, scalar int) := rfl
example : resolveBinary div (scalar float) (vec float 3) = none := rfl
example : resolveBinary div (vec float 3) (vec float 3) = none := rfl
-- int3 < float3 : int3, operands compared as float3
example : resolveBinary lt (vec int 3) (vec float 3) =
    some (vec int 3, vec float 3, vec float 3) := rfl
example : resolveBinary eq (vec float 3) (vec float 4) = none := rfl
example : resolveBinary ne (mat float 3 3) (mat float 3 3) = none := rfl
example : resolveBinary le (scalar float) (vec float 1) = none := rfl
-- uint + int : int ; `>` is a comparison (value 200, the boundary of `IsComparison`)
example : resolveBinary add (scalar uint) (scalar int) =
    some (scalar int, scalar int, scalar int) := rfl
example : resolveBinary gt (scalar uint) (scalar float) =
    some (scalar int, scalar float, scalar float) := rfl
example : resolveBinary gt (vec float 2) (vec float 2) =
    some (vec int 2, vec float 2, vec float 2) := rfl
example : resolveBinary land (scalar uint) (scalar uint) =
    some (scalar uint, scalar uint, scalar uint) := rfl
-- the specification gives the same answers
example : Spec.binary mul (mat float 3 3) (vec float 3) =
    some (vec float 3, mat float 3 3, vec float 3) := rfl
example : Spec.binary mul (vec float 3) (vec float 3) = none := rfl
-- big sizes are covered too
example : resolveBinary mul (mat float 100 70) (mat int 70 9) =
    some (mat float 100 9, mat float 100 70, mat float 70 9) := by decide

end Examples

end Nsl.Types
