import Nsl.Proofs.LowerLocal3
import Nsl.Props.C01
import Nsl.Props.C02
/-!
# The lowering model only produces block-local, single-definition, forwardable code (scalar core)

For every module `M` of the scalar core, every function of `Lower.lowerModule M` satisfies the side conditions `optOK`
under which the optimiser model is proved correct (`C02_opt_correct`):
* `lower_defsDistinct` – every reference is defined by at most one instruction   (needs `ScalarCore M` only);
* `lower_blockLocal`   – every use is preceded by its definition in the same basic block (needs `ScalarCore M` only);
* `lower_forwardOK`    – store/load forwarding is scope-correct and never forwards an aggregate alias; needs in addition
  the DECIDABLE hypothesis `NoShadow M` (`Nsl/Proofs/LowerLocal3.lean`): inside one function no variable key is accessed
  under two different scopes.  `ScalarCore` alone is not enough: `LowerOKEx.shadow_not_forwardOK`.
Composition with C01 and C02: `C01_opt_compile_correct` — the OPTIMISING compiler model is correct on the scalar core.

Proofs: `Nsl/Proofs/LowerLocal1.lean` (combinators, expressions), `LowerLocal2.lean` (statements),
`LowerLocal3.lean` (`forwardOK`).  Notes: `LOWER_NOTES.md`.
-/
namespace Nsl
open Core VM Lower Opt

theorem lower_defsDistinct (M : Core.Module) (hM : ScalarCore M)
    (f : Func) (hf : f ∈ (Lower.lowerModule M).funcs) : defsDistinct f.code = true := by
  obtain ⟨fd, hfd, rfl⟩ := List.mem_map.1 hf
  exact lowerFn_defsDistinct fd (hM fd hfd)

#print axioms lower_defsDistinct

theorem lower_blockLocal (M : Core.Module) (hM : ScalarCore M)
    (f : Func) (hf : f ∈ (Lower.lowerModule M).funcs) : blockLocal [] f.code = true := by
  obtain ⟨fd, hfd, rfl⟩ := List.mem_map.1 hf
  exact lowerFn_blockLocal fd (hM fd hfd)

#print axioms lower_blockLocal

theorem lower_forwardOK (M : Core.Module) (hM : ScalarCore M) (hS : NoShadow M)
    (f : Func) (hf : f ∈ (Lower.lowerModule M).funcs) : forwardOK none (pass ccDecide f.code) = true := by
  obtain ⟨fd, hfd, rfl⟩ := List.mem_map.1 hf
  exact lowerFn_forwardOK fd (hM fd hfd) (hS fd hfd)

#print axioms lower_forwardOK

theorem lower_optOK (M : Core.Module) (hM : ScalarCore M) (hS : NoShadow M)
    (f : Func) (hf : f ∈ (Lower.lowerModule M).funcs) : optOK f = true := by
  obtain ⟨fd, hfd, rfl⟩ := List.mem_map.1 hf
  exact lowerFn_optOK fd (hM fd hfd) (hS fd hfd)

#print axioms lower_optOK

/-- The optimising compiler is correct on the scalar core: hypotheses of `C01_compile_correct` plus `NoShadow M`;
the conclusion is that of `C01_compile_correct` with `lowerModule M` replaced by `optProgram (lowerModule M)`. -/
theorem C01_opt_compile_correct (M : Core.Module) (hM : ScalarCore M) (hS : NoShadow M)
    (fuel : Nat) (name : String) (args : List Val) (g : Globals) (v : Val) (g' : Globals) (as : List Val)
    (hargs : HostVals args) (hg : HostGlobals g)
    (href : CoreSem.invoke M fuel name args g = .done v g' as) :
    ∃ fuel', VM.invoke (Opt.optProgram (Lower.lowerModule M)) fuel' name args g = .done v g' as := by
  obtain ⟨fuel', h⟩ := C01_compile_correct M hM fuel name args g v g' as hargs hg href
  exact ⟨fuel', C02_opt_correct (lowerModule M) (lower_optOK M hM hS) fuel' name args g v g' as h⟩

#print axioms C01_opt_compile_correct

/-- The same in the shape of `C01_Statement`, for the domain `ScalarCore ∧ NoShadow` and the optimised program. -/
theorem C01_opt_statement :
    ∀ (M : Core.Module), ScalarCore M ∧ NoShadow M →
    ∀ (fuel : Nat) (name : String) (args : List Val) (g : Globals) (v : Val) (g' : Globals) (as : List Val),
      HostVals args → HostGlobals g →
      CoreSem.invoke M fuel name args g = .done v g' as →
      ∃ fuel', VM.invoke (Opt.optProgram (lowerModule M)) fuel' name args g = .done v g' as :=
  fun M hM fuel name args g v g' as ha hg href =>
    C01_opt_compile_correct M hM.1 hM.2 fuel name args g v g' as ha hg href

#print axioms C01_opt_statement

/-! ## Instances -/
namespace LowerOKEx
open C01Ex

/-- The module of `C01Ex` (all three loop forms, break/continue, recursion, a global) has no shadowing. -/
theorem noShadow : NoShadow C01Ex.M := by
  intro fn hfn
  simp only [C01Ex.M, List.mem_cons, List.mem_nil_iff, or_false] at hfn
  rcases hfn with rfl | rfl <;> decide

/-- Hence, by the theorems (not by evaluation), both lowered functions satisfy the three conditions … -/
example : ∀ f ∈ (lowerModule C01Ex.M).funcs,
    defsDistinct f.code = true ∧ blockLocal [] f.code = true ∧ forwardOK none (pass ccDecide f.code) = true ∧
      optOK f = true :=
  fun f hf => ⟨lower_defsDistinct _ C01Ex.scalarCore f hf, lower_blockLocal _ C01Ex.scalarCore f hf,
    lower_forwardOK _ C01Ex.scalarCore noShadow f hf, lower_optOK _ C01Ex.scalarCore noShadow f hf⟩

/-- … and the OPTIMISED lowered program returns 13 and leaves g = 16 on `f(5)`. -/
example : ∃ fuel' as, VM.invoke (optProgram (lowerModule C01Ex.M)) fuel' "f" [.int 5] [("g", .int 10)] =
    .done (.int 13) [("g", .int 16)] as := by
  obtain ⟨fuel', h'⟩ := C01_opt_compile_correct C01Ex.M C01Ex.scalarCore noShadow 200 "f" [.int 5] [("g", .int 10)]
    _ _ _
    (by intro a ha; simp at ha; subst ha; rfl)
    (by intro n x hx; simp [Map.get] at hx; obtain ⟨_, rfl⟩ := hx; rfl)
    C01Ex.ref_run
  exact ⟨fuel', _, h'⟩

/-! ### A small function whose lowered code is optimised

`function demo(int n) -> int { int x = n; return x + 1; }` -/
def demo : FnDef := ⟨"demo", [("n", i32)], i32,
  .seq (.decl "x" i32 (some (va 0))) (.ret (some (b .add (vl "x") (.litI 1))))⟩

def Mdemo : Core.Module := ⟨[], [demo]⟩

theorem demo_code : (lowerFn demo).code =
    [.newVar 0 i32 "x", .load 1 i32 .arg (.index 0), .store .local (.name "x") (.ref 1),
     .load 3 i32 .local (.name "x"), .bin 4 (.s .add) i32 (.ref 3) (.cInt 1), .ret (some (.ref 4))] := by
  simp [lowerFn, demo, lowerS, lowerE, mkBin, fromOperation, Expr.ty, ITy.isMatrix, ITy.isScalar, va, vl, b, i32,
    BOp.toSOp]

theorem demo_ok : ScalarCore Mdemo ∧ NoShadow Mdemo := by
  constructor <;>
  · intro fn hfn
    simp only [Mdemo, List.mem_cons, List.mem_nil_iff, or_false] at hfn
    subst hfn; decide

/-- by the theorem -/
example : optOK (lowerFn demo) = true :=
  lower_optOK Mdemo demo_ok.1 demo_ok.2 _ (by simp [lowerModule, Mdemo])

/-- by evaluation of the checker on the concrete code -/
example : optOK (lowerFn demo) = true := by
  simp only [optOK, demo_code]; rfl

/-- the load after the store is forwarded -/
example : (optFn (lowerFn demo)).code =
    [.newVar 0 i32 "x", .load 1 i32 .arg (.index 0), .store .local (.name "x") (.ref 1),
     .bin 4 (.s .add) i32 (.ref 1) (.cInt 1), .ret (some (.ref 4))] := by
  simp only [optFn, demo_code]; rfl

/-! ### `NoShadow` is needed for `forwardOK`

`function shadow() -> int { x = 1; return ::x; }` with the first `x` resolved to a local and the second to the global
of the same name: in the scalar core, block-local and single-definition, but the store is directly followed by a load
of the same key in another scope. -/
def shadow : FnDef := ⟨"shadow", [], i32,
  .seq (.expr (.assign (vl "x") (.litI 1))) (.ret (some (vg "x")))⟩

def Mshadow : Core.Module := ⟨[("x", i32)], [shadow]⟩

theorem shadow_scalarCore : ScalarCore Mshadow := by
  intro fn hfn
  simp only [Mshadow, List.mem_cons, List.mem_nil_iff, or_false] at hfn
  subst hfn; rfl

theorem shadow_code : (lowerFn shadow).code =
    [.store .local (.name "x") (.cInt 1), .load 1 i32 .global (.name "x"), .ret (some (.ref 1))] := by
  simp [lowerFn, shadow, lowerS, lowerE, lowerStore, vl, vg, i32]

theorem shadow_not_forwardOK :
    ScalarCore Mshadow ∧ ¬ NoShadow Mshadow ∧
    ∃ f ∈ (lowerModule Mshadow).funcs, defsDistinct f.code = true ∧ blockLocal [] f.code = true ∧
      forwardOK none (pass ccDecide f.code) = false ∧ optOK f = false := by
  refine ⟨shadow_scalarCore, ?_, lowerFn shadow, by simp [lowerModule, Mshadow], ?_⟩
  · intro h
    have := h shadow (by simp [Mshadow])
    revert this; decide
  · refine ⟨lower_defsDistinct _ shadow_scalarCore _ (by simp [lowerModule, Mshadow]),
      lower_blockLocal _ shadow_scalarCore _ (by simp [lowerModule, Mshadow]), ?_, ?_⟩
    · rw [shadow_code]; rfl
    · simp only [optOK, shadow_code]; rfl

#print axioms shadow_not_forwardOK

end LowerOKEx

end Nsl
