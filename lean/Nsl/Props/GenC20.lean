import Nsl.Gen.LocIdx
/-!
# C20 table obligation: the token whose position becomes a node's location

Regenerated tables (`harness/extract.py`) are checked by `decide`; a change to the table in the Python
breaks the build of this file, and the check then searches for a failing input (DESIGN.md §2.3).
-/
namespace Nsl.GenObl
open Nsl.Gen

/-! ## C20: the token whose position becomes a node's location -/

/-- In every parser action that sets a location from a token, that token is the identifier or
literal the node stands for. -/
theorem c20_location_token :
    ∀ s ∈ LocIdx.sites,
      s.2.2.2.2.2 ∈ ["ID", "INT_CONST_DEC", "INT_CONST_OCT", "INT_CONST_HEX", "FLOAT_CONST"] := by
  decide

end Nsl.GenObl

#print axioms Nsl.GenObl.c20_location_token
