import Nsl.Proofs.LowerWF2
import Nsl.Proofs.LowerWF3
import Nsl.Proofs.LowerWF4
import Nsl.Props.LowerOK
import Nsl.Props.C14Opt
import Nsl.Props.C01Storage
/-!
# C14 completed for the scalar and the storage core: the lowering model only produces WELL-FORMED IR

`Opt.wfChecks` has five conjuncts.  `lower_defsDistinct` / `lower_blockLocal` (`Props/LowerOK.lean`) are two of them;
here are the other three for every function of `Lower.lowerModule M`:
* `lower_labelsDistinct` – no two markers carry the same label;
* `lower_targetsOK`      – every branch target is a marker of the same function;
* `lower_callsOK`        – every call names a function of the lowered program with the right number of arguments,
  under the DECIDABLE hypothesis `Core.callsResolve M` on the typed core (what overload resolution guarantees).
Assembly: `lower_wfChecks`, `C14_lowered_wf` (via `wf_of_checks`) and `C14_lowered_optimised_wf`
(via `C14_opt_preserves_checks`; neither `forwardOK` nor `NoShadow` is needed for well-formedness):
every IR module the compiler model produces for a scalar-core program, at either optimisation level, is `WF` — for
ALL programs.  The same three theorems for the storage core (local arrays and structs): `…_storageH`.

`labelsDistinct`, `targetsOK` and `callsOK` do not depend on the scalar/storage restriction at all:
`lower_labelsDistinct_general` (no hypothesis), `lower_targetsOK_general`, `lower_callsOK_general` hold for EVERY module
of the typed core (vectors, matrices, swizzles, constructors included) in which `break`/`continue` occur inside loops
only (`FlowOK`, property C11) and — for `callsOK` — calls resolve.  Only `defsDistinct`/`blockLocal` use the restriction.

Proofs: `Nsl/Proofs/LowerWF1.lean` (expression code, all expression forms), `LowerWF2.lean` (statements, functions),
`LowerWF3.lean` (`defsDistinct`/`blockLocal` for the storage core), `LowerWF4.lean` (monotone counter and distinct labels
for all expression/statement forms).  Notes: `LOWERWF_NOTES.md`.
-/
namespace Nsl
open Core VM Lower Opt

/-! ## 1. Scalar core: the three remaining conditions -/

theorem lower_labelsDistinct (M : Core.Module) (hM : ScalarCore M)
    (f : Func) (hf : f ∈ (Lower.lowerModule M).funcs) : labelsDistinct f.code = true := by
  obtain ⟨fd, hfd, rfl⟩ := List.mem_map.1 hf
  exact lowerFn_labelsDistinct fd (hM fd hfd)

#print axioms lower_labelsDistinct

theorem lower_targetsOK (M : Core.Module) (hM : ScalarCore M)
    (f : Func) (hf : f ∈ (Lower.lowerModule M).funcs) : targetsOK f.code = true := by
  obtain ⟨fd, hfd, rfl⟩ := List.mem_map.1 hf
  exact lowerFn_targetsOK_anySig fd (okS_flowS fd.body false (hM fd hfd))

#print axioms lower_targetsOK

theorem lower_callsOK (M : Core.Module) (hM : ScalarCore M) (hC : Core.callsResolve M = true)
    (f : Func) (hf : f ∈ (Lower.lowerModule M).funcs) : callsOK f (Lower.lowerModule M) = true := by
  obtain ⟨fd, hfd, rfl⟩ := List.mem_map.1 hf
  exact lowerFn_callsOK M fd (okS_flowS fd.body false (hM fd hfd)) (callsResolve_fn hC hfd)

#print axioms lower_callsOK

/-! ## 2. Assembly -/

theorem lower_wfChecks (M : Core.Module) (hM : ScalarCore M) (hC : Core.callsResolve M = true)
    (f : Func) (hf : f ∈ (Lower.lowerModule M).funcs) : wfChecks f (Lower.lowerModule M) = true := by
  simp only [wfChecks, Bool.and_eq_true]
  exact ⟨⟨⟨⟨lower_blockLocal M hM f hf, lower_defsDistinct M hM f hf⟩, lower_labelsDistinct M hM f hf⟩,
    lower_targetsOK M hM f hf⟩, lower_callsOK M hM hC f hf⟩

#print axioms lower_wfChecks

/-- Every function of the lowered module is well-formed (declarative `WF`: unique definitions, unique labels, branch
targets exist, calls resolve with the right arity, definition before use on ALL control-flow paths). -/
theorem C14_lowered_wf (M : Core.Module) (hM : ScalarCore M) (hC : Core.callsResolve M = true)
    (f : Func) (hf : f ∈ (Lower.lowerModule M).funcs) : WF.WF f (Lower.lowerModule M) :=
  wf_of_checks f (Lower.lowerModule M) (lower_wfChecks M hM hC f hf)

#print axioms C14_lowered_wf

/-- … and so is every function of the OPTIMISED lowered module. -/
theorem C14_lowered_optimised_wf (M : Core.Module) (hM : ScalarCore M) (hC : Core.callsResolve M = true) :
    ∀ f' ∈ (Opt.optProgram (Lower.lowerModule M)).funcs, WF.WF f' (Opt.optProgram (Lower.lowerModule M)) := by
  intro f' hf'
  obtain ⟨f, hf, rfl⟩ := List.mem_map.1 hf'
  exact wf_of_checks _ _ (C14_opt_preserves_checks (Lower.lowerModule M) f (lower_wfChecks M hM hC f hf))

#print axioms C14_lowered_optimised_wf

/-- Both optimisation levels in one statement, in the shape "for ALL programs of the domain". -/
theorem C14_statement :
    ∀ (M : Core.Module), ScalarCore M → Core.callsResolve M = true →
      (∀ f ∈ (lowerModule M).funcs, WF.WF f (lowerModule M)) ∧
      (∀ f' ∈ (optProgram (lowerModule M)).funcs, WF.WF f' (optProgram (lowerModule M))) :=
  fun M hM hC => ⟨C14_lowered_wf M hM hC, C14_lowered_optimised_wf M hM hC⟩

#print axioms C14_statement

/-! ## 3. Labels, branch targets and calls for EVERY module of the typed core -/

/-- No hypothesis at all: the single counter makes the labels of every lowered function pairwise distinct. -/
theorem lower_labelsDistinct_general (M : Core.Module)
    (f : Func) (hf : f ∈ (Lower.lowerModule M).funcs) : labelsDistinct f.code = true := by
  obtain ⟨fd, _, rfl⟩ := List.mem_map.1 hf
  exact lowerFn_labelsDistinct_general fd

#print axioms lower_labelsDistinct_general

/-- `break`/`continue` occur inside loops only (what `ValidateFlowStatements` checks, property C11). -/
def FlowOK (M : Core.Module) : Prop := ∀ f ∈ M.fns, flowS false f.body = true

instance (M : Core.Module) : Decidable (FlowOK M) := by unfold FlowOK; exact inferInstance

theorem scalarCore_flowOK {M : Core.Module} (h : ScalarCore M) : FlowOK M :=
  fun f hf => okS_flowS f.body false (h f hf)

theorem storageCore_flowOK {M : Core.Module} (h : StorageCore M) : FlowOK M :=
  fun f hf => okSS_flowS (envOf f.body) f.body false (h f hf)

theorem lower_targetsOK_general (M : Core.Module) (hF : FlowOK M)
    (f : Func) (hf : f ∈ (Lower.lowerModule M).funcs) : targetsOK f.code = true := by
  obtain ⟨fd, hfd, rfl⟩ := List.mem_map.1 hf
  exact lowerFn_targetsOK_anySig fd (hF fd hfd)

#print axioms lower_targetsOK_general

theorem lower_callsOK_general (M : Core.Module) (hF : FlowOK M) (hC : Core.callsResolve M = true)
    (f : Func) (hf : f ∈ (Lower.lowerModule M).funcs) : callsOK f (Lower.lowerModule M) = true := by
  obtain ⟨fd, hfd, rfl⟩ := List.mem_map.1 hf
  exact lowerFn_callsOK M fd (hF fd hfd) (callsResolve_fn hC hfd)

#print axioms lower_callsOK_general

/-! ## 4. Storage core (local arrays and structs used as storage) -/

theorem lower_defsDistinct_storageH (M : Core.Module) (hM : StorageCore M)
    (f : Func) (hf : f ∈ (Lower.lowerModule M).funcs) : defsDistinct f.code = true := by
  obtain ⟨fd, hfd, rfl⟩ := List.mem_map.1 hf
  exact lowerFn_defsDistinct_storageH fd (hM fd hfd)

#print axioms lower_defsDistinct_storageH

theorem lower_blockLocal_storageH (M : Core.Module) (hM : StorageCore M)
    (f : Func) (hf : f ∈ (Lower.lowerModule M).funcs) : blockLocal [] f.code = true := by
  obtain ⟨fd, hfd, rfl⟩ := List.mem_map.1 hf
  exact lowerFn_blockLocal_storageH fd (hM fd hfd)

#print axioms lower_blockLocal_storageH

theorem lower_labelsDistinct_storageH (M : Core.Module) (hM : StorageCore M)
    (f : Func) (hf : f ∈ (Lower.lowerModule M).funcs) : labelsDistinct f.code = true := by
  obtain ⟨fd, hfd, rfl⟩ := List.mem_map.1 hf
  exact lowerFn_labelsDistinct_storageH fd (hM fd hfd)

#print axioms lower_labelsDistinct_storageH

theorem lower_targetsOK_storageH (M : Core.Module) (hM : StorageCore M)
    (f : Func) (hf : f ∈ (Lower.lowerModule M).funcs) : targetsOK f.code = true :=
  lower_targetsOK_general M (storageCore_flowOK hM) f hf

#print axioms lower_targetsOK_storageH

theorem lower_callsOK_storageH (M : Core.Module) (hM : StorageCore M) (hC : Core.callsResolve M = true)
    (f : Func) (hf : f ∈ (Lower.lowerModule M).funcs) : callsOK f (Lower.lowerModule M) = true :=
  lower_callsOK_general M (storageCore_flowOK hM) hC f hf

#print axioms lower_callsOK_storageH

theorem lower_wfChecks_storageH (M : Core.Module) (hM : StorageCore M) (hC : Core.callsResolve M = true)
    (f : Func) (hf : f ∈ (Lower.lowerModule M).funcs) : wfChecks f (Lower.lowerModule M) = true := by
  simp only [wfChecks, Bool.and_eq_true]
  exact ⟨⟨⟨⟨lower_blockLocal_storageH M hM f hf, lower_defsDistinct_storageH M hM f hf⟩,
    lower_labelsDistinct_storageH M hM f hf⟩, lower_targetsOK_storageH M hM f hf⟩, lower_callsOK_storageH M hM hC f hf⟩

#print axioms lower_wfChecks_storageH

theorem C14_lowered_wf_storageH (M : Core.Module) (hM : StorageCore M) (hC : Core.callsResolve M = true)
    (f : Func) (hf : f ∈ (Lower.lowerModule M).funcs) : WF.WF f (Lower.lowerModule M) :=
  wf_of_checks f (Lower.lowerModule M) (lower_wfChecks_storageH M hM hC f hf)

#print axioms C14_lowered_wf_storageH

theorem C14_lowered_optimised_wf_storageH (M : Core.Module) (hM : StorageCore M) (hC : Core.callsResolve M = true) :
    ∀ f' ∈ (Opt.optProgram (Lower.lowerModule M)).funcs, WF.WF f' (Opt.optProgram (Lower.lowerModule M)) := by
  intro f' hf'
  obtain ⟨f, hf, rfl⟩ := List.mem_map.1 hf'
  exact wf_of_checks _ _ (C14_opt_preserves_checks (Lower.lowerModule M) f (lower_wfChecks_storageH M hM hC f hf))

#print axioms C14_lowered_optimised_wf_storageH

/-- The scalar-core theorem is an instance of the storage-core theorem. -/
example (M : Core.Module) (hM : ScalarCore M) (hC : Core.callsResolve M = true) :
    ∀ f ∈ (lowerModule M).funcs, WF.WF f (lowerModule M) :=
  C14_lowered_wf_storageH M (scalarCore_storageCore hM) hC

/-! ## 5. Instances -/
namespace LowerWFEx

/-- `C01Ex.M` (three loop forms, break/continue, a recursive call, a call from `f` to `fact`, a global):
every call resolves — decided by evaluation of the checker on the TYPED CORE, not on the lowered code. -/
theorem callsResolve_M : Core.callsResolve C01Ex.M = true := by decide

/-- Hence, by the theorems, both lowered functions pass all five checks and are `WF` … -/
example : ∀ f ∈ (lowerModule C01Ex.M).funcs, wfChecks f (lowerModule C01Ex.M) = true :=
  lower_wfChecks _ C01Ex.scalarCore callsResolve_M

theorem M_wf : ∀ f ∈ (lowerModule C01Ex.M).funcs, WF.WF f (lowerModule C01Ex.M) :=
  C14_lowered_wf _ C01Ex.scalarCore callsResolve_M

/-- … and so are the optimised ones (no `NoShadow` hypothesis here). -/
theorem M_opt_wf : ∀ f' ∈ (optProgram (lowerModule C01Ex.M)).funcs, WF.WF f' (optProgram (lowerModule C01Ex.M)) :=
  C14_lowered_optimised_wf _ C01Ex.scalarCore callsResolve_M

#print axioms M_wf
#print axioms M_opt_wf

/-- Concretely for the lowered `f` (a member of the lowered module by `rfl`-level list membership). -/
example : WF.WF (lowerFn C01Ex.f) (lowerModule C01Ex.M) :=
  M_wf _ (by simp [lowerModule, C01Ex.M])

/-- A consequence spelled out: the recursive call inside the lowered `fact` resolves to a function of the lowered
program with one parameter. -/
example (i dst : Nat) (ty : ITy) (g : String) (args : List Opd)
    (h : (lowerFn C01Ex.fact).code[i]? = some (.call dst ty g args)) :
    ∃ callee, (lowerModule C01Ex.M).find g = some callee ∧ callee.params.length = args.length :=
  (M_wf (lowerFn C01Ex.fact) (by simp [lowerModule, C01Ex.M])).callsResolve i dst ty g args h

/-- Cross-check: the lowered code of `fact` made explicit (label markers 2, 3; the recursive call `%7`), and the
Boolean checker evaluated on it agrees with the theorem. -/
theorem fact_code : (lowerFn C01Ex.fact).code =
    [.load 0 C01Ex.i32 .arg (.index 0), .bin 1 (.s .le) C01Ex.i32 (.ref 0) (.cInt 1), .brc (.ref 1) 2 3, .label 2,
     .ret (some (.cInt 1)), .label 3,
     .load 5 C01Ex.i32 .arg (.index 0), .bin 6 (.s .sub) C01Ex.i32 (.ref 5) (.cInt 1),
     .call 7 C01Ex.i32 "fact" [.ref 6],
     .load 8 C01Ex.i32 .arg (.index 0), .bin 9 (.s .mul) C01Ex.i32 (.ref 7) (.ref 8), .ret (some (.ref 9))] := by
  simp [lowerFn, C01Ex.fact, lowerS, lowerE, lowerArgs, mkBin, fromOperation, Expr.ty, ITy.isMatrix, ITy.isScalar,
    C01Ex.va, C01Ex.b, C01Ex.i32, BOp.toSOp]

example : wfChecks (lowerFn C01Ex.fact) (lowerModule C01Ex.M) = true := by
  simp only [wfChecks, callsOK, fact_code]; decide

/-- The storage-core example (`int a[2][3]; P s; P ps[2];`, nested loops writing elements and fields). -/
theorem callsResolve_stor : Core.callsResolve C01StorEx.M = true := by decide

theorem stor_wf : ∀ f ∈ (lowerModule C01StorEx.M).funcs, WF.WF f (lowerModule C01StorEx.M) :=
  C14_lowered_wf_storageH _ C01StorEx.storageCore callsResolve_stor

theorem stor_opt_wf : ∀ f' ∈ (optProgram (lowerModule C01StorEx.M)).funcs,
    WF.WF f' (optProgram (lowerModule C01StorEx.M)) :=
  C14_lowered_optimised_wf_storageH _ C01StorEx.storageCore callsResolve_stor

#print axioms stor_wf

/-! ### Outside both cores: vectors, a swizzle store, a constructor, a call, `break` in a `while` -/

def v2 : ITy := .vec .float 2
def v3 : ITy := .vec .float 3
/-- `function one() -> float { return 1.0; }` -/
def one : FnDef := ⟨"one", [], .sc .float, .ret (some (.litF 1.0))⟩
/-- `function gen() { float3 v; while (1) { v.xy = float2(1.0, one()); break; } }` -/
def gen : FnDef := ⟨"gen", [], .void,
  .seq (.decl "v" v3 none)
    (.whileL (.litI 1)
      (.seq (.expr (.assign (.swizzle v2 (.var .local (.name "v") v3) [0, 1])
                (.construct v2 (.cons (.litF 1.0) (.cons (.call "one" (.sc .float) .nil) .nil)))))
            .brk))⟩
def Mgen : Core.Module := ⟨[], [one, gen]⟩

/-- Not in the storage core (hence not in the scalar core), yet three of the five conditions hold by the theorems. -/
theorem gen_general : ¬ StorageCore Mgen ∧
    ∀ f ∈ (lowerModule Mgen).funcs,
      labelsDistinct f.code = true ∧ targetsOK f.code = true ∧ callsOK f (lowerModule Mgen) = true := by
  have hF : FlowOK Mgen := by decide
  have hC : Core.callsResolve Mgen = true := by decide
  exact ⟨by decide, fun f hf => ⟨lower_labelsDistinct_general Mgen f hf, lower_targetsOK_general Mgen hF f hf,
    lower_callsOK_general Mgen hF hC f hf⟩⟩

#print axioms gen_general

/-! ### The hypotheses are needed -/

/-- `function h() -> int { return k(1, 2); }` with `function k(int a) -> int { return a; }`: wrong number of
arguments.  In the scalar core, but `callsResolve` rejects it, and indeed the lowered code fails `callsOK`. -/
def kFn : FnDef := ⟨"k", [("a", C01Ex.i32)], C01Ex.i32, .ret (some (C01Ex.va 0))⟩
def hBad : FnDef := ⟨"h", [], C01Ex.i32, .ret (some (.call "k" C01Ex.i32 (.cons (.litI 1) (.cons (.litI 2) .nil))))⟩
def badArity : Core.Module := ⟨[], [kFn, hBad]⟩

theorem hBad_code : (lowerFn hBad).code = [.call 0 C01Ex.i32 "k" [.cInt 1, .cInt 2], .ret (some (.ref 0))] := by
  simp [lowerFn, hBad, lowerS, lowerE, lowerArgs]

theorem badArity_rejected :
    ScalarCore badArity ∧ Core.callsResolve badArity = false ∧
    ∃ f ∈ (lowerModule badArity).funcs, callsOK f (lowerModule badArity) = false := by
  refine ⟨by decide, by decide, lowerFn hBad, by simp [lowerModule, badArity], ?_⟩
  simp only [callsOK, hBad_code]; decide

/-- A call of an unknown function. -/
def hNope : FnDef := ⟨"h", [], C01Ex.i32, .ret (some (.call "nope" C01Ex.i32 .nil))⟩
def badName : Core.Module := ⟨[], [hNope]⟩

theorem hNope_code : (lowerFn hNope).code = [.call 0 C01Ex.i32 "nope" [], .ret (some (.ref 0))] := by
  simp [lowerFn, hNope, lowerS, lowerE, lowerArgs]

theorem badName_rejected :
    ScalarCore badName ∧ Core.callsResolve badName = false ∧
    ∃ f ∈ (lowerModule badName).funcs, callsOK f (lowerModule badName) = false := by
  refine ⟨by decide, by decide, lowerFn hNope, by simp [lowerModule, badName], ?_⟩
  simp only [callsOK, hNope_code]; decide

/-- `break` outside a loop (excluded by `ScalarCore`/`StorageCore`/`FlowOK`): the lowering emits `br 0` and no marker
`0`, so `targetsOK` fails — the flow hypothesis of `lower_targetsOK_general` is needed. -/
def hBrk : FnDef := ⟨"h", [], .void, .brk⟩
def strayBreak : Core.Module := ⟨[], [hBrk]⟩

theorem hBrk_code : (lowerFn hBrk).code = [.br 0] := by
  simp [lowerFn, hBrk, lowerS]

theorem strayBreak_rejected :
    ¬ FlowOK strayBreak ∧ ¬ ScalarCore strayBreak ∧
    ∃ f ∈ (lowerModule strayBreak).funcs, targetsOK f.code = false := by
  refine ⟨by decide, by decide, lowerFn hBrk, by simp [lowerModule, strayBreak], ?_⟩
  rw [hBrk_code]; decide

#print axioms badArity_rejected
#print axioms badName_rejected
#print axioms strayBreak_rejected

end LowerWFEx

end Nsl
