import Nsl.Proofs.SimMain
/-!
# C01 – compiled programs compute what the source says (scalar core, VM)

`CoreSem` is the reference semantics of the typed core (C-like: left-to-right evaluation, static types decide
int/float arithmetic, int division truncating toward zero, comparisons and logic yield 0/1, a declaration
zero-initialises each time it executes, `break` leaves and `continue` re-tests the innermost loop with the `for`
increment still run, a call binds its evaluated arguments in a fresh frame).  `Lower.lowerModule` is the model of
`LowerToIR` + `RewriteFunctionArgAccess`, `VM.invoke` the model of `ExecutionContext.Invoke`.

`C01_compile_correct`: for EVERY module of the scalar core (any nesting of expressions, blocks, branches, the three
loop forms with break/continue, calls incl. recursion), every exported or internal function, all argument values and
initial globals: if the reference semantics returns `v` leaving globals `g'` (which entails that the run stayed inside
the stated domain: no division by zero, …), then the VM running the lowered module returns the same value, the same
globals and the same final argument list.  Proved by induction on the fuel of the reference run (`Sim.sim_all`).

Stage 1 of DESIGN §5: local arrays and structs used as storage are outside `ScalarCore`; for them the statement
`C01_Statement` below is tied to the implementation by the behavioural correspondence only.
-/
namespace Nsl
open Core VM Lower

/-- Host-supplied values are plain Python values, never the model's internal aliases. -/
def HostVals (args : List Val) : Prop := ∀ a ∈ args, VM.Val.isPtr a = false
def HostGlobals (g : Globals) : Prop := ∀ n x, Map.get g n = some x → VM.Val.isPtr x = false

/-- The full statement (any module of the typed core the front end produces). -/
def C01_Statement (Domain : Core.Module → Prop) : Prop :=
  ∀ (M : Core.Module), Domain M →
  ∀ (fuel : Nat) (name : String) (args : List Val) (g : Globals) (v : Val) (g' : Globals) (as : List Val),
    HostVals args → HostGlobals g →
    CoreSem.invoke M fuel name args g = .done v g' as →
    ∃ fuel', VM.invoke (lowerModule M) fuel' name args g = .done v g' as

theorem C01_compile_correct : C01_Statement ScalarCore := by
  intro M hM fuel name args g v g' as hargs hg href
  obtain ⟨_, _, _, hC⟩ := Sim.sim_all M hM fuel
  obtain ⟨D, hD, _, _⟩ := hC name args g v g' as href hargs hg
  refine ⟨D, ?_⟩
  have : VM.invoke (lowerModule M) D name args g = callD (lowerModule M) D name args g := rfl
  rw [this]; exact hD

#print axioms C01_compile_correct

/-- The result does not depend on how much fuel the VM is given beyond what it needs. -/
theorem C01_fuel_irrelevant (P : Program) (f f' : Nat) (name : String) (args : List Val) (g : Globals)
    (v : Val) (g' : Globals) (as : List Val)
    (h : VM.invoke P f name args g = .done v g' as) (hle : f ≤ f') :
    VM.invoke P f' name args g = .done v g' as := by
  unfold VM.invoke at h ⊢
  cases hf : P.find name with
  | none => simp [hf] at h
  | some fn =>
    simp only [hf] at h ⊢
    exact run_mono P _ _ _ _ _ _ _ _ h f' hle

#print axioms C01_fuel_irrelevant

/-- Globals stay plain values: what a later invocation or `GetGlobal` sees is never an alias. -/
theorem C01_globals_plain (M : Core.Module) (hM : ScalarCore M) (fuel : Nat) (name : String) (args : List Val)
    (g : Globals) (v : Val) (g' : Globals) (as : List Val) (hargs : HostVals args) (hg : HostGlobals g)
    (href : CoreSem.invoke M fuel name args g = .done v g' as) : HostGlobals g' ∧ VM.Val.isPtr v = false := by
  obtain ⟨_, _, _, hC⟩ := Sim.sim_all M hM fuel
  obtain ⟨D, _, hv, hg'⟩ := hC name args g v g' as href hargs hg
  exact ⟨hg', hv⟩

#print axioms C01_globals_plain

/-! ## Non-vacuity: a module with all three loop forms, break/continue, a recursive call, globals -/
namespace C01Ex
def i32 : ITy := .sc .int
def va (i : Nat) : Expr := .var .arg (.index i) i32
def vl (n : String) : Expr := .var .local (.name n) i32
def vg (n : String) : Expr := .var .global (.name n) i32
def b (op : BOp) (l r : Expr) : Expr := .bin op i32 l r

/-- `function fact(int n) -> int { if (n <= 1) return 1; return fact(n - 1) * n; }` -/
def fact : FnDef := ⟨"fact", [("n", i32)], i32,
  .seq (.ite1 (b .le (va 0) (.litI 1)) (.ret (some (.litI 1))))
       (.ret (some (b .mul (.call "fact" i32 (.cons (b .sub (va 0) (.litI 1)) .nil)) (va 0))))⟩

/-- ```
export function f(int n) -> int {
  int s = 0;
  for (int i = 0; i < n; ++i) { if (i == 2) continue; s = s + i; if (s > 100) break; }
  int j = 0;
  while (j < 3) { j = j + 1; g = g + j; }
  do { s = s + 1; } while (s < 0)
  return s + fact(4) / 5;
}``` -/
def f : FnDef := ⟨"f", [("n", i32)], i32,
  .seq (.decl "s" i32 (some (.litI 0)))
  (.seq (.forL (.decl "i" i32 (some (.litI 0))) (some (b .lt (vl "i") (va 0))) (some (.affix false true (vl "i")))
      (.seq (.ite1 (b .eq (vl "i") (.litI 2)) .cont)
      (.seq (.expr (.assign (vl "s") (b .add (vl "s") (vl "i"))))
            (.ite1 (b .gt (vl "s") (.litI 100)) .brk))))
  (.seq (.decl "j" i32 (some (.litI 0)))
  (.seq (.whileL (b .lt (vl "j") (.litI 3))
      (.seq (.expr (.assign (vl "j") (b .add (vl "j") (.litI 1))))
            (.expr (.assign (vg "g") (b .add (vg "g") (vl "j"))))))
  (.seq (.doL (.expr (.assign (vl "s") (b .add (vl "s") (.litI 1)))) (b .lt (vl "s") (.litI 0)))
        (.ret (some (b .add (vl "s") (b .div (.call "fact" i32 (.cons (.litI 4) .nil)) (.litI 5)))))))))⟩

def M : Core.Module := ⟨[("g", i32)], [fact, f]⟩

theorem scalarCore : ScalarCore M := by
  intro fn hfn
  simp only [M, List.mem_cons, List.mem_nil_iff, or_false] at hfn
  rcases hfn with rfl | rfl <;> rfl

/-- The reference run is in the domain: f(5) = (0+1+3+4) + 1 + 24/5 = 13, g = 10 + 1+2+3. -/
theorem ref_run : CoreSem.invoke M 200 "f" [.int 5] [("g", .int 10)] = .done (.int 13) [("g", .int 16)] [.int 5] := by
  rfl

/-- Hence (by the theorem, not by running it) the VM returns 13 and leaves g = 16. -/
example : ∃ fuel' as, VM.invoke (lowerModule M) fuel' "f" [.int 5] [("g", .int 10)] = .done (.int 13) [("g", .int 16)] as := by
  obtain ⟨fuel', h'⟩ := C01_compile_correct M scalarCore 200 "f" [.int 5] [("g", .int 10)] _ _ _
    (by intro a ha; simp at ha; subst ha; rfl)
    (by intro n x hx; simp [Map.get] at hx; obtain ⟨_, rfl⟩ := hx; rfl)
    ref_run
  exact ⟨fuel', _, h'⟩
end C01Ex

end Nsl
