import Nsl.Gen.Grammar
import Nsl.Gen.OpMaps
import Nsl.Gen.Flags
import Nsl.Gen.LocIdx
import Nsl.Model.Lower
import Nsl.Model.Types
/-!
# Obligations over the tables that `harness/extract.py` regenerates from the nsl sources on every run

Each theorem is closed by `decide`; a change to the corresponding table in the Python breaks the
build of this file, and the check then searches for a failing input (DESIGN.md §2.3).
-/
namespace Nsl.GenObl
open Nsl.Gen

/-! ## C08: precedence table and the precedence PLY gives to each binary production -/

/-- 1-based level of a token in `NslParser.precedence` (0 = not in the table). -/
def levelOf (tok : String) : Nat :=
  match Grammar.precedence.findIdx? (fun p => p.2.contains tok) with
  | some i => i + 1
  | none => 0

/-- The language's six levels, loosest first (property C08). -/
def groups : List (List String) :=
  [["LOR"], ["LAND"], ["EQ", "NE"], ["LT", "LE", "GT", "GE"], ["PLUS", "MINUS"], ["TIMES", "DIVIDE", "MOD"]]

def binTokens : List String := groups.flatten

def spellingOf (tok : String) : String :=
  ((Grammar.spelling.find? (fun p => p.1 == tok)).map (·.2)).getD ""

theorem c08_spelling :
    binTokens.map spellingOf = ["||", "&&", "==", "!=", "<", "<=", ">", ">=", "+", "-", "*", "/", "%"] := by
  decide

/-- Tokens of one group share a level; groups are strictly ordered, loosest first. -/
theorem c08_levels_ordered :
    (groups.map fun gr => gr.map levelOf) = [[1], [2], [6, 6], [7, 7, 7, 7], [9, 9], [10, 10, 10]] := by
  decide

theorem c08_all_left : ∀ p ∈ Grammar.precedence, p.1 = "left" := by decide

def binaryProductions : List (String × List String × String × Nat) :=
  Grammar.productions.filter (fun p => p.1 == "binary_expression")

/-- The operator token of a binary production: its only RHS symbol that is an operator token. -/
def operatorOf (rhs : List String) : List String := rhs.filter (fun s => binTokens.contains s)

/-- **The precondition under which PLY applies the precedence table to a shift/reduce conflict:**
every plain `expression OP expression` production names exactly one operator terminal and PLY has
given the production that operator's level and associativity.  (The parenthesised productions end
in `)`; they are complete only after `)` has been shifted, where no shift/reduce conflict involves
them, so their own precedence is irrelevant.) -/
theorem c08_binary_productions_carry_level :
    ∀ p ∈ binaryProductions, p.2.1.length = 3 →
      (operatorOf p.2.1).length = 1 ∧ p.2.2.1 = "left" ∧
        p.2.2.2 = levelOf ((operatorOf p.2.1).headD "") ∧ levelOf ((operatorOf p.2.1).headD "") ≠ 0 := by
  decide

/-- Every operator has the plain production `expression OP expression` and the parenthesised one. -/
theorem c08_every_operator_has_production :
    ∀ t ∈ binTokens,
      (binaryProductions.any fun p => p.2.1 == ["expression", t, "expression"]) = true ∧
      (binaryProductions.any fun p => p.2.1 == ["(", "expression", t, "expression", ")"]) = true := by
  decide

/-- No other shapes of binary production exist (a parenthesised group contains an operator). -/
theorem c08_binary_production_shapes :
    ∀ p ∈ binaryProductions,
      (p.2.1.length = 3 ∧ p.2.1.head? = some "expression" ∧ p.2.1.getLast? = some "expression") ∨
      (p.2.1.length = 5 ∧ p.2.1.head? = some "(" ∧ p.2.1.getLast? = some ")") := by
  decide

/-- An assignment is right-recursive in `expression` and carries no precedence, so after `x =` the
parser keeps shifting: the right-hand side extends over the whole following expression. -/
theorem c08_assignment_right_recursive :
    (Grammar.productions.filter fun p => p.1 == "assignment_expression") =
      [("assignment_expression", ["unary_expression", "assignment_op", "expression"], "right", 0)] := by
  decide

/-! ## C09: `op.IsComparison` and the opcode selection of `BinaryInstruction.FromOperation` -/

theorem c09_isComparison_exact :
    (OpMaps.binaryOps.filter (fun r => r.2.2.2)).map (·.1) = ["<", "<=", ">", ">=", "==", "!="] := by
  decide

/-- The enum values the Lean mirror `Types.opValue` uses are the ones in `op.py`. -/
theorem c09_opValues :
    OpMaps.binaryOps.map (fun r => (r.1, r.2.2.1)) =
      [("+", 102), ("-", 103), ("*", 104), ("/", 105), ("%", 106), ("<", 201), ("<=", 202), (">", 200),
       (">=", 203), ("==", 205), ("!=", 204), ("&&", 301), ("||", 300)] := by
  decide

def bopOfStr : String → Option Core.BOp
  | "+" => some .add | "-" => some .sub | "*" => some .mul | "/" => some .div | "%" => some .mod
  | "<" => some .lt | "<=" => some .le | ">" => some .gt | ">=" => some .ge | "==" => some .eq
  | "!=" => some .ne | "&&" => some .land | "||" => some .lor | _ => none

def sopName : SOp → String
  | .add => "add" | .sub => "sub" | .mul => "mul" | .div => "div" | .mod => "mod"
  | .lgAnd => "lg_and" | .lgOr => "lg_or" | .gt => "cmp_gt" | .lt => "cmp_lt" | .le => "cmp_le"
  | .ge => "cmp_ge" | .ne => "cmp_ne" | .eq => "cmp_eq"

def binOpName : BinOp → String
  | .s o => sopName o
  | .v o => "vector_" ++ sopName o
  | .vMulS => "vector_mul_scalar" | .vDivS => "vector_div_scalar"
  | .mMulM => "matrix_mul_matrix" | .mMulV => "matrix_mul_vector" | .invalid => "invalid"

def shapeTypes : String → Option (ITy × ITy × ITy)
  | "s" => some (.sc .int, .sc .int, .sc .int)
  | "v" => some (.vec .int 3, .vec .int 3, .vec .int 3)
  | "vs" => some (.vec .int 3, .vec .int 3, .sc .int)
  | "sv" => some (.vec .int 3, .sc .int, .vec .int 3)
  | _ => none

/-- The model's `Lower.fromOperation` selects the opcode (and operand order) that the Python
`BinaryInstruction.FromOperation` selects, on every operator and shape class. -/
def fromOperationRow (r : String × String × String × Bool) : Bool :=
  match bopOfStr r.1, shapeTypes r.2.1 with
  | some op, some (rt, t1, t2) =>
    binOpName (Lower.fromOperation op rt t1 t2).1 == r.2.2.1 &&
      (Lower.fromOperation op rt t1 t2).2 == r.2.2.2
  | _, _ => false

theorem c01_fromOperation_table : ∀ r ∈ OpMaps.fromOperation, fromOperationRow r = true := by
  decide

theorem c01_fromOperation_table_complete : OpMaps.fromOperation.length = 52 := by decide

/-! ## C02/C05: pass pipeline -/

/-- Exactly the two `optimize-*` passes carry `IsOptimization`. -/
theorem c02_optimization_flags :
    Flags.irPasses =
      [("rewrite-function-arg-accessor", false), ("optimize-constant-cast", true),
       ("optimize-load-after-store", true), ("print-linear-ir", false)] := by
  decide

/-- The six validators and the type pass all run (before lowering: they are AST passes). -/
theorem c05_validators_run :
    ∀ n ∈ ["ComputeTypesPass", "validate-array-access-type", "validate-array-out-of-bounds-access",
           "validate-exported-functions", "validate-flow-statements", "validate-swizzle-mask",
           "validate-variable-names", "add-implicit-casts", "rewrite-assign-equal", "update-locations"],
      n ∈ Flags.astPasses := by
  decide

/-! ## C20: the token whose position becomes a node's location -/

/-- In every parser action that sets a location from a token, that token is the identifier or
literal the node stands for. -/
theorem c20_location_token :
    ∀ s ∈ LocIdx.sites,
      s.2.2.2.2.2 ∈ ["ID", "INT_CONST_DEC", "INT_CONST_OCT", "INT_CONST_HEX", "FLOAT_CONST"] := by
  decide

end Nsl.GenObl

#print axioms Nsl.GenObl.c08_binary_productions_carry_level
#print axioms Nsl.GenObl.c08_levels_ordered
#print axioms Nsl.GenObl.c09_isComparison_exact
#print axioms Nsl.GenObl.c01_fromOperation_table
#print axioms Nsl.GenObl.c20_location_token
