import Nsl.Model.SrcMap
import Nsl.Proofs.SrcMap

/-!
# C20 – source positions

Model: `Nsl.SrcMap` (`SourceMapping`, `Location` of /repo/nsl/ast/__init__.py).
Spec helpers (defined in `Nsl.Proofs.SrcMap`):
* `dropLines n s` – `s` without its first `n` lines (each with its `'\n'`);
* `nlCount s`     – number of `'\n'` in `s`.

Hypotheses that the proofs do not need have been dropped: theorems without an
`o ≤ s.length` guard hold for *every* offset.
-/

namespace Nsl.SrcMap

/-! ## 0. `bisect_right` -/

/-- On a sorted list the reference `bisectRight` is the number of entries `≤ x`. -/
theorem bisectRight_eq_count (a : List Nat) (hs : a.Pairwise (· ≤ ·)) (x : Nat) :
    bisectRight a x = a.countP (fun y => decide (y ≤ x)) :=
  bisectRight_eq_countP hs x
#print axioms bisectRight_eq_count

/-- CPython's binary-search loop computes the same insertion point on sorted lists. -/
theorem bisectRightBin_eq (a : List Nat) (hs : a.Pairwise (· ≤ ·)) (x : Nat) :
    bisectRightBin a x = bisectRight a x :=
  bisectRightBin_eq' hs x
#print axioms bisectRightBin_eq

example : [0, 3, 4, 13].Pairwise (· ≤ ·) := by decide
example : bisectRightBin [0, 3, 4, 13] 4 = 3 ∧ bisectRight [0, 3, 4, 13] 4 = 3 := by decide

/-! ## 3. The offset table -/

theorem lineOffsets_sorted (s : List Char) : (lineOffsets s).Pairwise (· < ·) :=
  lineOffsets_sorted' s
#print axioms lineOffsets_sorted

theorem lineOffsets_length (s : List Char) :
    (lineOffsets s).length = (s.filter (· = '\n')).length + 1 := by
  rw [lineOffsets_eq, List.length_cons, nlPos_length]; rfl
#print axioms lineOffsets_length

theorem lineOffsets_head (s : List Char) : (lineOffsets s)[0]? = some 0 := by
  rw [lineOffsets_eq]; rfl
#print axioms lineOffsets_head

/-- The table is exactly: `0`, then `i+1` for every newline position `i`. -/
theorem lineOffsets_mem (s : List Char) (p : Nat) :
    p ∈ lineOffsets s ↔ p = 0 ∨ ∃ i, s[i]? = some '\n' ∧ p = i + 1 := by
  rw [lineOffsets_eq, List.mem_cons, mem_nlPos]
  constructor
  · rintro (h | ⟨i, hi, hp⟩)
    · exact Or.inl h
    · exact Or.inr ⟨i, hi, by omega⟩
  · rintro (h | ⟨i, hi, hp⟩)
    · exact Or.inl h
    · exact Or.inr ⟨i, hi, by omega⟩
#print axioms lineOffsets_mem

/-! ## 1. Offset ↦ line -/

/-- `bisect_right(..) - 1` never underflows: the Nat subtraction in the model is exact. -/
theorem bisect_lineOffsets_pos (s : List Char) (o : Nat) : 1 ≤ bisectRight (lineOffsets s) o := by
  rw [bisect_lineOffsets]; omega
#print axioms bisect_lineOffsets_pos

/-- The computed line is a valid index of the table (so `getD`'s default is never used). -/
theorem lineFromOffset_in_range (s : List Char) (o : Nat) :
    lineFromOffset s o < (lineOffsets s).length ∧
    (lineOffsets s)[lineFromOffset s o]? = some (lineStart s (lineFromOffset s o)) :=
  ⟨lineFromOffset_lt s o, lineStart_getElem? s o⟩
#print axioms lineFromOffset_in_range

/-- Unguarded form: for every offset. -/
theorem lineFromOffset_eq_count_all (s : List Char) (o : Nat) :
    lineFromOffset s o = ((s.take o).filter (· = '\n')).length :=
  lineFromOffset_eq s o
#print axioms lineFromOffset_eq_count_all

/-- The line number is the number of newlines strictly before the offset. -/
theorem lineFromOffset_eq_count (s : List Char) (o : Nat) (_h : o ≤ s.length) :
    lineFromOffset s o = ((s.take o).filter (· = '\n')).length :=
  lineFromOffset_eq s o
#print axioms lineFromOffset_eq_count


/-! ## 2. Line ↦ start offset -/

theorem lineStart_le (s : List Char) (o : Nat) (_h : o ≤ s.length) :
    lineStart s (lineFromOffset s o) ≤ o :=
  lineStart_le_all s o
#print axioms lineStart_le

/-- The reported start offset really is the beginning of a line. -/
theorem lineStart_begins_line (s : List Char) (o : Nat) (_h : o ≤ s.length) :
    lineStart s (lineFromOffset s o) = 0 ∨
      s[lineStart s (lineFromOffset s o) - 1]? = some '\n' :=
  lineStart_is_start s o
#print axioms lineStart_begins_line

/-- … and it is the line of `o`: no newline between the line start and `o`. -/
theorem lineStart_no_newline (s : List Char) (o : Nat) (_h : o ≤ s.length) :
    ∀ i, lineStart s (lineFromOffset s o) ≤ i → i < o → s[i]? ≠ some '\n' :=
  fun i h1 h2 => no_newline_between s o i h1 h2
#print axioms lineStart_no_newline

/-- All three facts together (no guard on `o` is needed). -/
theorem lineStart_spec (s : List Char) (o : Nat) :
    lineStart s (lineFromOffset s o) ≤ o ∧
    (lineStart s (lineFromOffset s o) = 0 ∨
      s[lineStart s (lineFromOffset s o) - 1]? = some '\n') ∧
    (∀ i, lineStart s (lineFromOffset s o) ≤ i → i < o → s[i]? ≠ some '\n') :=
  ⟨lineStart_le_all s o, lineStart_is_start s o, fun i h1 h2 => no_newline_between s o i h1 h2⟩
#print axioms lineStart_spec

/-! ## 4. Printed `line:column` ranges -/

/-- Start position: `l ≥ 1`, `c ≥ 1`; skipping `l-1` whole lines and then `c-1` characters
    of `s` lands exactly on offset `b`; and those `c-1` characters stay inside line `l`. -/
theorem format_start_designates (s : List Char) (b e : Nat) (_hbe : b ≤ e) (_he : e ≤ s.length)
    (l c : Nat) (ol : Option Nat) (c' : Nat) (hf : format s ⟨b, e⟩ = (l, c, ol, c')) :
    1 ≤ l ∧ 1 ≤ c ∧
    (dropLines (l - 1) s).drop (c - 1) = s.drop b ∧
    (∀ ch ∈ (dropLines (l - 1) s).take (c - 1), ch ≠ '\n') := by
  unfold format at hf
  simp only at hf
  split at hf <;>
  · simp only [Prod.mk.injEq] at hf
    obtain ⟨rfl, rfl, -, -⟩ := hf
    refine ⟨by omega, by omega, ?_, ?_⟩
    · simpa using designates s b
    · simpa using column_in_line s b
#print axioms format_start_designates

/-- End position; the end line is `l'` if printed, otherwise the start line `l`. -/
theorem format_end_designates (s : List Char) (b e : Nat) (_hbe : b ≤ e) (_he : e ≤ s.length)
    (l c : Nat) (ol : Option Nat) (c' : Nat) (hf : format s ⟨b, e⟩ = (l, c, ol, c')) :
    1 ≤ ol.getD l ∧ 1 ≤ c' ∧
    (dropLines (ol.getD l - 1) s).drop (c' - 1) = s.drop e ∧
    (∀ ch ∈ (dropLines (ol.getD l - 1) s).take (c' - 1), ch ≠ '\n') := by
  unfold format at hf
  simp only at hf
  split at hf
  · rename_i heq
    simp only [Prod.mk.injEq] at hf
    obtain ⟨rfl, -, rfl, rfl⟩ := hf
    simp only [Option.getD_none]
    rw [heq]
    refine ⟨by omega, by omega, ?_, ?_⟩
    · simpa using designates s e
    · simpa using column_in_line s e
  · simp only [Prod.mk.injEq] at hf
    obtain ⟨-, -, rfl, rfl⟩ := hf
    simp only [Option.getD_some]
    refine ⟨by omega, by omega, ?_, ?_⟩
    · simpa using designates s e
    · simpa using column_in_line s e
#print axioms format_end_designates

/-- The end line is the start line plus the number of newlines inside the entity's text;
    the short form `l:c-c'` is printed iff that number is zero. -/
theorem format_lines (s : List Char) (b e : Nat) (hbe : b ≤ e)
    (l c : Nat) (ol : Option Nat) (c' : Nat) (hf : format s ⟨b, e⟩ = (l, c, ol, c')) :
    ol.getD l = l + (((s.drop b).take (e - b)).filter (· = '\n')).length ∧
    (ol = none ↔ ∀ ch ∈ (s.drop b).take (e - b), ch ≠ '\n') := by
  have hs := nlCount_span s b e hbe
  rw [← lineFromOffset_eq, ← lineFromOffset_eq] at hs
  rw [← nlCount_eq_zero]
  unfold format at hf
  simp only at hf
  split at hf
  · rename_i heq
    simp only [Prod.mk.injEq] at hf
    obtain ⟨rfl, -, rfl, -⟩ := hf
    have h0 : nlCount ((s.drop b).take (e - b)) = 0 := by omega
    simp only [nlCount] at h0 ⊢
    simp [h0]
  · rename_i hne
    simp only [Prod.mk.injEq] at hf
    obtain ⟨rfl, -, rfl, -⟩ := hf
    simp only [nlCount] at hs ⊢
    simp only [Option.getD_some]
    constructor
    · omega
    · constructor
      · intro h; cases h
      · intro h; exfalso; apply hne; omega
#print axioms format_lines

/-- Single-line form `l:c-c'`: the entity contains no newline, the printed width equals the
    entity's length, and columns `c … c'-1` of line `l` are exactly the entity's characters. -/
theorem format_single_line (s : List Char) (b e : Nat) (hbe : b ≤ e) (_he : e ≤ s.length)
    (l c c' : Nat) (hf : format s ⟨b, e⟩ = (l, c, none, c')) :
    (∀ ch ∈ (s.drop b).take (e - b), ch ≠ '\n') ∧
    c' = c + (e - b) ∧
    ((dropLines (l - 1) s).drop (c - 1)).take (c' - c) = (s.drop b).take (e - b) := by
  have h1 := (format_lines s b e hbe l c none c' hf).2.1 rfl
  have h2 := (format_start_designates s b e hbe _he l c none c' hf).2.2.1
  have hw : c' = c + (e - b) := by
    have hle := lineStart_le_all s b
    unfold format at hf
    simp only at hf
    split at hf
    · simp only [Prod.mk.injEq] at hf
      obtain ⟨-, rfl, -, rfl⟩ := hf
      omega
    · simp at hf
  refine ⟨h1, hw, ?_⟩
  rw [h2]; congr 1; omega
#print axioms format_single_line

/-! ## 5. `Location.Merge` is the hull -/

/-- Every argument span lies inside the result. -/
theorem merge_contains (x : Span) (l : List Span) :
    ((merge x l).b ≤ x.b ∧ x.e ≤ (merge x l).e) ∧
    ∀ y ∈ l, (merge x l).b ≤ y.b ∧ y.e ≤ (merge x l).e :=
  ⟨merge_first x l, merge_mem x l⟩
#print axioms merge_contains

/-- Any span containing all arguments contains the result. -/
theorem merge_least (x : Span) (l : List Span) (t : Span)
    (hx : t.b ≤ x.b ∧ x.e ≤ t.e) (hl : ∀ y ∈ l, t.b ≤ y.b ∧ y.e ≤ t.e) :
    t.b ≤ (merge x l).b ∧ (merge x l).e ≤ t.e :=
  merge_least' x l t hx hl
#print axioms merge_least

/-- The result does not depend on the order of the arguments (including which one is first). -/
theorem merge_perm (x₁ : Span) (l₁ : List Span) (x₂ : Span) (l₂ : List Span)
    (hp : (x₁ :: l₁).Perm (x₂ :: l₂)) : merge x₁ l₁ = merge x₂ l₂ := by
  have key : ∀ (x : Span) (l : List Span) (x' : Span) (l' : List Span),
      (∀ y, y ∈ x :: l → y ∈ x' :: l') →
      (merge x' l').b ≤ (merge x l).b ∧ (merge x l).e ≤ (merge x' l').e := by
    intro x l x' l' hsub
    have hc : ∀ y, y ∈ x' :: l' → (merge x' l').b ≤ y.b ∧ y.e ≤ (merge x' l').e := by
      intro y hy
      rcases List.mem_cons.1 hy with rfl | hy
      · exact merge_first y l'
      · exact merge_mem x' l' y hy
    exact merge_least' x l (merge x' l') (hc x (hsub x (by simp)))
      (fun y hy => hc y (hsub y (by simp [hy])))
  have h12 := key x₁ l₁ x₂ l₂ (fun y hy => hp.mem_iff.1 hy)
  have h21 := key x₂ l₂ x₁ l₁ (fun y hy => hp.mem_iff.2 hy)
  exact Span.ext' (by omega) (by omega)
#print axioms merge_perm

/-- Well-formedness `b ≤ e` is preserved (only the first argument needs it). -/
theorem merge_wf (x : Span) (l : List Span) (hx : x.b ≤ x.e) : (merge x l).b ≤ (merge x l).e :=
  merge_wf' x l hx
#print axioms merge_wf

/-! ## 6. Non-vacuity -/

/-- `"ab\n\n\tcd = 1;\n"`: a blank line, a tab, leading text on line 3. -/
def demo : List Char :=
  ['a', 'b', '\n', '\n', '\t', 'c', 'd', ' ', '=', ' ', '1', ';', '\n']

example : demo = "ab\n\n\tcd = 1;\n".toList := by decide
example : splitLines demo = [['a', 'b'], [], ['\t', 'c', 'd', ' ', '=', ' ', '1', ';'], []] := by
  decide
example : lineOffsets demo = [0, 3, 4, 13] := by decide
example : (List.range 14).map (lineFromOffset demo) = [0, 0, 0, 1, 2, 2, 2, 2, 2, 2, 2, 2, 2, 3] := by
  decide
-- identifier `cd` = [5,7): line 3, columns 2–4 (the tab is one column)
example : format demo ⟨5, 7⟩ = (3, 2, none, 4) := by decide
example : formatStr demo ⟨5, 7⟩ = "3:2-4" := by decide
-- declaration `cd = 1;` = [5,12)
example : formatStr demo ⟨5, 12⟩ = "3:2-9" := by decide
-- whole text [0,13): ends at column 1 of line 4
example : format demo ⟨0, 13⟩ = (1, 1, some 4, 1) := by decide
example : formatStr demo ⟨0, 13⟩ = "1:1-4:1" := by decide
-- span across the blank line
example : formatStr demo ⟨1, 6⟩ = "1:2-3:3" := by decide
-- hypotheses of the format theorems are satisfiable, conclusions are concrete
example : (5 ≤ 7 ∧ 7 ≤ demo.length) ∧ (dropLines 2 demo).drop 1 = demo.drop 5 ∧
    (demo.drop 5).take 2 = ['c', 'd'] := by decide
example : dropLines 1 demo = ['\n', '\t', 'c', 'd', ' ', '=', ' ', '1', ';', '\n'] := by decide
-- merge: hull of the parts of `cd = 1;` given out of order, and permutation invariance
example : merge ⟨8, 9⟩ [⟨5, 7⟩, ⟨10, 11⟩, ⟨11, 12⟩] = ⟨5, 12⟩ := by decide
example : merge ⟨11, 12⟩ [⟨10, 11⟩, ⟨8, 9⟩, ⟨5, 7⟩] = ⟨5, 12⟩ := by decide
example : ([⟨8, 9⟩, ⟨5, 7⟩, ⟨10, 11⟩, ⟨11, 12⟩] : List Span).Perm
    [⟨11, 12⟩, ⟨10, 11⟩, ⟨8, 9⟩, ⟨5, 7⟩] := by decide

-- hypotheses of `merge_least` / `merge_wf` are satisfiable
example : let t : Span := ⟨2, 20⟩
    (t.b ≤ 8 ∧ 9 ≤ t.e) ∧ ∀ y ∈ ([⟨5, 7⟩, ⟨10, 11⟩, ⟨11, 12⟩] : List Span), t.b ≤ y.b ∧ y.e ≤ t.e := by
  decide
-- the theorems instantiated on the concrete text
example := lineFromOffset_eq_count demo 5 (by decide)
example := lineStart_spec demo 5
example := format_start_designates demo 5 7 (by decide) (by decide) 3 2 none 4 (by decide)
example := format_end_designates demo 1 6 (by decide) (by decide) 1 2 (some 3) 3 (by decide)
example := format_single_line demo 5 7 (by decide) (by decide) 3 2 4 (by decide)
example := merge_perm ⟨8, 9⟩ [⟨5, 7⟩, ⟨10, 11⟩, ⟨11, 12⟩] ⟨11, 12⟩ [⟨10, 11⟩, ⟨8, 9⟩, ⟨5, 7⟩]
  (by decide)

end Nsl.SrcMap
