import Nsl.Gen.Grammar
/-!
# C08 table obligations: precedence table and the precedence PLY gives each binary production

Regenerated tables (`harness/extract.py`) are checked by `decide`; a change to the table in the Python
breaks the build of this file, and the check then searches for a failing input (DESIGN.md §2.3).
-/
namespace Nsl.GenObl
open Nsl.Gen

/-! ## C08: precedence table and the precedence PLY gives to each binary production -/

/-- 1-based level of a token in `NslParser.precedence` (0 = not in the table). -/
def levelOf (tok : String) : Nat :=
  match Grammar.precedence.findIdx? (fun p => p.2.contains tok) with
  | some i => i + 1
  | none => 0

/-- The language's six levels, loosest first (property C08). -/
def groups : List (List String) :=
  [["LOR"], ["LAND"], ["EQ", "NE"], ["LT", "LE", "GT", "GE"], ["PLUS", "MINUS"], ["TIMES", "DIVIDE", "MOD"]]

def binTokens : List String := groups.flatten

def spellingOf (tok : String) : String :=
  ((Grammar.spelling.find? (fun p => p.1 == tok)).map (·.2)).getD ""

theorem c08_spelling :
    binTokens.map spellingOf = ["||", "&&", "==", "!=", "<", "<=", ">", ">=", "+", "-", "*", "/", "%"] := by
  decide

/-- Tokens of one group share a level; groups are strictly ordered, loosest first. -/
theorem c08_levels_ordered :
    (groups.map fun gr => gr.map levelOf) = [[1], [2], [6, 6], [7, 7, 7, 7], [9, 9], [10, 10, 10]] := by
  decide

theorem c08_all_left : ∀ p ∈ Grammar.precedence, p.1 = "left" := by decide

def binaryProductions : List (String × List String × String × Nat) :=
  Grammar.productions.filter (fun p => p.1 == "binary_expression")

/-- The operator token of a binary production: its only RHS symbol that is an operator token. -/
def operatorOf (rhs : List String) : List String := rhs.filter (fun s => binTokens.contains s)

/-- **The precondition under which PLY applies the precedence table to a shift/reduce conflict:**
every plain `expression OP expression` production names exactly one operator terminal and PLY has
given the production that operator's level and associativity.  (The parenthesised productions end
in `)`; they are complete only after `)` has been shifted, where no shift/reduce conflict involves
them, so their own precedence is irrelevant.) -/
theorem c08_binary_productions_carry_level :
    ∀ p ∈ binaryProductions, p.2.1.length = 3 →
      (operatorOf p.2.1).length = 1 ∧ p.2.2.1 = "left" ∧
        p.2.2.2 = levelOf ((operatorOf p.2.1).headD "") ∧ levelOf ((operatorOf p.2.1).headD "") ≠ 0 := by
  decide

/-- Every operator has the plain production `expression OP expression` and the parenthesised one. -/
theorem c08_every_operator_has_production :
    ∀ t ∈ binTokens,
      (binaryProductions.any fun p => p.2.1 == ["expression", t, "expression"]) = true ∧
      (binaryProductions.any fun p => p.2.1 == ["(", "expression", t, "expression", ")"]) = true := by
  decide

/-- No other shapes of binary production exist (a parenthesised group contains an operator). -/
theorem c08_binary_production_shapes :
    ∀ p ∈ binaryProductions,
      (p.2.1.length = 3 ∧ p.2.1.head? = some "expression" ∧ p.2.1.getLast? = some "expression") ∨
      (p.2.1.length = 5 ∧ p.2.1.head? = some "(" ∧ p.2.1.getLast? = some ")") := by
  decide

/-- An assignment is right-recursive in `expression` and carries no precedence, so after `x =` the
parser keeps shifting: the right-hand side extends over the whole following expression. -/
theorem c08_assignment_right_recursive :
    (Grammar.productions.filter fun p => p.1 == "assignment_expression") =
      [("assignment_expression", ["unary_expression", "assignment_op", "expression"], "right", 0)] := by
  decide

end Nsl.GenObl

#print axioms Nsl.GenObl.c08_spelling
#print axioms Nsl.GenObl.c08_levels_ordered
#print axioms Nsl.GenObl.c08_all_left
#print axioms Nsl.GenObl.c08_binary_productions_carry_level
#print axioms Nsl.GenObl.c08_every_operator_has_production
#print axioms Nsl.GenObl.c08_binary_production_shapes
#print axioms Nsl.GenObl.c08_assignment_right_recursive
