def main : IO Unit := pure ()
