import Nsl.Driver.Sexp
import Nsl.Driver.Codec
import Nsl.Model.Leb
import Nsl.Model.SrcMap
import Nsl.Model.Prec
import Nsl.Model.Types
import Nsl.Model.Overload
import Nsl.Model.OverloadAgg
import Nsl.Model.Flow
import Nsl.Model.Static
import Nsl.Model.WF
import Nsl.Model.Lower
import Nsl.Model.CoreSem
import Nsl.Model.Names
import Nsl.Model.Opt
import Nsl.Model.Link
import Nsl.Model.Wasm
import Nsl.Model.WasmEval
import Nsl.Model.WasmRange
import Nsl.Model.IRType
import Nsl.Model.ScalarCore
import Nsl.Model.StorageCore
import Nsl.Model.VectorCore
import Nsl.Gen.Grammar
/-!
# Line-protocol driver: one request per line on stdin, one answer per line on stdout.
Executes the *model* definitions; the Python harness compares the answers with the real nsl.
-/
open Nsl

structure DState where
  mod : Option Core.Module := none
  prog : Option Program := none     -- lowered from `mod`
  ir : Option Program := none       -- loaded from an implementation dump

def hexToBytes (s : String) : List Nat :=
  let cs := s.toList
  let rec go : List Char → List Nat
    | a :: b :: rest => (hv a * 16 + hv b) :: go rest
    | _ => []
  go cs
where hv (c : Char) : Nat :=
  if c.isDigit then c.toNat - '0'.toNat
  else if 'a' ≤ c ∧ c ≤ 'f' then c.toNat - 'a'.toNat + 10
  else if 'A' ≤ c ∧ c ≤ 'F' then c.toNat - 'A'.toNat + 10 else 0

def cpsToChars (s : String) : List Char :=
  if s == "-" then [] else (s.splitOn ",").filterMap (fun t => t.toNat?.map Char.ofNat)

/-! ### C08 -/

def levelOfTok (tok : String) : Nat :=
  match Gen.Grammar.precedence.findIdx? (fun p => p.2.contains tok) with
  | some i => i + 1
  | none => 0

def tokOfSpelling (sp : String) : Option String :=
  (Gen.Grammar.spelling.find? (fun p => p.2 == sp && levelOfTok p.1 != 0)).map (·.1)

def lvlOfSpelling (sp : String) : Nat := (tokOfSpelling sp).map levelOfTok |>.getD 0

partial def parseChain : List String → Option (Prec.Chain String String × List String)
  | [] => none
  | "(" :: rest =>
    match parseChain rest with
    | some (c, ")" :: rest') => chainTail (.group c) rest'
    | _ => none
  | t :: rest => chainTail (.atom t) rest
where chainTail (x : Prec.Operand String String) : List String → Option (Prec.Chain String String × List String)
  | [] => some (.one x, [])
  | ")" :: rest => some (.one x, ")" :: rest)
  | o :: rest =>
    if lvlOfSpelling o == 0 then none
    else match parseChain rest with
      | some (c, rest') => some (.cons x o c, rest')
      | none => none

partial def treeStr : Prec.Tree String String → String
  | .leaf a => a
  | .node o l r => "(" ++ o ++ " " ++ treeStr l ++ " " ++ treeStr r ++ ")"

def doPrec (toks : List String) : String :=
  match parseChain toks with
  | some (c, []) => treeStr (Prec.parseFull lvlOfSpelling c)
  | _ => "error"

/-! ### C10 -/

def parseSig (s : String) : Option Overload.Sig :=
  match s.splitOn ":" |>.length, s.splitOn "/" with
  | _, [name, ret, params] => do
    let ps ← if params == "-" then some [] else (params.splitOn ",").mapM Overload.parseTy?
    some { name := name, ret := ← ret.toNat?, params := ps }
  | _, _ => none

/-! ### programs -/

def resToSexp : VM.Res → Sexp
  | .done v g as => .list [.atom "ok", Codec.encVal v, Codec.encGlobals g, .list (.atom "args" :: as.map Codec.encVal)]
  | .fail e => Codec.encErr e

def coutToSexp : CoreSem.COut → Sexp
  | .done v g as => .list [.atom "ok", Codec.encVal v, Codec.encGlobals g, .list (.atom "args" :: as.map Codec.encVal)]
  | .fail e => Codec.encErr e

def decArgs : Sexp → Option (List Val)
  | .list (.atom "args" :: vs) => vs.mapM Codec.decVal
  | _ => none

def restOfLine (line : String) (n : Nat) : String :=
  " ".intercalate ((line.splitOn " ").drop n)

/-! ### C16 -/

def dummyFn (n : String) : Func := ⟨n, [], .void, []⟩

def csv (s : String) : List String := if s == "-" then [] else s.splitOn ","

/-- `link m0 : f1,f2 : - ; m1 : f3 : m0 ;; m1 extra0` -/
def doLink (line : String) : String :=
  match line.splitOn " ;; " with
  | [mods, added] =>
    let entries := (mods.splitOn " ; ").filterMap fun e =>
      match (e.splitOn " : ").map (fun (t : String) => t.trimAscii.toString) with
      | [name, fs, imps] => some (name, ({ funcs := ((if fs == "-" then [] else fs.splitOn "!")).map (fun n => (n, dummyFn n)), globals := [], imports := csv imps } : Link.LModule))
      | _ => none
    let loader : Link.Loader := fun n => (entries.find? (fun p => p.1 == n)).map (·.2)
    let addedMods := ((added.splitOn " ").filter (· != "")).filterMap fun n =>
      if n.startsWith "extra" then some ({ funcs := [(n, dummyFn n)], globals := [], imports := [] } : Link.LModule) else loader n
    match Link.link loader 10000 addedMods with
    | .ok s =>
      let names := (s.funcs.map (·.1)).toArray.qsort (· < ·) |>.toList
      let loads := s.loaded.toArray.qsort (· < ·) |>.toList
      "ok " ++ ",".intercalate names ++ " | " ++ ",".intercalate loads
    | .error e => "error " ++ (match e with
        | .dupFunction n => "dup-function " ++ n | .dupGlobal n => "dup-global " ++ n
        | .missing n => "missing " ++ n | .fuel => "fuel")
  | _ => "error syntax"

/-! ### C06 / C07 -/

def f32ops : Wasm.F32Ops Float32 :=
  ⟨fun b => Float32.ofBits b.toUInt32, (· + ·), (· - ·), (· * ·), (· / ·), (· == ·), (· < ·), (· > ·)⟩

def doWasmDec (h : String) : String :=
  let bs := hexToBytes h
  match Wasm.decModule bs with
  | none => "undecodable"
  | some m =>
    let re := if Wasm.Py.encModule m == bs then "canonical" else "noncanonical"
    (if Wasm.validModule m then "valid " else "invalid ") ++ re ++
      s!" types={m.types.length} funcs={m.funcs.length} exports={m.exports.length} codes={m.codes.length}"

def decWArg (t : String) : Option (Wasm.WVal Float32) :=
  match t.splitOn ":" with
  | ["i", v] => v.toInt?.map (fun x => Wasm.WVal.i32 (Wasm.wrap x))
  | ["f", b] => b.toNat?.map (fun x => Wasm.WVal.f32 (Float32.ofBits x.toUInt32))
  | _ => none

def doWasmEval (h : String) (idx : String) (args : List String) : String :=
  match Wasm.decModule (hexToBytes h), idx.toNat?, args.mapM decWArg with
  | some m, some i, some as =>
    match Wasm.evalFunc f32ops m i as with
    | none => "trap"
    | some [] => "void"
    | some (.i32 v :: _) => s!"i {Wasm.toS v}"
    | some (.f32 x :: _) => s!"f {x.toBits.toNat}"
  | _, _, _ => "error"

def handle (st : DState) (line : String) : DState × String :=
  let toks := (line.splitOn " ").filter (· != "")
  match toks with
  | ["leb", "p", z] => (st, match z.toInt? with | some v => Leb.hex (Leb.packInteger v) | none => "error")
  | ["leb", "u", n] => (st, match n.toNat? with | some v => Leb.hex (Leb.encU v) | none => "error")
  | ["leb", "s", z] => (st, match z.toInt? with | some v => Leb.hex (Leb.encS v) | none => "error")
  | ["leb", "du", h] => (st, match Leb.decU (hexToBytes h) with
      | some (v, rest) => s!"{v} {rest.length}" | none => "none")
  | ["leb", "ds", h] => (st, match Leb.decS (hexToBytes h) with
      | some (v, rest) => s!"{v} {rest.length}" | none => "none")
  | ["leb", "name", cps] => (st, Leb.hex (Leb.writeStringPy (String.ofList (cpsToChars cps))))
  | ["leb", "section", id, h] => (st, match id.toNat? with
      | some i => Leb.hex (Leb.sectionBytesPy i (hexToBytes h)) | none => "error")
  | ["leb", "unsection", h] => (st, match Leb.unsection (hexToBytes h) with
      | some (id, p, rest) => s!"{id} {p.length} {rest.length}" | none => "none")
  | ["loc", "fmt", cps, b, e] => (st, match b.toNat?, e.toNat? with
      | some b, some e => SrcMap.formatStr (cpsToChars cps) ⟨b, e⟩ | _, _ => "error")
  | ["loc", "line", cps, o] => (st, match o.toNat? with
      | some o => toString (SrcMap.lineFromOffset (cpsToChars cps) o) | none => "error")
  | ["loc", "offsets", cps] => (st, toString (SrcMap.lineOffsets (cpsToChars cps)))
  | "loc" :: "merge" :: nums =>
    let ns := nums.filterMap String.toNat?
    let rec spans : List Nat → List SrcMap.Span
      | b :: e :: rest => ⟨b, e⟩ :: spans rest
      | _ => []
    (st, match spans ns with
      | f :: rest => let m := SrcMap.merge f rest; s!"{m.b} {m.e}"
      | [] => "error")
  | "prec" :: rest => (st, doPrec rest)
  | ["types", o, l, r] => (st, match Types.BOp.ofStr? o, Types.parseTy? l, Types.parseTy? r with
      | some o, some l, some r => Types.resultStr (Types.resolveBinary o l r)
      | _, _, _ => "error")
  | ["typespec", o, l, r] => (st, match Types.BOp.ofStr? o, Types.parseTy? l, Types.parseTy? r with
      | some o, some l, some r => Types.resultStr (Types.Spec.binary o l r)
      | _, _, _ => "error")
  | "ovl" :: name :: args :: sigs =>
    (st, match (if args == "-" then some [] else (args.splitOn ",").mapM Overload.parseTy?), sigs.mapM parseSig with
      | some as, some ss => Overload.resultStr (Overload.findFunction [ss] name as) ++ " " ++
                            Overload.resultStr (Overload.Spec.best ss name as)
      | _, _ => "error")
  | "ovla" :: name :: args :: sigs => (st, Overload.runA name args sigs)
  | "ovla2" :: name :: args :: sigs => (st, Overload.runA name args sigs)
  | "flow" :: _ => (st, Flow.run (restOfLine line 1))
  | "static" :: _ => (st, Static.run (restOfLine line 1))
  | "names" :: _ => (st, Names.run (restOfLine line 1))
  | "link" :: _ => (st, doLink (restOfLine line 1))
  | ["wasmdec", h] => (st, doWasmDec h)
  | "wasmeval" :: h :: idx :: args => (st, doWasmEval h idx args)
  | ["wasmgen"] => (st, match st.ir with
      | some p => (match Wasm.genWasm p.funcs with
          | .ok m => "ok " ++ Leb.hex (Wasm.Py.encModule m) ++ (if Wasm.validModule m then " valid" else " invalid")
          | .error e => "error " ++ e)
      | none => "error no-ir")
  | "intrun" :: fuel :: fn :: args =>
    -- range-checked run (hypothesis of C06_agree_int) of an `intFunc` of the loaded IR on integer arguments
    (st, match st.ir, fuel.toNat? with
      | some p, some fuel =>
        (match p.find fn with
         | some f =>
           if Wasm.intFunc f || Wasm.uintFunc f then
             match args.mapM (fun (a : String) => a.toInt?) with
             | some xs =>
               (match (if Wasm.intFunc f then Wasm.runR p fuel f 0 { args := xs.map Val.int } []
                       else Wasm.runRU p fuel f 0 { args := xs.map Val.int } []) with
                | .done (.int v) _ _ => "done " ++ toString v
                | .done _ _ _ => "done-other"
                | .fail e => "fail " ++ (Codec.encErr e).toStr)
             | none => "error-args"
           else "not-intfunc"
         | none => "error-no-function")
      | _, _ => "error no-ir")
  | "mod" :: _ =>
    match (Sexp.parse (restOfLine line 1)).bind Codec.decModule with
    | some m => ({ st with mod := some m, prog := some (Lower.lowerModule m) }, "ok")
    | none => (st, "error")
  | ["lower"] => (st, match st.prog with
      | some p => (Codec.encProgram p).toStr | none => "error")
  | "irprog" :: _ =>
    match (Sexp.parse (restOfLine line 1)).bind Codec.decProgram with
    | some p => ({ st with ir := some p }, "ok")
    | none => (st, "error")
  | ["domain"] => (st, match st.mod with
      -- which theorem domains the loaded typed-core module lies in
      | some m => "scalarcore=" ++ (if decide (Core.ScalarCore m) then "yes" else "no") ++
                  " storagecore=" ++ (if decide (Core.StorageCore m) then "yes" else "no") ++
                  " noshadow=" ++ (if decide (Core.NoShadow m) then "yes" else "no") ++
                  " callsresolve=" ++ (if Core.callsResolve m then "yes" else "no") ++
                  " vectorcore=" ++ (if decide (Core.VectorCore m) then "yes" else "no")
      | none => "error")
  | ["wfchecks"] => (st, match st.ir with
      -- the structural sufficient condition of C14 (blockLocal, defsDistinct, labelsDistinct, targetsOK, callsOK)
      | some p => " | ".intercalate (p.funcs.map fun f => f.name ++ ": " ++ (if Opt.wfChecks f p then "ok" else
          "no" ++ (if Opt.blockLocal [] f.code then "" else " not-block-local") ++ (if Opt.defsDistinct f.code then "" else " defs-not-distinct") ++
            (if Opt.labelsDistinct f.code then "" else " labels-not-distinct") ++ (if Opt.targetsOK f.code then "" else " target-missing") ++
            (if Opt.callsOK f p then "" else " call-unresolved")))
      | none => "error")
  | "irtycheck" :: mode =>
    -- the IR type checker (C05 at the IR level): per function `ok` or the first instruction whose rule fails
    (st, match st.ir with
      | some p =>
        let strict := mode == ["strict"]
        " | ".intercalate (p.funcs.map fun f => f.name ++ ": " ++
          (if IRType.checkFn strict p f then "ok" else
            if f.code.isEmpty then "empty-body-of-non-void-function" else
            match IRType.firstBad (IRType.mkCtx strict p f (IRType.inferD f.code)) {} f.code 0 with
            | some (pc, ins, false) => "pc=" ++ toString pc ++ " " ++ (Codec.encInstr ins).toStr
            | some (pc, ins, true) => "pc=" ++ toString pc ++ " runs-off-the-end-after " ++ (Codec.encInstr ins).toStr
            | none => "?"))
      | none => "error")
  | ["irtylayers"] =>
    (st, match st.ir with
      | some p =>
        let yn := fun (b : Bool) => if b then "yes" else "no"
        "full=" ++ yn (IRType.irTypeCheck p) ++ " strict=" ++ yn (IRType.irTypeCheckStrict p) ++
          " flat=" ++ yn (IRType.irTypeCheckFlat p) ++ " scalar=" ++ yn (IRType.irTypeCheckScalar p) ++
          " inflat=" ++ yn (IRType.layerProg IRType.flatTy true p) ++ " inscalar=" ++ yn (IRType.layerProg IRType.scalarTy false p)
      | none => "error")
  | ["wf"] => (st, match st.ir with
      | some p => " | ".intercalate (p.funcs.map fun f => f.name ++ ": " ++ WF.wfReport f p)
      | none => "error")
  | ["opt"] => (st, match st.ir with
      | some p => (Codec.encProgram (Opt.optProgram p)).toStr
      | none => "error")
  | ["optmodel"] => (st, match st.prog with
      | some p => (Codec.encProgram (Opt.optProgram p)).toStr
      | none => "error")
  | ["fwdok"] => (st, match st.ir with
      | some p => " | ".intercalate (p.funcs.map fun f =>
          f.name ++ ": " ++ (if Opt.optOK f then "ok" else "no") ++
            (if Opt.forwardOK none (Opt.pass Opt.ccDecide f.code) then "" else " not-forwardOK") ++
            (if Opt.blockLocal [] f.code then "" else " not-block-local") ++
            (if Opt.defsDistinct f.code then "" else " defs-not-distinct"))
      | none => "error")
  | ["wfmodel"] => (st, match st.prog with
      | some p => " | ".intercalate (p.funcs.map fun f => f.name ++ ": " ++ WF.wfReport f p)
      | none => "error")
  | kind :: fuel :: fn :: _ =>
    if kind == "run" || kind == "ref" || kind == "irrun" then
      match fuel.toNat?, Sexp.parse ("(" ++ restOfLine line 3 ++ ")") with
      | some fuel, some (.list [as, gs]) =>
        match decArgs as, Codec.decGlobals gs with
        | some as, some g =>
          if kind == "run" then
            (st, match st.prog with
              | some p => (resToSexp (VM.invoke p fuel fn as g)).toStr | none => "error-no-module")
          else if kind == "irrun" then
            (st, match st.ir with
              | some p => (resToSexp (VM.invoke p fuel fn as g)).toStr | none => "error-no-ir")
          else
            (st, match st.mod with
              | some m => (coutToSexp (CoreSem.invoke m fuel fn as g)).toStr | none => "error-no-module")
        | _, _ => (st, "error-args")
      | _, _ => (st, "error-syntax")
    else (st, "error-unknown-command")
  | _ => (st, "error-unknown-command")

partial def loop (h : IO.FS.Stream) (out : IO.FS.Stream) (st : DState) : IO Unit := do
  let line ← h.getLine
  if line.isEmpty then return ()
  let line := (line.dropRightWhile (fun c => c == '\n' || c == '\r'))
  let (st', ans) := handle st line
  out.putStrLn ans
  out.flush
  loop h out st'

def main : IO Unit := do
  let stdin ← IO.getStdin
  let stdout ← IO.getStdout
  loop stdin stdout {}
