"""C20 — reported source positions designate the text they talk about.

Correspondence: ast.SourceMapping / Location.__str__ / Location.Merge against `Nsl.SrcMap` (driver `loc ...`).
Oracle (independent): line = number of newlines before the offset; a printed `l:c-l':c'` must lead back to
the offsets (b, e) by counting lines of the text; for parsed programs in several layouts every identifier /
literal node's range must spell exactly that identifier / literal, and after UpdateLocations every node's
range must cover the ranges of all its parts."""
import itertools, re
import common, implrun

RULE = ("texts: every text over {a,\\n} up to length N (quick 7, thorough 10) x every offset 0..len and every range b<=e; random texts "
        "with tabs, blank lines, leading text; merges of random span lists; programs: token sequences covering every parser action that "
        "sets a location (arguments, literals of each radix, identifiers, ++/-- prefix and postfix, array and member access, declarations) "
        "in 6 layouts with random identifier names. Non-trivial: the text has >=1 newline / the merge has >=2 spans / the program has "
        ">=1 located node; distinct = distinct (text, offset|range) / span list / program text")
EXHAUSTIVE = {"quick": False, "thorough": False}
ASSUMPTIONS = ["message formatting in Errors.py is not modelled: the check looks at the Location objects the diagnostics print",
               "a declaration's range after UpdateLocations is the hull of its name and initialiser"]
TRUSTED = ["Nsl/Model/SrcMap.lean mirrors SourceMapping.__init__/GetLineFromOffset/GetLineStartOffset, Location.__str__ and Merge"]


def cps(s):
    return ",".join(str(ord(c)) for c in s) or "-"


def designates(text, b, e, printed):
    """Does the printed range lead back to (b, e)?"""
    m = re.fullmatch(r"(\d+):(\d+)-(?:(\d+):)?(\d+)", printed)
    if not m: return False
    l, c, l2, c2 = int(m.group(1)), int(m.group(2)), m.group(3), int(m.group(4))
    l2 = int(l2) if l2 else l
    lines = text.split("\n")
    def off(line, col):
        if line < 1 or line > len(lines) or col < 1: return None
        return sum(len(x) + 1 for x in lines[:line - 1]) + col - 1
    sb, se = off(l, c), off(l2, c2)
    if sb != b or se != e: return False
    # the start column must lie on its line (or be the position just past its end)
    return c - 1 <= len(lines[l - 1]) and text[:b].count("\n") == l - 1 and text[:e].count("\n") == l2 - 1


def texts(run):
    n = 10 if run.tier == "thorough" else 7
    for k in range(0, n + 1):
        for t in itertools.product("a\n", repeat=k):
            yield "".join(t)
    rng = run.rng
    for _ in range(3000 if run.tier == "thorough" else 400):
        k = rng.choice([1, 5, 20, 60, 200])
        yield "".join(rng.choice(["a", "b", " ", "\t", "\n", "\n", "xy = 1;", "\n\n"]) for _ in range(k))
    # characters other line-splitting conventions treat as line ends: only "\n" ends a line here
    odd = ["\r", "\r\n", "\x0c", "\x0b", "\x85", "\u2028", "\u2029", "\x1c", "\x1e"]
    for k in range(1, 5 if run.tier == "thorough" else 4):
        for t in itertools.product(["a", "\n"] + odd[:3], repeat=k):
            yield "".join(t)
    for _ in range(1500 if run.tier == "thorough" else 300):
        k = rng.choice([2, 5, 12, 40])
        yield "".join(rng.choice(["a", " ", "\n", "\n"] + odd) for _ in range(k))


PROGRAMS = [
    # token lists; identifiers written as $1 $2 ... are replaced by random names
    "export function $f ( int $a , float $b ) -> int { int $c = 10 ; ++ $c ; $c -- ; -- $a ; $a ++ ; return $c + $a ; }",
    "function $f ( int $a ) -> int { int [ 4 ] $t ; $t [ 1 ] = 0x1F ; $t [ 0 ] = 017 ; float $x = 2.5 ; float $y = 1.0f ; return $t [ $a ] + $t [ 1 ] ; }",
    "struct $S { float $m ; int $n ; } function $f ( float4 $v ) -> float { $S $s ; $s . $m = $v . x ; $s . $n = 3 ; return $s . $m + $v . y ; }",
    "export function $f ( int $a ) -> int { int $r = 0 ; for ( int $i = 0 ; $i < $a ; ++ $i ) { $r = $r + $i ; if ( $r > 100 ) { break ; } } while ( $r > 7 ) { $r -- ; } return $r ; }",
    "function $g ( float $q ) -> float { return $q * 2.0 ; } export function $f ( float $a ) -> float { float $z = $g ( $a ) ; do { $z = $z + 1.0 ; } while ( $z < 3.0 ) return $z ; }",
    # declarations of different kinds interleaved: the module's parts are not traversed in textual order
    "function $g ( int $q ) -> int { return $q + 1 ; } int $counter ; struct $S { int $m ; } function $h ( int $a ) -> int { $counter = $a ; return $g ( $a ) ; } float $w ; export function $f ( int $a ) -> int { while ( $a < 3 ) { $a = $a + 1 ; } return $h ( $a ) ; }",
    "int $u ; function $g ( ) -> int { return $u ; } struct $T { float $m ; } int [ 2 ] $arr ;",
]
LAYOUTS = [" ", "\n", "\t", "\n\n", "\n    ", "  \t\n\t"]


def instantiate(rng, prog):
    names = {}
    def name(m):
        k = m.group(0)
        if k not in names:
            while True:
                n = rng.choice("abcdefghklmnpqrstuvw") + "".join(rng.choice("abcxyz_019") for _ in range(rng.choice([0, 1, 2, 5, 11])))
                if n not in names.values() and n not in ("do", "if", "int", "for", "in", "out", "float", "uint", "void", "x", "y", "z", "w"):
                    break
            names[k] = n
        return names[k]
    return re.sub(r"\$\w+", name, prog).split(" ")


def layout(rng, toks, sep):
    out = [rng.choice(["", "\n", "  ", "\t\n "]) if sep != " " else ""]
    for i, t in enumerate(toks):
        out.append(t)
        if i + 1 < len(toks):
            # '.' member access and postfix need no space; keep one separator everywhere (safe for the token sequence)
            out.append(sep if sep != "mix" else rng.choice(LAYOUTS))
    return "".join(out) + rng.choice(["", "\n"])


def walk(n, fn, parent=None):
    fn(n, parent)
    n.ForEachChild(lambda c, ctx=None: walk(c, fn, n))


def literal_ok(text, value):
    try:
        t = text
        if isinstance(value, float):
            return float(t[:-1] if t.endswith("f") else t) == value
        if t.lower().startswith(("0x", "+0x", "-0x")): return int(t, 16) == value
        if len(t) > 1 and t[0] == "0" and t.isdigit(): return int(t, 8) == value
        return int(t) == value
    except ValueError:
        return False


def check_program(run, src):
    """Oracle on one program text. Returns number of located nodes."""
    A = implrun.ast_mod
    from nsl.parser import NslParser
    from nsl.passes import UpdateLocations
    try:
        with implrun.quiet():
            tree = NslParser().Parse(src)
    except SystemExit:
        tree = None
    if tree is None:
        raise common.Infra("generated program does not parse: %r" % src)
    located = [0]
    def names(n, parent):
        loc = n.GetLocation()
        if loc.IsUnknown: return
        b, e = loc.GetBegin(), loc.GetEnd()
        located[0] += 1
        kind = type(n).__name__
        if isinstance(n, (A.PrimaryExpression, A.Argument, A.VariableDeclaration)):
            run.count("site:" + kind + ("(affix)" if isinstance(parent, A.AffixExpression) else ""))
            if src[b:e] != n.GetName():
                run.fail("node-text", dict(src=src, kind=kind, name=n.GetName(), range=[b, e]),
                         "%s %r is reported at %s, which is the text %r" % (kind, n.GetName(), loc, src[b:e]),
                         key="node-text:" + kind + (":affix" if isinstance(parent, A.AffixExpression) else ""))
        elif isinstance(n, A.LiteralExpression):
            run.count("site:literal")
            if not literal_ok(src[b:e], n.GetValue()):
                run.fail("node-text", dict(src=src, kind=kind, name=repr(n.GetValue()), range=[b, e]),
                         "literal %r is reported at %s, which is the text %r" % (n.GetValue(), loc, src[b:e]), key="node-text:literal")
        if not designates(src, b, e, str(loc)):
            run.fail("format", dict(text=src, b=b, e=e), "range [%d,%d) printed as %s" % (b, e, loc))
    walk(tree, names)
    with implrun.quiet():
        UpdateLocations.GetPass().Process(tree)
    def covers(n, parent):
        loc = n.GetLocation()
        if parent is None or loc.IsUnknown: return
        pl = parent.GetLocation()
        if pl.IsUnknown or not (pl.GetBegin() <= loc.GetBegin() and loc.GetEnd() <= pl.GetEnd()):
            run.fail("cover", dict(src=src, parent=type(parent).__name__, child=type(n).__name__),
                     "after UpdateLocations %s at %s does not cover its part %s at %s" % (type(parent).__name__, pl, type(n).__name__, loc),
                     key="cover:" + type(parent).__name__)
    walk(tree, covers)
    return located[0]


def explore(run, widen=1):
    implrun.load()
    A = implrun.ast_mod
    d = common.Driver()
    rng = run.rng
    # --- line table, lookup, formatting
    q, meta = [], []
    def guarded(kind, inp, thunk):
        """the implementation must answer for every text/offset; an exception is a failure of the property"""
        try:
            return thunk()
        except Exception as e:
            run.fail(kind, inp, "%s raised on %r" % (type(e).__name__, inp), key=kind + ":raises")
            return "raised " + type(e).__name__
    for t in texts(run):
        sm = guarded("line", dict(text=t, offset=0), lambda: A.SourceMapping(t))
        if isinstance(sm, str): continue
        offs = guarded("line", dict(text=t, offset=0), lambda: [sm.GetLineStartOffset(i) for i in range(t.count("\n") + 1)])
        q.append("loc offsets " + cps(t)); meta.append(("offsets", t, None, str(offs)))
        n = len(t)
        pts = range(n + 1) if n <= 10 else sorted({0, n} | {rng.randrange(n + 1) for _ in range(12)})
        for o in pts:
            impl = guarded("line", dict(text=t, offset=o), lambda: sm.GetLineFromOffset(o))
            q.append("loc line %s %d" % (cps(t), o)); meta.append(("line", t, o, str(impl)))
            if impl != t[:o].count("\n"):
                run.fail("line", dict(text=t, offset=o), "offset %d of %r is reported on line %d" % (o, t, impl))
        rngs = [(b, e) for b in pts for e in pts if b <= e]
        if len(rngs) > 70: rngs = rng.sample(rngs, 70)
        for b, e in rngs:
            impl = guarded("format", dict(text=t, b=b, e=e), lambda: str(A.Location((b, e), sm)))
            q.append("loc fmt %s %d %d" % (cps(t), b, e)); meta.append(("fmt", t, (b, e), impl))
            if not designates(t, b, e, impl):
                run.fail("format", dict(text=t, b=b, e=e), "range [%d,%d) of %r printed as %s" % (b, e, t, impl))
    ans = d.ask_many(q)
    for (kind, t, x, impl), a in zip(meta, ans):
        run.case((kind, t, x), nontrivial="\n" in t,
                 sample=dict(kind=kind, text=t, at=x, printed=impl) if (kind == "fmt" and t.count("\n") >= 2 and x[0] != x[1] and len(run.samples) < 2) else None)
        run.count(kind)
        if a != impl: run.mismatch(kind, dict(text=t, at=x), a, impl)
    # --- merge
    q, meta = [], []
    for _ in range(3000 if run.tier == "thorough" else 500):
        k = rng.choice([1, 2, 2, 3, 5, 9])
        spans = []
        for _ in range(k):
            b = rng.randrange(0, 60); spans.append((b, b + rng.choice([0, 1, 3, 20])))
        m = A.Location.Merge(*[A.Location(s) for s in spans])
        impl = "%d %d" % (m.GetBegin(), m.GetEnd())
        q.append("loc merge " + " ".join("%d %d" % s for s in spans)); meta.append((spans, impl))
        if (m.GetBegin(), m.GetEnd()) != (min(s[0] for s in spans), max(s[1] for s in spans)):
            run.fail("merge", spans, "Merge%r = %s is not the hull" % (spans, impl))
    ans = d.ask_many(q)
    for (spans, impl), a in zip(meta, ans):
        run.case(("merge", tuple(spans)), nontrivial=len(spans) >= 2); run.count("merge")
        if a != impl: run.mismatch("merge", spans, a, impl)
    d.close()
    # --- programs in layouts
    reps = (12 if run.tier == "thorough" else 3) * widen
    for prog in PROGRAMS:
        for _ in range(reps):
            toks = instantiate(rng, prog)
            for sep in LAYOUTS + ["mix"]:
                src = layout(rng, toks, sep)
                n = check_program(run, src)
                run.case(("prog", src), nontrivial=n > 0, sample=dict(kind="program", src=src, located_nodes=n) if sep == "\t" and len(run.samples) < 4 else None)
                run.count("program"); run.count("located-nodes", n)


def search(run):
    explore(run, widen=4)


def matches(entry, failure):
    return entry.get("matcher") == failure["key"]


def shrink(f):
    return f


def replay(obj):
    implrun.load()
    k, x = obj["kind"], obj["input"]
    r = Run0()
    if k in ("node-text", "cover"):
        check_program(r, x["src"])
    elif k == "format":
        A = implrun.ast_mod
        s = str(A.Location((x["b"], x["e"]), A.SourceMapping(x["text"])))
        if not designates(x["text"], x["b"], x["e"], s): r.fail("format", x, "printed as " + s)
    elif k == "line":
        A = implrun.ast_mod
        l = A.SourceMapping(x["text"]).GetLineFromOffset(x["offset"])
        if l != x["text"][:x["offset"]].count("\n"): r.fail("line", x, "line %d" % l)
    return not r.failures, "\n".join(f["what"] for f in r.failures) or "positions designate their text"


class Run0:
    def __init__(self): self.failures = []
    def count(self, *a): pass
    def fail(self, kind, inp, what, key=None): self.failures.append(dict(kind=kind, what=what))
