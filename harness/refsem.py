"""The harness's reference interpreter: the C-like source semantics of property C01 (and C03/C04/
C15), written from the property statements, operating on the generated tree with the static types
the generator computed.  It knows nothing about the IR.  Inputs on which the statement promises
nothing raise OutOfDomain (32-bit overflow of an int intermediate, division by zero, index out of
range, % on negative/float operands, float->int conversion where floor != trunc)."""
import copy, math
from lang import *

class OutOfDomain(Exception): pass
class _Break(Exception): pass
class _Continue(Exception): pass
class _Return(Exception):
    def __init__(self, v): self.v = v

I32_MIN, I32_MAX = -2**31, 2**31 - 1

def chk_int(v):
    if not (I32_MIN <= v <= I32_MAX): raise OutOfDomain("int overflow")
    return v

def conv(v, frm, to):
    """conversion of a scalar between component types"""
    if frm == to: return v
    if to == 'float': return float(v)
    if frm == 'float':
        if v != v or v in (float('inf'), float('-inf')): raise OutOfDomain("nan/inf to int")
        if math.floor(v) != math.trunc(v): raise OutOfDomain("float->int of negative fraction")
        r = int(math.floor(v))
        if to == 'uint' and r < 0: raise OutOfDomain("negative to uint")
        return chk_int(r)
    if to == 'uint' and v < 0: raise OutOfDomain("negative to uint")
    return v

def conv_val(v, frm, to):
    """conversion of a scalar/vector/matrix value to another component type"""
    if frm.comp == to.comp: return v
    if isinstance(frm, Sc): return conv(v, frm.c, to.c)
    if isinstance(frm, Vec): return [conv(x, frm.c, to.c) for x in v]
    return [[conv(x, frm.c, to.c) for x in row] for row in v]

def scalar_op(op, c, a, b):
    """a op b on two scalars of component type c (both already converted to c)"""
    if op == '+': r = a + b
    elif op == '-': r = a - b
    elif op == '*': r = a * b
    elif op == '/':
        if b == 0: raise OutOfDomain("division by zero")
        if c == 'float': r = a / b
        else:
            q = abs(a) // abs(b)
            r = -q if (a < 0) != (b < 0) else q
    elif op == '%':
        if c == 'float' or a < 0 or b <= 0: raise OutOfDomain("% outside non-negative ints")
        r = a % b
    else: raise ValueError(op)
    return r if c == 'float' else chk_int(r)

def cmp_op(op, a, b):
    return int({'<': a < b, '<=': a <= b, '>': a > b, '>=': a >= b, '==': a == b, '!=': a != b}[op])

def logic_op(op, a, b):
    return int(bool(a) and bool(b)) if op == '&&' else int(bool(a) or bool(b))


class Ref:
    def __init__(self, module, fuel=200000):
        self.m = module
        self.fuel = fuel

    # ---- frames: dict name -> value; globals dict
    def invoke(self, fname, args, globals_):
        """args: list in parameter order (aggregates are shared with the caller: by reference at the
        host boundary). Returns value; globals_ is updated in place."""
        f = self.m.find(fname) if isinstance(fname, str) else fname
        self.g = globals_
        return self.call(f, args)

    def call(self, f, args):
        self.tick()
        self.depth = getattr(self, 'depth', 0) + 1
        try:
            if self.depth > 60: raise OutOfDomain("call depth")
            return self.call1(f, args)
        finally:
            self.depth -= 1

    def call1(self, f, args):
        env = {}
        for (n, t), v in zip(f.params, args):
            env[n] = v
        try:
            self.exec(f.body, env)
        except _Return as r:
            return r.v
        return None

    def tick(self):
        self.fuel -= 1
        if self.fuel <= 0: raise OutOfDomain("fuel")

    # ---- places
    def lookup(self, var, env):
        if var.scope == 'global':
            if self.g.get(var.name) is None: raise OutOfDomain("unset global")
            return self.g
        return env

    def eval(self, e, env):
        self.tick()
        if isinstance(e, Lit): return e.v
        if isinstance(e, Var):
            d = self.lookup(e, env)
            return d[e.name]
        if isinstance(e, Bin):
            a = self.eval(e.l, env); b = self.eval(e.r, env)
            return self.binop(e, a, b)
        if isinstance(e, Assign):
            if e.op is None:
                v = self.eval(e.rhs, env)
            else:
                a = self.eval(e.lhs, env); b = self.eval(e.rhs, env)
                v = self.binop(e.binop, a, b)
            if not isinstance(e.lhs.ty, (Sc, Vec, Mat)): raise OutOfDomain("aggregate assignment")
            if isinstance(e.lhs.ty, (Sc, Vec, Mat)) and e.lhs.ty != (e.binop.ty if e.op else e.rhs.ty):
                raise OutOfDomain("assignment needs conversion")
            self.store(e.lhs, copy.deepcopy(v), env)
            return v
        if isinstance(e, Affix):
            old = self.eval(e.var, env)
            new = scalar_op('+' if e.inc else '-', e.ty.c, old, 1.0 if e.ty.c == 'float' else 1)
            self.store(e.var, new, env)
            return old if e.post else new
        if isinstance(e, Call):
            args = []
            for a, (pn, pt) in zip(e.args, e.fn.params):
                v = self.eval(a, env)
                if isinstance(pt, (Sc, Vec, Mat)):
                    v = copy.deepcopy(conv_val(v, a.ty, pt))      # by value
                else:
                    raise OutOfDomain("aggregate passed to internal call")
                args.append(v)
            return self.call(e.fn, args)
        if isinstance(e, Index):
            b = self.eval(e.base, env); i = self.eval(e.idx, env)
            if not (0 <= i < len(b)): raise OutOfDomain("index out of range")
            return b[i]
        if isinstance(e, Member):
            return self.eval(e.base, env)[e.field]
        if isinstance(e, Swizzle):
            b = self.eval(e.base, env)
            if not isinstance(b, list): b = [b]
            r = [b[SWZ[m]] for m in e.mask]
            return r[0] if len(r) == 1 else r
        if isinstance(e, Construct):
            comps = []
            for a in e.args:
                v = conv_val(self.eval(a, env), a.ty, with_comp(a.ty, e.ty.comp))
                comps.append(v)
            if isinstance(e.ty, Vec):
                flat = []
                for v in comps:
                    if isinstance(v, list): flat += v
                    else: flat.append(v)
                if len(flat) != e.ty.n: raise OutOfDomain("constructor component count")
                return flat
            if isinstance(e.ty, Mat):
                return [list(v) for v in comps]
            raise OutOfDomain("construct")
        if isinstance(e, Cast):
            return conv_val(self.eval(e.e, env), e.e.ty, e.ty)
        raise TypeError(e)

    def binop(self, e, a, b):
        lt, rt, op = e.l.ty, e.r.ty, e.op
        a = conv_val(a, lt, e.lt); b = conv_val(b, rt, e.rt)
        c = e.lt.comp
        def sc(x, y):
            if op in CMP: return cmp_op(op, x, y)
            if op in ('&&', '||'):
                r = logic_op(op, x, y)
                return float(r) if e.ty.comp == 'float' else r
            return scalar_op(op, c, x, y)
        L, R = e.lt, e.rt
        if isinstance(L, Sc) and isinstance(R, Sc): return sc(a, b)
        if isinstance(L, Vec) and isinstance(R, Vec): return [sc(x, y) for x, y in zip(a, b)]
        if isinstance(L, Vec) and isinstance(R, Sc): return [sc(x, b) for x in a]
        if isinstance(L, Sc) and isinstance(R, Vec): return [sc(a, y) for y in b]
        if isinstance(L, Mat) and isinstance(R, Sc): return [[sc(x, b) for x in row] for row in a]
        if isinstance(L, Sc) and isinstance(R, Mat): return [[sc(a, y) for y in row] for row in b]
        if isinstance(L, Mat) and isinstance(R, Mat):
            if op == '*':
                out = []
                for i in range(L.r):
                    row = []
                    for j in range(R.k):
                        acc = 0
                        for k in range(L.k):
                            acc = acc + a[i][k] * b[k][j]
                        row.append(float(acc) if c == 'float' else chk_int(acc))
                    out.append(row)
                return out
            return [[sc(x, y) for x, y in zip(ra, rb)] for ra, rb in zip(a, b)]
        if isinstance(L, Mat) and isinstance(R, Vec):
            out = []
            for i in range(L.r):
                acc = 0
                for k in range(L.k):
                    acc = acc + a[i][k] * b[k]
                out.append(float(acc) if c == 'float' else chk_int(acc))
            return out
        raise TypeError((L, R))

    def store(self, lhs, v, env):
        if isinstance(lhs, Var):
            d = self.g if lhs.scope == 'global' else env
            d[lhs.name] = v
        elif isinstance(lhs, Index):
            if lhs.kind == 'arr':
                b = self.eval(lhs.base, env); i = self.eval(lhs.idx, env)
                if not (0 <= i < len(b)): raise OutOfDomain("index out of range")
                b[i] = v            # arrays are storage: in place
            else:
                b = copy.deepcopy(self.eval(lhs.base, env)); i = self.eval(lhs.idx, env)
                if not (0 <= i < len(b)): raise OutOfDomain("index out of range")
                b[i] = v
                self.store(lhs.base, b, env)
        elif isinstance(lhs, Member):
            self.eval(lhs.base, env)[lhs.field] = v
        elif isinstance(lhs, Swizzle):
            b = self.eval(lhs.base, env)
            if isinstance(b, list):
                b = list(b)
                vs = v if isinstance(v, list) else [v]
                for m, x in zip(lhs.mask, vs): b[SWZ[m]] = x
            else:
                b = v
            self.store(lhs.base, b, env)
        else:
            raise TypeError(lhs)

    def exec(self, s, env):
        self.tick()
        if isinstance(s, Decl):
            env[s.name] = default_value(s.ty)
            if s.init is not None:
                v = self.eval(s.init, env)
                if s.init.ty != s.ty: raise OutOfDomain("initialiser needs conversion")
                env[s.name] = copy.deepcopy(v)
        elif isinstance(s, ExprS): self.eval(s.e, env)
        elif isinstance(s, Block):
            for x in s.ss: self.exec(x, env)
        elif isinstance(s, If):
            if self.truth(s.c, env): self.exec(s.t, env)
            elif s.e is not None: self.exec(s.e, env)
        elif isinstance(s, While):
            while self.truth(s.c, env):
                try: self.exec(s.b, env)
                except _Break: break
                except _Continue: continue
        elif isinstance(s, Do):
            while True:
                try: self.exec(s.b, env)
                except _Break: break
                except _Continue: pass
                if not self.truth(s.c, env): break
        elif isinstance(s, For):
            if s.init is not None: self.exec(s.init, env)
            while s.c is None or self.truth(s.c, env):
                try: self.exec(s.b, env)
                except _Break: break
                except _Continue: pass
                if s.n is not None: self.eval(s.n, env)
        elif isinstance(s, Break): raise _Break()
        elif isinstance(s, Continue): raise _Continue()
        elif isinstance(s, Return):
            if s.e is None: raise _Return(None)
            v = self.eval(s.e, env)
            raise _Return(copy.deepcopy(v))
        elif isinstance(s, Empty): pass
        else: raise TypeError(s)

    def truth(self, c, env):
        v = self.eval(c, env)
        if isinstance(v, (list, dict)): raise OutOfDomain("non-scalar condition")
        return v != 0
