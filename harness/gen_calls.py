"""Generators for the call / history properties (C03, C15), built on lang.py so that every program has an NSL text, a
typed core for the Lean model and a meaning under the reference interpreter.

`calls` (C03): call DAGs and direct recursion over int/float (and vector) parameters; callees assign to their own
parameters and locals; overloads that differ only in parameter TYPES (same parameter names, same return type) and by
int/float/vector types; the caller reads each of its own parameters and locals after every call, in nested and
repeated calls.
`history` (C15): modules with scalar, array and struct globals and several exported functions that read/modify them,
for random host histories."""
import random
from lang import *
import progfam


def _lit(rng, ty):
    if ty == FLOAT: return Lit(rng.choice([0.5, 1.0, 1.5, 2.0, 3.0, 0.25]), FLOAT)
    return Lit(rng.choice([0, 1, 2, 3, 5, 7]), INT)


class CG:
    def __init__(self, rng, opts=None):
        self.rng = rng
        self.n = 0
        self.feat = {}
        self.o = dict(vectors=True, recursion=True)
        if opts: self.o.update(opts)

    def hit(self, k): self.feat[k] = self.feat.get(k, 0) + 1

    def fresh(self, p):
        self.n += 1
        return "%s%d" % (p, self.n)

    def expr(self, ty, vars_, depth, funcs):
        """side-effect-free expression of scalar type ty over the given variables, possibly with calls"""
        r = self.rng
        cands = [v for v in vars_ if v.ty == ty]
        if depth <= 0 or r.random() < .3:
            return r.choice(cands) if cands and r.random() < .8 else _lit(r, ty)
        k = r.random()
        if k < .35 and funcs:
            fs = [f for f in funcs if f.ret == ty]
            if fs:
                f = r.choice(fs)
                return self.call(f, vars_, depth - 1, funcs)
        if k < .8:
            op = r.choice(['+', '-', '*'] if ty == FLOAT else ['+', '-', '*', '+'])
            return Bin(op, self.expr(ty, vars_, depth - 1, funcs), self.expr(ty, vars_, depth - 1, funcs))
        return r.choice(cands) if cands else _lit(r, ty)

    def vexpr(self, ty, vars_):
        cands = [v for v in vars_ if v.ty == ty]
        if cands: return self.rng.choice(cands)
        return Construct(ty, [_lit(self.rng, Sc(ty.c)) for _ in range(ty.n)])

    def call(self, f, vars_, depth, funcs):
        args = []
        for ai, (pn, pt) in enumerate(f.params):
            if getattr(f, 'recursive', False) and ai == 0:
                args.append(Lit(self.rng.randrange(0, 7), INT)); continue
            if getattr(f, 'arity_extra', False) and ai == len(f.params) - 1 and self.rng.random() < .6:
                args.append(self.expr(INT, vars_, 0, [])); self.hit('arity-extra-argument-converted'); continue
            if isinstance(pt, Sc):
                # the static argument type equals the parameter type, so exactly this overload is selected
                args.append(self.expr(pt, vars_, depth, [g for g in funcs if g is not f and not getattr(g, 'recursive', False)] if depth > 0 else []))
            else:
                args.append(self.vexpr(pt, vars_))
        self.hit('call'); self.hit('call-depth-%d' % depth)
        return Call(f, args)

    def callee(self, name, params, ret, funcs, recursive=False):
        """callee that modifies its own parameters and locals before computing the result"""
        r = self.rng
        vars_ = [Var(n, t, 'arg', i) for i, (n, t) in enumerate(params)]
        ss = []
        f = Func(name, params, ret, None, False)
        f.recursive = recursive
        loc = Var(self.fresh("t"), ret, 'local')
        scal = [v for v in vars_ if isinstance(v.ty, Sc)]
        # a local nested aggregate: every activation (recursive, repeated, in a loop) must get fresh zeros, and what one
        # activation writes into an inner element must not be seen by another
        agg = None
        if r.random() < .5:
            agg = Var(self.fresh("w"), Arr(ret, r.choice([(2, 2), (2, 3), (3, 2)])), 'local')
            ai, aj = r.randrange(agg.ty.dims[0]), r.randrange(agg.ty.dims[1])
            agg_e = Index(Index(agg, Lit(ai, INT)), Lit(aj, INT))
            self.hit('nested-aggregate-local')
        if recursive:
            a0 = vars_[0]
            base = Return(self.expr(ret, scal[1:] or [], 1, []) if len(scal) > 1 else _lit(r, ret))
            ss.append(If(Bin('<=', a0, Lit(0, INT)), base))
            ss.append(Decl(loc.name, ret, self.expr(ret, scal, 1, [])))
            if agg is not None:
                ss.append(Decl(agg.name, agg.ty, None))
                ss.append(ExprS(Assign(loc, Bin('+', loc, agg_e))))                                   # fresh: reads 0
                ss.append(ExprS(Assign(agg_e, Bin('+', a0 if a0.ty == ret else _lit(r, ret), _lit(r, ret)))))   # dirty it with a value of this activation
            def reccall(k):
                return Call(f, [Bin('-', a0, Lit(k, INT))] + [self.expr(t, scal, 1, []) if isinstance(t, Sc) else self.vexpr(t, vars_) for _, t in params[1:]])
            rec = reccall(1)
            # the caller's own parameter and local are read AFTER the recursive call
            tail = Bin('+', rec, loc)
            if r.random() < .5:
                # tree recursion: the activation re-enters the function after an inner activation has returned
                tail = Bin('+', tail, reccall(2)); self.hit('tree-recursion')
                tail = Bin('+', tail, loc)
            if a0.ty == ret: tail = Bin('+', tail, a0)
            if r.random() < .5:
                # a value computed BEFORE the recursive call (left operand) is used after it returns
                tail = Bin('+', Bin('*', loc, _lit(r, ret)), tail); self.hit('value-live-across-recursive-call')
            if agg is not None: tail = Bin('+', tail, agg_e)               # own element after the inner activations returned
            ss.append(Return(tail))
            self.hit('recursion')
        else:
            ss.append(Decl(loc.name, ret, self.expr(ret, scal, 2, funcs)))
            if agg is not None:
                ss.append(Decl(agg.name, agg.ty, None))
                ss.append(ExprS(Assign(loc, Bin('+', loc, agg_e))))              # fresh on every call: reads 0
                ss.append(ExprS(Assign(agg_e, Bin('+', agg_e, _lit(r, ret)))))   # dirtied for a possible next call
            for v in vars_:
                k = r.random()
                if isinstance(v.ty, Sc) and k < .7:
                    ss.append(ExprS(Assign(v, Bin('+', v, _lit(r, v.ty))))); self.hit('callee-writes-scalar-param')
                elif isinstance(v.ty, Vec) and k < .8:
                    if r.random() < .5:
                        ss.append(ExprS(Assign(Index(v, Lit(r.randrange(v.ty.n), INT)), _lit(r, Sc(v.ty.c))))); self.hit('callee-writes-vector-element')
                    else:
                        m = "xyzw"[:v.ty.n]; m = m[r.randrange(len(m))]
                        ss.append(ExprS(Assign(Swizzle(v, m), _lit(r, Sc(v.ty.c))))); self.hit('callee-writes-vector-swizzle')
            ss.append(ExprS(Assign(loc, Bin('+', loc, self.expr(ret, scal, 1, funcs)))))
            res = loc
            for v in vars_:
                if isinstance(v.ty, Vec) and Sc(v.ty.c) == ret:
                    res = Bin('+', res, Index(v, Lit(0, INT)))
            ss.append(Return(res if isinstance(res, Expr) else loc))
        f.body = Block(ss)
        return f

    def program(self):
        r = self.rng
        funcs = []
        # leaf helpers, overload families, a recursive helper
        for _ in range(r.randint(1, 3)):
            name = self.fresh("h")
            nparams = r.randint(1, 3)
            pnames = [self.fresh("a") for _ in range(nparams)]
            ret = r.choice([INT, FLOAT])
            choices = [INT, FLOAT] + ([Vec('float', 2), Vec('int', 3)] if self.o['vectors'] else [])
            tys = [r.choice(choices) for _ in range(nparams)]
            f = self.callee(name, list(zip(pnames, tys)), ret, list(funcs))
            funcs.append(f)
            if r.random() < .6:
                # an overload with the SAME parameter names and return type, different parameter types
                tys2 = list(tys)
                i = r.randrange(nparams)
                alt = [t for t in choices if t != tys[i]]
                tys2[i] = r.choice(alt)
                funcs.append(self.callee(name, list(zip(pnames, tys2)), ret, [g for g in funcs if g.name != name]))
                self.hit('overload-same-names')
                if r.random() < .35:
                    # ONE member of the family is exported (two exported functions of one name are rejected): it is called by
                    # its raw name, its sibling by the mangled one; the ranking must not prefer either for that reason
                    r.choice(funcs[-2:]).exported = True; self.hit('overload-one-member-exported')
        if r.random() < .5:
            # overloads that differ in ARITY: name(a) / name(a, extra float) — the second is also called with an int as extra
            # argument (implicit conversion), which must not make the shorter overload win
            name = self.fresh("ar")
            t0 = r.choice([INT, FLOAT]); ret0 = r.choice([INT, FLOAT])
            p0 = self.fresh("a")
            f1 = self.callee(name, [(p0, t0)], ret0, [])
            f2 = self.callee(name, [(p0, t0), (self.fresh("a"), FLOAT)], ret0, [])
            f2.arity_extra = True
            funcs += [f1, f2]; self.hit('overload-arity')
        if self.o['recursion'] and r.random() < .6:
            ret = r.choice([INT, FLOAT])
            ps = [(self.fresh("n"), INT)] + [(self.fresh("a"), r.choice([INT, FLOAT])) for _ in range(r.randint(0, 2))]
            funcs.append(self.callee(self.fresh("rec"), ps, ret, [], recursive=True))
        # the exported caller: reads every own parameter/local after every call
        params = [(self.fresh("p"), r.choice([INT, FLOAT])) for _ in range(r.randint(1, 3))]
        if self.o['vectors'] and r.random() < .5: params.append((self.fresh("v"), Vec('float', 2)))
        vars_ = [Var(n, t, 'arg', i) for i, (n, t) in enumerate(params)]
        ret = r.choice([INT, FLOAT])
        ss = []
        locs = []
        for _ in range(r.randint(1, 3)):
            t = r.choice([INT, FLOAT])
            l = Var(self.fresh("x"), t, 'local')
            ss.append(Decl(l.name, t, self.expr(t, vars_ + locs, 1, [])))
            locs.append(l)
        acc = Var(self.fresh("acc"), ret, 'local')
        ss.append(Decl(acc.name, ret, _lit(r, ret)))
        for _ in range(r.randint(2, 5)):
            fs = [f for f in funcs if f.ret == ret] or funcs
            f = r.choice(fs)
            c = self.call(f, vars_ + locs, 2, funcs)
            if f.ret != ret:
                tgt = [l for l in locs if l.ty == f.ret]
                if not tgt: continue
                ss.append(ExprS(Assign(tgt[0], c)))
            else:
                ss.append(ExprS(Assign(acc, Bin('+', acc, c))))
            # read every own scalar parameter and local after the call
            for v in vars_ + locs:
                if v.ty == ret:
                    ss.append(ExprS(Assign(acc, Bin('+', acc, v))))
                elif isinstance(v.ty, Vec) and Sc(v.ty.c) == ret:
                    ss.append(ExprS(Assign(acc, Bin('+', acc, Index(v, Lit(r.randrange(v.ty.n), INT))))))
            self.hit('caller-reads-after-call')
        ss.append(Return(acc))
        funcs.append(Func("f", params, ret, Block(ss), True))
        return Module([], [], funcs)


@progfam.maker("calls")
def make_calls(rng, opts):
    for _ in range(20):
        g = CG(rng, opts)
        m = g.program()
        if not calls_consistent(m):
            return m, "f", g.feat
    raise RuntimeError("could not generate a program with consistent overload resolution")


# ---------------------------------------------------------------- histories (C15)

class HG:
    def __init__(self, rng, opts=None):
        self.rng = rng; self.n = 0; self.feat = {}
        self.o = dict(aggregates=True)
        if opts: self.o.update(opts)

    def hit(self, k): self.feat[k] = self.feat.get(k, 0) + 1

    def fresh(self, p):
        self.n += 1
        return "%s%d" % (p, self.n)

    def program(self):
        r = self.rng
        structs = []
        globals_ = []
        gv = []
        for _ in range(r.randint(1, 3)):
            t = r.choice([INT, FLOAT]); n = self.fresh("g"); globals_.append((n, t)); gv.append(Var(n, t, 'global'))
        if self.o['aggregates'] and r.random() < .6:
            t = Arr(INT, (3,)); n = self.fresh("ga"); globals_.append((n, t)); gv.append(Var(n, t, 'global')); self.hit('global-array')
        if self.o['aggregates'] and r.random() < .4:
            st = Struct(self.fresh("St"), [(self.fresh("m"), INT), (self.fresh("m"), FLOAT)]); structs.append(st)
            n = self.fresh("gs"); globals_.append((n, st)); gv.append(Var(n, st, 'global')); self.hit('global-struct')
        funcs = []
        self.lstruct = None
        if self.o['aggregates'] and r.random() < .6:
            self.lstruct = Struct(self.fresh("Sl"), [(self.fresh("m"), INT), (self.fresh("m"), Arr(INT, (2,)))]); structs.append(self.lstruct)
        # a recursive helper whose activations keep a value across the inner call: n * 3 + rec(n - 1) + n
        self.recf = None
        if r.random() < .6:
            pn = self.fresh("n"); pv = Var(pn, INT, 'arg', 0)
            rf = Func(self.fresh("rec"), [(pn, INT)], INT, None, False)
            rf.body = Block([If(Bin('<=', pv, Lit(0, INT)), Return(Lit(1, INT))),
                             Return(Bin('+', Bin('+', Bin('*', pv, Lit(3, INT)), Call(rf, [Bin('-', pv, Lit(1, INT))])), pv))])
            self.recf = rf; funcs.append(rf); self.hit('recursive-helper')
        def places(ty):
            out = []
            for v in gv:
                if v.ty == ty: out.append(v)
                elif isinstance(v.ty, Arr) and v.ty.elem == ty: out.append(Index(v, Lit(r.randrange(v.ty.dims[0]), INT)))
                elif isinstance(v.ty, Struct):
                    for fn, ft in v.ty.fields:
                        if ft == ty: out.append(Member(v, fn))
            return out
        # internal helpers that modify scalar globals: called between a write and a read of the same global
        helpers = []
        scal = [v for v in gv if isinstance(v.ty, Sc)]
        for _ in range(r.randint(0, 2)):
            if not scal: break
            tgt = r.choice(scal)
            pn = self.fresh("q")
            pv = Var(pn, tgt.ty, 'arg', 0)
            body = Block([ExprS(Assign(tgt, Bin('+', tgt, pv))), Return(tgt)])
            helpers.append((Func(self.fresh("bump"), [(pn, tgt.ty)], tgt.ty, body, False), tgt))
            funcs.append(helpers[-1][0]); self.hit('helper-writes-global')
        # wrappers that do not write the global themselves but call a helper that does (the write happens two calls deep)
        for h, tgt in list(helpers):
            if r.random() < .6:
                pn = self.fresh("q"); pv = Var(pn, tgt.ty, 'arg', 0)
                w = Func(self.fresh("wrap"), [(pn, tgt.ty)], tgt.ty, Block([Return(Call(h, [pv]))]), False)
                helpers.append((w, tgt)); funcs.append(w); self.hit('wrapper-of-a-writing-helper')
        # void functions that end without a `return`: an internal one and exported setters
        vhelper = None
        if self.o.get('voids', True) and scal and r.random() < .6:
            tgt = r.choice(scal); pn = self.fresh("q"); pv = Var(pn, tgt.ty, 'arg', 0)
            vhelper = Func(self.fresh("put"), [(pn, tgt.ty)], VOID, Block([ExprS(Assign(tgt, Bin('+', tgt, pv)))]), False)
            funcs.append(vhelper); self.hit('void-helper-without-return')
        self.setters = []
        if self.o.get('voids', True) and scal and (r.random() < .6 or self.o.get('long')):
            for _ in range(r.randint(1, 2)):
                tgt = r.choice(scal); pn = self.fresh("p"); pv = Var(pn, tgt.ty, 'arg', 0)
                ss = [ExprS(Assign(tgt, pv))]
                if vhelper is not None and r.random() < .5: ss.append(ExprS(Call(vhelper, [_lit(r, vhelper.params[0][1])])))
                f = Func(self.fresh("set"), [(pn, tgt.ty)], VOID, Block(ss), True)
                self.setters.append(f); self.hit('exported-void-setter-without-return')
        for k in range(r.randint(2, 4)):
            params = [(self.fresh("p"), r.choice([INT, FLOAT])) for _ in range(r.randint(0, 2))]
            vars_ = [Var(n, t, 'arg', i) for i, (n, t) in enumerate(params)]
            ret = r.choice([INT, FLOAT])
            ss = []
            # locals must be fresh on every invocation: a local that is incremented before it is used
            loc = Var(self.fresh("c"), INT, 'local')
            ss.append(Decl(loc.name, INT, None))
            ss.append(ExprS(Assign(loc, Bin('+', loc, Lit(1, INT)))))
            if self.o['aggregates'] and self.lstruct is not None and r.random() < .5:
                # a local struct with an array member: every invocation must start from zeros
                ls_ = Var(self.fresh("s"), self.lstruct, 'local')
                ss.append(Decl(ls_.name, ls_.ty, None))
                fe = Index(Member(ls_, self.lstruct.fields[1][0]), Lit(r.randrange(2), INT))
                ss.append(ExprS(Assign(loc, Bin('+', loc, fe))))          # fresh member element (must be 0)
                ss.append(ExprS(Assign(fe, Bin('+', fe, Lit(7, INT)))))   # dirtied in place
                self.hit('local-struct-with-array-member')
            if self.recf is not None and r.random() < .5:
                ss.append(ExprS(Assign(loc, Bin('+', loc, Call(self.recf, [Lit(r.randrange(1, 5), INT)]))))); self.hit('recursive-call-in-history')
            if self.o['aggregates'] and r.random() < .5:
                la = Var(self.fresh("t"), Arr(INT, (2, 2)), 'local')
                ss.append(Decl(la.name, la.ty, None))
                e = Index(Index(la, Lit(r.randrange(2), INT)), Lit(r.randrange(2), INT))
                ss.append(ExprS(Assign(loc, Bin('+', loc, e))))          # reads the fresh element (must be 0)
                ss.append(ExprS(Assign(e, Bin('+', e, Lit(5, INT)))))   # and dirties it for a possible next invocation
                self.hit('local-2d-array')
            for _ in range(r.randint(1, 4)):
                ty = r.choice([INT, FLOAT])
                ps = places(ty)
                if not ps: continue
                tgt = r.choice(ps)
                srcs = [v for v in vars_ if v.ty == ty] + places(ty) + ([loc] if ty == INT else [])
                rhs = Bin(r.choice(['+', '-', '*']), r.choice(srcs), r.choice(srcs + [_lit(r, ty)]))
                ss.append(ExprS(Assign(tgt, rhs))); self.hit('global-write')
            if helpers and r.random() < .7:
                # g = e; bump(c); g = g + 1;   — the callee's write to g must be seen by the read after the call
                h, tgt = r.choice(helpers)
                ss.append(ExprS(Assign(tgt, _lit(r, tgt.ty))))
                ss.append(ExprS(Call(h, [_lit(r, tgt.ty)])))
                ss.append(ExprS(Assign(tgt, Bin('+', tgt, _lit(r, tgt.ty)))))
                self.hit('store-call-load')
            if vhelper is not None and r.random() < .4:
                ss.append(ExprS(Call(vhelper, [_lit(r, vhelper.params[0][1])]))); self.hit('call-of-void-helper')
            rs = [v for v in vars_ if v.ty == ret] + places(ret) + ([loc] if ret == INT else [])
            res = r.choice(rs) if rs else _lit(r, ret)
            if ret == INT: res = Bin('+', res, loc)
            ss.append(Return(res))
            funcs.append(Func(self.fresh("f"), params, ret, Block(ss), True))
        funcs += self.setters
        return Module(structs, globals_, funcs)


@progfam.maker("history")
def make_history(rng, opts):
    import gen
    g = HG(rng, opts)
    m = g.program()
    nvms = rng.choice([1, 2, 2, 3])
    ops = []
    # every global of every VM is set once (in any order), then the interleaved history
    sets = [(i, n, t) for i in range(nvms) for n, t in m.globals]
    rng.shuffle(sets)
    for i, n, t in sets:
        ops.append(('set', i, n, gen.gen_value(rng, t)))
    exported = [f for f in m.funcs if f.exported]
    long_ = bool(opts and opts.get('long'))
    if long_: g.hit('long-history')
    for _ in range(rng.randint(5, 40) if not long_ else rng.randint(450, 700)):
        i = rng.randrange(nvms) if not long_ else (0 if rng.random() < .9 else rng.randrange(nvms))
        k = rng.random()
        if long_ and g.setters and k < .5:
            f = rng.choice(g.setters)
            ops.append(('invoke', i, f.name, [gen.gen_value(rng, t) for _, t in f.params])); g.hit('op-invoke'); continue
        if k < .55:
            f = rng.choice(exported)
            ops.append(('invoke', i, f.name, [gen.gen_value(rng, t) for _, t in f.params])); g.hit('op-invoke')
        elif k < .85:
            n, t = rng.choice(m.globals)
            ops.append(('get', i, n)); g.hit('op-get')
        else:
            n, t = rng.choice(m.globals)
            ops.append(('set', i, n, gen.gen_value(rng, t))); g.hit('op-set')
    g.hit('vms-%d' % nvms)
    return dict(module=m, nvms=nvms, ops=ops, feat=g.feat)
