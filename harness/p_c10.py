"""C10 — overload resolution picks the unique best viable candidate.

Correspondence: types.Scope.RegisterFunction / FindFunction (with Function.Match, Match, IsCompatible) against the
Lean model `Overload.findFunction` (driver `ovl`).
Oracle: a Python transcription of the rule in the property statement (viable = same arity and every argument
convertible; fewest conversions; unique or rejected), evaluated for every ordered list of overloads, so that
agreement for all orders is order independence.  Aggregate leg: the same over the whole universe of parameter types
(arrays, structs, one-component vectors, __optional parameters) against `Overload.findFunctionA` (driver `ovla`,
Props/C10Agg.lean); the real scope is handed a NEW type object for every occurrence of a type.  End to end: programs whose overloads return distinct
constants are compiled and run on the VM; the value identifies the function that ran."""
import itertools
import common, implrun

RULE = ("API level: signatures with <=2 parameters over {int, uint, float, int2, float2} (31); every ordered list of <=2 overloads (quick) / "
        "<=3 overloads (thorough) x every argument list (31), plus a seeded sample of 3-overload lists over the larger universe "
        "{int, uint, float, int2, float2, float3, float3x3, float4x4} and lookups through nested scopes; end to end: every ordered pair of "
        "distinct overloads over {int, float} x {1,2} parameters x every argument list, compiled and run; aggregate leg: every ordered pair of "
        "one-parameter overloads over 15 types (arrays, nested arrays, arrays of structs, structs incl. two declarations of one name, float1) x "
        "every argument type, a seeded sample with 0-3 arguments, optional parameters and 1-4 overloads, and programs with array / struct "
        "parameters. Non-trivial: at least two "
        "overloads of the called name; distinct = distinct (overload list, argument list)")
EXHAUSTIVE = {"quick": False, "thorough": True}
ASSUMPTIONS = ["convertible: scalars among each other, vectors of equal size, matrices of equal shape (the language's IsCompatible on "
               "primitive types)",
               "the end-to-end leg needs the VM to run a call with scalar arguments (C03 is not claimed)",
               "aggregate leg: arrays (any nesting), structs, one-component vectors and __optional parameters are in the model `ovla` "
               "(Props/C10Agg.lean) and in the API-level correspondence; end to end, a call whose chosen overload takes an array of "
               "another element type (int[3] for float[3]: IsCompatible admits it) is not compilable (no whole-array conversion exists) "
               "and is not judged; void is not a parameter type"]
TRUSTED = ["Nsl/Model/Overload.lean mirrors IsCompatible / Match / Function.Match / Scope.FindFunction"]

SMALL = [("s", "int"), ("s", "uint"), ("s", "float"), ("v", "int", 2), ("v", "float", 2)]
LARGE = SMALL + [("v", "float", 3), ("m", "float", 3, 3), ("m", "float", 4, 4)]
NSL_NAME = {("s", "int"): "int", ("s", "uint"): "uint", ("s", "float"): "float", ("v", "int", 2): "int2", ("v", "float", 2): "float2",
            ("v", "float", 3): "float3", ("v", "int", 3): "int3", ("m", "float", 3, 3): "float3x3", ("m", "float", 4, 4): "float4x4"}


def tstr(t):
    return ":".join(str(x) for x in t)


def convertible(a, p):
    if a[0] != p[0]: return False
    return a[0] == "s" or a[2:] == p[2:]


def spec_best(sigs, name, args):
    """sigs: list of (name, params). Returns ('ok', index) | 'unknown' | 'nomatch' | 'ambiguous'."""
    named = [(i, s) for i, s in enumerate(sigs) if s[0] == name]
    if not named: return "unknown"
    viable = [(i, s) for i, s in named if len(s[1]) == len(args) and all(convertible(a, p) for a, p in zip(args, s[1]))]
    if not viable: return "nomatch"
    cost = lambda s: sum(1 for a, p in zip(args, s[1]) if a != p)
    m = min(cost(s) for _, s in viable)
    best = [i for i, s in viable if cost(s) == m]
    return ("ok", best[0]) if len(best) == 1 else "ambiguous"


def rstr(r):
    return r if isinstance(r, str) else "ok %d" % r[1]


def impl_type(T, t):
    c = {"float": T.Float, "int": T.Integer, "uint": T.UnsignedInteger}[t[1]]()
    if t[0] == "s": return c
    if t[0] == "v": return T.VectorType(c, t[2])
    return T.MatrixType(c, t[2], t[3])


def impl_find(scopes_sigs, name, args):
    """scopes_sigs: list of scopes, innermost first; each a list of (name, params). Indices are global (flattened order)."""
    T, A, E = implrun.types, implrun.ast_mod, implrun.Errors
    scope, ident, k = None, {}, 0
    offsets = []
    for sigs in scopes_sigs: offsets.append(k); k += len(sigs)
    for si in range(len(scopes_sigs) - 1, -1, -1):      # outermost first
        scope = T.Scope(scope)
        for j, (n, params) in enumerate(scopes_sigs[si]):
            f = T.Function(n, T.Integer(), [A.Argument(impl_type(T, p), "p%d" % i) for i, p in enumerate(params)])
            f.Resolve(scope)
            scope.RegisterFunction(n, f)
            ident[id(f)] = offsets[si] + j
    try:
        with implrun.quiet():
            f = scope.FindFunction(name, [impl_type(T, a) for a in args])
    except E.CompileException as e:
        return {E.ERROR_UNKNOWN_FUNCTION_CALL: "unknown", E.ERROR_NO_MATCHING_OVERLOAD_FUNCTION_CALL: "nomatch",
                E.ERROR_AMBIGUOUS_FUNCTION_CALL: "ambiguous"}.get(e.message, "error:" + str(e))
    except Exception as e:
        return "crash:%s:%s" % implrun.exc_site(e)[:2]
    return ("ok", ident.get(id(f), -1))


def all_sigs(universe):
    out = [()]
    out += [(a,) for a in universe]
    out += [(a, b) for a in universe for b in universe]
    return out


def sig_line(i, name, params):
    return "%s/%d/%s" % (name, i, ",".join(tstr(p) for p in params) or "-")


def api_cases(run):
    rng = run.rng
    S = all_sigs(SMALL)
    n = 3 if run.tier == "thorough" else 2
    for k in range(1, n + 1):
        for combo in itertools.product(S, repeat=k):
            for args in S:
                yield [[("g", p) for p in combo]], "g", args
    if run.tier != "thorough":
        # three and four viable candidates of the call's arity, in every declaration order (the exhaustive triple
        # enumeration belongs to the thorough tier)
        for _ in range(1500):
            args = rng.choice([a for a in S if len(a) >= 1])
            pool = [s for s in S if len(s) == len(args)]
            k = rng.choice([3, 3, 4])
            if len(pool) < k: continue
            combo = rng.sample(pool, k)
            perms = list(itertools.permutations(combo))
            for perm in (perms if k == 3 else rng.sample(perms, 6)):
                yield [[("g", p) for p in perm]], "g", args
    L = all_sigs(LARGE)
    for _ in range(40000 if run.tier == "thorough" else 6000):
        k = rng.choice([1, 2, 3, 3, 3, 4])
        # bias towards the arity of the call so that several candidates are viable
        args = rng.choice(L)
        pool = [s for s in L if len(s) == len(args)] if rng.random() < 0.7 else L
        sigs = [(rng.choice(["g", "g", "g", "h"]), rng.choice(pool)) for _ in range(k)]
        if rng.random() < 0.3:   # nested scopes: inner scope may or may not declare the name
            cut = rng.randrange(0, k + 1)
            yield [sigs[:cut], sigs[cut:]], rng.choice(["g", "g", "h", "k"]), args
        else:
            yield [sigs], rng.choice(["g", "g", "g", "h", "k"]), args


def spec_resolve(scopes, name, args):
    off = 0
    for sigs in scopes:
        if any(s[0] == name for s in sigs):
            r = spec_best(sigs, name, args)
            return r if isinstance(r, str) else ("ok", r[1] + off)
        off += len(sigs)
    return "unknown"


def e2e_source(sigs, args, caller_pos=None):
    """sigs: list of param tuples; overload i returns the constant 10+i.  caller_pos: where the calling function is declared
    among the overloads (None/len = after all of them, 0 = before all): the resolution must not depend on it."""
    fs = []
    for i, params in enumerate(sigs):
        fs.append("function g(%s) -> int { return %d; }" % (", ".join("%s p%d" % (NSL_NAME[p], j) for j, p in enumerate(params)), 10 + i))
    caller = "export function f(%s) -> int { return g(%s); }" % (", ".join("%s a%d" % (NSL_NAME[a], j) for j, a in enumerate(args)),
                                                                 ", ".join("a%d" % j for j in range(len(args))))
    fs.insert(len(fs) if caller_pos is None else caller_pos, caller)
    return "\n".join(fs) + "\n"


def e2e_source2(sigs, args1, args2):
    """two calls of the same name with different argument types in one module: f returns 100 * g(first) + g(second)"""
    fs = []
    for i, params in enumerate(sigs):
        fs.append("function g(%s) -> int { return %d; }" % (", ".join("%s p%d" % (NSL_NAME[p], j) for j, p in enumerate(params)), 10 + i))
    ps = ["%s a%d" % (NSL_NAME[a], j) for j, a in enumerate(args1)] + ["%s b%d" % (NSL_NAME[a], j) for j, a in enumerate(args2)]
    fs.append("export function f(%s) -> int { return g(%s) * 100 + g(%s); }" % (", ".join(ps), ", ".join("a%d" % j for j in range(len(args1))),
                                                                                ", ".join("b%d" % j for j in range(len(args2)))))
    return "\n".join(fs) + "\n"


def arg_value(a):
    if a[0] == "v": return [1.5 if a[1] == "float" else 3] * a[2]
    return 1.5 if a[1] == "float" else 3


def e2e_run(src, args):
    st = implrun.compile_src(src)
    if st[0] != "ok": return "reject"
    try:
        with implrun.quiet():
            prog = implrun.link([st[1].IRModule])
            vm = implrun.new_vm(prog)
            if isinstance(args, dict): kw = {k: arg_value(a) for k, a in args.items()}
            else: kw = {"a%d" % j: arg_value(a) for j, a in enumerate(args)}
        r = implrun.invoke(vm, "f", kw)
    except Exception as e:
        return "crash:%s:%s" % implrun.exc_site(e)[:2]
    return r[1] if r[0] == "ok" else "crash:%s:%s" % (r[0], r[1])


# ---------------------------------------------------------------- the full type universe: aggregates, one-component vectors,
# optional parameters (API level + end to end).  Types: the primitive tuples above, ("A", elem, dims), ("S", name, fields).
# (void is neither primitive nor aggregate in nsl/types.py and cannot be a parameter type: outside the universe)

P1 = ("S", "P", (("x", ("s", "float")), ("y", ("s", "float"))))
P2 = ("S", "P", (("x", ("s", "float")), ("y", ("s", "int"))))          # same name, another declaration
Q1 = ("S", "Q", (("x", ("s", "float")), ("y", ("s", "float"))))
AF3, AI3, AF2 = ("A", ("s", "float"), (3,)), ("A", ("s", "int"), (3,)), ("A", ("s", "float"), (2,))
AGG = [("s", "int"), ("s", "float"), ("v", "float", 2), ("v", "float", 1), AF3, AI3, AF2, ("A", ("s", "float"), (3, 2)),
       ("A", ("v", "float", 2), (3,)), ("A", AF3, (2,)), P1, P2, Q1, ("A", P1, (2,)), ("A", Q1, (2,))]


def xstr(t):
    if t[0] == "void": return "void"
    if t[0] == "A": return "A[%s;%s]" % (xstr(t[1]), ";".join(str(d) for d in t[2]))
    if t[0] == "S": return "S{%s;%s}" % (t[1], ";".join("%s=%s" % (n, xstr(ft)) for n, ft in t[2]))
    return tstr(t)


def ximpl(T, t):
    """a NEW type object on every call (a type loaded from a stored module is a copy of its declaration)"""
    import collections
    if t[0] == "void": return T.Void()
    if t[0] == "A": return T.ArrayType(ximpl(T, t[1]), list(t[2]))
    if t[0] == "S": return T.StructType(t[1], collections.OrderedDict((n, ximpl(T, ft)) for n, ft in t[2]))
    return impl_type(T, t)


def xred(t):
    return ("s", t[1]) if t[0] == "v" and t[2] == 1 else t


def xconvertible(a, p):
    """the language's rule: arrays of the same size with convertible elements; void only with void; numeric types of the same
    shape (a one-component vector counts as a scalar); a struct only with the same struct"""
    if a[0] == "A" or p[0] == "A":
        return a[0] == p[0] and a[2] == p[2] and xconvertible(a[1], p[1])
    if a[0] == "void" or p[0] == "void": return a[0] == p[0]
    if a[0] == "S" or p[0] == "S": return a == p
    a, p = xred(a), xred(p)
    return a[0] == p[0] and (a[0] == "s" or a[2:] == p[2:])


def xspec_best(sigs, name, args):
    """sigs: list of (name, [(type, optional)])"""
    named = [(i, s) for i, s in enumerate(sigs) if s[0] == name]
    if not named: return "unknown"
    def viable(ps):
        return len(args) <= len(ps) and all(o for _, o in ps[len(args):]) and all(xconvertible(a, p) for a, (p, _) in zip(args, ps))
    v = [(i, s) for i, s in named if viable(s[1])]
    if not v: return "nomatch"
    cost = lambda s: sum(1 for a, (p, _) in zip(args, s[1]) if a != p)
    m = min(cost(s) for _, s in v)
    best = [i for i, s in v if cost(s) == m]
    return ("ok", best[0]) if len(best) == 1 else "ambiguous"


def ximpl_find(sigs, name, args):
    T, A, E = implrun.types, implrun.ast_mod, implrun.Errors
    scope, ident = T.Scope(None), {}
    for j, (n, params) in enumerate(sigs):
        f = T.Function(n, T.Integer(), [A.Argument(ximpl(T, p), "p%d" % i, {A.ArgumentModifier.Optional} if o else set()) for i, (p, o) in enumerate(params)])
        f.Resolve(scope)
        scope.RegisterFunction(n, f)
        ident[id(f)] = j
    try:
        with implrun.quiet():
            f = scope.FindFunction(name, [ximpl(T, a) for a in args])
    except E.CompileException as e:
        return {E.ERROR_UNKNOWN_FUNCTION_CALL: "unknown", E.ERROR_NO_MATCHING_OVERLOAD_FUNCTION_CALL: "nomatch",
                E.ERROR_AMBIGUOUS_FUNCTION_CALL: "ambiguous"}.get(e.message, "error:" + str(e))
    except Exception as e:
        return "crash:%s:%s" % implrun.exc_site(e)[:2]
    return ("ok", ident.get(id(f), -1))


def xsig_line(i, name, params):
    return "%s/%d/%s" % (name, i, ",".join(("?" if o else "") + xstr(p) for p, o in params) or "-")


def agg_cases(run):
    rng = run.rng
    one = [[(t, False)] for t in AGG]
    # every ordered pair of one-parameter overloads x every argument type
    for a, b in itertools.product(one, repeat=2):
        for t in AGG:
            yield [("g", a), ("g", b)], "g", (t,)
    def rsig(n):
        ps = [(rng.choice(AGG), False) for _ in range(n)]
        k = rng.choice([0, 0, 1, 2])                      # trailing optional parameters
        for i in range(max(0, n - k), n): ps[i] = (ps[i][0], True)
        if rng.random() < .1 and n: ps[rng.randrange(n)] = (ps[rng.randrange(n)][0], True)     # an optional that is not trailing
        return ps
    for _ in range(40000 if run.tier == "thorough" else 5000):
        na = rng.choice([0, 1, 1, 2, 2, 3])
        args = tuple(rng.choice(AGG) for _ in range(na))
        sigs = []
        for _ in range(rng.choice([1, 2, 3, 3, 4])):
            ps = rsig(rng.choice([na, na, na + 1, na + 2, max(0, na - 1)]))
            if rng.random() < .8:
                # derived from the call: exact, or with some positions replaced by a convertible / another type
                for i, a in enumerate(args[:len(ps)]):
                    if rng.random() < .6: ps[i] = (a, ps[i][1])
                    elif rng.random() < .5:
                        alt = [t for t in AGG if t != a and xconvertible(a, t)]
                        if alt: ps[i] = (rng.choice(alt), ps[i][1])
            sigs.append((rng.choice(["g", "g", "g", "h"]), ps))
        yield sigs, rng.choice(["g", "g", "g", "h", "k"]), args


XNSL = {AF3: "float[3]", AI3: "int[3]", AF2: "float[2]", P1: "P", Q1: "Q", ("s", "int"): "int", ("s", "float"): "float", ("v", "float", 2): "float2"}


def agg_e2e_source(sigs, arg):
    decl = lambda t, n: ("%s%s %s" % (XNSL[t].split("[")[0], "[" + XNSL[t].split("[")[1] if "[" in XNSL[t] else "", n))
    fs = ["struct P { float x; float y; }", "struct Q { float x; float y; }"]
    for i, p in enumerate(sigs):
        fs.append("function g(%s) -> int { return %d; }" % (decl(p, "p"), 10 + i))
    fs.append("export function f() -> int { %s; return g(v); }" % decl(arg, "v"))
    return "\n".join(fs) + "\n"


def agg_leg(run, d):
    """API level over the full universe (model `ovla` + rule) and programs with array / struct parameters"""
    have_model = True
    batch = []
    def flush():
        ans = d.ask_many([b[0] for b in batch]) if have_model else [None] * len(batch)
        for (line, sigs, name, args, got), a in zip(batch, ans):
            want = xspec_best(sigs, name, args)
            ncand = sum(1 for s in sigs if s[0] == name)
            kinds = set(t[0] for t in args) | set(p[0] for _, ps in sigs for p, _ in ps)
            run.case(("agg", line), nontrivial=ncand >= 2 and bool(kinds & {"A", "S", "void"}) or any(o for _, ps in sigs for _, o in ps))
            run.count("agg:candidates:%d" % min(ncand, 4)); run.count("agg:result:" + (got if isinstance(got, str) else "ok").split(":")[0])
            for k in sorted(kinds & {"A", "S", "void"}): run.count("agg:kind:" + k)
            if any(o for _, ps in sigs for _, o in ps): run.count("agg:optional-parameter")
            inp = dict(overloads=[xsig_line(i, n, p) for i, (n, p) in enumerate(sigs)], call=name, args=[xstr(x) for x in args], expected=rstr(want), line=line)
            if have_model:
                model, lean_spec = split2(a)
                if a == "error": raise common.Infra("model cannot parse: " + line)
                if rstr(got) != model: run.mismatch("api-aggregate", inp, model, rstr(got))
                if lean_spec != rstr(want): run.mismatch("api-aggregate-spec", inp, lean_spec, rstr(want))
            if rstr(got) != rstr(want):
                cls = "crash" if rstr(got).startswith("crash") else "wrong-candidate" if not isinstance(got, str) and not isinstance(want, str) else \
                      "accepts-nonviable" if not isinstance(got, str) else "rejects-valid" if not isinstance(want, str) else "wrong-error"
                run.fail("api-aggregate", inp, "call %s(%s) with overloads %s resolves to %s, the rule gives %s" %
                         (name, ", ".join(inp["args"]), inp["overloads"], rstr(got), rstr(want)), key="api-aggregate:" + cls)
        batch.clear()
    for sigs, name, args in agg_cases(run):
        line = "ovla %s %s %s" % (name, ",".join(xstr(a) for a in args) or "-", " ".join(xsig_line(i, n, p) for i, (n, p) in enumerate(sigs)))
        batch.append((line, sigs, name, args, ximpl_find(sigs, name, args)))
        if len(batch) >= 4000: flush()
    flush()
    # ---- end to end: one-parameter overloads over arrays, structs and scalars, the argument a local of each type
    E = [AF3, AI3, AF2, P1, Q1, ("s", "int"), ("s", "float")]
    for combo in [(a,) for a in E] + [c for c in itertools.permutations(E, 2)]:
        for arg in E:
            want = xspec_best([("g", [(p, False)]) for p in combo], "g", (arg,))
            exp = (10 + want[1]) if not isinstance(want, str) else "reject"
            src = agg_e2e_source(combo, arg)
            got = e2e_run(src, ())
            run.case(("agg-e2e", combo, arg), nontrivial=len(combo) >= 2, sample=dict(source=src, returned=got) if (len(combo) == 2 and got == 11 and len(run.samples) < 6) else None)
            run.count("agg:e2e"); run.count("agg:e2e:" + ("runs" if isinstance(got, int) else str(got).split(":")[0]))
            if got != exp:
                if isinstance(got, str) and isinstance(exp, int) and arg != combo[want[1]] and arg[0] == "A":
                    # the chosen overload takes an array of another element type: IsCompatible admits it, but no conversion of a
                    # whole array exists (AddImplicitCasts asserts, the program is not accepted): not a resolution outcome
                    run.count("agg:e2e:converted-array-argument-not-compilable"); continue
                run.fail("e2e", dict(source=src, args=[xstr(arg)], expected=exp), "the call in\n%s returns %r, the rule gives %r" % (src, got, exp),
                         key="e2e-aggregate:" + ("crash" if str(got).startswith("crash") else "wrong-function" if isinstance(got, int) and isinstance(exp, int)
                                                 else "accepts" if isinstance(got, int) else "rejects"))


def explore(run, widen=1):
    implrun.load()
    d = common.Driver()
    batch = []
    def flush():
        ans = d.ask_many([b[0] for b in batch])
        for (line, scopes, name, args, got), a in zip(batch, ans):
            model, lean_spec = split2(a)
            want = spec_resolve(scopes, name, args)
            flat = [s for sc in scopes for s in sc]
            ncand = sum(1 for s in flat if s[0] == name)
            run.case((tuple(map(tuple, scopes)), name, args), nontrivial=ncand >= 2,
                     sample=dict(overloads=[sig_line(i, n, p) for i, (n, p) in enumerate(flat)], call=name, args=[tstr(x) for x in args], result=rstr(got))
                     if (ncand == 3 and not isinstance(got, str) and len(run.samples) < 3) else None)
            run.count("candidates:%d" % min(ncand, 4)); run.count("result:" + (got if isinstance(got, str) else "ok").split(":")[0]); run.count("scopes:%d" % len(scopes))
            inp = dict(scopes=[[sig_line(0, n, p) for n, p in sc] for sc in scopes], call=name, args=[tstr(x) for x in args], expected=rstr(want))
            if len(scopes) == 1:
                if rstr(got) != model: run.mismatch("api", inp, model, rstr(got))
            if rstr(got) != rstr(want):
                cls = "crash" if rstr(got).startswith("crash") else "wrong-candidate" if not isinstance(got, str) and not isinstance(want, str) else \
                      "accepts-nonviable" if not isinstance(got, str) else "rejects-valid" if not isinstance(want, str) else "wrong-error"
                run.fail("api", inp, "call %s(%s) with overloads %s resolves to %s, the rule gives %s" %
                         (name, ", ".join(inp["args"]), inp["scopes"], rstr(got), rstr(want)), key="api:" + cls)
        batch.clear()
    for scopes, name, args in api_cases(run):
        flat = [s for sc in scopes for s in sc]
        line = "ovl %s %s %s" % (name, ",".join(tstr(a) for a in args) or "-", " ".join(sig_line(i, n, p) for i, (n, p) in enumerate(flat)))
        batch.append((line, scopes, name, args, impl_find(scopes, name, args)))
        if len(batch) >= 5000: flush()
    flush()
    agg_leg(run, d)
    d.close()
    # ---- end to end
    E2 = [("s", "int"), ("s", "float")]
    S2 = [s for s in all_sigs(E2)]
    pairs = [c for c in itertools.product(S2, repeat=2) if c[0] != c[1]] + [(s,) for s in S2]
    if run.tier == "thorough":
        pairs += [c for c in itertools.product([s for s in S2 if len(s) == 2], repeat=3) if len(set(c)) == 3]
    for combo in pairs:
        for args in S2:
            src = e2e_source(combo, args)
            want = spec_best([("g", p) for p in combo], "g", args)
            got = e2e_run(src, args)
            run.case(("e2e", combo, args), nontrivial=len(combo) >= 2,
                     sample=dict(source=src, returned=got) if (len(combo) == 2 and len(args) == 2 and isinstance(got, int) and len(run.samples) < 5) else None)
            run.count("e2e"); run.count("e2e:" + ("runs" if isinstance(got, int) else str(got).split(":")[0]))
            exp = (10 + want[1]) if not isinstance(want, str) else "reject"
            if got != exp:
                run.fail("e2e", dict(source=src, args=[tstr(a) for a in args], expected=exp),
                         "the call in\n%s returns %r, the rule gives %r" % (src, got, exp),
                         key="e2e:" + ("crash" if str(got).startswith("crash") else "wrong-function" if isinstance(got, int) and isinstance(exp, int)
                                       else "accepts" if isinstance(got, int) else "rejects"))


    # ---- the position of the caller among the overloads must not matter; nor must an earlier call of the same name
    for combo in [c for c in pairs if len(c) >= 2]:
        for args in S2:
            want = spec_best([("g", p) for p in combo], "g", args)
            exp = (10 + want[1]) if not isinstance(want, str) else "reject"
            for pos in range(len(combo)):
                src = e2e_source(combo, args, caller_pos=pos)
                got = e2e_run(src, args)
                run.case(("e2e-pos", combo, args, pos), nontrivial=True); run.count("e2e-caller-position")
                if got != exp:
                    run.fail("e2e", dict(source=src, args=[tstr(a) for a in args], expected=exp),
                             "with the caller declared at position %d the call in\n%s returns %r, the rule gives %r" % (pos, src, got, exp), key="e2e:caller-position")
    V = [("v", "int", 2), ("v", "float", 2), ("v", "float", 3), ("v", "int", 3), ("s", "int"), ("s", "float")]
    vs = [(a,) for a in V]
    sets = [c for c in itertools.combinations(vs, 2)] + [c for c in itertools.combinations(vs, 3)]
    if run.tier != "thorough": sets = run.rng.sample(sets, 14)
    for combo in sets:
        for a1, a2 in itertools.product(vs, repeat=2):
            w1, w2 = spec_best([("g", p) for p in combo], "g", a1), spec_best([("g", p) for p in combo], "g", a2)
            exp = "reject" if isinstance(w1, str) or isinstance(w2, str) else (10 + w1[1]) * 100 + (10 + w2[1])
            src = e2e_source2(combo, a1, a2)
            got = e2e_run(src, {"a0": a1[0], "b0": a2[0]})
            run.case(("e2e-two", combo, a1, a2), nontrivial=True); run.count("e2e-two-calls")
            if got != exp:
                run.fail("e2e", dict(source=src, args=[tstr(a1[0]), tstr(a2[0])], expected=exp),
                         "two calls in one module:\n%s returns %r, the rule gives %r" % (src, got, exp), key="e2e:two-calls")


def split2(a):
    """driver answer: '<model result> <lean spec result>' where each is 'ok N' or a word"""
    parts = a.split(" ")
    if parts[0] == "ok": return "ok " + parts[1], " ".join(parts[2:])
    return parts[0], " ".join(parts[1:])


def search(run):
    pass


def matches(entry, failure):
    return entry.get("matcher") == failure["key"]


def xparse(s):
    """inverse of xstr"""
    if s == "void": return ("void",)
    def split_top(body):
        out, depth, cur = [], 0, ""
        for ch in body:
            if ch in "[{": depth += 1
            if ch in "]}": depth -= 1
            if ch == ";" and depth == 0: out.append(cur); cur = ""
            else: cur += ch
        out.append(cur); return out
    if s.startswith("A["):
        parts = split_top(s[2:-1]); return ("A", xparse(parts[0]), tuple(int(d) for d in parts[1:]))
    if s.startswith("S{"):
        parts = split_top(s[2:-1]); return ("S", parts[0], tuple((f.split("=", 1)[0], xparse(f.split("=", 1)[1])) for f in parts[1:]))
    p = s.split(":"); return tuple([p[0], p[1]] + [int(v) for v in p[2:]])


def replay(obj):
    implrun.load()
    x = obj["input"]
    if "overloads" in x:
        def split_params(ps):
            out, depth, cur = [], 0, ""
            for ch in ps:
                if ch in "[{": depth += 1
                if ch in "]}": depth -= 1
                if ch == "," and depth == 0: out.append(cur); cur = ""
                else: cur += ch
            return out + [cur]
        sigs = []
        for l in x["overloads"]:
            n, _, ps = l.split("/", 2)
            sigs.append((n, [] if ps == "-" else [(xparse(t.lstrip("?")), t.startswith("?")) for t in split_params(ps)]))
        got = ximpl_find(sigs, x["call"], tuple(xparse(a) for a in x["args"]))
        return rstr(got) == x["expected"], "resolves to %s, the rule gives %s" % (rstr(got), x["expected"])
    if "source" in x and "struct P" in x["source"]:
        got = e2e_run(x["source"], ())
        return got == x["expected"], "returns %r, expected %r" % (got, x["expected"])
    if "source" in x:
        def parse(s):
            p = s.split(":"); return tuple([p[0], p[1]] + [int(v) for v in p[2:]])
        args = [parse(a) for a in x["args"]]
        got = e2e_run(x["source"], {"a0": args[0], "b0": args[1]} if " b0" in x["source"] else args)
        return got == x["expected"], "returns %r, expected %r" % (got, x["expected"])
    def parse(s):
        p = s.split(":"); return tuple([p[0], p[1]] + [int(v) for v in p[2:]])
    scopes = [[(l.split("/")[0], tuple(parse(t) for t in l.split("/")[2].split(",") if t != "-")) for l in sc] for sc in x["scopes"]]
    got = impl_find(scopes, x["call"], tuple(parse(a) for a in x["args"]))
    return rstr(got) == x["expected"], "resolves to %s, the rule gives %s" % (rstr(got), x["expected"])
