"""Shared runner of the compile-and-run property family (C01 C02 C03 C04 C05 C14 C15): generates programs with
harness/gen.py (+ hand-written corpus programs), evaluates each one with proglib.eval_program in a pool of worker
processes (real nsl in-process, one Lean model driver per worker) and hands the records to the property's judge."""
import os, sys, json, random, hashlib, multiprocessing, traceback, glob
import common, implrun, gen, lang, proglib

WORKERS = int(os.environ.get("VERIF_WORKERS", "16"))


def _seed_for(base_seed, pid, i):
    h = hashlib.blake2b(("%d/%s/%d" % (base_seed, pid, i)).encode(), digest_size=8).digest()
    return int.from_bytes(h, "little")


def _work(job):
    """(index, seed, gen-options, want, inputs-per-program, fname) -> record"""
    i, seed, opts, want, ninputs, maker = job
    try:
        rng = random.Random(seed)
        if maker is None:
            g = gen.G(rng, opts)
            module = g.program()
            feat = g.feat
            fname = "f"
        else:
            made = MAKERS[maker](rng, opts)
            if isinstance(made, dict) and "ops" in made:          # a host history (C15)
                rec = proglib.eval_history(made["module"], made["nvms"], made["ops"], want=want)
                rec.update(features=made["feat"], seed=seed, index=i, maker=maker, opts=opts)
                return rec
            if isinstance(made, dict):                             # a program with its own inputs
                rec = proglib.eval_program(made["module"], made["fname"], made["inputs"], want=want)
                rec.update(features=made["feat"], seed=seed, index=i, maker=maker, opts=opts)
                if "name" in made: rec["name"] = made["name"]
                return rec
            module, fname, feat = made
        inputs = gen.gen_inputs(rng, module, fname, ninputs)
        rec = proglib.eval_program(module, fname, inputs, want=want)
        rec["features"] = feat
        rec["seed"] = seed
        rec["index"] = i
        rec["maker"] = maker
        rec["opts"] = opts
        return rec
    except common.Infra as e:
        return {"infra": str(e), "seed": seed, "index": i}
    except RecursionError:
        return {"skipped": "python recursion in the harness", "seed": seed, "index": i}
    except Exception as e:
        return {"harness_error": "%s: %s\n%s" % (type(e).__name__, e, traceback.format_exc()[-1500:]), "seed": seed, "index": i}


MAKERS = {}      # name -> function(rng, opts) -> (lang.Module, fname, features)


def maker(name):
    def deco(fn):
        MAKERS[name] = fn
        return fn
    return deco


def evaluate(run, pid, jobs_spec, want, ninputs=4):
    """jobs_spec: list of (count, gen-options or None, maker-name or None).  Yields records."""
    implrun.load()
    common.ensure_driver()
    jobs = []
    n = 0
    for count, opts, mk in jobs_spec:
        for _ in range(count):
            jobs.append((n, _seed_for(run.seed, pid, n), opts, want, ninputs, mk))
            n += 1
    if WORKERS <= 1 or len(jobs) < 8:
        for j in jobs:
            yield _work(j)
        return
    for j, rec in parallel_map(_work, jobs):
        if rec is LOST: yield {"skipped": "worker process died or hung on this program", "seed": j[1], "index": j[0]}
        else: yield rec


LOST = object()


def parallel_map(fn, items, workers=None):
    """Yields (item, fn(item)) in completion order; (item, LOST) for an item whose worker died or stalled twice.
    A job whose worker died or hung is retried once in a worker of its own."""
    items = list(items)
    keyed = list(enumerate(items))
    nw = workers or min(WORKERS, max(1, len(items) // 4))
    lost = []
    for idx, res in _fan_out(fn, keyed, nw, lost):
        yield items[idx], res
    while lost:
        batch, lost = lost[:WORKERS], lost[WORKERS:]
        again = []
        for idx, res in _fan_out(fn, batch, len(batch), again, prefetch=1):
            yield items[idx], res
        for idx, _ in again:
            yield items[idx], LOST


STALL_S = int(os.environ.get("VERIF_STALL_S", "420"))      # wall-clock seconds without any result before a worker is given up


def _fan_out(fn, jobs, nw, lost, prefetch=2):
    """Own worker pool (fork; jobs (index, payload) handed out on demand over one pipe per worker, results come back over
    another): unlike multiprocessing.Pool it cannot hang when a worker dies or stalls — the jobs that produced no result
    are appended to `lost`. Yields (index, result)."""
    import pickle, struct, select, signal as _sig, time

    def send(fd, obj):
        data = pickle.dumps(obj)
        os.write(fd, struct.pack("<I", len(data)) + data)

    def child(cmd_r, res_w):
        inp, out = os.fdopen(cmd_r, "rb"), os.fdopen(res_w, "wb")
        while True:
            hdr = inp.read(4)
            if len(hdr) < 4: break
            idx, payload = pickle.loads(inp.read(struct.unpack("<I", hdr)[0]))
            data = pickle.dumps((idx, fn(payload)))
            out.write(struct.pack("<I", len(data)) + data); out.flush()

    queue = list(jobs)[::-1]
    workers = {}            # pid -> [res_r, cmd_w, buffer, outstanding {idx: job}, last activity]
    for w in range(min(nw, len(queue))):
        cmd_r, cmd_w = os.pipe(); res_r, res_w = os.pipe()
        pid = os.fork()
        if pid == 0:
            try:
                os.close(cmd_w); os.close(res_r)
                for st in workers.values():
                    for fd in st[:2]:
                        try: os.close(fd)
                        except OSError: pass
                child(cmd_r, res_w)
            except BaseException:
                traceback.print_exc()
            finally:
                try:
                    if getattr(proglib, "_driver", None) is not None: proglib._driver.p.kill()
                except Exception:
                    pass
                os._exit(0)
        os.close(cmd_r); os.close(res_w)
        workers[pid] = [res_r, cmd_w, b"", {}, time.time()]

    def feed(st):
        while queue and len(st[3]) < prefetch:
            job = queue.pop()
            st[3][job[0]] = job
            try: send(st[1], job)
            except OSError:
                return
        if not queue and not st[3] and st[1] is not None:
            try: os.close(st[1])
            except OSError: pass
            st[1] = None

    def drop(pid, kill):
        st = workers.pop(pid)
        if kill:
            try: os.kill(pid, _sig.SIGKILL)
            except ProcessLookupError: pass
        try: os.waitpid(pid, 0)
        except ChildProcessError: pass
        for fd in (st[0], st[1]):
            if fd is not None:
                try: os.close(fd)
                except OSError: pass
        lost.extend(st[3].values())

    for st in workers.values(): feed(st)
    while workers:
        fds = {st[0]: pid for pid, st in workers.items()}
        ready, _, _ = select.select(list(fds), [], [], 5.0)
        now = time.time()
        for fd in ready:
            pid = fds[fd]; st = workers[pid]
            chunk = os.read(fd, 1 << 20)
            if not chunk:                       # EOF: finished, or died with jobs outstanding
                drop(pid, False); continue
            st[2] += chunk; st[4] = now
            while len(st[2]) >= 4:
                n = struct.unpack("<I", st[2][:4])[0]
                if len(st[2]) < 4 + n: break
                idx, rec = pickle.loads(st[2][4:4 + n]); st[2] = st[2][4 + n:]
                st[3].pop(idx, None)
                yield idx, rec
            feed(st)
        for pid, st in list(workers.items()):
            if st[3] and now - st[4] > STALL_S: drop(pid, True)     # stalled on a job: give the worker up
    lost.extend(queue)         # only if every worker was lost


def eval_source(src_module, fname, inputs, want):
    return proglib.eval_program(src_module, fname, inputs, want=want)


def account(run, rec):
    """Shared bookkeeping; returns False if the record cannot be judged."""
    if "infra" in rec:
        raise common.Infra(rec["infra"])
    if "harness_error" in rec:
        raise common.Infra("harness error on seed %s: %s" % (rec["seed"], rec["harness_error"]))
    if "skipped" in rec:
        run.count("skipped:" + rec["skipped"]); return False
    for k, v in (rec.get("features") or {}).items():
        run.count("feature:" + k, v)
    return True


def src_key(rec):
    return hashlib.blake2b(rec["src"].encode(), digest_size=8).hexdigest()


def replay_record(obj, want):
    """Re-run a stored program (source + typed core are regenerated from the seed)."""
    x = obj["input"]
    job = (x.get("index", 0), x["seed"], x.get("opts"), want, x.get("ninputs", 4), x.get("maker"))
    return _work(job)
