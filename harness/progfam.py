"""Shared runner of the compile-and-run property family (C01 C02 C03 C04 C05 C14 C15): generates programs with
harness/gen.py (+ hand-written corpus programs), evaluates each one with proglib.eval_program in a pool of worker
processes (real nsl in-process, one Lean model driver per worker) and hands the records to the property's judge."""
import os, sys, json, random, hashlib, multiprocessing, traceback, glob
import common, implrun, gen, lang, proglib

WORKERS = int(os.environ.get("VERIF_WORKERS", "16"))


def _seed_for(base_seed, pid, i):
    h = hashlib.blake2b(("%d/%s/%d" % (base_seed, pid, i)).encode(), digest_size=8).digest()
    return int.from_bytes(h, "little")


def _work(job):
    """(index, seed, gen-options, want, inputs-per-program, fname) -> record"""
    i, seed, opts, want, ninputs, maker = job
    try:
        rng = random.Random(seed)
        if maker is None:
            g = gen.G(rng, opts)
            module = g.program()
            feat = g.feat
            fname = "f"
        else:
            made = MAKERS[maker](rng, opts)
            if isinstance(made, dict) and "ops" in made:          # a host history (C15)
                rec = proglib.eval_history(made["module"], made["nvms"], made["ops"], want=want)
                rec.update(features=made["feat"], seed=seed, index=i, maker=maker, opts=opts)
                return rec
            if isinstance(made, dict):                             # a program with its own inputs
                rec = proglib.eval_program(made["module"], made["fname"], made["inputs"], want=want)
                rec.update(features=made["feat"], seed=seed, index=i, maker=maker, opts=opts)
                if "name" in made: rec["name"] = made["name"]
                return rec
            module, fname, feat = made
        inputs = gen.gen_inputs(rng, module, fname, ninputs)
        rec = proglib.eval_program(module, fname, inputs, want=want)
        rec["features"] = feat
        rec["seed"] = seed
        rec["index"] = i
        rec["maker"] = maker
        rec["opts"] = opts
        return rec
    except common.Infra as e:
        return {"infra": str(e), "seed": seed, "index": i}
    except RecursionError:
        return {"skipped": "python recursion in the harness", "seed": seed, "index": i}
    except Exception as e:
        return {"harness_error": "%s: %s\n%s" % (type(e).__name__, e, traceback.format_exc()[-1500:]), "seed": seed, "index": i}


MAKERS = {}      # name -> function(rng, opts) -> (lang.Module, fname, features)


def maker(name):
    def deco(fn):
        MAKERS[name] = fn
        return fn
    return deco


def evaluate(run, pid, jobs_spec, want, ninputs=4):
    """jobs_spec: list of (count, gen-options or None, maker-name or None).  Yields records."""
    implrun.load()
    common.ensure_driver()
    jobs = []
    n = 0
    for count, opts, mk in jobs_spec:
        for _ in range(count):
            jobs.append((n, _seed_for(run.seed, pid, n), opts, want, ninputs, mk))
            n += 1
    if WORKERS <= 1 or len(jobs) < 8:
        for j in jobs:
            yield _work(j)
        return
    ctx = multiprocessing.get_context("fork")
    with ctx.Pool(min(WORKERS, max(1, len(jobs) // 4))) as pool:
        for rec in pool.imap_unordered(_work, jobs, chunksize=4):
            yield rec


def eval_source(src_module, fname, inputs, want):
    return proglib.eval_program(src_module, fname, inputs, want=want)


def account(run, rec):
    """Shared bookkeeping; returns False if the record cannot be judged."""
    if "infra" in rec:
        raise common.Infra(rec["infra"])
    if "harness_error" in rec:
        raise common.Infra("harness error on seed %s: %s" % (rec["seed"], rec["harness_error"]))
    if "skipped" in rec:
        run.count("skipped:" + rec["skipped"]); return False
    for k, v in (rec.get("features") or {}).items():
        run.count("feature:" + k, v)
    return True


def src_key(rec):
    return hashlib.blake2b(rec["src"].encode(), digest_size=8).hexdigest()


def replay_record(obj, want):
    """Re-run a stored program (source + typed core are regenerated from the seed)."""
    x = obj["input"]
    job = (x.get("index", 0), x["seed"], x.get("opts"), want, x.get("ninputs", 4), x.get("maker"))
    return _work(job)
