"""Helper run in a SEPARATE process (own PYTHONHASHSEED) by harness/p_c17.py:
   c17_loader.py <scratch-repo> <module-file> <cases.json>   → JSON on stdout: listing, per-case VM observations"""
import sys, os, io, json, contextlib, copy
scratch, path, cases = sys.argv[1], sys.argv[2], json.load(open(sys.argv[3]))
sys.path.insert(0, scratch)
sys.path.insert(0, os.path.dirname(os.path.abspath(__file__)))
os.environ["NSL_SCRATCH"] = scratch
import implrun
implrun.load()
from nsl import LinearIR, VM
out = {}
try:
    with implrun.quiet():
        module = LinearIR.FilesystemModuleLoader().Load(path)
    out["listing"] = implrun.listing(module)
    out["dump"] = implrun.program_sexp(module.Functions, module.Globals)
    out["imports"] = sorted(module.Imports)
    out["meta_functions"] = sorted(str(f.GetMangledName()) for f in module.Metadata.get("functions", []))
    prog = implrun.link([module])
    res = []
    for c in cases:
        vm = implrun.new_vm(prog)
        for g, v in c["globals"].items(): vm.SetGlobal(g, copy.deepcopy(v))
        r = implrun.invoke(vm, c["fn"], copy.deepcopy(c["args"]))
        gl = {g: implrun.val_sexp(vm.GetGlobal(g)) for g in c["globals"]} if r[0] == "ok" else None
        res.append([r[0], implrun.val_sexp(r[1]) if r[0] == "ok" else str(r[1]), gl])
    out["results"] = res
except BaseException as e:
    out["error"] = "%s: %s" % (type(e).__name__, str(e)[:200])
print(json.dumps(out))
