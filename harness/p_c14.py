"""C14 — every compiled IR module is well-formed.

Route 1 (this file's oracle): the Lean function `WF.wfCheck` is *proved* sound for the declarative statement `WF`
(unique definitions, unique/existing branch targets, calls resolve with matching arity, every used reference defined
earlier on ALL control-flow paths) — theorem `wfCheck_sound` in Nsl/Props/C14.lean.  The compiled checker is run on a
structured dump of the IR the real compiler produces, at both optimisation levels, for generated programs of the
scalar core (gen.py), a hand-written whole-language corpus (vectors, matrices, swizzles, structs, arrays, calls) and
every NSL source embedded in the repository's own test-suite.  A report other than "ok" is a violation with the
program as replay.
Route 2 (theorem about the model): `Lower.lowerFn_wf` — the model lowering of every typed core function whose
break/continue sit inside loops and whose calls resolve is well-formed — tied by the structural correspondence
(canonical IR of the implementation = canonical IR of the model) on the generated scalar-core programs."""
import os, re, json, glob
import common, implrun, progfam, proglib, wholelang, gen_vec

RULE = ("programs: seeded type-directed scalar-core programs (gen.py: all three loop forms nested, break/continue under ifs, "
        "compound and chained assignment, ++/--, arrays, structs, calls, recursion, overloads) + the whole-language corpus "
        "(harness/wholelang.py) + every NSL source string found in /repo/tests; each compiled with optimize off and on; the verified "
        "checker runs on every function of every accepted module. Non-trivial: the function list of the module contains at "
        "least one branch instruction; distinct = distinct source text x optimisation level")
EXHAUSTIVE = {"quick": False, "thorough": False}
ASSUMPTIONS = ["the dump of an IR module (harness/implrun.py: func_sexp) renders each operand faithfully: a reference for an instruction/"
               "value object, an inlined constant only if the ConstantValue object is registered in the same function, UNDEF otherwise",
               "label markers stand for basic blocks; a branch target that is not a block object of the same function is dumped as UNDEF",
               "a module is checked against itself as the linked program (single-module programs) or against the linked Program"]
TRUSTED = ["Nsl/Model/WF.lean: definition of WF (the formal reading of the statement) and of defOf/usesOf/succs per instruction kind",
           "harness/implrun.py IR dump; lean/Nsl/Driver/Codec.lean decoder"]

N_GEN = {"quick": 600, "thorough": 24000}


def check_source(src, d, tags=(False, True), stored=False):
    """-> list of (optimize, status, detail) for one source text; stored: the module is written with pickle and read back first
    (what a program that imports the module is linked from)"""
    import pickle
    out = []
    for opt in tags:
        c = implrun.compile_src(src, optimize=opt)
        if c[0] != "ok":
            out.append((opt, "reject", "%s in %s" % (c[1][0], c[1][1])))
            continue
        m = c[1].IRModule
        if stored:
            try:
                m = pickle.loads(pickle.dumps(m))
            except BaseException as e:
                out.append((opt, "undumpable", "store/load fails: %s: %s" % (type(e).__name__, str(e)[:120])))
                continue
        try:
            ps = implrun.program_sexp(m.Functions, m.Globals)
        except BaseException as e:
            out.append((opt, "undumpable", "%s: %s" % (type(e).__name__, str(e)[:120])))
            continue
        if d.ask("irprog " + ps) != "ok":
            out.append((opt, "undumpable", "the IR dump contains an instruction the decoder does not know"))
            continue
        rep = d.ask("wf")
        nbr = ps.count("(br ") + ps.count("(brc ")
        out.append((opt, "wf", rep, nbr))
    return out


def err_class(report):
    kinds = sorted({m.group(1) for m in re.finditer(r": (dup-def|dup-label|missing-label|bad-call|entry-not-empty|use-before-def|cert-edge)", report)})
    return "+".join(kinds) or "other"


def judge_source(run, src, results, origin, extra=None):
    for r in results:
        opt = r[0]
        key = (src, opt) if not (extra or {}).get("stored") else (src, opt, "stored")
        if r[1] == "reject":
            run.count("%s:rejected:opt%d" % (origin, opt))
            continue
        run.count("%s:accepted:opt%d" % (origin, opt))
        inp = dict(source=src, optimize=opt)
        if extra: inp.update(extra)
        if r[1] == "undumpable":
            run.case(key, nontrivial=False)
            run.fail("undumpable", inp, "IR of an accepted program cannot be rendered: " + r[2], key="undumpable:opt%d" % opt)
            continue
        rep, nbr = r[2], r[3]
        bad = [p for p in rep.split(" | ") if not p.endswith(": ok")]
        run.case(key, nontrivial=nbr > 0,
                 sample=dict(source=src, optimize=opt, report=rep) if (nbr > 2 and len(run.samples) < 3) else None)
        run.count("branches:%s" % ("0" if nbr == 0 else "1-4" if nbr < 5 else "5-19" if nbr < 20 else "20+"))
        if bad:
            run.fail("wf", inp, "optimize=%s: %s\n%s" % (opt, "; ".join(bad)[:300], src[:1500]), key="wf:%s:opt%d" % (err_class(rep), opt))


def repo_test_sources():
    """NSL programs embedded as string literals in the repository's tests (they compile by construction)."""
    import ast as pyast
    out = []
    scratch = os.environ["NSL_SCRATCH"]
    for path in sorted(glob.glob(os.path.join(scratch, "tests", "*.py"))):
        try:
            tree = pyast.parse(open(path, encoding="utf-8-sig").read())
        except SyntaxError:
            continue
        for node in pyast.walk(tree):
            if isinstance(node, pyast.Constant) and isinstance(node.value, str) and "function" in node.value and "{" in node.value:
                out.append(node.value)
    return out


def explore(run, scale=1):
    implrun.load()
    d = common.Driver()
    # 1 corpus + repository tests (source only)
    for name, src in wholelang.PROGRAMS:
        judge_source(run, src, check_source(src, d), "corpus", dict(name=name))
    for name, src in wholelang.PROGRAMS:
        judge_source(run, src, check_source(src, d, stored=True), "corpus-stored", dict(name=name, stored=True))
    for name, src in wholelang.MAYBE_PROGRAMS:
        judge_source(run, src, check_source(src, d), "corpus-may-be-rejected", dict(name=name))
    for src in repo_test_sources():
        judge_source(run, src, check_source(src, d), "repo-tests")
    d.close()
    # 2 generated programs (records carry wf0/wf1 and the structural diff)
    n = N_GEN[run.tier] * scale
    spec = [(n * 6 // 10, None, None), (n * 2 // 10, dict(max_depth=4, max_stmts=6), None),
            (n * 2 // 10, dict(calls=False, structs=False, max_depth=4), None),
            (n * 2 // 10, None, "vec"),
            (n * 2 // 10, dict(local_aggs_only=True, sibling_reuse=False), None)]          # inside the domain of C14_statement (storage core)
    for rec in progfam.evaluate(run, "C14", spec, want=("wf", "opt", "model", "struct"), ninputs=1):
        if not progfam.account(run, rec): continue
        res = []
        for tag, opt in (("0", False), ("1", True)):
            if not rec.get("accept" + tag):
                res.append((opt, "reject", str(rec.get("reject" + tag))))
            elif "dump_error" + tag in rec:
                res.append((opt, "undumpable", rec["dump_error" + tag]))
            else:
                rep = rec.get("wf" + tag, "?")
                res.append((opt, "wf", rep, rec["src"].count("if (") + rec["src"].count("while (") + rec["src"].count("for (")))
        judge_source(run, rec["src"], res, "generated", dict(seed=rec["seed"]))
        # structural route (Props/C14Opt.lean): the five Boolean conditions imply WF (wf_of_checks) and survive optimisation
        # (C14_opt_preserves_checks); evaluated on the real IR of both settings
        for tag in ("0", "1"):
            wc = rec.get("wfchecks" + tag)
            if wc is None: continue
            allok = all(p.endswith(": ok") for p in wc.split(" | "))
            run.count("wfchecks%s:%s" % (tag, "hold" if allok else "outside"))
            wf_ok = all(p.endswith(": ok") for p in rec.get("wf" + tag, "").split(" | "))
            if allok and not wf_ok:
                run.mismatch("theorem-instance:wf_of_checks", dict(source=rec["src"], seed=rec["seed"], optimize=tag == "1"), wc[:200], rec.get("wf" + tag, "")[:200])
        w0, w1 = rec.get("wfchecks0"), rec.get("wfchecks1")
        if w0 and w1 and all(p.endswith(": ok") for p in w0.split(" | ")) and not all(p.endswith(": ok") for p in w1.split(" | ")):
            # the real optimiser turned checked code into unchecked code although the model optimiser provably cannot
            run.mismatch("theorem-instance:C14_opt_preserves_checks", dict(source=rec["src"], seed=rec["seed"]), w0[:200], w1[:200])
        dom = rec.get("domain", "")
        if dom:
            run.count("theorem-domain:C14_statement %s" % ("applies (storage core, calls resolve)" if ("storagecore=yes" in dom and "callsresolve=yes" in dom) else
                                                          "outside (vectors, global aggregates, ...): per-module checks only"))
            if "callsresolve=no" in dom:
                run.mismatch("theorem-hypothesis", dict(source=rec["src"], seed=rec["seed"]), "callsResolve", dom)
        # route 2: structural correspondence model lowering vs implementation (unoptimised)
        if rec.get("accept0") and "model_error" not in rec:
            run.count("struct:compared")
            if rec.get("ir_diff"):
                run.mismatch("canonical-ir", dict(source=rec["src"], seed=rec["seed"]), "model lowering", rec["ir_diff"][:300])
        elif "model_error" in rec:
            run.count("struct:model-error")


def search(run):
    """proof/correspondence broken without a failing input: ten times the quick budget"""
    explore(run, scale=10 if run.tier == "quick" else 2)


def matches(entry, failure):
    return entry.get("matcher") == failure["key"]


def replay(obj):
    implrun.load()
    d = common.Driver()
    x = obj["input"]
    res = check_source(x["source"], d, tags=(x["optimize"],), stored=bool(x.get("stored")))
    d.close()
    r = res[0]
    if r[1] == "reject": return True, "program is rejected now: " + r[2]
    if r[1] == "undumpable": return False, "IR cannot be rendered: " + r[2]
    ok = all(p.endswith(": ok") for p in r[2].split(" | "))
    return ok, "verified checker: " + r[2]
