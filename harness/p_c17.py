"""C17 — a stored IR module reloads to the same program.  (partial by nature: pickle is not modelled)

Theorems (Lean, Props/C17.lean): the VM's behaviour is a function of the observation `Obs` of a module (functions with
their code, globals): `C17_behaviour_is_function_of_obs`; two programs with the same function table behave identically
on every invocation and history.  With it "reload preserves Obs" (checked here on the real code) implies "reload
preserves behaviour on EVERY input", not only the sampled ones.

Tie to the code: programs of all generators and the whole-language corpus, optimisation off and on, are compiled and
`pickle.dump`-ed exactly as nslc.py does (a sample through the nslc.py command line); a FRESH process with a different
PYTHONHASHSEED loads the file with FilesystemModuleLoader and reports (a) the InstructionPrinter listing, (b) the
structured dump of every function (= Obs), (c) VM results on the inputs; all three must equal what the compiling
process sees.  A size-scaling stratum (functions with 10…400 sequential and nested branches) is included because the
object graph's depth grows with the program."""
import os, sys, json, copy, pickle, random, tempfile, shutil, subprocess
import common, implrun, progfam, proglib, gen, gen_calls, lang, wholelang

RULE = ("generated scalar-core and call programs, corpus programs, both optimisation settings; store in this process (pickle.dump of "
        "Result.IRModule, 1 in 6 through `nslc.py -o`), load in a fresh process with PYTHONHASHSEED in {0,1,2,random}; 3 inputs each; plus "
        "chains of N sequential ifs / nested blocks for N in 10..400. Non-trivial: the module has at least two basic blocks; "
        "distinct = distinct (source, optimisation)")
EXHAUSTIVE = {"quick": False, "thorough": False}
ASSUMPTIONS = ["pickle, recursion limits and class-path stability are runtime behaviour no executable model exhibits: covered by these runs only",
               "observable = InstructionPrinter listing, structured dump of every function and global, imports, exported signatures, VM results"]
TRUSTED = ["harness/c17_loader.py (the loading process), implrun.listing / program_sexp"]
N = {"quick": 96, "thorough": 2400}
HERE = os.path.dirname(os.path.abspath(__file__))


def chain_program(n, nested=False):
    if nested:
        body = "r = r + 1;"
        for i in range(n): body = "if (a > %d) { %s }" % (i, body)
        return "export function f(int a) -> int { int r = 0; %s return r; }" % body
    return "export function f(int a) -> int { int r = 0; %s return r; }" % " ".join("if (a > %d) { r = r + %d; }" % (i, i % 7) for i in range(n))


def observe_here(ir, cases):
    out = dict(listing=implrun.listing(ir), dump=implrun.program_sexp(ir.Functions, ir.Globals), imports=sorted(ir.Imports),
               meta_functions=sorted(str(f.GetMangledName()) for f in ir.Metadata.get("functions", [])))
    prog = implrun.link([ir])
    res = []
    for c in cases:
        vm = implrun.new_vm(prog)
        for g, v in c["globals"].items(): vm.SetGlobal(g, copy.deepcopy(v))
        r = implrun.invoke(vm, c["fn"], copy.deepcopy(c["args"]))
        gl = {g: implrun.val_sexp(vm.GetGlobal(g)) for g in c["globals"]} if r[0] == "ok" else None
        res.append([r[0], implrun.val_sexp(r[1]) if r[0] == "ok" else str(r[1]), gl])
    out["results"] = res
    return out


def restore_case(seed, opt):
    """A file is stored, loaded, stored AGAIN with another program and loaded again through the SAME loader object — and the same
    for an imported module resolved by default `Linker()`s: what is loaded must be what was stored last."""
    implrun.load()
    L = implrun.LinearIR
    rng = random.Random(seed)
    rec = dict(kind="restore", seed=seed, optimize=opt, src="", features={})
    a, b = rng.randrange(1, 50), rng.randrange(51, 99)
    srcA = "export function f(int x) -> int { return x + %d; }" % a
    srcB = "export function f(int x) -> int { return x * %d; }" % b
    libA = "function k(int x) -> int { return x + %d; }" % a
    libB = "function k(int x) -> int { return x * %d; }" % b
    main = 'import "lib";\nexport function f(int x) -> int { return k(x) + 1; }'
    rec["src"] = srcA + " || " + srcB
    d = tempfile.mkdtemp(prefix="nslc17r-")
    cwd = os.getcwd()
    try:
        os.chdir(d)
        def store(src, path):
            c = implrun.compile_src(src, optimize=opt)
            if c[0] != "ok": raise RuntimeError("compile: %s" % (c[1],))
            with open(path, "wb") as fh: pickle.dump(c[1].IRModule, fh)
            return c[1].IRModule
        def run_mod(mods, loader=None):
            lk = L.Linker(loader=loader) if loader is not None else L.Linker()
            for m in mods: lk.AddModule(m)
            return implrun.invoke(implrun.new_vm(lk.Link()), "f", dict(x=5))
        loader = L.FilesystemModuleLoader()
        store(srcA, "shader.nslir"); r1 = run_mod([loader.Load("shader")])
        store(srcB, "shader.nslir"); r2 = run_mod([loader.Load("shader")])
        want1, want2 = ("ok", 5 + a), ("ok", 5 * b)
        diffs = []
        if tuple(r1) != want1: diffs.append("first load: %s, stored program gives %s" % (r1, want1))
        if tuple(r2) != want2: diffs.append("load after the file was stored again: %s, the program stored last gives %s" % (r2, want2))
        store(libA, "lib.nslir"); mm = store(main, "main.nslir")
        r3 = run_mod([L.FilesystemModuleLoader().Load("main")])
        store(libB, "lib.nslir")
        r4 = run_mod([L.FilesystemModuleLoader().Load("main")])
        if tuple(r3) != ("ok", 5 + a + 1): diffs.append("import, first link: %s, expected %s" % (r3, 5 + a + 1))
        if tuple(r4) != ("ok", 5 * b + 1): diffs.append("import after lib was stored again: %s, expected %s" % (r4, 5 * b + 1))
        rec["diffs"] = ["restore"] if diffs else []
        rec["blocks"] = 2
        if diffs: rec["detail"] = "; ".join(diffs)
    except BaseException as e:
        rec["observe_error"] = "%s: %s" % (type(e).__name__, str(e)[:120])
    finally:
        os.chdir(cwd)
        shutil.rmtree(d, ignore_errors=True)
    return rec


def one_case(job):
    kind, seed, opt, cli = job
    if kind == "restore": return restore_case(seed, opt)
    implrun.load()
    rng = random.Random(seed)
    feat = {}
    if kind == "gen":
        g = gen.G(rng); m = g.program(); feat = g.feat
        src = m.src(); f = m.find("f")
        cases = [dict(fn="f", args={n: v for (n, t), v in zip(f.params, a)}, globals=gl) for a, gl in gen.gen_inputs(rng, m, "f", 3)]
    elif kind == "calls":
        m, fn, feat = gen_calls.make_calls(rng, None)
        src = m.src(); f = m.find("f")
        cases = [dict(fn="f", args={n: v for (n, t), v in zip(f.params, a)}, globals=gl) for a, gl in gen.gen_inputs(rng, m, "f", 3)]
    elif kind == "corpus":
        e = wholelang.ENTRIES[seed % len(wholelang.ENTRIES)]
        src = e["src"]; cases = [dict(fn=e["fn"], args=a, globals=e["globals"]) for a in e["args"]]
    else:
        n = seed
        src = chain_program(n, nested=(kind == "nested")); cases = [dict(fn="f", args=dict(a=n // 2), globals={})]
    rec = dict(kind=kind, seed=seed, optimize=opt, src=src, features=feat)
    c = implrun.compile_src(src, optimize=opt, limit=60)
    if c[0] != "ok":
        rec["rejected"] = [list(c[1]), c[2]]; return rec
    ir = c[1].IRModule
    rec["blocks"] = sum(len(fn.BasicBlocks) for fn in ir.Functions.values())
    d = tempfile.mkdtemp(prefix="nslc17-")
    try:
        path = os.path.join(d, "m.nslir")
        try:
            here = observe_here(ir, cases)
        except BaseException as e:
            rec["observe_error"] = "%s: %s" % (type(e).__name__, str(e)[:100]); return rec
        if cli:
            open(os.path.join(d, "m.nsl"), "w").write(src)
            p = subprocess.run([common.PY, os.path.join(os.environ["NSL_SCRATCH"], "nslc.py")] + (["-O", "1"] if opt else []) + [os.path.join(d, "m.nsl"), "-o", path],
                               capture_output=True, text=True, env=dict(os.environ, PYTHONPATH=os.environ["NSL_SCRATCH"]), cwd=d)
            if p.returncode != 0:
                rec["store_error"] = "nslc.py: " + (p.stdout + p.stderr)[-200:].replace("\n", " "); return rec
        else:
            try:
                with open(path, "wb") as fh:
                    pickle.dump(ir, fh)
            except BaseException as e:
                rec["store_error"] = "%s" % type(e).__name__; return rec
        json.dump(cases, open(os.path.join(d, "cases.json"), "w"))
        hs = str(rng.choice([0, 1, 2, rng.randrange(3, 10**6)]))
        p = subprocess.run([common.PY, os.path.join(HERE, "c17_loader.py"), os.environ["NSL_SCRATCH"], path, os.path.join(d, "cases.json")],
                           capture_output=True, text=True, env=dict(os.environ, PYTHONHASHSEED=hs), cwd=d)
        try:
            there = json.loads(p.stdout.strip().splitlines()[-1])
        except Exception:
            rec["load_error"] = "loader process: " + (p.stdout + p.stderr)[-300:].replace("\n", " "); return rec
        if "error" in there:
            rec["load_error"] = there["error"]; return rec
        diffs = [k for k in ("listing", "dump", "imports", "meta_functions", "results") if here[k] != there.get(k)]
        rec["diffs"] = diffs
        if diffs:
            k = diffs[0]
            rec["detail"] = "%s: stored %s | reloaded %s" % (k, str(here[k])[:200], str(there.get(k))[:200])
    finally:
        shutil.rmtree(d, ignore_errors=True)
    return rec


def _work(job):
    try:
        return one_case(job)
    except Exception as e:
        import traceback
        return dict(harness_error="%s: %s\n%s" % (type(e).__name__, e, traceback.format_exc()[-1000:]), seed=job[1], kind=job[0])


def explore(run, scale=1):
    import multiprocessing
    implrun.load()
    n = N[run.tier] * scale
    jobs = []
    for i in range(n):
        seed = progfam._seed_for(run.seed, "C17", i)
        kind = ["gen", "gen", "calls", "corpus"][i % 4]
        jobs.append((kind, seed, i % 2 == 1, i % 6 == 0))
    for k in range(len(wholelang.ENTRIES)):          # every corpus entry (uint, vectors, matrices, structs ...), both settings
        jobs.append(("corpus", k, False, False)); jobs.append(("corpus", k, True, k % 5 == 0))
    for k in range(6 if run.tier != "thorough" else 60):
        jobs.append(("restore", progfam._seed_for(run.seed, "C17r", k), k % 2 == 1, False))
    for k in ([10, 50, 100, 150, 200, 300, 400] if run.tier == "thorough" else [10, 100, 200, 300]):
        jobs.append(("chain", k, False, False)); jobs.append(("nested", min(k, 150), False, False))
    recs = []
    for job, rec in progfam.parallel_map(_work, jobs):
        if rec is progfam.LOST: run.count("skipped:worker died or hung"); continue
        recs.append(rec)
    recs.sort(key=lambda r: (str(r.get("kind")), str(r.get("seed")), bool(r.get("optimize"))))
    for rec in recs:
        if "harness_error" in rec: raise common.Infra("harness error: " + rec["harness_error"])
        for k, v in (rec.get("features") or {}).items(): run.count("feature:" + k, v)
        if "rejected" in rec:
            run.count("rejected:" + rec["kind"]); continue
        key = (rec["src"], rec["optimize"])
        inp = dict(kind=rec["kind"], seed=rec["seed"], optimize=rec["optimize"], source=rec["src"][:4000], blocks=rec.get("blocks"))
        run.case(key, nontrivial=rec.get("blocks", 0) >= 2,
                 sample=dict(source=rec["src"][:600], optimize=rec["optimize"], blocks=rec.get("blocks")) if (rec["kind"] == "calls" and len(run.samples) < 2) else None)
        run.count("kind:" + rec["kind"]); run.count("opt:%d" % rec["optimize"])
        if "observe_error" in rec:
            run.count("unobservable:" + rec["observe_error"].split(":")[0]); continue
        if "store_error" in rec:
            run.fail("store", inp, "storing the compiled module fails: %s (%s, %s basic blocks)" % (rec["store_error"], rec["kind"], rec.get("blocks")),
                     key="store:%s:%s" % (rec["store_error"].split(":")[0], rec["kind"]))
        elif "load_error" in rec:
            run.fail("load", inp, "loading the stored module fails: %s" % rec["load_error"], key="load:" + rec["load_error"].split(":")[0])
        elif rec["diffs"]:
            run.fail("differs", dict(inp, detail=rec["detail"]), "reloaded module differs in %s: %s" % (rec["diffs"], rec["detail"]), key="differs:" + rec["diffs"][0])


def search(run):
    explore(run, scale=4 if run.tier == "quick" else 1)


def matches(entry, failure):
    return failure["key"].startswith(entry.get("matcher", "\0"))


def replay(obj):
    implrun.load()
    x = obj["input"]
    rec = one_case((x["kind"], x["seed"], x["optimize"], False))
    bad = rec.get("store_error") or rec.get("load_error") or (rec.get("diffs") and rec.get("detail"))
    return not bad, str(bad) if bad else "reloaded module lists and behaves identically"
