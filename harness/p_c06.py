"""C06 — the WebAssembly backend agrees with the VM or refuses.

Theorems (Lean, Props/C06.lean): `C06_refuses` / `C06_no_silent_drop` — a program containing any instruction outside the
supported subset makes the generator model fail, and no translated instruction is dropped; `C06_returns_checked` — a return that does not
match the signature is refused; `C06_agree_ring` — for int functions over + - * (argument loads/stores, constants) the
generated code evaluated by the WebAssembly semantics returns the VM's result reduced modulo 2^32, for all arguments;
`C06_agree_int` / `C06_agree_uint` — the same with / == < > for signed / unsigned functions while the VM run stays inside the
32-bit domain (`runR` / `runRU`); `C06_binop_agree_partial` (+ unsigned, division by zero) — each translated operation agrees
with the VM's operation on in-range operands (floats: only per operation, abstractly).

Tie to the code: generated straight-line scalar programs; the bytes the real compiler emits are executed by wasmtime 48
AND by the Lean evaluator (on the decoded bytes) and compared with the real VM on the same arguments: ints as exact
32-bit values, floats bit for bit as f32 — inputs and constants are dyadic with few bits and the harness evaluates the
program tree itself, so a case is compared only if every intermediate is exactly representable in i32 / f32 (then 64-bit
and 32-bit arithmetic must agree with no tolerance); for + - * only programs the comparison is modulo 2^32 without any
range condition.  Programs outside the subset (locals, casts, branches, calls, %, &&, vectors …) must be REFUSED with an
error, or — if bytes are produced — agree as well."""
import struct, random
import common, implrun, gen, gen_wasm, wasmrun, wholelang

RULE = ("generated straight-line scalar programs (gen_wasm.py) x 4 argument vectors (small and 32-bit boundary values); a ring-only stratum "
        "(+ - * on ints, compared modulo 2^32 on all arguments); unsupported programs (hand-written list, scalar-core generator, corpus). "
        "Non-trivial: bytes were emitted and executed on an argument vector inside the exact domain; distinct = distinct (source, arguments)")
EXHAUSTIVE = {"quick": False, "thorough": False}
ASSUMPTIONS = ["wasmtime 48 is a conforming engine (cross-checked against the Lean evaluator on every case)",
               "a case is judged only when every intermediate value is exactly representable in the 32-bit type (or the program is ring-only)",
               "division by zero: VM raises, wasm traps for ints (compared as 'both fail'); float division by zero is outside the compared domain"]
TRUSTED = ["Model/WasmEval.lean (transcription of the execution semantics of the emitted subset)", "harness/gen_wasm.py (its own evaluation of the program tree)"]
N = {"quick": 400, "thorough": 15000}


def vm_call(result, args, ptys):
    prog = implrun.link([result.IRModule])
    vm = implrun.new_vm(prog)
    kw = {"p%d" % i: a for i, a in enumerate(args)}
    return implrun.invoke(vm, "f", kw, limit=3)


def lean_call(d, h, args, ptys, idx=0):
    toks = []
    for a, t in zip(args, ptys):
        toks.append("f:%d" % wasmrun.f32_bits(a) if t == "float" else "i:%d" % a)
    return d.ask("wasmeval %s %d %s" % (h, idx, " ".join(toks)))


def explore(run, scale=1):
    implrun.load()
    d = common.Driver()
    rng = run.rng
    n = N[run.tier] * scale
    for i in range(n):
        ring = (i % 4 == 0)
        p = gen_wasm.gen_prog(rng, dict(ring=ring, uint=(i % 7 == 3), effects=(i % 3 == 1)))
        src = p.src()
        if i % 5 == 2 and "uint" not in p.ptys:
            # non-exported functions of the same signature before and after f (never called: calls are outside the subset):
            # the export must still name f's own code
            h1 = gen_wasm.Prog(p.ptys, p.ret, [], gen_wasm.gen_expr(rng, p.ret, p.ptys, 2)).src().replace("export function f(", "function g(")
            h2 = gen_wasm.Prog(p.ptys, p.ret, [], gen_wasm.gen_expr(rng, p.ret, p.ptys, 1)).src().replace("export function f(", "function h(")
            src = h1 + "\n" + src + "\n" + h2
            run.count("subset:with-non-exported-functions")
        opt = (i % 2 == 1)
        res = wasmrun.compile_wasm(src, optimize=opt)
        if res[0] != "ok":
            run.case((src, opt, "refused"), nontrivial=False); run.count("subset:refused:" + res[1][0]); continue
        _, result, bs = res
        h = bs.hex()
        run.count("subset:emitted")
        # the IR goes to the driver too: `intrun` = the range-checked VM run that is the hypothesis of C06_agree_int / C06_agree_uint
        int_only = (all(t == "int" for t in p.ptys) and p.ret == "int") or (all(t == "uint" for t in p.ptys) and p.ret == "uint")
        have_ir = False
        if int_only:
            try:
                have_ir = d.ask("irprog " + implrun.program_sexp(result.IRModule.Functions, result.IRModule.Globals)) == "ok"
            except BaseException:
                have_ir = False
        for k in range(4):
            args = gen_wasm.gen_args(rng, p.ptys, big=(k == 3 or ring))
            want, exact = p.evaluate(args)
            inp = dict(source=src, optimize=opt, args=args)
            vm = vm_call(result, args, p.ptys)
            wt = wasmrun.wasmtime_call(bs, "f", [float(a) if t == "float" else (wasmrun.to_i32(a) if t == "uint" else a) for a, t in zip(args, p.ptys)])
            ln = lean_call(d, h, args, p.ptys, idx=(1 if src.startswith("function g(") else 0))
            # engine cross-check: wasmtime vs Lean evaluator (always)
            if wt[0] == "ok":
                wv = ("f %d" % wasmrun.f32_bits(wt[1])) if isinstance(wt[1], float) else ("i %d" % wt[1]) if wt[1] is not None else "void"
            else: wv = "trap"
            if not (isinstance(wt[1], float) and wt[1] != wt[1]) and wv != ln:
                run.mismatch("evaluator-vs-wasmtime", inp, ln, wv)
            if have_ir:
                ir = d.ask("intrun 400 f " + " ".join(str(a) for a in args))
                run.count("intrun:" + ir.split(" ")[0])
                if ir.startswith("done "):
                    # instance of C06_agree_int on the real IR and the real bytes: the VM run stays inside i32 and returns v
                    v = int(ir.split(" ")[1])
                    if not (wt[0] == "ok" and wt[1] == wasmrun.to_i32(v)):
                        run.fail("agree", dict(inp, model_vm=v, wasm=wv), "f(%s): the range-checked VM run returns %d, the WebAssembly module %s\n%s" % (args, v, wv, src), key="agree:int-domain")
                    if vm[0] != "ok" or vm[1] != v:
                        run.mismatch("intrun-vs-vm", inp, ir, str(vm[:2]))
                elif exact and want != "div0" and not ir.startswith("not-intfunc"):
                    run.mismatch("intrun-vs-harness-exactness", inp, ir, "harness: exact, value %r" % (want,))
            judged = (exact and want != "div0") or (ring and want != "div0")
            run.case((src, opt, tuple(args)), nontrivial=judged, sample=dict(inp, vm=str(vm[1]), wasm=wv) if (judged and len(run.samples) < 3 and p.ret == "float") else None)
            if want == "div0":
                run.count("div-by-zero")
                if exact and vm[0] == "divzero" and p.ret == "int" and wt[0] != "trap" and all(t != "float" for t in p.ptys):
                    run.fail("agree", inp, "VM raises ZeroDivisionError, wasm returns %s\n%s" % (wv, src), key="agree:div0")
                continue
            if not judged:
                run.count("outside-exact-domain"); continue
            run.count("judged" + (":ring" if ring and not exact else ""))
            if vm[0] != "ok":
                run.fail("agree", inp, "the VM fails (%s) on a program the wasm backend translated\n%s" % (vm[:2], src), key="agree:vm-" + vm[0]); continue
            if p.ret == "float":
                ok = wt[0] == "ok" and isinstance(wt[1], float) and wasmrun.f32_bits(wt[1]) == wasmrun.f32_bits(float(vm[1])) and f_exact(vm[1])
            else:
                ok = wt[0] == "ok" and isinstance(vm[1], int) and wt[1] == wasmrun.to_i32(vm[1])
            if not ok:
                run.fail("agree", dict(inp, vm=str(vm[1]), wasm=wv), "f(%s): VM returns %r, the WebAssembly module %s (%s)\n%s" % (args, vm[1], wv, wt[0], src), key="agree:" + p.ret)
    # every operator on every scalar type (and the statement forms with side effects on parameters): translated => must agree
    for src, ptys, ret in gen_wasm.opgrid():
        for opt in (False, True):
            res = wasmrun.compile_wasm(src, optimize=opt)
            if res[0] != "ok":
                run.case((src, opt, "grid"), nontrivial=False); run.count("grid:refused"); continue
            run.count("grid:emitted")
            ok_tm, msg = wasmrun.wasmtime_validates(res[2])
            if not ok_tm:
                run.case((src, opt, "grid"), nontrivial=True)
                run.fail("dropped", dict(source=src, optimize=opt), "a translated program is an invalid module (%s)\n%s" % (msg, src), key="dropped:invalid"); continue
            for a, b in gen_wasm.GRID_ARGS[ptys[0]]:
                vm = implrun.new_vm(implrun.link([res[1].IRModule]))
                r = implrun.invoke(vm, "f", dict(a=a, b=b), limit=3)
                conv = lambda v, t: float(v) if t == "float" else (wasmrun.to_i32(v) if t == "uint" else v)
                wt = wasmrun.wasmtime_call(res[2], "f", [conv(a, ptys[0]), conv(b, ptys[1])])
                inp = dict(source=src, optimize=opt, args=[a, b])
                # the VM result must be representable in the declared 32-bit type to be compared
                if r[0] == "ok":
                    v = r[1]
                    repable = (ret == "float" and isinstance(v, float) and f_exact(v)) or (ret == "int" and isinstance(v, int) and -2**31 <= v < 2**31) or \
                              (ret == "uint" and isinstance(v, int) and 0 <= v < 2**32)
                    # arithmetic on the way may still have wrapped; single operations on representable inputs are exact except float rounding
                    if ret == "float" and ptys[0] == "float" and not f_exact(v): repable = False
                    run.case((src, opt, a, b), nontrivial=repable)
                    if not repable:
                        run.count("grid:outside-domain"); continue
                    run.count("grid:judged")
                    same = wt[0] == "ok" and ((ret == "float" and isinstance(wt[1], float) and wasmrun.f32_bits(wt[1]) == wasmrun.f32_bits(v)) or
                                              (ret != "float" and isinstance(wt[1], int) and wt[1] == wasmrun.to_i32(v)))
                    if not same:
                        run.fail("agree", dict(inp, vm=str(v), wasm=str(wt)), "f(%s, %s): VM returns %r, the WebAssembly module %s\n%s" % (a, b, v, wt, src), key="agree:grid:" + ptys[0])
                elif r[0] == "divzero":
                    run.case((src, opt, a, b), nontrivial=True); run.count("grid:div-by-zero")
                    if ptys[0] != "float" and wt[0] != "trap":
                        run.fail("agree", inp, "f(%s, %s): VM raises ZeroDivisionError, the WebAssembly module returns %s\n%s" % (a, b, wt, src), key="agree:grid:div0")
                else:
                    run.case((src, opt, a, b), nontrivial=True)
                    run.fail("agree", dict(inp, vm=str(r[:2])), "f(%s, %s): the VM fails (%s) on a program the backend translated\n%s" % (a, b, r[:2], src), key="agree:vm-" + r[0])
    # programs the backend cannot translate
    uns = [(s, "list") for s in gen_wasm.UNSUPPORTED] + [(e["src"], "corpus") for e in wholelang.ENTRIES]
    for _ in range(60 if run.tier == "quick" else 1500):
        uns.append((gen.G(rng, dict(max_depth=2, max_stmts=3)).program().src(), "generated"))
    for src, origin in uns:
        for opt in (False, True):
            res = wasmrun.compile_wasm(src, optimize=opt)
            run.case((src, opt, "unsupported"), nontrivial=False)
            if res[0] != "ok":
                run.count("unsupported:refused"); continue
            run.count("unsupported:emitted:" + origin)
            # bytes were produced: they must at least be a valid module whose functions agree with the VM where callable
            ok_tm, msg = wasmrun.wasmtime_validates(res[2])
            if not ok_tm:
                run.fail("dropped", dict(source=src, optimize=opt), "a program outside the subset is translated into an invalid module (%s)\n%s" % (msg, src[:300]), key="dropped:invalid")
                continue
            import re
            m = re.search(r"export function f\(([^)]*)\) -> (\w+)", src)
            if not m: continue
            ptys = [x.strip().split(" ")[0] for x in m.group(1).split(",") if x.strip()]
            if any(t not in ("int", "float") for t in ptys) or m.group(2) not in ("int", "float", "void"): continue
            for k in range(3):
                args = gen_wasm.gen_args(rng, ptys)
                prog = implrun.link([res[1].IRModule]); vm = implrun.new_vm(prog)
                names = [x.strip().split(" ")[1] for x in m.group(1).split(",") if x.strip()]
                for gname in re.findall(r"^(?:int|float) (\w+);", src, re.M): vm.SetGlobal(gname, 0)
                r = implrun.invoke(vm, "f", dict(zip(names, args)), limit=3)
                wt = wasmrun.wasmtime_call(res[2], "f", args)
                if r[0] == "ok" and wt[0] == "ok":
                    same = (r[1] is None and wt[1] is None) or (isinstance(r[1], int) and wt[1] == wasmrun.to_i32(r[1])) or \
                           (isinstance(r[1], float) and isinstance(wt[1], float) and (not f_exact(r[1]) or wasmrun.f32_bits(r[1]) == wasmrun.f32_bits(wt[1])))
                    if not same:
                        run.fail("dropped", dict(source=src, optimize=opt, args=args, vm=str(r[1]), wasm=str(wt[1])),
                                 "a program outside the straight-line subset is translated but computes something else: VM %r, wasm %r\n%s" % (r[1], wt[1], src[:400]), key="dropped:differs")
                        break
    d.close()


def f_exact(x):
    try:
        return struct.unpack("<f", struct.pack("<f", x))[0] == x
    except (OverflowError, struct.error):
        return False


def search(run):
    explore(run, scale=4 if run.tier == "quick" else 1)


def matches(entry, failure):
    return failure["key"].startswith(entry.get("matcher", "\0"))


def replay(obj):
    implrun.load()
    x = obj["input"]
    res = wasmrun.compile_wasm(x["source"], optimize=x.get("optimize", False))
    if res[0] != "ok": return True, "refused now: %s" % (res[1],)
    if "args" not in x:
        ok, msg = wasmrun.wasmtime_validates(res[2]); return ok, "module " + ("validates" if ok else msg)
    import re
    m = re.search(r"export function f\(([^)]*)\)", x["source"])
    names = [t.strip().split(" ")[1] for t in m.group(1).split(",") if t.strip()]
    tys = [t.strip().split(" ")[0] for t in m.group(1).split(",") if t.strip()]
    vm = implrun.new_vm(implrun.link([res[1].IRModule]))
    r = implrun.invoke(vm, "f", dict(zip(names, x["args"])), limit=3)
    wt = wasmrun.wasmtime_call(res[2], "f", [float(a) if t == "float" else a for a, t in zip(x["args"], tys)])
    if r[0] != "ok" or wt[0] != "ok": return (r[0] != "ok") == (wt[0] != "ok"), "VM %s, wasm %s" % (r[:2], wt)
    same = (isinstance(r[1], int) and wt[1] == wasmrun.to_i32(r[1])) or (isinstance(r[1], float) and wasmrun.f32_bits(r[1]) == wasmrun.f32_bits(wt[1])) or (r[1] is None and wt[1] is None)
    return same, "VM %r, wasm %r" % (r[1], wt[1])
