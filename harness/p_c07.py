"""C07 — every emitted WebAssembly binary is well-formed and valid.

Theorems (Lean, Props/C07.lean): `dec_enc` — the decoder (written from the WebAssembly 1.0 binary format) inverts the
encoder (a byte-exact mirror of WebAssembly.py, `encModulePy_eq`) on every module; `enc_sections_ascending_exact` /
`enc_code_bodies_exact` — section ids strictly ascending, every section and body length field exact;
`genWasm_valid` — every module the generator model produces from a typed IR program passes the validator (type, function
and local indices in range, exports name existing functions, one body per function, every body type-checks);
`genWasm_roundtrip`.

Tie to the code: for every program for which `Compile(..., {'wasm': True})` completes (generated straight-line scalar
programs with 1-3 int/uint/float parameters, stores to parameters, several functions per module; optimisation off and
on) the emitted BYTES are (1) decoded by the Lean decoder and checked by the Lean validator, re-encoded byte-identically,
(2) compared byte for byte with the Lean generator model applied to the dump of the real IR, (3) cross-checked with
wasmtime's validator (corroboration of the hand-written validator).  Programs outside the backend's subset must be
refused (no bytes) — otherwise their bytes are checked the same way."""
import random
import common, implrun, progfam, gen, gen_wasm, wasmrun, wholelang

RULE = ("generated straight-line scalar programs (1-3 parameters of int/uint/float, expression depth 1-4 over + - * / == < >, constants at "
        "LEB128 group boundaries, stores to parameters), modules with 1-3 such functions, optimisation off and on; plus programs outside "
        "the subset (must be refused). Non-trivial: bytes were emitted and the module has a float or a second function; "
        "distinct = distinct emitted byte string")
EXHAUSTIVE = {"quick": False, "thorough": False}
ASSUMPTIONS = ["'valid WebAssembly 1.0' = accepted by the Lean validator transcribed from the specification for the emitted subset; wasmtime 48 must agree"]
TRUSTED = ["Model/Wasm.lean decModule / validModule (transcription of the WebAssembly 1.0 binary format and validation rules)",
           "wasmtime's validator as corroboration only"]
N = {"quick": 500, "thorough": 20000}


def make_sources(rng, n):
    for i in range(n):
        k = rng.random()
        if k < .75:
            p = gen_wasm.gen_prog(rng, dict(uint=rng.random() < .3))
            yield p.src(), "subset"
        elif k < .9:
            # several functions in one module
            fs = []
            for j in range(rng.randint(2, 3)):
                p = gen_wasm.gen_prog(rng)
                fs.append(p.src().replace("function f(", "function f%d(" % j))
            yield "\n".join(fs), "multi"
        else:
            yield rng.choice(gen_wasm.UNSUPPORTED), "unsupported"


def check_bytes(run, d, src, opt, res, origin):
    st, result, bs = res
    h = bs.hex()
    inp = dict(source=src, optimize=opt)
    ans = d.ask("wasmdec " + h)
    ok_tm, msg = wasmrun.wasmtime_validates(bs)
    nt = (b"\x7d" in bs) or src.count("function ") > 1
    run.case(h, nontrivial=nt, sample=dict(source=src, optimize=opt, bytes=h, lean=ans) if (nt and len(run.samples) < 3) else None)
    run.count(origin + ":emitted"); run.count("lean:" + ans.split(" ")[0])
    if not ans.startswith("valid canonical"):
        run.fail("invalid", dict(inp, bytes=h, lean=ans, wasmtime=msg),
                 "the emitted module is %s by the Lean decoder/validator (wasmtime: %s)\n%s" % (ans.split(" types")[0], "accepts" if ok_tm else msg, src[:400]),
                 key="invalid:" + ans.split(" ")[0])
    if ok_tm != ans.startswith("valid"):
        run.mismatch("validator-vs-wasmtime", dict(inp, bytes=h), ans, "wasmtime: " + ("valid" if ok_tm else msg))
    # generator model on the real IR (the IR model does not record the signedness of integer constants: a module with a
    # uint constant — they arise from folded casts — is outside the generator model; its bytes were still validated above)
    if has_uint_const(result):
        run.count("generator-model:skipped-uint-constant"); return
    try:
        ps = implrun.program_sexp(result.IRModule.Functions, result.IRModule.Globals)
    except BaseException as e:
        run.mismatch("ir-dump", inp, "-", type(e).__name__); return
    if d.ask("irprog " + ps) != "ok":
        run.mismatch("ir-dump", inp, "-", "driver cannot parse the IR"); return
    g = d.ask("wasmgen")
    if not g.startswith("ok "):
        run.mismatch("generator-model", inp, g[:120], "emits " + h[:60])
    elif g.split(" ")[1] != h:
        run.mismatch("generator-model", inp, g.split(" ")[1][:200], h[:200])


def has_uint_const(result):
    from nsl import LinearIR
    for f in result.IRModule.Functions.values() if hasattr(result.IRModule.Functions, "values") else result.IRModule.Functions:
        for c in getattr(f, "Constants", []):
            t = c.Type
            if isinstance(t, LinearIR.IntegerType) and t.Unsigned: return True
    return False


def explore(run, scale=1):
    implrun.load()
    d = common.Driver()
    rng = run.rng
    n = N[run.tier] * scale
    srcs = list(make_sources(rng, n)) + [(e["src"], "corpus") for e in wholelang.ENTRIES]
    srcs = [(s, o, i % 2 == 1) for i, (s, o) in enumerate(srcs)] + [(s, "unsupported", o) for s in gen_wasm.UNSUPPORTED for o in (False, True)]
    for src, origin, opt in srcs:
        res = wasmrun.compile_wasm(src, optimize=opt)
        if res[0] != "ok":
            run.case((src, opt, "refused"), nontrivial=False); run.count(origin + ":refused"); run.count("refused:" + res[1][0])
            if origin == "subset" and "uint" not in src and res[1][0] not in ("Exception",):
                run.count("subset-refused-unexpectedly:" + res[1][0])
            # correspondence of the REFUSAL: if the program compiles without the wasm option, the generator model applied to
            # that IR must refuse too (the model mirrors every refusal of GenerateWasm.py)
            base = implrun.compile_src(src, optimize=opt)
            if base[0] == "ok" and not has_uint_const(base[1]):
                try:
                    ps = implrun.program_sexp(base[1].IRModule.Functions, base[1].IRModule.Globals)
                except BaseException:
                    ps = None
                if ps is not None and d.ask("irprog " + ps) == "ok":
                    g = d.ask("wasmgen")
                    run.count("refusal:" + ("model-refuses-too" if not g.startswith("ok ") else "model-emits"))
                    if g.startswith("ok "):
                        run.mismatch("generator-model-refusal", dict(source=src, optimize=opt), "emits " + g[3:60], "refuses: " + res[2][:100])
            continue
        check_bytes(run, d, src, opt, res, origin)
    d.close()


def search(run):
    explore(run, scale=4 if run.tier == "quick" else 1)


def matches(entry, failure):
    return failure["key"].startswith(entry.get("matcher", "\0"))


def replay(obj):
    implrun.load()
    x = obj["input"]
    res = wasmrun.compile_wasm(x["source"], optimize=x.get("optimize", False))
    if res[0] != "ok": return True, "wasm generation is refused now: %s" % (res[1],)
    d = common.Driver()
    ans = d.ask("wasmdec " + res[2].hex()); d.close()
    return ans.startswith("valid canonical"), "Lean decoder/validator: " + ans
