"""Generators of vector/matrix programs (C04, also used by C02/C05/C14), built on lang.py.

`vec`: type-directed random programs over float/int vectors (2-4 components) and float3x3/float4x4 matrices using exactly
the operations C04 lists: construction from scalars and smaller vectors, element-wise + and -, comparisons (0/1 per
component), vector or matrix times/divided by scalar, matrix product, row and element selection, swizzle reads in any
order with repetition, assignment through an index or a non-repeating swizzle, copies.
`swizzle_grid`: the exhaustive part — every read mask of length 1-4 and every non-repeating write mask over xyzw / rgba on
vectors of size 2-4, each embedded in three expression contexts."""
import itertools, random
from lang import *
import progfam

VECS = [Vec('float', 2), Vec('float', 3), Vec('float', 4), Vec('int', 2), Vec('int', 3), Vec('int', 4)]
MATS = [Mat('float', 3, 3), Mat('float', 4, 4)]


def flit(rng): return Lit(rng.choice([0.5, 1.0, 1.5, 2.0, 3.0, 0.25, 4.0]), FLOAT)
def ilit(rng): return Lit(rng.choice([0, 1, 2, 3, 5, 7]), INT)
def slit(rng, c): return flit(rng) if c == 'float' else ilit(rng)


class VG:
    def __init__(self, rng, opts=None):
        self.rng = rng; self.n = 0; self.feat = {}
        self.o = dict(matrices=True, dyn_index=True)
        if opts: self.o.update(opts)

    def hit(self, k): self.feat[k] = self.feat.get(k, 0) + 1
    def fresh(self, p):
        self.n += 1
        return "%s%d" % (p, self.n)

    def mask(self, n, k, letters=None):
        letters = letters or self.rng.choice(["xyzw", "rgba"])
        return "".join(self.rng.choice(letters[:n]) for _ in range(k))

    def wmask(self, n):
        letters = self.rng.choice(["xyzw", "rgba"])
        k = self.rng.randint(1, n)
        return "".join(self.rng.sample(letters[:n], k))

    def scalar(self, c, vars_, depth):
        r = self.rng
        t = Sc(c)
        cands = [v for v in vars_ if v.ty == t]
        vecs = [v for v in vars_ if isinstance(v.ty, Vec) and v.ty.c == c]
        mats = [v for v in vars_ if isinstance(v.ty, Mat) and v.ty.c == c]
        k = r.random()
        if depth <= 0 or k < .2:
            return r.choice(cands) if cands and r.random() < .6 else slit(r, c)
        if k < .4 and vecs:
            v = r.choice(vecs)
            if r.random() < .5 or not self.o['dyn_index']:
                self.hit('vec-elem-read'); return Index(v, Lit(r.randrange(v.ty.n), INT))
            iv = [x for x in vars_ if x.ty == INT and getattr(x, 'bound', 99) <= v.ty.n]
            if iv:
                self.hit('vec-elem-read-dyn'); return Index(v, r.choice(iv))
            return Index(v, Lit(r.randrange(v.ty.n), INT))
        if k < .5 and vecs:
            v = r.choice(vecs); self.hit('swizzle-read-1'); return Swizzle(v, self.mask(v.ty.n, 1))
        if k < .6 and mats:
            m = r.choice(mats); self.hit('mat-elem-read')
            return Index(Index(m, Lit(r.randrange(m.ty.r), INT)), Lit(r.randrange(m.ty.k), INT))
        op = r.choice(['+', '-', '*'])
        return Bin(op, self.scalar(c, vars_, depth - 1), self.scalar(c, vars_, depth - 1))

    def vec(self, ty, vars_, depth):
        r = self.rng
        c, n = ty.c, ty.n
        cands = [v for v in vars_ if v.ty == ty]
        k = r.random()
        if depth <= 0 or k < .2:
            if cands and r.random() < .7: return r.choice(cands)
            self.hit('construct-scalars'); return Construct(ty, [slit(r, c) for _ in range(n)])
        if k < .35:
            # construction from scalars and smaller vectors
            parts, left = [], n
            while left > 0:
                m = r.randint(1, left)
                if m == 1 or m == n: parts.append(self.scalar(c, vars_, depth - 1)); left -= 1
                else: parts.append(self.vec(Vec(c, m), vars_, depth - 1)); left -= m
            self.hit('construct-mixed'); return Construct(ty, parts)
        if k < .55:
            self.hit('vec-addsub'); return Bin(r.choice(['+', '-']), self.vec(ty, vars_, depth - 1), self.vec(ty, vars_, depth - 1))
        if k < .7:
            self.hit('vec-scale'); return Bin(r.choice(['*', '/']) if c == 'float' else '*', self.vec(ty, vars_, depth - 1),
                                              self.scalar(c, vars_, 0) if c == 'int' else Lit(r.choice([0.5, 2.0, 4.0]), FLOAT))
        if k < .85:
            src = [v for v in vars_ if isinstance(v.ty, Vec) and v.ty.c == c]
            if src:
                v = r.choice(src); self.hit('swizzle-read-%d' % n); return Swizzle(v, self.mask(v.ty.n, n))
        if k < .93 and c == 'float' and self.o['matrices']:
            ms = [v for v in vars_ if isinstance(v.ty, Mat) and v.ty.k == n]
            if ms:
                m = r.choice(ms); self.hit('mat-row-read'); return Index(m, Lit(r.randrange(m.ty.r), INT))
        if c == 'int' and k < .97:
            # comparison of two vectors of the same size: 0/1 per component
            ft = r.choice([Vec('float', n), Vec('int', n)])
            self.hit('vec-compare'); return Bin(r.choice(sorted(CMP)), self.vec(ft, vars_, depth - 1), self.vec(ft, vars_, depth - 1))
        return r.choice(cands) if cands else Construct(ty, [slit(r, c) for _ in range(n)])

    def mat(self, ty, vars_, depth):
        r = self.rng
        cands = [v for v in vars_ if v.ty == ty]
        k = r.random()
        if depth <= 0 or k < .3:
            if cands and r.random() < .8: return r.choice(cands)
            self.hit('construct-matrix'); return Construct(ty, [Construct(Vec(ty.c, ty.k), [slit(r, ty.c) for _ in range(ty.k)]) for _ in range(ty.r)])
        if k < .5:
            self.hit('mat-addsub'); return Bin(r.choice(['+', '-']), self.mat(ty, vars_, depth - 1), self.mat(ty, vars_, depth - 1))
        if k < .7:
            self.hit('mat-scale'); return Bin(r.choice(['*', '/']), self.mat(ty, vars_, depth - 1), Lit(r.choice([0.5, 2.0, 4.0]), FLOAT))
        if k < .9 and ty.r == ty.k:
            self.hit('mat-mul'); return Bin('*', self.mat(ty, vars_, depth - 1), self.mat(ty, vars_, depth - 1))
        return r.choice(cands) if cands else self.mat(ty, vars_, 0)

    def expr(self, ty, vars_, depth):
        if isinstance(ty, Sc): return self.scalar(ty.c, vars_, depth)
        if isinstance(ty, Vec): return self.vec(ty, vars_, depth)
        return self.mat(ty, vars_, depth)

    def program(self):
        r = self.rng
        tys = [r.choice(VECS) for _ in range(r.randint(1, 3))] + [r.choice([INT, FLOAT])]
        if self.o['matrices'] and r.random() < .5: tys.append(r.choice(MATS))
        params = [(self.fresh("p"), t) for t in tys]
        vars_ = [Var(n, t, 'arg', i) for i, (n, t) in enumerate(params)]
        if self.o['dyn_index']:
            ip = (self.fresh("i"), INT); params.append(ip)
            iv = Var(ip[0], INT, 'arg', len(params) - 1); iv.bound = 2      # inputs for this parameter are drawn from {0, 1}
            vars_.append(iv)
        ss = []
        for _ in range(r.randint(2, 6)):
            k = r.random()
            agg = [v for v in vars_ if isinstance(v.ty, (Vec, Mat))]
            if k < .3:
                t = r.choice(VECS + ([r.choice(MATS)] if self.o['matrices'] else []) + [INT, FLOAT])
                l = Var(self.fresh("v"), t, 'local')
                init = self.expr(t, vars_, 2)
                # a copy: T w = v;
                if isinstance(init, Var): self.hit('copy')
                ss.append(Decl(l.name, t, init)); vars_.append(l)
            elif k < .5 and agg:
                v = r.choice([x for x in agg if isinstance(x.ty, Vec)] or agg)
                if isinstance(v.ty, Vec):
                    m = self.wmask(v.ty.n)
                    rhs = self.scalar(v.ty.c, vars_, 1) if len(m) == 1 else self.vec(Vec(v.ty.c, len(m)), vars_, 1)
                    self.hit('swizzle-write-%d' % len(m)); ss.append(ExprS(Assign(Swizzle(v, m), rhs)))
            elif k < .56 and [x for x in agg if isinstance(x.ty, Vec) and x.ty.n >= 2]:
                # an element write THROUGH a swizzle: v.zw[1] = e changes exactly component w of v
                v = r.choice([x for x in agg if isinstance(x.ty, Vec) and x.ty.n >= 2])
                m = self.wmask(v.ty.n)
                while len(m) < 2: m = self.wmask(v.ty.n)
                ss.append(ExprS(Assign(Index(Swizzle(v, m), Lit(r.randrange(len(m)), INT)), self.scalar(v.ty.c, vars_, 1))))
                self.hit('elem-write-through-swizzle')
            elif k < .65 and agg:
                v = r.choice(agg)
                if isinstance(v.ty, Vec):
                    idx = Lit(r.randrange(v.ty.n), INT)
                    if self.o['dyn_index'] and r.random() < .4: idx = vars_[[x.name for x in vars_].index(params[-1][0])]
                    self.hit('vec-elem-write'); ss.append(ExprS(Assign(Index(v, idx), self.scalar(v.ty.c, vars_, 1))))
                else:
                    i, j = Lit(r.randrange(v.ty.r), INT), Lit(r.randrange(v.ty.k), INT)
                    if r.random() < .5:
                        self.hit('mat-elem-write'); ss.append(ExprS(Assign(Index(Index(v, i), j), self.scalar(v.ty.c, vars_, 1))))
                    else:
                        self.hit('mat-row-write'); ss.append(ExprS(Assign(Index(v, i), self.vec(Vec(v.ty.c, v.ty.k), vars_, 1))))
            elif agg:
                v = r.choice(agg)
                self.hit('assign-whole'); ss.append(ExprS(Assign(v, self.expr(v.ty, vars_, 2))))
        ret = r.choice([v.ty for v in vars_ if isinstance(v.ty, (Vec, Mat))] + [FLOAT, INT])
        ss.append(Return(self.expr(ret, vars_, 2)))
        funcs = []
        if self.o['matrices'] and r.random() < .4:
            # a second (and third) function with row-wise matrix operations: what lowering keeps per module must be per function
            mt = r.choice(MATS)
            a, b, sv = Var("ma", mt, 'arg', 0), Var("mb", mt, 'arg', 1), Var("ms", FLOAT, 'arg', 2)
            body = r.choice([Bin('-', Bin('+', a, b), Bin('*', a, sv)), Bin('+', Bin('/', a, Lit(2.0, FLOAT)), Bin('*', sv, b)), Bin('-', a, b)])
            funcs.append(Func("g", [("ma", mt), ("mb", mt), ("ms", FLOAT)], mt, Block([Return(body)]), False)); self.hit('second-function-matrix-rows')
        return Module([], [], funcs + [Func("f", params, ret, Block(ss), True)])


def vec_inputs(rng, module, count=3):
    import gen
    f = module.find("f")
    out = []
    for _ in range(count):
        args = []
        for n, t in f.params:
            if n.startswith("i") and t == INT: args.append(rng.randrange(2))
            else: args.append(gen.gen_value(rng, t))
        out.append((args, {}))
    return out


@progfam.maker("vec")
def make_vec(rng, opts):
    g = VG(rng, opts)
    m = g.program()
    return dict(module=m, fname="f", feat=g.feat, inputs=vec_inputs(rng, m))


# ---------------------------------------------------------------- exhaustive swizzle grid

def grid_programs():
    """(name, lang.Module) for every read mask (length 1-4) and every non-repeating write mask, sizes 2-4, both letter
    sets, each in three contexts"""
    out = []
    for n in (2, 3, 4):
        ty = Vec('float', n)
        p = Var("p", ty, 'arg', 0); q = Var("q", FLOAT, 'arg', 1)
        for letters in ("xyzw", "rgba"):
            for k in (1, 2, 3, 4):
                for m in itertools.product(letters[:n], repeat=k):
                    mask = "".join(m)
                    rt = FLOAT if k == 1 else Vec('float', k)
                    sw = Swizzle(p, mask)
                    # context 1: operand of +
                    e1 = Bin('+', sw, q) if k == 1 else Bin('+', sw, sw)
                    out.append(("read:%d:%s:plus" % (n, mask), Module([], [], [Func("f", [("p", ty), ("q", FLOAT)], rt, Block([Return(e1)]), True)])))
                    if letters == "xyzw" or k <= 2:
                        # context 2: argument of a call
                        h = Func("h", [("a", rt)], rt, Block([Return(Var("a", rt, 'arg', 0))]), False)
                        out.append(("read:%d:%s:call" % (n, mask), Module([], [], [h, Func("f", [("p", ty), ("q", FLOAT)], rt, Block([Return(Call(h, [sw]))]), True)])))
                        # context 3: right-hand side of another swizzle write
                        if k <= n:
                            w = Var("w", ty, 'local')
                            tgt = Swizzle(w, letters[:k]) if k > 1 else Swizzle(w, letters[0])
                            body = Block([Decl("w", ty, p), ExprS(Assign(tgt, sw)), Return(w)])
                            out.append(("read:%d:%s:rhs" % (n, mask), Module([], [], [Func("f", [("p", ty), ("q", FLOAT)], ty, body, True)])))
            for k in range(1, n + 1):
                for m in itertools.permutations(letters[:n], k):
                    mask = "".join(m)
                    w = Var("w", ty, 'local')
                    rhs = q if k == 1 else Construct(Vec('float', k), [Bin('+', q, Lit(float(i), FLOAT)) for i in range(k)])
                    body = Block([Decl("w", ty, p), ExprS(Assign(Swizzle(w, mask), rhs)), Return(Bin('+', w, p))])
                    out.append(("write:%d:%s" % (n, mask), Module([], [], [Func("f", [("p", ty), ("q", FLOAT)], ty, body, True)])))
    return out
