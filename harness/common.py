"""Shared plumbing of the checks: scratch copy of /repo, regeneration of the Gen tables, lake build
(with a lock), proof audit, model driver process, evidence, known findings, replay files."""
import os, sys, json, time, shutil, subprocess, tempfile, fcntl, re, hashlib, random, atexit

VERIF = os.path.dirname(os.path.dirname(os.path.abspath(__file__)))
LEAN = os.path.join(VERIF, "lean")
REPO = os.environ.get("NSL_REPO", "/repo")
PY = "/venv/bin/python"
DRIVER = os.path.join(LEAN, ".lake", "build", "bin", "nsl_driver")
ALLOWED_AXIOMS = {"propext", "Classical.choice", "Quot.sound"}
FORBIDDEN = re.compile(r"\b(sorry|admit|native_decide|bv_decide|implemented_by|unsafe)\b|^\s*axiom\s|maxHeartbeats\s+0")

os.environ.setdefault("NSL_VERIF", "1")


class Infra(Exception):
    """Infrastructure problem (exit 2), never a violation."""


_scratch = None


def scratch_repo():
    """Copy of /repo's current working tree outside /repo and /verif; removed at exit."""
    global _scratch
    if _scratch:
        return _scratch
    base = tempfile.mkdtemp(prefix="nslverif-")
    dst = os.path.join(base, "repo")
    shutil.copytree(REPO, dst, ignore=shutil.ignore_patterns(".git", "__pycache__", "parsetab.py", "parser.out", "*.pyc"))
    _scratch = dst
    atexit.register(lambda: shutil.rmtree(base, ignore_errors=True))
    # warm-up: PLY writes parsetab.py next to the package on first use
    subprocess.run([PY, "-c", "import sys; sys.path.insert(0, %r); import io, contextlib\n"
                    "with contextlib.redirect_stdout(io.StringIO()), contextlib.redirect_stderr(io.StringIO()):\n"
                    "    from nsl import Compiler; Compiler.Compiler()" % dst],
                   cwd=dst, stdout=subprocess.DEVNULL, stderr=subprocess.DEVNULL)
    return dst


class BuildResult:
    def __init__(self):
        self.ok = True
        self.log = ""
        self.failed_modules = []
        self.failed_decls = []   # (module, message excerpt)
        self.axioms = {}         # theorem -> [axioms]
        self.wall = 0.0


def _lock():
    f = open(os.path.join(LEAN, ".build.lock"), "w")
    fcntl.flock(f, fcntl.LOCK_EX)
    return f


def regenerate_and_build(targets=("Nsl", "nsl_driver")):
    """Run the translator on the scratch copy and rebuild. Returns BuildResult.
    A failing build is NOT a violation by itself (DESIGN §2.3)."""
    repo = scratch_repo()
    res = BuildResult()
    t0 = time.time()
    lock = _lock()
    try:
        gen = subprocess.run([PY, os.path.join(VERIF, "harness", "extract.py"), repo, os.path.join(LEAN, "Nsl", "Gen")],
                             capture_output=True, text=True)
        if gen.returncode != 0:
            res.ok = False
            res.log = "extractor failed:\n" + gen.stdout + gen.stderr
            res.failed_modules = ["extract.py"]
            res.wall = time.time() - t0
            return res
        p = subprocess.run(["lake", "build"] + list(targets), cwd=LEAN, capture_output=True, text=True)
        res.log = p.stdout + p.stderr
        if p.returncode != 0:
            res.ok = False
            res.failed_modules = re.findall(r"^✖ \[\d+/\d+\] Building (\S+)", res.log, re.M)
            for m in re.finditer(r"^error: (\S+?):(\d+):(\d+): (.*)$", res.log, re.M):
                res.failed_decls.append((m.group(1), int(m.group(2)), m.group(4)[:200]))
        # If only Gen-dependent modules failed, still try to have a driver: rebuild the driver alone
        if not res.ok and not os.path.exists(DRIVER):
            subprocess.run(["lake", "build", "nsl_driver"], cwd=LEAN, capture_output=True, text=True)
    finally:
        lock.close()
    res.wall = time.time() - t0
    return res


def ensure_driver():
    if not os.path.exists(DRIVER):
        lock = _lock()
        try:
            p = subprocess.run(["lake", "build", "nsl_driver"], cwd=LEAN, capture_output=True, text=True)
        finally:
            lock.close()
        if not os.path.exists(DRIVER):
            raise Infra("model driver could not be built:\n" + p.stdout[-2000:] + p.stderr[-2000:])


_axiom_cache = {}


def print_axioms(module, theorems):
    """Ask Lean for the axioms of the given theorems (full names) of an already built module."""
    src = "import %s\n" % module + "".join("#print axioms %s\n" % t for t in theorems)
    with tempfile.NamedTemporaryFile("w", suffix=".lean", delete=False, dir=LEAN) as f:
        f.write(src)
        path = f.name
    try:
        p = subprocess.run(["lake", "env", "lean", path], cwd=LEAN, capture_output=True, text=True)
    finally:
        os.unlink(path)
    out = {}
    text = p.stdout + p.stderr
    for m in re.finditer(r"'(\S+)' depends on axioms: \[([^\]]*)\]", text):
        out[m.group(1)] = [a.strip() for a in m.group(2).split(",") if a.strip()]
    for m in re.finditer(r"'(\S+)' does not depend on any axioms", text):
        out[m.group(1)] = []
    missing = [t for t in theorems if t not in out]
    return out, missing, text


def audit_sources(files):
    """grep for forbidden constructs outside comments."""
    hits = []
    for f in files:
        path = os.path.join(LEAN, f)
        if not os.path.exists(path):
            hits.append((f, 0, "file missing"))
            continue
        in_block = 0
        for i, line in enumerate(open(path, encoding="utf-8"), 1):
            code = line
            # strip block comments (coarse) and line comments
            out = ""
            j = 0
            while j < len(code):
                if code.startswith("/-", j):
                    in_block += 1; j += 2; continue
                if code.startswith("-/", j) and in_block:
                    in_block -= 1; j += 2; continue
                if in_block:
                    j += 1; continue
                if code.startswith("--", j):
                    break
                out += code[j]; j += 1
            if FORBIDDEN.search(out):
                hits.append((f, i, line.strip()[:160]))
    return hits


def _pidfile():
    return os.path.join(os.environ.get("NSL_SCRATCH") or tempfile.gettempdir(), "driver.pids")


def _register_driver(pid):
    try:
        with open(_pidfile(), "a") as f: f.write("%d\n" % pid)
    except OSError:
        pass


def kill_drivers():
    """Every model-driver process started by this check (also by its worker processes): none may outlive the check — an
    orphaned driver keeps the check's output pipe open and blocks whoever waits for the check's output."""
    import signal
    try:
        pids = [int(x) for x in open(_pidfile()).read().split()]
    except (OSError, ValueError):
        return
    for pid in pids:
        try:
            if b"nsl_driver" in open("/proc/%d/cmdline" % pid, "rb").read(): os.kill(pid, signal.SIGKILL)
        except (OSError, ProcessLookupError):
            pass


class Driver:
    """One model-driver process; line in, line out."""

    def __init__(self):
        ensure_driver()
        self.p = subprocess.Popen([DRIVER], stdin=subprocess.PIPE, stdout=subprocess.PIPE, stderr=subprocess.DEVNULL, text=True, bufsize=1)
        self.n = 0
        _register_driver(self.p.pid)

    def ask(self, line):
        assert "\n" not in line
        self.p.stdin.write(line + "\n")
        self.p.stdin.flush()
        ans = self.p.stdout.readline()
        if not ans:
            raise Infra("model driver died on: " + line[:300])
        self.n += 1
        return ans.rstrip("\n")

    def ask_many(self, lines):
        """Pipelined: write all, then read all (for big batches)."""
        import threading
        out = []
        def writer():
            for l in lines:
                self.p.stdin.write(l + "\n")
            self.p.stdin.flush()
        t = threading.Thread(target=writer)
        t.start()
        for _ in lines:
            ans = self.p.stdout.readline()
            if not ans:
                raise Infra("model driver died in batch")
            out.append(ans.rstrip("\n"))
        t.join()
        self.n += len(lines)
        return out

    def close(self):
        try:
            self.p.stdin.close()
            self.p.wait(timeout=5)
        except Exception:
            self.p.kill()


def load_known_findings():
    p = os.path.join(VERIF, "known_findings.json")
    if not os.path.exists(p):
        return []
    return json.load(open(p))["findings"]


def seed_from_env():
    try:
        return int(os.environ.get("VERIF_SEED", "0"))
    except ValueError:
        return 0


def write_json(path, obj):
    os.makedirs(os.path.dirname(path), exist_ok=True)
    tmp = path + ".tmp%d" % os.getpid()
    with open(tmp, "w") as f:
        json.dump(obj, f, indent=1, default=str)
    os.replace(tmp, path)
