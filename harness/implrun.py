"""Runs the REAL nsl (imported from the scratch copy named by NSL_SCRATCH) in-process and renders
what it does in the canonical forms the checks compare."""
import sys, os, io, contextlib, struct, signal, traceback

_loaded = False


def load():
    global _loaded
    if _loaded:
        return
    scratch = os.environ["NSL_SCRATCH"]
    if scratch not in sys.path:
        sys.path.insert(0, scratch)
    os.chdir(scratch)
    global nsl, Compiler, LinearIR, VM, types, op, ast_mod, Errors
    import nsl
    from nsl import Compiler, LinearIR, VM, types, op, Errors
    from nsl import ast as ast_mod
    _loaded = True


class Timeout(Exception):
    pass


def _alarm(signum, frame):
    raise Timeout()


@contextlib.contextmanager
def time_limit(seconds):
    """Limit on the CPU time of this process (ITIMER_VIRTUAL), not on wall-clock time: a descheduled or snapshotted
    machine must not look like a non-terminating compile or VM run."""
    old = signal.signal(signal.SIGVTALRM, _alarm)
    signal.setitimer(signal.ITIMER_VIRTUAL, seconds)
    try:
        yield
    finally:
        signal.setitimer(signal.ITIMER_VIRTUAL, 0)
        signal.signal(signal.SIGVTALRM, old)


@contextlib.contextmanager
def quiet():
    with contextlib.redirect_stdout(io.StringIO()), contextlib.redirect_stderr(io.StringIO()):
        yield


def exc_site(e):
    """(class name, innermost nsl function, file) of an exception."""
    tb = traceback.extract_tb(e.__traceback__)
    fn, fl = "?", "?"
    for fr in reversed(tb):
        if "/nsl/" in fr.filename or fr.filename.endswith("nslc.py"):
            fn, fl = fr.name, os.path.basename(fr.filename)
            break
    return (type(e).__name__, fn, fl)


def compile_src(src, optimize=False, wasm=False, limit=20):
    """-> ('ok', Result) | ('reject', (class, function, file), message)"""
    load()
    opts = {"optimize": optimize}
    if wasm:
        opts["wasm"] = True
    try:
        with quiet(), time_limit(limit):
            r = Compiler.Compiler().Compile(src, opts)
        if r is None:
            return ("reject", ("None", "Compile", "Compiler.py"), "Compile returned None")
        return ("ok", r)
    except Timeout:
        return ("reject", ("Timeout", "Compile", "Compiler.py"), "compile timeout")
    except SystemExit as e:
        return ("reject", ("SystemExit", "p_error", "parser.py"), "syntax error")
    except RecursionError as e:
        return ("reject", ("RecursionError",) + exc_site(e)[1:], "recursion")
    except BaseException as e:
        return ("reject", exc_site(e), str(e)[:200])


# ---------------------------------------------------------------- values

def fbits(x):
    return struct.unpack("<Q", struct.pack("<d", float(x)))[0]


def val_sexp(v):
    if v is None:
        return "(n)"
    if isinstance(v, bool):
        return "(i %d)" % int(v)
    if isinstance(v, int):
        return "(i %d)" % v
    if isinstance(v, float):
        return "(f %d)" % fbits(v)
    if isinstance(v, (list, tuple)):
        return "(l" + "".join(" " + val_sexp(x) for x in v) + ")"
    if isinstance(v, dict):
        return "(s" + "".join(" (%s %s)" % (k, val_sexp(x)) for k, x in v.items()) + ")"
    return "(unknown %s)" % type(v).__name__


# ---------------------------------------------------------------- IR dump

UNDEF = 4294967295


def ty_sexp(t):
    load()
    if isinstance(t, LinearIR.IntegerType):
        return "uint" if t.Unsigned else "int"
    if isinstance(t, LinearIR.FloatType):
        return "float"
    if isinstance(t, LinearIR.VoidType):
        return "void"
    if isinstance(t, LinearIR.VectorType):
        return "(vec %s %d)" % (ty_sexp(t.ElementType), t.Size)
    if isinstance(t, LinearIR.MatrixType):
        return "(mat %s %d %d)" % (ty_sexp(t.ElementType), t.RowCount, t.ColumnCount)
    if isinstance(t, LinearIR.ArrayType):
        return "(arr %s %s)" % (ty_sexp(t.ElementType), " ".join(str(d) for d in t.Size))
    if isinstance(t, LinearIR.StructureType):
        return "(struct %s%s)" % (t.Name or "_", "".join(" (%s %s)" % (k, ty_sexp(v)) for k, v in t.Fields.items()))
    if isinstance(t, LinearIR.FunctionType):
        return "void"
    return "void"


_cur = {"consts": None, "blocks": None}    # the function being dumped: ids of its constants / basic blocks


def opd_sexp(v):
    load()
    if v is None or isinstance(v, int):
        return "(r %d)" % UNDEF
    if isinstance(v, LinearIR.ConstantValue):
        if _cur["consts"] is not None and id(v) not in _cur["consts"]:
            return "(r %d)" % UNDEF          # a constant object that is not registered in this function
        c = v.Value
        if isinstance(c, bool):
            return "(ci %d)" % int(c)
        if isinstance(c, int):
            return "(ci %d)" % c
        if isinstance(c, float):
            return "(cf %d)" % fbits(c)
        return "(r %d)" % UNDEF
    return "(r %d)" % v.Reference


def label_of(b):
    if b is None or isinstance(b, int):
        return UNDEF
    if _cur["blocks"] is not None and id(b) not in _cur["blocks"]:
        return UNDEF                         # a block object of another function / a removed block
    return b.Reference


def scope_name(s):
    return {0: "global", 1: "arg", 2: "local"}[s.value]


def instr_sexp(i):
    load()
    L = LinearIR
    r = i.Reference
    if isinstance(i, L.VariableAccessInstruction):
        sc = scope_name(i.Scope)
        # the VM dispatches on the opcode, not on the presence of a stored value
        if i.OpCode == L.OpCode.STORE:
            return "(store %s %s %s)" % (sc, i.Variable, opd_sexp(i.Store))
        return "(load %d %s %s %s)" % (r, ty_sexp(i.Type), sc, i.Variable)
    if isinstance(i, L.DeclareVariableInstruction):
        return "(newvar %d %s %s)" % (r, ty_sexp(i.Type), i.Name)
    if isinstance(i, L.BinaryInstruction):
        return "(bin %d %s %s %s %s)" % (r, i.OpCode.name.lower(), ty_sexp(i.Type), opd_sexp(i.Values[0]), opd_sexp(i.Values[1]))
    if isinstance(i, L.CastInstruction):
        return "(cast %d %s %s)" % (r, ty_sexp(i.Type), opd_sexp(i.Value))
    if isinstance(i, L.BranchInstruction):
        if i.Predicate is None:
            return "(br %d)" % label_of(i.TrueBlock)
        return "(brc %s %d %d)" % (opd_sexp(i.Predicate), label_of(i.TrueBlock), label_of(i.FalseBlock))
    if isinstance(i, L.ReturnInstruction):
        return "(ret %s)" % opd_sexp(i.Value) if i.Value is not None else "(ret)"     # `if instruction.Value:` in the VM; Values are always truthy
    if isinstance(i, L.CallInstruction):
        return "(call %d %s %s%s)" % (r, ty_sexp(i.Type), i.Function, "".join(" " + opd_sexp(a) for a in i.Arguments))
    if isinstance(i, L.ArrayAccessInstruction):
        if i.OpCode == L.OpCode.STORE_ARRAY:
            return "(storearr %s %s %s)" % (opd_sexp(i.Array), opd_sexp(i.Index), opd_sexp(i.Store))
        return "(loadarr %d %s %s %s)" % (r, ty_sexp(i.Type), opd_sexp(i.Array), opd_sexp(i.Index))
    if isinstance(i, (L.VectorAccessInstruction, L.MatrixAccessInstruction)):
        k = "vec" if isinstance(i, L.VectorAccessInstruction) else "mat"
        if i.OpCode in (L.OpCode.VECTOR_SET, L.OpCode.MATRIX_SET):
            return "(%sset %d %s %s %s %s)" % (k, r, ty_sexp(i.Type), opd_sexp(i.Array), opd_sexp(i.Index), opd_sexp(i.Store))
        return "(%sget %d %s %s %s)" % (k, r, ty_sexp(i.Type), opd_sexp(i.Array), opd_sexp(i.Index))
    if isinstance(i, L.MemberAccessInstruction):
        if i.OpCode == L.OpCode.STORE_MEMBER:
            return "(storemem %s %s %s)" % (opd_sexp(i.Variable), i.Member, opd_sexp(i.Store))
        return "(loadmem %d %s %s %s)" % (r, ty_sexp(i.Type), opd_sexp(i.Variable), i.Member)
    if isinstance(i, L.ShuffleInstruction):
        return "(shuffle %d %s %s %s%s)" % (r, ty_sexp(i.Type), opd_sexp(i.First), opd_sexp(i.Second), "".join(" %d" % x for x in i.Indices))
    if isinstance(i, L.ConstructPrimitiveInstruction):
        return "(construct %d %s%s)" % (r, ty_sexp(i.Type), "".join(" " + opd_sexp(v) for v in i.Values))
    return "(unknown %s)" % type(i).__name__


def func_sexp(f):
    code = []
    _cur["consts"] = {id(c) for c in f.Constants}
    _cur["blocks"] = {id(b) for b in f.BasicBlocks}
    for bb in f.BasicBlocks:
        code.append("(label %d)" % bb.Reference)
        for i in bb.Instructions:
            code.append(instr_sexp(i))
    params = "".join(" (%s %s)" % (k, ty_sexp(t)) for k, t in f.Type.Arguments.items())
    return "(func %s (params%s) %s (code %s))" % (f.Name, params, ty_sexp(f.Type.ReturnType), " ".join(code))


def program_sexp(functions, globals_):
    """functions: dict name->Function; globals_: dict name->(ast or IR type)"""
    load()
    from nsl.passes.LowerToIR import _CreateLinearIRType
    gs = []
    for k, t in globals_.items():
        try:
            it = t if isinstance(t, LinearIR.Type) else _CreateLinearIRType(t)
            gs.append(" (%s %s)" % (k, ty_sexp(it)))
        except Exception:
            gs.append(" (%s void)" % k)
    return "(program (globals%s) (funcs %s))" % ("".join(gs), " ".join(func_sexp(f) for f in functions.values()))


def listing(module):
    """The compiler's own textual listing of a module (InstructionPrinter)."""
    load()
    buf = io.StringIO()
    def pr(*a, end="\n"):
        buf.write(" ".join(str(x) for x in a) + end)
    p = LinearIR.InstructionPrinter(pr)
    for f in module.Functions.values():
        p.Print(f)
    return buf.getvalue()


# ---------------------------------------------------------------- VM

DEFINED_INDEX_OPS = {"LOAD_ARRAY", "VECTOR_GET", "MATRIX_GET", "STORE_ARRAY", "VECTOR_SET", "MATRIX_SET"}


def classify_runtime(e):
    """Map a Python exception raised by VM execution to the model's error classes."""
    if isinstance(e, Timeout):
        return ("timeout", "")
    if isinstance(e, RecursionError):
        return ("timeout", "recursion")
    opname = None
    tb = e.__traceback__
    while tb is not None:
        fr = tb.tb_frame
        if fr.f_code.co_name.endswith("__Execute") or fr.f_code.co_name == "_ExecutionContext__Execute":
            oc = fr.f_locals.get("opCode")
            if oc is not None:
                opname = getattr(oc, "name", str(oc))
        tb = tb.tb_next
    if isinstance(e, ZeroDivisionError):
        return ("divzero", opname or "")
    if isinstance(e, IndexError) and opname in DEFINED_INDEX_OPS:
        return ("indexoob", opname)
    return ("internal", "%s@%s" % (type(e).__name__, opname or exc_site(e)[1]))


def link(modules, loader=None):
    load()
    lk = LinearIR.Linker(loader=loader) if loader is not None else LinearIR.Linker()
    for m in modules:
        lk.AddModule(m)
    return lk.Link()


def new_vm(program):
    load()
    return VM.VirtualMachine(program)


def invoke(vm, fn, kwargs, limit=10):
    """-> ('ok', value) | (class, detail)"""
    try:
        with quiet(), time_limit(limit):
            v = vm.Invoke(fn, **kwargs)
        return ("ok", v)
    except BaseException as e:
        if isinstance(e, KeyboardInterrupt):
            raise
        return classify_runtime(e)
