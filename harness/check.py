#!/venv/bin/python
"""Entry point of every registered check:  check.py <Cxx> [--tier quick|thorough] [--replay FILE]

Decision procedure (DESIGN.md §2.3):
 1 scratch copy of /repo's working tree
 2 translator -> lean/Nsl/Gen/*.lean ; lake build of the property's theorem and table-obligation modules
 3 audit (no sorry/admit/axiom/native_decide...; #print axioms of every property theorem)
 4 correspondence: Lean model driver vs the real nsl on the same inputs
 5 property oracle evaluated on the real nsl directly
 6 outcome: failing input -> KNOWN-FINDING (if listed) or VIOLATION with replay; broken proof /
   correspondence without failing input -> VIOLATION ... no-failing-input-found
 7 evidence/<id>.json
Exit codes: 0 held, 1 violation, 2 infrastructure problem / timeout.
"""
import sys, os, json, time, random, hashlib, importlib, traceback, re, subprocess

sys.path.insert(0, os.path.dirname(os.path.abspath(__file__)))
import common
from common import VERIF, LEAN

SIM = ["Nsl/Model/Map.lean", "Nsl/Model/Val.lean", "Nsl/Model/IR.lean", "Nsl/Model/Core.lean", "Nsl/Model/ScalarCore.lean", "Nsl/Model/Lower.lean",
       "Nsl/Model/VM.lean", "Nsl/Model/CoreSem.lean", "Nsl/Proofs/VMSteps.lean", "Nsl/Proofs/StepLemmas.lean", "Nsl/Proofs/LowerShape.lean",
       "Nsl/Proofs/SimBase.lean", "Nsl/Proofs/SimExpr.lean", "Nsl/Proofs/SimStmt.lean", "Nsl/Proofs/SimMain.lean", "Nsl/Props/C01.lean"]

STOR = ["Nsl/Model/StorageCore.lean", "Nsl/Proofs/StorShape.lean", "Nsl/Proofs/StorBase.lean", "Nsl/Proofs/StorExpr.lean", "Nsl/Proofs/StorEval.lean",
        "Nsl/Proofs/StorStmt.lean", "Nsl/Proofs/StorMain.lean", "Nsl/Props/C01Storage.lean"]
LOWOK = ["Nsl/Model/Opt.lean", "Nsl/Proofs/Opt.lean", "Nsl/Proofs/OptSimBase.lean", "Nsl/Proofs/OptSimStep.lean", "Nsl/Proofs/OptSimKept.lean", "Nsl/Proofs/OptSimRun.lean",
         "Nsl/Proofs/OptSimPres.lean", "Nsl/Proofs/OptSimPasses.lean", "Nsl/Proofs/OptSimConv.lean", "Nsl/Proofs/LowerLocal1.lean", "Nsl/Proofs/LowerLocal2.lean",
         "Nsl/Proofs/LowerLocal3.lean", "Nsl/Props/LowerOK.lean"]
LOWOKS = ["Nsl/Proofs/LowerLocalS1.lean", "Nsl/Proofs/LowerLocalS2.lean", "Nsl/Proofs/LowerLocalS3.lean", "Nsl/Props/LowerOKStorage.lean"]
VECF = ["Nsl/Model/VectorCore.lean"] + ["Nsl/Proofs/Vec%s.lean" % x for x in ("Base", "Ops", "Vals", "Shape", "Bin", "Rows", "Expr", "Eval", "Store", "Stmt", "Main")] + ["Nsl/Props/C04Sim.lean"]
LOWV = ["Nsl/Proofs/LowerLocalV%d.lean" % i for i in (1, 2, 3, 4, 5)] + ["Nsl/Props/LowerOKVector.lean"]
PROPS = {
    "C01": ("p_c01", "Nsl.Props.C01", ["Nsl.Props.C01Storage", "Nsl.Props.LowerOK", "Nsl.Props.LowerOKStorage"], SIM + STOR + LOWOK + LOWOKS),
    "C02": ("p_c02", "Nsl.Props.C02", [], ["Nsl/Model/Opt.lean", "Nsl/Model/VM.lean", "Nsl/Model/IR.lean", "Nsl/Model/Val.lean", "Nsl/Proofs/VMSteps.lean", "Nsl/Proofs/Opt.lean", "Nsl/Proofs/OptSimBase.lean", "Nsl/Proofs/OptSimStep.lean", "Nsl/Proofs/OptSimKept.lean", "Nsl/Proofs/OptSimRun.lean", "Nsl/Proofs/OptSimPres.lean", "Nsl/Proofs/OptSimPasses.lean", "Nsl/Proofs/OptSimConv.lean", "Nsl/Proofs/StepLemmas.lean", "Nsl/Model/WF.lean", "Nsl/Props/C02.lean"]),
    "C03": ("p_c03", "Nsl.Props.C03", [], SIM + STOR + LOWOK + VECF + LOWV + ["Nsl/Props/C03.lean"]),
    "C04": ("p_c04", "Nsl.Props.C04", ["Nsl.Props.C04Sim", "Nsl.Props.LowerOKVector"], LOWV + ["Nsl/Model/VM.lean", "Nsl/Model/Val.lean", "Nsl/Model/Lower.lean", "Nsl/Proofs/StepLemmas.lean", "Nsl/Props/C04.lean", "Nsl/Model/VectorCore.lean",
                                               "Nsl/Model/Core.lean", "Nsl/Model/CoreSem.lean"] + ["Nsl/Proofs/Vec%s.lean" % x for x in ("Base", "Ops", "Vals", "Shape", "Bin", "Rows", "Expr", "Eval", "Store", "Stmt", "Main")] + ["Nsl/Props/C04Sim.lean"]),
    "C05": ("p_c05", "Nsl.Props.C05", ["Nsl.Props.C05IR"], SIM + STOR + LOWOK + ["Nsl/Props/C05.lean", "Nsl/Model/IRType.lean", "Nsl/Proofs/IRTypeBase.lean", "Nsl/Proofs/IRTypeOps.lean",
                                               "Nsl/Proofs/IRTypeOps2.lean", "Nsl/Proofs/IRTypeInv.lean", "Nsl/Proofs/IRTypeStep1.lean", "Nsl/Proofs/IRTypeStep2.lean", "Nsl/Proofs/IRTypeRun.lean", "Nsl/Props/C05IR.lean"]),
    "C15": ("p_c15", "Nsl.Props.C15", [], SIM + STOR + LOWOK + ["Nsl/Props/C15.lean"]),
    # id: (python module, theorem module, [table-obligation modules], model source files to audit)
    "C06": ("p_c06", "Nsl.Props.C06", [], ["Nsl/Model/Wasm.lean", "Nsl/Model/WasmEval.lean", "Nsl/Model/VM.lean", "Nsl/Proofs/Wasm.lean", "Nsl/Proofs/WasmGen.lean", "Nsl/Proofs/WasmEval.lean", "Nsl/Model/WasmRange.lean", "Nsl/Proofs/WasmInt.lean", "Nsl/Proofs/WasmUInt.lean", "Nsl/Props/C06.lean"]),
    "C07": ("p_c07", "Nsl.Props.C07", [], ["Nsl/Model/Wasm.lean", "Nsl/Model/Leb.lean", "Nsl/Proofs/Wasm.lean", "Nsl/Proofs/WasmGen.lean", "Nsl/Proofs/Leb.lean", "Nsl/Props/C07.lean"]),
    "C08": ("p_c08", "Nsl.Props.C08", ["Nsl.Props.GenC08"], ["Nsl/Model/Prec.lean", "Nsl/Proofs/Prec.lean", "Nsl/Props/C08.lean", "Nsl/Props/GenC08.lean"]),
    "C09": ("p_c09", "Nsl.Props.C09", ["Nsl.Props.GenC09"], ["Nsl/Model/Types.lean", "Nsl/Proofs/Types.lean", "Nsl/Props/C09.lean", "Nsl/Props/GenC09.lean"]),
    "C10": ("p_c10", "Nsl.Props.C10", ["Nsl.Props.C10Agg"], ["Nsl/Model/Overload.lean", "Nsl/Proofs/Overload.lean", "Nsl/Props/C10.lean",
                                                       "Nsl/Model/OverloadAgg.lean", "Nsl/Proofs/OverloadAgg.lean", "Nsl/Props/C10Agg.lean"]),
    "C11": ("p_c11", "Nsl.Props.C11", [], ["Nsl/Model/Flow.lean", "Nsl/Proofs/Flow.lean", "Nsl/Props/C11.lean"]),
    "C12": ("p_c12", "Nsl.Props.C12", [], ["Nsl/Model/Names.lean", "Nsl/Proofs/Names.lean", "Nsl/Proofs/NamesBinding.lean", "Nsl/Proofs/NamesStatic.lean", "Nsl/Props/C12.lean"]),
    "C13": ("p_c13", "Nsl.Props.C13", [], ["Nsl/Model/Static.lean", "Nsl/Proofs/Static.lean", "Nsl/Props/C13.lean"]),
    "C14": ("p_c14", "Nsl.Props.C14", ["Nsl.Props.C14Opt", "Nsl.Props.LowerWF", "Nsl.Props.LowerOKVector"], LOWV + ["Nsl/Proofs/LowerWF1.lean", "Nsl/Proofs/LowerWF2.lean", "Nsl/Proofs/LowerWF3.lean", "Nsl/Proofs/LowerWF4.lean", "Nsl/Props/LowerWF.lean",
                                               "Nsl/Proofs/LowerLocal1.lean", "Nsl/Proofs/LowerLocal2.lean", "Nsl/Proofs/LowerLocalS1.lean", "Nsl/Proofs/LowerLocalS2.lean", "Nsl/Model/ScalarCore.lean", "Nsl/Model/StorageCore.lean","Nsl/Model/WF.lean", "Nsl/Proofs/WF.lean", "Nsl/Props/C14.lean", "Nsl/Model/IR.lean", "Nsl/Model/Opt.lean",
                                               "Nsl/Proofs/WFBlock.lean", "Nsl/Proofs/WFOpt.lean", "Nsl/Proofs/OptSimBase.lean", "Nsl/Proofs/OptSimPres.lean", "Nsl/Proofs/OptSimPasses.lean", "Nsl/Props/C14Opt.lean"]),
    "C16": ("p_c16", "Nsl.Props.C16", [], ["Nsl/Model/Link.lean", "Nsl/Proofs/Link.lean", "Nsl/Props/C16.lean"]),
    "C17": ("p_c17", "Nsl.Props.C17", [], ["Nsl/Model/VM.lean", "Nsl/Proofs/VMSteps.lean", "Nsl/Props/C17.lean"]),
    "C18": ("p_c18", "Nsl.Props.C18", [], ["Nsl/Model/Lower.lean", "Nsl/Model/Overload.lean", "Nsl/Model/Link.lean", "Nsl/Props/C18.lean"]),
    "C19": ("p_c19", "Nsl.Props.C19", [], ["Nsl/Model/Leb.lean", "Nsl/Proofs/Leb.lean", "Nsl/Props/C19.lean"]),
    "C20": ("p_c20", "Nsl.Props.C20", ["Nsl.Props.GenC20"], ["Nsl/Model/SrcMap.lean", "Nsl/Proofs/SrcMap.lean", "Nsl/Props/C20.lean", "Nsl/Props/GenC20.lean"]),
}


def theorem_names(relpath):
    """Full names of the theorems a Props file lists with `#print axioms`."""
    names, stack = [], []
    for line in open(os.path.join(LEAN, relpath), encoding="utf-8"):
        m = re.match(r"^namespace\s+(\S+)", line)
        if m:
            stack.append(m.group(1)); continue
        m = re.match(r"^end\s+(\S+)", line)
        if m and stack and (stack[-1] == m.group(1) or stack[-1].endswith("." + m.group(1))):
            stack.pop(); continue
        m = re.match(r"^#print axioms\s+(\S+)", line)
        if m:
            n = m.group(1)
            if not n.startswith("Nsl."):
                n = ".".join(stack + [n]) if stack else n
                # nested namespaces are written relative in these files only for `Examples`
            names.append(n)
    return names


def decl_at(relpath, lineno):
    """Name of the theorem enclosing a source line (for build errors)."""
    last = None
    for i, line in enumerate(open(os.path.join(LEAN, relpath), encoding="utf-8"), 1):
        m = re.match(r"^(?:theorem|lemma|def|example)\s*(\S*)", line)
        if m:
            last = m.group(1) or "example"
        if i >= lineno:
            break
    return last


class Run:
    """Accumulates what one run explored and found."""

    def __init__(self, pid, tier, seed):
        self.pid, self.tier, self.seed = pid, tier, seed
        self.rng = random.Random(seed * 1000003 + int(pid[1:]))
        self.evaluations = 0
        self.nontrivial = set()
        self.samples = []
        self.failures = []      # property fails on the real code: dict(kind, input, what, key)
        self.mismatches = []    # model and implementation differ: dict(kind, input, model, impl)
        self.dist = {}          # distribution counters
        self.notes = []
        self.traces = 0

    def count(self, name, n=1):
        self.dist[name] = self.dist.get(name, 0) + n

    def case(self, key, nontrivial=True, sample=None):
        self.evaluations += 1
        if nontrivial:
            self.nontrivial.add(hashlib.blake2b(repr(key).encode(), digest_size=8).digest())
        if sample is not None and len(self.samples) < 6:
            self.samples.append(sample)

    def fail(self, kind, inp, what, key=None):
        """The property itself fails on the real implementation for `inp`."""
        key = key or kind
        self.count("oracle-fail:" + key)
        if self.dist["oracle-fail:" + key] <= 40:
            self.failures.append(dict(kind=kind, input=inp, what=what, key=key))

    def mismatch(self, kind, inp, model, impl):
        self.count("mismatch:" + kind)
        if self.dist["mismatch:" + kind] <= 200:
            self.mismatches.append(dict(kind=kind, input=inp, model=model, impl=impl))


def write_replay(pid, obj):
    d = os.path.join(VERIF, "replays")
    os.makedirs(d, exist_ok=True)
    h = hashlib.blake2b(json.dumps(obj, sort_keys=True, default=str).encode(), digest_size=5).hexdigest()
    path = os.path.join(d, "%s-%s.json" % (pid, h))
    common.write_json(path, obj)
    return os.path.relpath(path, VERIF)


def main():
    args = sys.argv[1:]
    if not args or args[0] not in PROPS:
        print("usage: check.py <%s> [--tier quick|thorough] [--replay FILE]" % "|".join(PROPS)); return 2
    pid = args[0]
    tier = os.environ.get("VERIF_TIER", "quick")
    replay = None
    i = 1
    while i < len(args):
        if args[i] == "--tier": tier = args[i + 1]; i += 2
        elif args[i] == "--replay": replay = args[i + 1]; i += 2
        else: i += 1
    if tier not in ("quick", "thorough"): tier = "quick"
    seed = common.seed_from_env()
    t0 = time.time()
    modname, thm_module, table_modules, audit_files = PROPS[pid]

    scratch = common.scratch_repo()
    os.environ["NSL_SCRATCH"] = scratch
    mod = importlib.import_module(modname)

    if replay:
        obj = json.load(open(replay if os.path.isabs(replay) else os.path.join(VERIF, replay)))
        ok, text = mod.replay(obj)
        print(text)
        print("replay: property %s on this input" % ("HOLDS" if ok else "FAILS"))
        return 0 if ok else 1

    # ---- 2 build
    build = common.regenerate_and_build(targets=[thm_module] + table_modules + ["nsl_driver"])
    broken = []     # (obligation name, message)
    if not build.ok:
        for (f, ln, msg) in build.failed_decls:
            rel = f[2:] if f.startswith("./") else f
            try:
                broken.append(("%s:%s" % (rel, decl_at(rel, ln)), msg))
            except OSError:
                broken.append((rel, msg))
        if not broken:
            broken.append(("lake build " + " ".join(build.failed_modules or ["?"]), build.log[-600:]))
    # ---- 3 audit
    hits = common.audit_sources(audit_files)
    for h in hits:
        broken.append(("audit:%s:%d" % (h[0], h[1]), h[2]))
    thms, axioms_seen, discharged = [], set(), 0
    for f in audit_files:
        if "/Props/" in f:
            thms += [(f, n) for n in theorem_names(f)]
    failed_mods = set(build.failed_modules)
    by_mod = {}
    for f, n in thms:
        by_mod.setdefault("Nsl." + f[4:-5].replace("/", "."), []).append(n)
    for m, names in by_mod.items():
        if m in failed_mods:
            continue
        ax, missing, text = common.print_axioms(m, names)
        for n in names:
            if n in ax and set(ax[n]) <= common.ALLOWED_AXIOMS:
                discharged += 1
                axioms_seen |= set(ax[n])
            elif n in ax:
                broken.append(("axioms:" + n, "depends on " + ",".join(ax[n])))
            else:
                broken.append(("axioms:" + n, "theorem not found in built module"))
    obligations = len(thms)
    # thorough tier: the toolchain's independent re-checker replays the compiled property module (and what it imports)
    # through the kernel again
    checker_note = None
    if tier == "thorough" and build.ok:
        import subprocess
        t1 = time.time()
        try:
            cp = subprocess.run(["lake", "env", "leanchecker", thm_module], cwd=os.path.join(VERIF, "lean"), capture_output=True, text=True, timeout=1500)
            if cp.returncode != 0:
                broken.append(("leanchecker:" + thm_module, (cp.stdout + cp.stderr)[-400:]))
            checker_note = "leanchecker %s: rc=%d in %.0fs" % (thm_module, cp.returncode, time.time() - t1)
        except subprocess.TimeoutExpired:
            checker_note = "leanchecker %s: no answer within 1500 s (not counted as a verdict)" % thm_module

    # ---- 4/5 correspondence and oracle
    run = Run(pid, tier, seed)
    try:
        mod.explore(run)
        if (broken or run.mismatches) and not run.failures and hasattr(mod, "search"):
            run.notes.append("proof/correspondence broken: widened search for a failing input")
            mod.search(run)
    except common.Infra as e:
        print("INFRA: %s" % e)
        return 2

    # ---- 6 outcome
    known = [k for k in common.load_known_findings() if k.get("property") == pid and k.get("status") == "open"]
    matcher = getattr(mod, "matches", lambda entry, failure: False)
    unexplained, known_hit = [], {}
    for f in run.failures:
        e = next((k for k in known if matcher(k, f)), None)
        if e is None:
            unexplained.append(f)
        else:
            known_hit.setdefault(e["id"], (e, f))
    # obligations / mismatches a known finding explains
    explained_obl = set()
    for eid, (e, f) in known_hit.items():
        explained_obl |= set(e.get("explains_obligations", []))
    broken_unexplained = [b for b in broken if b[0] not in explained_obl]
    mism_unexplained = []
    for m in run.mismatches:
        f = dict(kind=m["kind"], input=m["input"], what="model/implementation mismatch", key=m["kind"])
        if not any(matcher(e, f) for e, _ in known_hit.values()):
            mism_unexplained.append(m)

    lines, rc = [], 0
    for eid, (e, f) in sorted(known_hit.items()):
        lines.append("KNOWN-FINDING: property=%s %s" % (pid, e["description"]))
    if unexplained:
        shown = {}
        for f in unexplained:
            shown.setdefault(f["key"], f)
        for key, f in list(shown.items())[:5]:
            if hasattr(mod, "shrink"):
                try: f = mod.shrink(f)
                except Exception: pass
            path = write_replay(pid, dict(property=pid, kind=f["kind"], input=f["input"], what=f["what"], seed=seed, tier=tier))
            lines.append("VIOLATION property=%s replay=%s" % (pid, path))
            lines.append("  " + f["what"][:400])
        rc = 1
    elif broken_unexplained or mism_unexplained:
        obj = dict(property=pid, kind="no-failing-input", seed=seed, tier=tier,
                   broken_obligations=[dict(obligation=b[0], message=b[1]) for b in broken_unexplained][:20],
                   broken_correspondence=mism_unexplained[:20],
                   note="the theorem / table obligation / correspondence named here no longer checks against the "
                        "current source; the search for a failing input on the implementation found none")
        path = write_replay(pid, obj)
        lines.append("VIOLATION property=%s replay=%s no-failing-input-found" % (pid, path))
        rc = 1
    for l in lines:
        print(l)

    # ---- 7 evidence
    wall = time.time() - t0
    ev = dict(
        property_id=pid, tier=tier, seed=seed, level="proof",
        coverage=dict(
            obligations=obligations + 0,
            discharged=discharged,
            checker_cmd="cd lean && lake build %s   (then `lake env lean` with #print axioms on every property theorem)" % " ".join([thm_module] + table_modules),
            trusted_base=["Lean 4.33.0 kernel", "axioms used by the property theorems in this run: " + (", ".join(sorted(axioms_seen)) or "none"),
                          "harness/extract.py (translator of the tables)", "harness/%s.py (correspondence + oracle)" % modname,
                          "lean/Driver.lean line protocol and its parsers"] + getattr(mod, "TRUSTED", []),
            theorems=[n for _, n in thms],
            broken_obligations=[b[0] for b in broken],
            evaluations=run.evaluations,
            distinct_nontrivial=len(run.nontrivial),
            rule=getattr(mod, "RULE", ""),
            samples=run.samples or ["(none)"],
            traces_validated_against_impl=run.evaluations,
            exhaustive=getattr(mod, "EXHAUSTIVE", {}).get(tier, False),
            distribution=run.dist,
            model_impl_mismatches=sum(v for k, v in run.dist.items() if k.startswith('mismatch:')),
            oracle_failures=sum(v for k, v in run.dist.items() if k.startswith('oracle-fail:')),
            known_findings_reported=sorted(known_hit),
            notes=run.notes + ([checker_note] if checker_note else []),
            build_wall_s=round(build.wall, 2),
        ),
        assumptions=getattr(mod, "ASSUMPTIONS", []),
        wall_s=round(wall, 2),
        violations=(len(unexplained) if unexplained else (1 if rc else 0)),
    )
    common.write_json(os.path.join(os.environ.get("VERIF_EVIDENCE_DIR") or os.path.join(VERIF, "evidence"), pid + ".json"), ev)
    print("%s %s: obligations %d/%d, cases %d (%d distinct non-trivial), mismatches %d, oracle failures %d, %.1fs -> %s"
          % (pid, tier, discharged, obligations, run.evaluations, len(run.nontrivial), sum(v for k, v in run.dist.items() if k.startswith("mismatch:")),
             sum(v for k, v in run.dist.items() if k.startswith("oracle-fail:")), wall, "OK" if rc == 0 else "VIOLATION"))
    return rc


if __name__ == "__main__":
    try:
        rc = main()
    except common.Infra as e:
        print("INFRA: %s" % e); rc = 2
    except SystemExit as e:
        # the real nsl calls sys.exit() on syntax errors; reaching this is a harness problem, never a verdict
        print("INFRA: sys.exit(%s) escaped from the implementation" % e.code); traceback.print_exc(); rc = 2
    except Exception:
        traceback.print_exc(); rc = 2
    finally:
        common.kill_drivers()
    sys.stdout.flush()
    sys.exit(rc)
