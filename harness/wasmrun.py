"""Shared helpers of the WebAssembly checks (C06, C07): compile with the wasm option, bytes, wasmtime, Lean driver."""
import io, struct
import implrun


def compile_wasm(src, optimize=False):
    """-> ('ok', Result, bytes) | ('refused', (class, fn, file), message)"""
    c = implrun.compile_src(src, optimize=optimize, wasm=True)
    if c[0] != "ok":
        return ("refused", c[1], c[2])
    try:
        b = io.BytesIO()
        with implrun.quiet():
            c[1].WasmModule.WriteTo(b)
        return ("ok", c[1], b.getvalue())
    except BaseException as e:
        return ("refused", implrun.exc_site(e), "while writing: " + str(e)[:100])


_engine = None


def wasmtime_load(bs):
    """-> (store, instance) or raises"""
    global _engine
    import wasmtime
    if _engine is None: _engine = wasmtime.Engine()
    store = wasmtime.Store(_engine)
    m = wasmtime.Module(_engine, bs)
    return store, wasmtime.Instance(store, m, [])


def wasmtime_validates(bs):
    import wasmtime
    global _engine
    if _engine is None: _engine = wasmtime.Engine()
    try:
        wasmtime.Module.validate(_engine, bs)
        return True, ""
    except BaseException as e:
        return False, str(e)[:160]


def wasmtime_call(bs, fname, args):
    """-> ('ok', value) | ('trap', msg)"""
    import wasmtime
    try:
        store, inst = wasmtime_load(bs)
        f = inst.exports(store).get(fname)
        return ("ok", f(store, *args))
    except wasmtime.Trap as e:
        return ("trap", str(e).splitlines()[0][:80])
    except wasmtime.WasmtimeError as e:
        return ("error", str(e)[:120])


def to_i32(v):
    v &= 0xFFFFFFFF
    return v - 2**32 if v >= 2**31 else v


def f32_bits(x):
    return struct.unpack("<I", struct.pack("<f", x))[0]
