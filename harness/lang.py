"""Abstract syntax of generated NSL programs (the harness's own tree, independent of nsl's parser),
with: rendering to NSL text, rendering to the typed-core S-expression the Lean model consumes
(casts/resolution made explicit by the language rules), and the harness's own reference
interpreter of the C-like source semantics (the independent oracle of C01/C03/C04/C15)."""
import struct, math, sys
sys.set_int_max_str_digits(0)       # out-of-domain runs can produce integers with 10^5 digits; they are only compared, never judged

# ------------------------------------------------------------------ types

class Ty:
    pass

class Sc(Ty):
    def __init__(self, c): self.c = c           # 'int' | 'float' | 'uint'
    def __eq__(self, o): return isinstance(o, Sc) and o.c == self.c
    def __hash__(self): return hash(('sc', self.c))
    def nsl(self): return self.c
    def sexp(self): return self.c
    def __repr__(self): return self.c
    comp = property(lambda self: self.c)

class Vec(Ty):
    def __init__(self, c, n): self.c, self.n = c, n
    def __eq__(self, o): return isinstance(o, Vec) and (o.c, o.n) == (self.c, self.n)
    def __hash__(self): return hash(('vec', self.c, self.n))
    def nsl(self): return "%s%d" % (self.c, self.n)
    def sexp(self): return "(vec %s %d)" % (self.c, self.n)
    def __repr__(self): return self.nsl()
    comp = property(lambda self: self.c)

class Mat(Ty):
    def __init__(self, c, r, k): self.c, self.r, self.k = c, r, k
    def __eq__(self, o): return isinstance(o, Mat) and (o.c, o.r, o.k) == (self.c, self.r, self.k)
    def __hash__(self): return hash(('mat', self.c, self.r, self.k))
    def nsl(self): return "%s%dx%d" % (self.c, self.r, self.k)
    def sexp(self): return "(mat %s %d %d)" % (self.c, self.r, self.k)
    def __repr__(self): return self.nsl()
    comp = property(lambda self: self.c)

class Arr(Ty):
    def __init__(self, elem, dims): self.elem, self.dims = elem, tuple(dims)
    def __eq__(self, o): return isinstance(o, Arr) and (o.elem, o.dims) == (self.elem, self.dims)
    def __hash__(self): return hash(('arr', self.elem, self.dims))
    def nsl(self): return self.elem.nsl() + "".join("[%d]" % d for d in self.dims)
    def sexp(self): return "(arr %s %s)" % (self.elem.sexp(), " ".join(str(d) for d in self.dims))
    def __repr__(self): return self.nsl()

class Struct(Ty):
    def __init__(self, name, fields): self.name, self.fields = name, list(fields)   # [(name, Ty)]
    def __eq__(self, o): return isinstance(o, Struct) and o.name == self.name
    def __hash__(self): return hash(('struct', self.name))
    def nsl(self): return self.name
    def sexp(self): return "(struct %s%s)" % (self.name, "".join(" (%s %s)" % (n, t.sexp()) for n, t in self.fields))
    def field(self, n): return dict(self.fields)[n]
    def __repr__(self): return self.name

class Void(Ty):
    def __eq__(self, o): return isinstance(o, Void)
    def __hash__(self): return hash('void')
    def nsl(self): return "void"
    def sexp(self): return "void"

INT, FLOAT, UINT, VOID = Sc('int'), Sc('float'), Sc('uint'), Void()
RANK = {'uint': 0, 'int': 1, 'float': 2}

def wider(a, b): return a if RANK[a] >= RANK[b] else b

def with_comp(t, c):
    if isinstance(t, Sc): return Sc(c)
    if isinstance(t, Vec): return Vec(c, t.n)
    if isinstance(t, Mat): return Mat(c, t.r, t.k)
    raise TypeError(t)

CMP = {'<', '<=', '>', '>=', '==', '!='}
ADDLIKE = {'+', '-', '%', '&&', '||'}
OPNAME = {'+': 'add', '-': 'sub', '*': 'mul', '/': 'div', '%': 'mod', '<': 'lt', '<=': 'le', '>': 'gt',
          '>=': 'ge', '==': 'eq', '!=': 'ne', '&&': 'land', '||': 'lor'}
LEVEL = {'||': 1, '&&': 2, '==': 3, '!=': 3, '<': 4, '<=': 4, '>': 4, '>=': 4, '+': 5, '-': 5, '*': 6, '/': 6, '%': 6}

def binary_type(op, l, r):
    """The language's typing of a binary operator (property C09): (result, left operand type,
    right operand type) or None when the combination is not defined."""
    prim = (Sc, Vec, Mat)
    if not isinstance(l, prim) or not isinstance(r, prim): return None
    w = wider(l.comp, r.comp)
    if op in CMP:
        if isinstance(l, Sc) and isinstance(r, Sc): return (INT, Sc(w), Sc(w))
        if isinstance(l, Vec) and isinstance(r, Vec) and l.n == r.n: return (Vec('int', l.n), Vec(w, l.n), Vec(w, l.n))
        return None
    if isinstance(l, Sc) and isinstance(r, Sc): return (Sc(w), Sc(w), Sc(w))
    if op == '/':
        if isinstance(r, Sc): return (with_comp(l, w), with_comp(l, w), Sc(w))
        return None
    if op == '*':
        if isinstance(l, Sc): return (with_comp(r, w), Sc(w), with_comp(r, w))
        if isinstance(r, Sc): return (with_comp(l, w), with_comp(l, w), Sc(w))
        if isinstance(l, Mat):
            rr, rk = (r.r, r.k) if isinstance(r, Mat) else (r.n, 1)
            if l.k != rr: return None
            res = Vec(w, l.r) if rk == 1 else Mat(w, l.r, rk)
            return (res, with_comp(l, w), with_comp(r, w))
        return None
    # + - % && ||
    if type(l) is type(r) and ((isinstance(l, Vec) and l.n == r.n) or (isinstance(l, Mat) and (l.r, l.k) == (r.r, r.k))):
        return (with_comp(l, w), with_comp(l, w), with_comp(r, w))
    return None

# ------------------------------------------------------------------ expressions

def fbits(x): return struct.unpack("<Q", struct.pack("<d", float(x)))[0]

def flit(x):
    """NSL float literal text for a non-negative dyadic float."""
    s = repr(float(x))
    if 'e' in s or 'inf' in s or 'nan' in s: raise ValueError(x)
    return s

class Expr:
    level = 99     # binding strength for parenthesisation
    def cast_to(self, t):
        return self if self.ty == t else Cast(t, self)

class Lit(Expr):
    def __init__(self, v, ty): self.v, self.ty = v, ty
    def src(self):
        if self.ty == FLOAT: return flit(self.v)
        return str(self.v)
    def core(self, c=True, top=True):
        return "(f %d)" % fbits(self.v) if self.ty == FLOAT else "(i %d)" % self.v

class Var(Expr):
    def __init__(self, name, ty, scope, index=None): self.name, self.ty, self.scope, self.index = name, ty, scope, index
    def src(self): return self.name
    def core(self, c=True, top=True):
        key = self.index if self.scope == 'arg' else self.name
        return "(var %s %s %s)" % (self.scope, key, self.ty.sexp())

class Cast(Expr):
    """implicit cast (never printed)"""
    def __init__(self, ty, e): self.ty, self.e = ty, e
    def core(self, c=True, top=True): return "(cast %s %s)" % (self.ty.sexp(), self.e.core(c))

class Bin(Expr):
    def __init__(self, op, l, r, parens=False):
        self.op, self.l, self.r = op, l, r
        bt = binary_type(op, l.ty, r.ty)
        assert bt is not None, (op, l.ty, r.ty)
        self.ty, self.lt, self.rt = bt
        self.level = LEVEL[op]
        self.parens = parens          # print redundant parentheses around this node
    def src(self, top=True):
        def side(e, right):
            s = e.src(False) if isinstance(e, Bin) else e.src()
            if isinstance(e, Bin) and not e.parens:
                need = e.level < self.level or (right and e.level == self.level)
                if need: s = "(" + s + ")"
            return s
        s = side(self.l, False) + " " + self.op + " " + side(self.r, True)
        return "(" + s + ")" if self.parens else s
    def core(self, c=True, top=True):
        # c: this subtree is visited by the AddImplicitCasts pass; top: this node itself is
        # processed (False: only its children are, as for the index expression of an access)
        if c and top:
            return "(bin %s %s %s %s)" % (OPNAME[self.op], self.ty.sexp(), self.l.cast_to(self.lt).core(c), self.r.cast_to(self.rt).core(c))
        return "(bin %s %s %s %s)" % (OPNAME[self.op], self.ty.sexp(), self.l.core(c), self.r.core(c))

class Assign(Expr):
    """lhs = rhs, or lhs op= rhs (rewritten to lhs = lhs op rhs by the compiler)"""
    level = 0
    def __init__(self, lhs, rhs, op=None):
        self.lhs, self.rhs, self.op = lhs, rhs, op
        self.ty = lhs.ty
        if op is not None:
            self.binop = Bin(op, lhs, rhs)
    def src(self):
        return self.lhs.src() + " " + (self.op or "") + "= " + self.rhs.src()
    def core(self, c=True, top=True):
        if self.op is None:
            return "(assign %s %s)" % (self.lhs.core(c), self.rhs.core(c))
        return "(assign %s %s)" % (self.lhs.core(c), self.binop.core(c))

class Affix(Expr):
    def __init__(self, var, inc, post): self.var, self.inc, self.post, self.ty = var, inc, post, var.ty
    def src(self):
        o = "++" if self.inc else "--"
        return self.var.src() + o if self.post else o + self.var.src()
    def core(self, c=True, top=True):
        return "(affix %s %s %s)" % ("post" if self.post else "pre", "inc" if self.inc else "dec", self.var.core(c))

class Call(Expr):
    def __init__(self, fn, args): self.fn, self.args, self.ty = fn, args, fn.ret      # fn: Func (resolved by the generator)
    def src(self): return self.fn.name + "(" + ", ".join(a.src() for a in self.args) + ")"
    def core(self, c=True, top=True):
        # the pass converts the arguments of a call it visits, after descending into them
        args = []
        for a, (pn, pt) in zip(self.args, self.fn.params):
            inner = a.core(c)
            if c and top and isinstance(a.ty, (Sc, Vec, Mat)) and isinstance(pt, (Sc, Vec, Mat)) and a.ty.comp != pt.comp:
                inner = "(cast %s %s)" % (with_comp(a.ty, pt.comp).sexp(), inner)
            args.append(inner)
        return "(call %s %s%s)" % (self.fn.irname(), self.ty.sexp(), "".join(" " + a for a in args))

class Index(Expr):
    def __init__(self, base, idx):
        self.base, self.idx = base, idx
        bt = base.ty
        if isinstance(bt, Arr):
            self.kind = 'arr'; self.ty = Arr(bt.elem, bt.dims[1:]) if len(bt.dims) > 1 else bt.elem
        elif isinstance(bt, Vec):
            self.kind = 'vec'; self.ty = Sc(bt.c)
        elif isinstance(bt, Mat):
            self.kind = 'mat'; self.ty = Vec(bt.c, bt.k)
        else: raise TypeError(bt)
    def src(self): return self.base.src() + "[" + self.idx.src() + "]"
    def core(self, c=True, top=True):
        # the pass never visits the parent of an access, and of the index expression only its children
        return "(idx %s %s %s %s)" % (self.kind, self.ty.sexp(), self.base.core(False), self.idx.core(c and top, False))

class Member(Expr):
    def __init__(self, base, field): self.base, self.field, self.ty = base, field, base.ty.field(field)
    def src(self): return self.base.src() + "." + self.field
    def core(self, c=True, top=True): return "(mem %s %s %s)" % (self.ty.sexp(), self.base.core(c), self.field)

SWZ = {'x': 0, 'y': 1, 'z': 2, 'w': 3, 'r': 0, 'g': 1, 'b': 2, 'a': 3}

class Swizzle(Expr):
    def __init__(self, base, mask):
        self.base, self.mask = base, mask
        c = base.ty.comp
        self.ty = Sc(c) if len(mask) == 1 else Vec(c, len(mask))
    def src(self): return self.base.src() + "." + self.mask
    def core(self, c=True, top=True): return "(swz %s %s %s)" % (self.ty.sexp(), self.base.core(c), " ".join(str(SWZ[m]) for m in self.mask))

class Construct(Expr):
    def __init__(self, ty, args): self.ty, self.args = ty, args
    def src(self): return self.ty.nsl() + "(" + ", ".join(a.src() for a in self.args) + ")"
    def core(self, c=True, top=True):
        args = []
        for a in self.args:
            inner = a.core(c)
            if c and top and a.ty.comp != self.ty.comp:
                inner = "(cast %s %s)" % (with_comp(a.ty, self.ty.comp).sexp(), inner)
            args.append(inner)
        return "(cons %s%s)" % (self.ty.sexp(), "".join(" " + a for a in args))

# ------------------------------------------------------------------ statements

class Stmt: pass

class Decl(Stmt):
    def __init__(self, name, ty, init=None): self.name, self.ty, self.init = name, ty, init
    def src(self, ind):
        if isinstance(self.ty, Arr): t = self.ty.elem.nsl() + "".join("[%d]" % d for d in self.ty.dims)
        else: t = self.ty.nsl()
        return ind + t + " " + self.name + (" = " + self.init.src() if self.init else "") + ";"
    def head(self):   # inside for(...)
        return self.ty.nsl() + " " + self.name + (" = " + self.init.src() if self.init else "")
    def core(self):
        return "(decl %s %s%s)" % (self.name, self.ty.sexp(), " " + self.init.core() if self.init else "")

class ExprS(Stmt):
    def __init__(self, e): self.e = e
    def src(self, ind): return ind + self.e.src() + ";"
    def core(self): return "(expr %s)" % self.e.core()

class Block(Stmt):
    def __init__(self, ss): self.ss = ss
    def src(self, ind): return ind + "{\n" + "".join(s.src(ind + "  ") + "\n" for s in self.ss) + ind + "}"
    def core(self): return "(block%s)" % "".join(" " + s.core() for s in self.ss)

class If(Stmt):
    def __init__(self, c, t, e=None): self.c, self.t, self.e = c, t, e
    def src(self, ind):
        s = ind + "if (" + self.c.src() + ")\n" + self.t.src(ind + "  ")
        if self.e is not None: s += "\n" + ind + "else\n" + self.e.src(ind + "  ")
        return s
    def core(self):
        if self.e is None: return "(if %s %s)" % (self.c.core(), self.t.core())
        return "(ife %s %s %s)" % (self.c.core(), self.t.core(), self.e.core())

class While(Stmt):
    def __init__(self, c, b): self.c, self.b = c, b
    def src(self, ind): return ind + "while (" + self.c.src() + ")\n" + self.b.src(ind + "  ")
    def core(self): return "(while %s %s)" % (self.c.core(), self.b.core())

class Do(Stmt):
    def __init__(self, b, c): self.b, self.c = b, c          # b must be a Block
    def src(self, ind): return ind + "do\n" + self.b.src(ind + "  ") + "\n" + ind + "while (" + self.c.src() + ")"
    def core(self): return "(do %s %s)" % (self.b.core(), self.c.core())

class For(Stmt):
    def __init__(self, init, c, n, b): self.init, self.c, self.n, self.b = init, c, n, b
    def src(self, ind):
        return (ind + "for (" + (self.init.head() if self.init else "") + "; " + (self.c.src() if self.c else "") + "; " +
                (self.n.src() if self.n else "") + ")\n" + self.b.src(ind + "  "))
    def core(self):
        return "(for %s %s %s %s)" % (self.init.core() if self.init else "(skip)", self.c.core() if self.c else "(none)",
                                      self.n.core() if self.n else "(none)", self.b.core())

class Break(Stmt):
    def src(self, ind): return ind + "break;"
    def core(self): return "(break)"

class Continue(Stmt):
    def src(self, ind): return ind + "continue;"
    def core(self): return "(continue)"

class Return(Stmt):
    def __init__(self, e=None): self.e = e
    def src(self, ind): return ind + "return" + (" " + self.e.src() if self.e else "") + ";"
    def core(self): return "(ret%s)" % (" " + self.e.core() if self.e else "")

class Empty(Stmt):
    """`;` as a while body (statement_opt)"""
    def src(self, ind): return ind + ";"
    def core(self): return "(skip)"

# ------------------------------------------------------------------ functions, modules

class Func:
    def __init__(self, name, params, ret, body, exported=False):
        self.name, self.params, self.ret, self.body, self.exported = name, params, ret, body, exported
    def irname(self):
        if self.exported: return self.name
        return "@%s->%s`%s" % (self.name, self.ret.nsl(), ",".join(t.nsl() for _, t in self.params))
    def src(self):
        ps = ", ".join((t.elem.nsl() + "".join("[%d]" % d for d in t.dims) if isinstance(t, Arr) else t.nsl()) + " " + n for n, t in self.params)
        return ("export " if self.exported else "") + "function " + self.name + "(" + ps + ") -> " + self.ret.nsl() + "\n" + self.body.src("")
    def core(self):
        return "(fn %s (params%s) %s %s)" % (self.irname(), "".join(" (%s %s)" % (n, t.sexp()) for n, t in self.params), self.ret.sexp(), self.body.core())

class Module:
    def __init__(self, structs, globals_, funcs, imports=()):
        self.structs, self.globals, self.funcs, self.imports = structs, globals_, funcs, list(imports)
    def src(self):
        out = []
        for imp in self.imports: out.append('import "%s";' % imp)
        for s in self.structs:
            out.append("struct %s {\n%s}" % (s.name, "".join("  %s %s;\n" % (t.nsl(), n) for n, t in s.fields)))
        for n, t in self.globals:
            out.append(Decl(n, t).src(""))
        for f in self.funcs: out.append(f.src())
        return "\n".join(out) + "\n"
    def core(self):
        return "(module (globals%s) (fns%s))" % ("".join(" (%s %s)" % (n, t.sexp()) for n, t in self.globals),
                                                 "".join(" " + f.core() for f in self.funcs))
    def find(self, name):
        for f in self.funcs:
            if f.name == name: return f

# ------------------------------------------------------------------ values

def default_value(t):
    if isinstance(t, Sc): return 0.0 if t.c == 'float' else 0
    if isinstance(t, Vec): return [default_value(Sc(t.c)) for _ in range(t.n)]
    if isinstance(t, Mat): return [[default_value(Sc(t.c)) for _ in range(t.k)] for _ in range(t.r)]
    if isinstance(t, Arr):
        if len(t.dims) == 1: return [default_value(t.elem) for _ in range(t.dims[0])]
        return [default_value(Arr(t.elem, t.dims[1:])) for _ in range(t.dims[0])]
    if isinstance(t, Struct): return {n: default_value(ft) for n, ft in t.fields}
    return None

def canon(v, t):
    """Canonical rendering of a Python value observed in a slot of declared type t (DESIGN §4):
    float slots are compared as 64-bit patterns of float(v); int slots must hold a Python int."""
    if v is None: return "(n)"
    if isinstance(t, Sc):
        if isinstance(v, bool): v = int(v)
        if t.c == 'float':
            if isinstance(v, float) and v != v: return "(f nan)"          # NaN sign/payload is not part of any promise
            if isinstance(v, (int, float)): return "(f %d)" % fbits(v)
            return "(bad %r)" % (v,)
        if isinstance(v, int): return "(i %d)" % v
        return "(bad %r)" % (v,)
    if isinstance(t, Vec):
        if not isinstance(v, list) or len(v) != t.n: return "(bad %r)" % (v,)
        return "(l" + "".join(" " + canon(x, Sc(t.c)) for x in v) + ")"
    if isinstance(t, Mat):
        if not isinstance(v, list) or len(v) != t.r: return "(bad %r)" % (v,)
        return "(l" + "".join(" " + canon(x, Vec(t.c, t.k)) for x in v) + ")"
    if isinstance(t, Arr):
        sub = Arr(t.elem, t.dims[1:]) if len(t.dims) > 1 else t.elem
        if not isinstance(v, list) or len(v) != t.dims[0]: return "(bad %r)" % (v,)
        return "(l" + "".join(" " + canon(x, sub) for x in v) + ")"
    if isinstance(t, Struct):
        if not isinstance(v, dict): return "(bad %r)" % (v,)
        return "(s" + "".join(" (%s %s)" % (n, canon(v.get(n), ft)) for n, ft in t.fields) + ")"
    return "(n)" if v is None else "(bad %r)" % (v,)

def to_sexp(v):
    """Python value -> driver value syntax (untyped)."""
    if v is None: return "(n)"
    if isinstance(v, bool): return "(i %d)" % int(v)
    if isinstance(v, int): return "(i %d)" % v
    if isinstance(v, float): return "(f %d)" % fbits(v)
    if isinstance(v, list): return "(l" + "".join(" " + to_sexp(x) for x in v) + ")"
    if isinstance(v, dict): return "(s" + "".join(" (%s %s)" % (k, to_sexp(x)) for k, x in v.items()) + ")"
    raise TypeError(v)

def parse_sexp(s):
    toks = s.replace("(", " ( ").replace(")", " ) ").split()
    def rd(i):
        if toks[i] == "(":
            out = []; i += 1
            while toks[i] != ")":
                x, i = rd(i); out.append(x)
            return out, i + 1
        return toks[i], i + 1
    x, _ = rd(0)
    return x

def from_sexp(x):
    """driver value (parsed) -> Python value"""
    if x[0] == 'i': return int(x[1])
    if x[0] == 'f': return struct.unpack("<d", struct.pack("<Q", int(x[1])))[0]
    if x[0] == 'n': return None
    if x[0] == 'l': return [from_sexp(y) for y in x[1:]]
    if x[0] == 's': return {y[0]: from_sexp(y[1]) for y in x[1:]}
    raise ValueError(x)

# ------------------------------------------------------------------ overload resolution (property C10)

def compatible(a, p):
    """argument type a convertible to parameter type p"""
    if isinstance(a, Vec) and a.n == 1: a = Sc(a.c)
    if isinstance(p, Vec) and p.n == 1: p = Sc(p.c)
    if isinstance(a, Sc) and isinstance(p, Sc): return True
    if isinstance(a, Vec) and isinstance(p, Vec): return a.n == p.n
    if isinstance(a, Mat) and isinstance(p, Mat): return (a.r, a.k) == (p.r, p.k)
    if isinstance(a, (Arr, Struct)) or isinstance(p, (Arr, Struct)): return a == p
    return False

def resolve_call(funcs, name, argtys):
    """-> ('ok', Func) | ('unknown',) | ('nomatch',) | ('ambiguous',)"""
    cands = [f for f in funcs if f.name == name]
    if not cands: return ('unknown',)
    viable = []
    for f in cands:
        if len(f.params) != len(argtys): continue
        if all(compatible(a, t) for a, (_, t) in zip(argtys, f.params)):
            viable.append((sum(1 for a, (_, t) in zip(argtys, f.params) if a != t), f))
    if not viable: return ('nomatch',)
    m = min(c for c, _ in viable)
    best = [f for c, f in viable if c == m]
    if len(best) != 1: return ('ambiguous',)
    return ('ok', best[0])

def walk_exprs(node, fn):
    """call fn on every expression below a statement/expression node"""
    if isinstance(node, Expr):
        fn(node)
        for k in ('l', 'r', 'lhs', 'rhs', 'e', 'var', 'base', 'idx'):
            c = getattr(node, k, None)
            if isinstance(c, Expr): walk_exprs(c, fn)
        for a in getattr(node, 'args', []) or []: walk_exprs(a, fn)
        return
    if isinstance(node, Stmt):
        for k in ('init', 'e', 'c', 't', 'b', 'n'):
            c = getattr(node, k, None)
            if isinstance(c, (Expr, Stmt)): walk_exprs(c, fn)
        for s in getattr(node, 'ss', []) or []: walk_exprs(s, fn)

def calls_consistent(module):
    """every Call node is bound to the function the language's overload rules select"""
    bad = []
    def chk(e):
        if isinstance(e, Call):
            r = resolve_call(module.funcs, e.fn.name, [a.ty for a in e.args])
            if r[0] != 'ok' or r[1] is not e.fn: bad.append((e.fn.name, [repr(a.ty) for a in e.args], r[0]))
    for f in module.funcs: walk_exprs(f.body, chk)
    return bad
