"""C09 — operator typing: accepted operand combinations, result type, conversions.

Correspondence: types.ResolveBinaryExpressionType against the Lean model `Types.resolveBinary` (driver `types`),
exhaustively over the internal universe 13 operators x 63 x 63 types, and the front end (lexer, parser,
ComputeTypes, AddImplicitCasts) over the 14 spellable types.
Oracle: a Python transcription of the rules in the property statement (independent of model and code);
matrix-vs-matrix comparison is left undefined by the statement and is not judged."""
import itertools
import common, implrun

OPS = ["+", "-", "*", "/", "%", "<", "<=", ">", ">=", "==", "!=", "&&", "||"]
CMP = {"<", "<=", ">", ">=", "==", "!="}
ADDITIVE = {"+", "-", "%", "&&", "||"}
RANK = {"uint": 0, "int": 1, "float": 2}
RULE = ("exhaustive: 13 operators x 63 x 63 internal types (3 component types x {scalar, vec1-4, mat 1-4 x 1-4}) at "
        "types.ResolveBinaryExpressionType; 13 x 14 x 14 programs `function f(L a, R b) -> L { return a OP b; }` over the spellable types "
        "through lexer, parser, ComputeTypes and AddImplicitCasts (accept/reject, static type, operand casts). Non-trivial: at least one "
        "operand is not a scalar or the component types differ; distinct = distinct (operator, left, right)")
EXHAUSTIVE = {"quick": True, "thorough": True}
ASSUMPTIONS = ["comparison of two matrices is left undefined by the statement: not judged by the oracle (the model records what the code does)",
               "`converted to the component type of the result`: for comparisons the operands are converted to their common (wider) component "
               "type (DESIGN.md §7)",
               "a raised CompileException and a failing assert both count as `rejected`"]
TRUSTED = ["Nsl/Model/Types.lean mirrors ResolveBinaryExpressionType / _GetCommon* / _GetRowsColumns / op.IsComparison"]


def wider(a, b):
    return a if RANK[a] >= RANK[b] else b


def shape(t):
    return t[0] if t[0] == "s" else t[0:1] + t[2:]


def with_comp(t, c):
    return (t[0], c) + t[2:]


def spec(o, l, r):
    """('ok', res, lt, rt) | 'reject' | 'undefined'.  Types: ('s',c) ('v',c,n) ('m',c,rows,cols)."""
    c = wider(l[1], r[1])
    ls, rs = l[0] == "s", r[0] == "s"
    if ls and rs:
        return ("ok", ("s", "int") if o in CMP else ("s", c), ("s", c), ("s", c))
    if o in CMP:
        if l[0] == "m" and r[0] == "m": return "undefined"
        if l[0] == "v" and r[0] == "v" and l[2] == r[2]:
            return ("ok", ("v", "int", l[2]), ("v", c, l[2]), ("v", c, l[2]))
        return "reject"
    if o in ADDITIVE:
        if shape(l) == shape(r):
            t = with_comp(l, c)
            return ("ok", t, t, t)
        return "reject"
    if o == "/":
        if rs: return ("ok", with_comp(l, c), with_comp(l, c), ("s", c))
        return "reject"
    assert o == "*"
    if ls: return ("ok", with_comp(r, c), ("s", c), with_comp(r, c))
    if rs: return ("ok", with_comp(l, c), with_comp(l, c), ("s", c))
    if l[0] != "m": return "reject"
    rows, inner = l[2], l[3]
    rr, rc = (r[2], r[3]) if r[0] == "m" else (r[2], 1)
    if inner != rr: return "reject"
    res = ("v", c, rows) if rc == 1 else ("m", c, rows, rc)
    return ("ok", res, with_comp(l, c), with_comp(r, c))


def tstr(t):
    return ":".join(str(x) for x in t)


def rstr(x):
    return x if isinstance(x, str) else "ok " + " ".join(tstr(t) for t in x[1:])


def universe():
    out = []
    for c in ("float", "int", "uint"):
        out.append(("s", c))
        out += [("v", c, n) for n in range(1, 5)]
        out += [("m", c, r, k) for r in range(1, 5) for k in range(1, 5)]
    return out


SPELL = {("s", "float"): "float", ("s", "int"): "int", ("s", "uint"): "uint", ("m", "float", 3, 3): "float3x3", ("m", "float", 4, 4): "float4x4"}
for _c in ("float", "int", "uint"):
    for _n in (2, 3, 4):
        SPELL[("v", _c, _n)] = "%s%d" % (_c, _n)


def impl_type(T, t):
    c = {"float": T.Float, "int": T.Integer, "uint": T.UnsignedInteger}[t[1]]()
    if t[0] == "s": return c
    if t[0] == "v": return T.VectorType(c, t[2])
    return T.MatrixType(c, t[2], t[3])


def of_impl(T, t):
    if t is None: return ("none",)
    def comp(x):
        return "float" if isinstance(x, T.Float) else "uint" if isinstance(x, T.UnsignedInteger) else "int" if isinstance(x, T.Integer) else "?"
    if isinstance(t, T.MatrixType): return ("m", comp(t.GetComponentType()), t.GetRowCount(), t.GetColumnCount())
    if isinstance(t, T.VectorType): return ("v", comp(t.GetComponentType()), t.GetComponentCount())
    if isinstance(t, T.ScalarType): return ("s", comp(t))
    return ("other", type(t).__name__)


def impl_resolve(T, nop, o, l, r):
    try:
        with implrun.quiet():
            e = T.ResolveBinaryExpressionType(nop.StrToOp(o), impl_type(T, l), impl_type(T, r))
    except (implrun.Errors.CompileException, AssertionError):
        return "reject"
    if e is None: return "reject"
    return ("ok", of_impl(T, e.GetReturnType()), of_impl(T, e.GetOperandType(0)), of_impl(T, e.GetOperandType(1)))


def judge(run, kind, o, l, r, got):
    want = spec(o, l, r)
    if want == "undefined":
        run.count("undefined(matrix comparison)")
        return
    if rstr(got) != rstr(want):
        cls = ("comparison" if o in CMP else o if o in "*/" else "additive") + ":" + \
              ("accepts" if want == "reject" else "rejects" if got == "reject" else "wrong-type")
        run.fail(kind, dict(op=o, left=tstr(l), right=tstr(r), expected=rstr(want)),
                 "%s: `%s %s %s` gives %s, the language defines %s" % (kind, tstr(l), o, tstr(r), rstr(got), rstr(want)), key=kind + ":" + cls)


def frontend(src):
    """lexer+parser+ComputeTypes+AddImplicitCasts on a module; returns (status, binary expression node)."""
    A = implrun.ast_mod
    from nsl.parser import NslParser
    from nsl.passes import ComputeTypes, AddImplicitCasts
    try:
        with implrun.quiet():
            tree = NslParser().Parse(src)
            if tree is None: return "syntax-error", None
            for p in (ComputeTypes.GetPass(), AddImplicitCasts.GetPass()):
                if not p.Process(tree): return "reject", None
    except SystemExit:
        return "syntax-error", None
    except Exception as e:
        return "reject", None
    found = []
    def visit(n, ctx=None):
        if isinstance(n, A.BinaryExpression): found.append(n)
        n.ForEachChild(visit)
    visit(tree)
    return "ok", (found[0] if found else None)


def explore(run, widen=1):
    implrun.load()
    T, nop, A = implrun.types, implrun.op, implrun.ast_mod
    d = common.Driver()
    U = universe()
    triples = [(o, l, r) for o in OPS for l in U for r in U]
    ans = d.ask_many(["types %s %s %s" % (o, tstr(l), tstr(r)) for o, l, r in triples])
    for (o, l, r), a in zip(triples, ans):
        got = impl_resolve(T, nop, o, l, r)
        run.case(("api", o, l, r), nontrivial=not (l[0] == "s" and r[0] == "s" and l[1] == r[1]),
                 sample=dict(op=o, left=tstr(l), right=tstr(r), result=rstr(got)) if (o, l, r) in ((">", ("s", "uint"), ("s", "float")), ("*", ("m", "int", 2, 3), ("m", "float", 3, 4))) else None)
        run.count("api:" + ("accept" if got != "reject" else "reject"))
        if rstr(got) != a: run.mismatch("api", dict(op=o, left=tstr(l), right=tstr(r)), a, rstr(got))
        judge(run, "api", o, l, r, got)
    d.close()
    # --- front end over the spellable types
    for o in OPS:
        for l, r in itertools.product(SPELL, repeat=2):
            src = "function f(%s a, %s b) -> %s { return a %s b; }" % (SPELL[l], SPELL[r], SPELL[l], o)
            st, node = frontend(src)
            if st == "syntax-error":
                raise common.Infra("does not parse: " + src)
            got = "reject"
            casts_ok = True
            if st == "ok" and node is not None and node.GetOperator() is not None:
                e = node.GetOperator()
                got = ("ok", of_impl(T, e.GetReturnType()), of_impl(T, e.GetOperandType(0)), of_impl(T, e.GetOperandType(1)))
                # operands are converted: an operand whose own type differs from the operand type sits under a cast to it
                for child, own, want in ((node.GetLeft(), l, got[2]), (node.GetRight(), r, got[3])):
                    if own != want:
                        if not (isinstance(child, A.CastExpression) and of_impl(T, child.GetType()) == want):
                            casts_ok = False
            run.case(("e2e", o, l, r), nontrivial=not (l[0] == "s" and r[0] == "s" and l[1] == r[1]),
                     sample=dict(source=src, result=rstr(got)) if (o == "*" and l == ("m", "float", 3, 3) and r == ("v", "float", 3)) else None)
            run.count("frontend:" + ("accept" if got != "reject" else "reject"))
            judge(run, "frontend", o, l, r, got)
            if not casts_ok:
                run.fail("frontend-cast", dict(source=src), "%s: an operand is not converted to its operand type %s" % (src, rstr(got)), key="frontend:cast")


    nested_leg(run, T, nop, A)


def all_binary_nodes(src):
    A = implrun.ast_mod
    from nsl.parser import NslParser
    from nsl.passes import ComputeTypes, AddImplicitCasts
    try:
        with implrun.quiet():
            tree = NslParser().Parse(src)
            if tree is None: return "syntax-error", []
            for p in (ComputeTypes.GetPass(), AddImplicitCasts.GetPass()):
                if not p.Process(tree): return "reject", []
    except SystemExit:
        return "syntax-error", []
    except Exception:
        return "reject", []
    found = []
    def visit(n, ctx=None):
        if isinstance(n, A.BinaryExpression) and not isinstance(n, A.AssignmentExpression): found.append(n)
        n.ForEachChild(visit)
    visit(tree)
    return "ok", found


def nested_leg(run, T, nop, A):
    """The typing rule and the conversions hold at EVERY operator node of a program, not only at a flat `a OP b` on parameters:
    nested expressions (both sides), operands that are literals, expressions in assignments, initialisers and call arguments."""
    rng = run.rng
    scal = [("s", "int"), ("s", "uint"), ("s", "float")]
    vecs = [("v", "float", 3), ("v", "int", 3), ("v", "uint", 3)]
    progs = []
    ops2 = list(itertools.product(OPS, repeat=2))
    if run.tier != "thorough": ops2 = rng.sample(ops2, 60)
    for o1, o2 in ops2:
        for a, b, c in itertools.product(scal, repeat=3):
            progs.append("function f(%s a, %s b, %s c) -> float { float r = 0.0; r = (a %s b) %s c; r = c %s (a %s b); return r; }" % (SPELL[a], SPELL[b], SPELL[c], o1, o2, o2, o1))
    for o in OPS:
        for a in scal + vecs:
            for lit in ("1", "7", "0x10", "2.5", "0"):
                progs.append("function f(%s a) -> float { a %s %s; %s %s a; return 0.0; }" % (SPELL[a], o, lit, lit, o))
        for a, b in itertools.product(scal, repeat=2):
            progs.append("function g(float x) -> float { return x; }\nfunction f(%s a, %s b) -> float { float r = g(a %s b); %s t = a; t = a %s b %s a; return r; }" % (SPELL[a], SPELL[b], o, SPELL[a], o, o))
        for v, w in itertools.product(vecs, repeat=2):
            progs.append("function f(%s a, %s b, float c) -> float { (a %s b) * c; (a * c) %s b; return c; }" % (SPELL[v], SPELL[w], o, o))
    for src in progs:
        st, nodes = all_binary_nodes(src)
        if st == "syntax-error": raise common.Infra("does not parse: " + src)
        run.case(("nested", src), nontrivial=True)
        run.count("nested:" + st)
        if st != "ok":
            # rejected as a whole: some node must be ill-typed by the rule — decided by re-typing bottom-up with the oracle
            continue
        for node in nodes:
            o = nop.OpToStr(node.GetOperation())
            def own(ch):
                inner = ch.children[0] if isinstance(ch, A.CastExpression) else ch
                return of_impl(T, inner.GetType())
            l, r = own(node.GetLeft()), own(node.GetRight())
            e = node.GetOperator()
            if l[0] not in "svm" or r[0] not in "svm" or e is None: continue
            got = ("ok", of_impl(T, e.GetReturnType()), of_impl(T, e.GetOperandType(0)), of_impl(T, e.GetOperandType(1)))
            want = spec(o, l, r)
            if want == "undefined": continue
            run.count("nested-node")
            if rstr(got) != rstr(want):
                run.fail("frontend", dict(source=src, op=o, left=tstr(l), right=tstr(r), expected=rstr(want)),
                         "in %s: `%s %s %s` is typed %s, the language defines %s" % (src, tstr(l), o, tstr(r), rstr(got), rstr(want)), key="frontend:nested:wrong-type")
                break
            for child, ownt, wantt in ((node.GetLeft(), l, got[2]), (node.GetRight(), r, got[3])):
                if ownt != wantt and not (isinstance(child, A.CastExpression) and of_impl(T, child.GetType()) == wantt):
                    run.fail("frontend-cast", dict(source=src, op=o), "in %s: the %s operand of `%s` is not converted to %s" % (src, tstr(ownt), o, tstr(wantt)), key="frontend:nested:cast")
                    break


def search(run):
    pass    # explore is exhaustive


def matches(entry, failure):
    return entry.get("matcher") == failure["key"]


def replay(obj):
    implrun.load()
    T, nop = implrun.types, implrun.op
    x = obj["input"]
    if "source" in x:
        st, node = frontend(x["source"])
        return True, "front end: %s (re-run the check for the verdict)" % st
    def parse(s):
        p = s.split(":"); return tuple([p[0], p[1]] + [int(v) for v in p[2:]])
    got = impl_resolve(T, nop, x["op"], parse(x["left"]), parse(x["right"]))
    return rstr(got) == x["expected"], "%s %s %s -> %s ; defined: %s" % (x["left"], x["op"], x["right"], rstr(got), x["expected"])
