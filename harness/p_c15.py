"""C15 — global state persists exactly across invocation histories; VMs are isolated.

Theorems (Lean, Props/C15.lean): `C15_history_refinement` — every history (any length, any interleaving over any number
of VMs) of the reference state machine of the source program is a history of the VM model with the same outputs and
final stores (induction over the history from the C01 simulation theorem); `C15_isolated`, `C15_get_reads_store`,
`C15_fresh_locals`, `C15_vm_deterministic`.

Tie to the code: random host histories (5-40 operations after every global has been set) over 1-3 `VirtualMachine`
objects created from ONE linked `Program` (shared Function objects are where a leak would come from): SetGlobal /
GetGlobal / Invoke of several exported functions with scalar, array and struct globals; locals (incl. 2-D arrays) that
are read before being written so that a non-fresh local is visible.  Oracle: the reference state machine of the source
program (Python refsem, one store per VM).  Correspondence: real VMs = Lean model with the host loop of `HostStep`
(globals threaded through `VM.invoke`), and Lean `CoreSem` = Python refsem."""
import common, implrun, progfam, proglib, gen_calls

RULE = ("histories of gen_calls.py `history`: modules with 1-3 scalar globals, optional global int[3] and struct, 2-4 exported functions with 0-2 "
        "parameters that read and write the globals and use locals that must be fresh (a counter, a 2-D array read before written); 1-3 VMs "
        "from one Program; each compared operation is one evaluation. Non-trivial: a get or invoke that follows at least one invoke on the same "
        "VM; distinct = distinct (source, history prefix)")
EXHAUSTIVE = {"quick": False, "thorough": False}
ASSUMPTIONS = ["the host hands every VM its own (deep-copied) list/dict objects for aggregate globals and arguments",
               "after an invocation that leaves the stated numeric domain (overflow, division by zero) the VM's later operations are not judged",
               "Lean Float = CPython float for + - * / and comparisons"]
TRUSTED = ["harness/proglib.py eval_history: the host loop around the model driver implements HostStep of Props/C15.lean",
           "harness/refsem.py (oracle), harness/lang.py (rendering)"]

N = {"quick": 400, "thorough": 12000}


def judge(run, rec):
    if not progfam.account(run, rec): return
    src, obs = rec["src"], rec.get("obs", {})
    base = dict(source=src, seed=rec["seed"], index=rec["index"], opts=rec.get("opts"), maker=rec.get("maker"), nvms=rec["nvms"], ops=rec["ops"])
    key = progfam.src_key(rec)
    if not rec.get("accept0"):
        run.fail("rejected", base, "a well-typed program is rejected: %s" % (rec.get("reject0"),), key="rejected"); return
    if "model_error" in rec:
        raise common.Infra("model driver rejected a generated module: " + rec["model_error"])
    ref, mv, mr = obs["ref"], obs.get("model_vm", []), obs.get("model_ref", [])
    invoked = set()
    for tag in ("impl0", "impl1"):
        if tag not in obs:
            if tag == "impl1" and rec.get("accept1") is False:
                run.fail("rejected", base, "optimised compile rejected: %s" % (rec.get("reject1"),), key="rejected:opt1")
            continue
        inv = set()
        for j, (r, o) in enumerate(zip(ref, obs[tag])):
            op = rec["ops"][j]
            if r[0] == "ood":
                if tag == "impl0": run.case((key, j), nontrivial=False); run.count("out-of-domain")
                continue
            nt = op[0] != "set" and op[1] in inv
            if op[0] == "invoke": inv.add(op[1])
            if tag == "impl0":
                run.case((key, j), nontrivial=nt, sample=dict(source=src, ops=rec["ops"][:j + 1], expected=list(r)) if (nt and len(run.samples) < 2 and j > 8 and len(src) < 1200) else None)
                run.count("op:" + op[0])
            if tuple(o) != tuple(r):
                run.fail("history", dict(base, op_index=j, optimize=(tag == "impl1"), expected=list(r), got=list(o)),
                         "%s: operation %d %s gives %s, the reference state machine %s\n%s" % (tag, j, op[:3], list(o), list(r), src[:1200]),
                         key="history:%s:%s:%s" % (tag, op[0], o[0]))
                break
            if tag == "impl0":
                if j < len(mv) and mv[j][0] != "dead" and tuple(mv[j]) != tuple(o):
                    run.mismatch("vm-vs-model", dict(base, op_index=j), list(mv[j]), list(o)); break
                if j < len(mr) and mr[j][0] != "dead" and tuple(mr[j]) != tuple(r):
                    run.mismatch("refsem-vs-coresem", dict(base, op_index=j), list(mr[j]), list(r)); break


def explore(run, scale=1):
    n = N[run.tier] * scale
    spec = [(n * 7 // 10, None, "history"), (n * 3 // 10, dict(aggregates=False), "history"),
            (max(6, n // 60), dict(aggregates=False, long=True), "history")]       # 450-700 operations, most on one VM
    for rec in progfam.evaluate(run, "C15", spec, want=("ref", "model", "opt")):
        judge(run, rec)


def search(run):
    explore(run, scale=6 if run.tier == "quick" else 2)


def matches(entry, failure):
    return failure["key"].startswith(entry.get("matcher", "\0"))


def replay(obj):
    implrun.load()
    rec = progfam.replay_record(obj, want=("ref", "model", "opt"))
    if "src" not in rec: return False, "could not regenerate: %s" % rec
    x = obj["input"]
    if rec["src"] != x.get("source"): return False, "the generator no longer reproduces this history from its seed; see the replay file"
    j = x.get("op_index", 0)
    tag = "impl1" if x.get("optimize") else "impl0"
    got, want = rec["obs"][tag][j], rec["obs"]["ref"][j]
    return tuple(got) == tuple(want), "%s op %d: %s, reference %s" % (tag, j, got, want)
