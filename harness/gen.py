"""Type-directed generators of NSL programs (all random choices from one random.Random)."""
import random
from lang import *

def dyadic(rng, small=True):
    """non-negative dyadic rational with few bits (exact in f32 and f64)"""
    return rng.choice([0.0, 0.5, 1.0, 1.5, 2.0, 2.5, 3.0, 0.25, 4.0, 7.5, 10.0, 0.75, 100.0, 6.0])

class Scope:
    def __init__(self, parent=None):
        self.vars = []      # Var objects
        self.parent = parent
    def all(self):
        s, out = self, []
        while s is not None:
            out += s.vars; s = s.parent
        return out

class G:
    def __init__(self, rng, opts=None):
        self.rng = rng
        self.n = 0
        self.o = dict(arrays=True, structs=True, calls=True, vectors=False, loops=True, floats=True,
                      max_depth=3, max_stmts=5, assign_expr=True, sibling_reuse=True, local_aggs_only=False)
        if opts: self.o.update(opts)
        self.feat = {}      # feature histogram
        self.closed_names = []   # names of closed sibling scopes (candidates for reuse)
        self.guards = set()
        self.funcs = []
        self.loop_depth = 0

    def hit(self, k): self.feat[k] = self.feat.get(k, 0) + 1

    def fresh(self, p="v"):
        self.n += 1
        return "%s%d" % (p, self.n)

    # ---------------- expressions
    def lit(self, ty):
        r = self.rng
        if ty == FLOAT: return Lit(dyadic(r), FLOAT)
        return Lit(r.choice([0, 1, 2, 3, 4, 5, 7, 9, 10, 16, 100]), INT)

    def vars_of(self, sc, pred):
        return [v for v in sc.all() if pred(v)]

    def scalar_leaf(self, ty, sc):
        """an lvalue-capable or readable leaf of scalar type ty"""
        r = self.rng
        cands = []
        for v in sc.all():
            if v.ty == ty: cands.append(v)
            elif isinstance(v.ty, Arr) and isinstance(v.ty.elem, Sc) and v.ty.elem == ty:
                e = v
                for d in v.ty.dims: e = Index(e, self.index_expr(d, sc))
                cands.append(e)
            elif isinstance(v.ty, Struct):
                for fn, ft in v.ty.fields:
                    if ft == ty: cands.append(Member(v, fn))
                    elif isinstance(ft, Arr) and ft.elem == ty and len(ft.dims) == 1:
                        cands.append(Index(Member(v, fn), self.index_expr(ft.dims[0], sc)))
            elif isinstance(v.ty, Vec) and Sc(v.ty.c) == ty and self.o['vectors']:
                cands.append(Index(v, Lit(r.randrange(v.ty.n), INT)) if r.random() < .5 else Swizzle(v, "xyzw"[r.randrange(v.ty.n)]))
        if not cands: return None
        e = r.choice(cands)
        if isinstance(e, Index): self.hit('index')
        if isinstance(e, Member): self.hit('member')
        return e

    def index_expr(self, dim, sc):
        r = self.rng
        gs = [v for v in sc.all() if v.name in self.guards and self.guard_bound.get(v.name, 99) < dim]
        if gs and r.random() < .4:
            self.hit('dyn-index-guard'); return r.choice(gs)
        ivars = [v for v in sc.all() if v.ty == INT and v.name in self.small_ints and self.small_ints[v.name] <= dim]
        if ivars and r.random() < .3:
            self.hit('dyn-index-var'); return r.choice(ivars)
        return Lit(r.randrange(dim), INT)

    def expr(self, ty, sc, depth, allow_effects=True):
        """expression of scalar type ty (INT or FLOAT)"""
        r = self.rng
        if depth <= 0 or r.random() < .25:
            leaf = self.scalar_leaf(ty, sc) if r.random() < .7 else None
            return leaf if leaf is not None else self.lit(ty)
        k = r.random()
        if ty == INT:
            if k < .40:
                op = r.choice(['+', '-', '*', '+', '-', '/', '%'])
                l = self.expr(INT, sc, depth - 1, allow_effects)
                if op in '/%' and r.random() < .7: rr = Lit(r.choice([1, 2, 3, 4, 7]), INT)
                else: rr = self.expr(INT, sc, depth - 1, allow_effects)
                self.hit('int' + op); return Bin(op, l, rr, parens=r.random() < .1)
            if k < .62:
                op = r.choice(sorted(CMP))
                t1 = r.choice([INT, FLOAT]) if self.o['floats'] else INT
                t2 = r.choice([INT, FLOAT]) if self.o['floats'] else INT
                self.hit('cmp'); return Bin(op, self.expr(t1, sc, depth - 1, allow_effects), self.expr(t2, sc, depth - 1, allow_effects), parens=r.random() < .1)
            if k < .75:
                op = r.choice(['&&', '||'])
                self.hit('logic'); return Bin(op, self.expr(INT, sc, depth - 1, allow_effects), self.expr(INT, sc, depth - 1, allow_effects))
        else:
            if k < .12 and depth >= 1:
                # a logical operator with a float operand: its truth is that of the VALUE (0.25 is true), the node is float-typed
                op = r.choice(['&&', '||'])
                t1, t2 = r.choice([(FLOAT, FLOAT), (FLOAT, INT), (INT, FLOAT)])
                def fl(t):
                    if t == FLOAT and r.random() < .5: return Lit(r.choice([0.25, 0.5, 0.75, 0.0]), FLOAT)
                    return self.expr(t, sc, depth - 1, allow_effects)
                self.hit('logic-float'); return Bin(op, fl(t1), fl(t2))
            if k < .6:
                op = r.choice(['+', '-', '*', '/'])
                t1, t2 = r.choice([(FLOAT, FLOAT), (FLOAT, INT), (INT, FLOAT)])
                l = self.expr(t1, sc, depth - 1, allow_effects)
                if op == '/' and r.random() < .7: rr = Lit(r.choice([1.0, 2.0, 4.0, 0.5]), FLOAT) if t2 == FLOAT else Lit(r.choice([1, 2, 4]), INT)
                else: rr = self.expr(t2, sc, depth - 1, allow_effects)
                self.hit('float' + op + ('-mixed' if t1 != t2 else '')); return Bin(op, l, rr, parens=r.random() < .1)
        if k < .85 and self.o['calls']:
            fs = [f for f in self.funcs if f.ret == ty and self.callable_now(f)]
            if fs:
                f = r.choice(fs)
                args = []
                for ai, (pn, pt) in enumerate(f.params):
                    if ai == 0 and getattr(f, 'recursive', False):
                        args.append(Lit(r.randrange(0, 5), INT)); continue
                    at = pt
                    overloaded = f.name in self.overloaded_names
                    if isinstance(pt, Sc) and pt == FLOAT and r.random() < .3 and not overloaded: at = INT     # implicit int->float conversion at the call
                    args.append(self.expr(at, sc, depth - 1, allow_effects) if isinstance(at, Sc) else self.vec_expr(at, sc, depth - 1))
                self.hit('call'); return Call(f, args)
        if k < .93 and allow_effects and self.o['assign_expr']:
            v = self.assignable(ty, sc)
            if v is not None and isinstance(v, Var):
                self.hit('affix'); return Affix(v, r.random() < .5, r.random() < .5)
        leaf = self.scalar_leaf(ty, sc)
        return leaf if leaf is not None else self.lit(ty)

    def callable_now(self, f): return True

    def assignable(self, ty, sc):
        r = self.rng
        for _ in range(4):
            e = self.scalar_leaf(ty, sc)
            if e is None: return None
            root = e
            while not isinstance(root, Var): root = root.base
            if root.name in self.guards or root.name in self.readonly: continue
            return e
        return None

    # ---------------- statements
    def block(self, sc, depth, ret_ty, in_loop, top=False):
        r = self.rng
        inner = Scope(sc)
        ss = []
        n = r.randint(1, self.o['max_stmts'])
        for _ in range(n):
            s = self.stmt(inner, depth, ret_ty, in_loop)
            if s is not None: ss.append(s) if not isinstance(s, list) else ss.extend(s)
        for v in inner.vars: self.closed_names.append(v.name)
        return Block(ss)

    def decl(self, sc):
        r = self.rng
        kinds = ['int', 'int', 'float'] if self.o['floats'] else ['int']
        if self.o['arrays']: kinds += ['arr']
        if self.o['structs'] and self.structs: kinds += ['struct']
        k = r.choice(kinds)
        visible = {v.name for v in sc.all()}
        name = None
        if self.o['sibling_reuse'] and self.closed_names and r.random() < .3:
            cand = r.choice(self.closed_names)
            if cand not in visible and cand not in self.guards and cand not in self.global_names:
                name = cand; self.hit('sibling-name-reuse')
        if name is None: name = self.fresh()
        if k == 'arr':
            elem = r.choice([INT, FLOAT]) if self.o['floats'] else INT
            dims = r.choice([(2,), (3,), (2, 2), (2, 3), (3, 2)])
            ty = Arr(elem, dims); init = None; self.hit('decl-array' + str(len(dims)))
        elif k == 'struct':
            ty = r.choice(self.structs); init = None; self.hit('decl-struct')
        else:
            ty = Sc(k)
            init = self.expr(ty, sc, 2) if r.random() < .7 else None
            self.hit('decl-' + k + ('-init' if init else '-default'))
        v = Var(name, ty, 'local')
        d = Decl(name, ty, init)
        sc.vars.append(v)
        return d

    def assign_stmt(self, sc):
        r = self.rng
        ty = r.choice([INT, FLOAT]) if self.o['floats'] else INT
        lhs = self.assignable(ty, sc)
        if lhs is None: return None
        k = r.random()
        if k < .55:
            self.hit('assign'); return ExprS(Assign(lhs, self.expr(ty, sc, 3)))
        if k < .8:
            op = r.choice(['+', '-', '*', '/'])
            rt = ty if ty == INT else r.choice([INT, FLOAT])
            rhs = self.expr(rt, sc, 2) if op != '/' else Lit(2 if rt == INT else 2.0, rt)
            self.hit('op-assign'); return ExprS(Assign(lhs, rhs, op))
        if k < .9 and isinstance(lhs, Var):
            self.hit('affix-stmt'); return ExprS(Affix(lhs, r.random() < .5, r.random() < .5))
        # chained assignment a = b = e
        lhs2 = self.assignable(ty, sc)
        if lhs2 is not None and self.o['assign_expr']:
            self.hit('chained-assign'); return ExprS(Assign(lhs, Assign(lhs2, self.expr(ty, sc, 2))))
        return ExprS(Assign(lhs, self.expr(ty, sc, 2)))

    def stmt(self, sc, depth, ret_ty, in_loop):
        r = self.rng
        k = r.random()
        if k < .25: return self.decl(sc)
        if k < .55:
            s = self.assign_stmt(sc)
            return s if s is not None else self.decl(sc)
        if depth > 0 and k < .70:
            c = self.expr(INT, sc, 2)
            t = self.block(sc, depth - 1, ret_ty, in_loop) if r.random() < .8 else self.simple_stmt(sc, in_loop)
            e = None
            if r.random() < .5: e = self.block(sc, depth - 1, ret_ty, in_loop) if r.random() < .8 else self.simple_stmt(sc, in_loop)
            self.hit('if-else' if e else 'if'); return If(c, t, e)
        if depth > 0 and k < .88 and self.o['loops']:
            return self.loop(sc, depth, ret_ty)
        if in_loop and self.o['arrays'] and k < .905:
            # a declaration that executes on every iteration must yield a fresh zero instance each time:
            # read an element of a freshly declared 2-D array / struct-free aggregate, then dirty it
            name = self.fresh()
            dims = r.choice([(2, 2), (2, 3), (3, 2), (2,)])
            elem = r.choice([INT, FLOAT]) if self.o['floats'] else INT
            ty = Arr(elem, dims)
            v = Var(name, ty, 'local')
            sc.vars.append(v)
            e = v
            for d in dims: e = Index(e, Lit(r.randrange(d), INT))
            tgt = self.assignable(elem, sc)
            out = [Decl(name, ty, None)]
            if tgt is not None and not (isinstance(tgt, Index) and tgt.base is v):
                out.append(ExprS(Assign(tgt, Bin('+', tgt, e))))
            out.append(ExprS(Assign(e, Bin('+', e, self.lit(elem)))))
            self.hit('fresh-aggregate-in-loop')
            return out
        if self.o['floats'] and self.o['assign_expr'] and k < .915:
            a, b = self.fresh(), self.fresh()
            va, vb = Var(a, FLOAT, 'local'), Var(b, FLOAT, 'local')
            sc.vars.append(va); sc.vars.append(vb)
            out = [Decl(a, FLOAT, None), Decl(b, FLOAT, None)]
            for _ in range(r.randint(1, 3)): out.append(ExprS(Affix(va, True, r.random() < .5)))
            for _ in range(r.randint(2, 3)): out.append(ExprS(Affix(vb, True, r.random() < .5)))
            tgt = self.assignable(FLOAT, sc)
            if tgt is not None and tgt is not va and tgt is not vb:
                out.append(ExprS(Assign(tgt, Bin(r.choice(['+', '-']), tgt, Bin('/', va, vb)))))
            else:
                out.append(ExprS(Assign(va, Bin('/', va, vb))))
            self.hit('int-valued-float-division')
            return out
        if in_loop and k < .93:
            self.hit('break' ); return If(self.expr(INT, sc, 1), Break())
        if in_loop and k < .97:
            self.hit('continue'); return If(self.expr(INT, sc, 1), Continue())
        if ret_ty != VOID and r.random() < .3:
            self.hit('early-return'); return If(self.expr(INT, sc, 1), Return(self.expr(ret_ty, sc, 2)))
        return self.assign_stmt(sc)

    def simple_stmt(self, sc, in_loop):
        s = self.assign_stmt(sc)
        return s if s is not None else Block([])

    def loop(self, sc, depth, ret_ty):
        r = self.rng
        bound = r.randint(1, 4)
        g = self.fresh("k")
        self.guards.add(g); self.guard_bound[g] = bound
        gv = Var(g, INT, 'local')
        kind = r.choice(['for', 'while', 'do'])
        self.hit('loop-' + kind); self.hit('loop-depth-%d' % (self.loop_depth + 1))
        self.loop_depth += 1
        try:
            if kind == 'for':
                fs = Scope(sc); fs.vars.append(gv)
                body = self.block(fs, depth - 1, ret_ty, True)
                cond = Bin('<', gv, Lit(bound, INT))
                if r.random() < .4: cond = Bin('&&', cond, self.cmp_cond(fs))
                nxt = r.choice([Affix(gv, True, True), Affix(gv, True, False), Assign(gv, Lit(1, INT), '+'), Assign(gv, Bin('+', gv, Lit(1, INT)))])
                return For(Decl(g, INT, Lit(0, INT)), cond, nxt, body)
            pre = Decl(g, INT, Lit(0, INT))
            sc.vars.append(gv)
            inc = ExprS(Assign(gv, Bin('+', gv, Lit(1, INT))))
            ls = Scope(sc)
            body = self.block(ls, depth - 1, ret_ty, True)
            body.ss.insert(0, inc)
            cond = Bin('<', gv, Lit(bound, INT))
            if r.random() < .4: cond = Bin('&&', cond, self.cmp_cond(sc))
            if kind == 'while': return [pre, While(cond, body)]
            return [pre, Do(body, cond)]
        finally:
            self.loop_depth -= 1

    def cmp_cond(self, sc):
        return Bin(self.rng.choice(sorted(CMP)), self.expr(INT, sc, 1, allow_effects=False), self.expr(INT, sc, 1, allow_effects=False), parens=True)

    def vec_expr(self, ty, sc, depth):
        raise NotImplementedError

    # ---------------- whole programs
    def program(self):
        r = self.rng
        self.guard_bound = {}; self.small_ints = {}; self.readonly = set(); self.global_names = set(); self.overloaded_names = set()
        self.structs = []
        if self.o['structs'] and r.random() < .5:
            fields = [(self.fresh("m"), r.choice([INT, FLOAT] if self.o['floats'] else [INT])) for _ in range(r.randint(1, 3))]
            if self.o['arrays'] and not self.o['local_aggs_only'] and r.random() < .3: fields.append((self.fresh("m"), Arr(INT, (2,))))
            self.structs.append(Struct(self.fresh("S").replace("S", "St"), fields))
        gsc = Scope()
        globals_ = []
        for _ in range(r.randint(0, 3)):
            k = r.choice(['int', 'float' if self.o['floats'] else 'int', 'arr' if self.o['arrays'] else 'int', 'struct' if self.structs else 'int'])
            if self.o['local_aggs_only'] and k in ('arr', 'struct'): k = 'int'      # aggregates only as locals (domain of C01_compile_correct_storage)
            n = self.fresh("g")
            if k == 'arr': t = Arr(r.choice([INT, FLOAT] if self.o['floats'] else [INT]), r.choice([(2,), (3,), (2, 2)]))
            elif k == 'struct': t = self.structs[0]
            else: t = Sc(k)
            globals_.append((n, t)); gsc.vars.append(Var(n, t, 'global')); self.global_names.add(n)
            self.hit('global-' + k)
        funcs = []
        self.funcs = []
        if self.o['calls']:
            for _ in range(r.randint(0, 2)):
                f0 = self.helper(gsc)
                funcs.append(f0)
                # overload pair on int/float, declared before anything can call the name
                if r.random() < .3 and self.o['floats'] and all(isinstance(t, Sc) for _, t in f0.params) \
                        and not getattr(f0, 'recursive', False):
                    ps = [(self.fresh("a"), FLOAT if t == INT else INT) for n, t in f0.params]
                    self.overloaded_names.add(f0.name)
                    funcs.append(self.helper(gsc, name=f0.name, params=ps)); self.hit('overload')
        nparams = r.randint(1, 3)
        params = [(self.fresh("p"), r.choice([INT, FLOAT] if self.o['floats'] else [INT])) for _ in range(nparams)]
        if self.o['arrays'] and not self.o['local_aggs_only'] and r.random() < .25:
            params.append((self.fresh("p"), Arr(INT, (3,)))); self.hit('array-param')
        ret = r.choice([INT, FLOAT] if self.o['floats'] else [INT])
        f = self.function("f", params, ret, gsc, exported=True)
        funcs.append(f)
        return Module(self.structs, globals_, funcs)

    def helper(self, gsc, name=None, params=None):
        r = self.rng
        name = name or self.fresh("h")
        if params is None:
            params = [(self.fresh("a"), r.choice([INT, FLOAT] if self.o['floats'] else [INT])) for _ in range(r.randint(1, 2))]
        ret = r.choice([INT, FLOAT] if self.o['floats'] else [INT])
        recursive = r.random() < .3 and params[0][1] == INT
        f = Func(name, params, ret, None, False)
        saved = list(self.funcs)
        sc = Scope(gsc)
        for i, (n, t) in enumerate(params): sc.vars.append(Var(n, t, 'arg', i))
        if recursive:
            # if (a0 <= 0) return base; ... return h(a0 - 1, ...) op e
            self.hit('recursion')
            self.readonly.add(params[0][0])
            a0 = sc.vars[0]
            base = Return(self.expr(ret, sc, 1, allow_effects=False))
            body_sc = Scope(sc)
            pre = [self.stmt(body_sc, 1, ret, False) for _ in range(r.randint(0, 2))]
            flat = []
            for s in pre:
                if s is None: continue
                flat.extend(s) if isinstance(s, list) else flat.append(s)
            args = [Bin('-', a0, Lit(1, INT))] + [self.expr(t, body_sc, 1, allow_effects=False) for _, t in params[1:]]
            rec = Call(f, args)
            res = Bin(r.choice(['+', '-']), rec, self.expr(ret, body_sc, 1, allow_effects=False)) if r.random() < .7 else rec
            f.body = Block([If(Bin('<=', a0, Lit(0, INT)), base)] + flat + [Return(res)])
            f.recursive = True
        else:
            body = self.block(sc, 2, ret, False)
            body.ss.append(Return(self.expr(ret, Scope(sc), 2)))
            f.body = body
        self.funcs = saved + [f]
        return f

    def function(self, name, params, ret, gsc, exported):
        sc = Scope(gsc)
        for i, (n, t) in enumerate(params): sc.vars.append(Var(n, t, 'arg', i))
        body = self.block(sc, self.o['max_depth'], ret, False, top=True)
        # final return reads something the body computed
        inner = Scope(sc)
        body.ss.append(Return(self.expr(ret, inner, 3)))
        return Func(name, params, ret, body, exported)


def gen_value(rng, t, small=True):
    if isinstance(t, Sc):
        if t.c == 'float': return rng.choice([0.0, 1.0, -1.0, 0.5, 2.5, -3.0, 10.0, 0.25, -0.75, 7.0, 100.0])
        if small: return rng.choice([0, 1, 2, 3, -1, -2, 5, 7, 10, -7, 4, 100, -100])
        return rng.choice([0, 1, -1, 2**31 - 1, -2**31, 65536, 46341, -46341, 2**30, 12345])
    if isinstance(t, Vec): return [gen_value(rng, Sc(t.c), small) for _ in range(t.n)]
    if isinstance(t, Mat): return [[gen_value(rng, Sc(t.c), small) for _ in range(t.k)] for _ in range(t.r)]
    if isinstance(t, Arr):
        sub = Arr(t.elem, t.dims[1:]) if len(t.dims) > 1 else t.elem
        return [gen_value(rng, sub, small) for _ in range(t.dims[0])]
    if isinstance(t, Struct): return {n: gen_value(rng, ft, small) for n, ft in t.fields}
    return None

def gen_inputs(rng, module, fname, count=4):
    f = module.find(fname)
    out = []
    for i in range(count):
        small = i != count - 1 or count == 1
        args = [gen_value(rng, t, small) for _, t in f.params]
        gl = {n: gen_value(rng, t, small) for n, t in module.globals}
        out.append((args, gl))
    return out
