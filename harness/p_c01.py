"""C01 — compiled programs compute what the source says (scalar core, VM).

Theorem (Lean, Props/C01.lean): `C01_compile_correct` — for every module of the scalar core, every function, all
arguments and initial globals: a finished run of the reference semantics `CoreSem` (C-like source semantics on the typed
core) is reproduced by `VM.invoke` on `Lower.lowerModule` — same value, globals, final arguments.

Tie to the code (this file): each generated program is rendered as NSL text for the real compiler+VM and as typed core
for the Lean driver.
 * oracle, independent of the model: the harness's Python reference interpreter of the C-like source semantics
   (refsem.py) judges the real pipeline (parser → passes → lowering → VM), optimisation off and on;
 * correspondence: real VM result = Lean `VM.invoke ∘ lowerModule` result (value, globals, aggregate arguments), and the
   canonical IR of the real lowering = canonical IR of `Lower.lowerModule` (diagnostic, structural);
 * the two formalisations of the statement must agree: Python refsem = Lean `CoreSem.invoke`;
 * theorem instances: wherever `CoreSem.invoke` finishes, `VM.invoke ∘ lowerModule` gives the same (never violated if
   the theorem is about the executable definitions the driver runs).
Inputs outside the stated domain (int overflow, division by zero, index out of range, …) are counted and skipped."""
import common, implrun, progfam, proglib

RULE = ("seeded type-directed programs (harness/gen.py): int/float scalars, local and global arrays (1-2 dims) and structs of scalars, "
        "13 binary operators with mixed int/float operands, plain/compound/chained assignment, ++/--, if/else, for/while/do nested "
        "to depth 3-4 with break/continue under conditions, early return, calls, recursion, int/float overloads; 4 input vectors per "
        "program (3 small, 1 at 32-bit boundaries). A stratum without arrays/structs lies inside the domain of the theorem. "
        "Non-trivial: the program contains a loop or a call and the input is inside the stated numeric domain; distinct = distinct (source, input)")
EXHAUSTIVE = {"quick": False, "thorough": False}
ASSUMPTIONS = ["implicit conversion at assignment/initialisation/return is not promised by the statement: generated programs assign, "
               "initialise and return expressions of exactly the declared scalar type (mixed arithmetic inside expressions is unrestricted)",
               "`%` is compared only for non-negative left and positive right int operands; float->int conversion only where floor = trunc",
               "whole-aggregate assignment and aggregates passed to internal calls are not generated (DESIGN §7)",
               "Lean `Float` (IEEE double) is bit-identical to CPython's float for + - * / and comparisons; values are compared as 64-bit patterns"]
TRUSTED = ["harness/lang.py: rendering of one abstract program as NSL text and as typed core (casts as AddImplicitCasts inserts them)",
           "harness/refsem.py: the Python reading of the C-like source semantics (the oracle)",
           "Model/CoreSem.lean: the Lean reading of the same semantics (what the theorem is about); the two are compared on every case"]

N = {"quick": 700, "thorough": 30000}


def nontrivial_src(src):
    return any(k in src for k in ("for (", "while (", "do\n")) or src.count("function ") > 1


def judge(run, rec, pid="C01", all_nontrivial=False):
    if not progfam.account(run, rec): return
    src = rec["src"]
    obs = rec.get("obs", {})
    key_base = progfam.src_key(rec)
    base_inp = dict(source=src, seed=rec["seed"], index=rec["index"], opts=rec.get("opts"), maker=rec.get("maker"), fn=rec["fn"])
    if not rec.get("accept0"):
        run.case((key_base, "reject"), nontrivial=False)
        run.count("rejected-by-compiler")
        run.fail("rejected", dict(base_inp, reject=rec.get("reject0")), "a well-typed scalar-core program is rejected: %s\n%s" % (rec.get("reject0"), src[:1200]),
                 key="rejected:" + str((rec.get("reject0") or [["?"]])[0][0]))
        return
    if "model_error" in rec:
        raise common.Infra("model driver rejected a generated module: " + rec["model_error"])
    ref, i0, i1 = obs.get("ref", []), obs.get("impl0", []), obs.get("impl1")
    mv, mr = obs.get("model_vm", []), obs.get("model_ref", [])
    nt = all_nontrivial or nontrivial_src(src)
    dom = rec.get("domain", "")
    run.count("theorem-domain:" + ("ScalarCore" if "scalarcore=yes" in dom else "StorageCore" if "storagecore=yes" in dom else
                                   "VectorCore" if "vectorcore=yes" in dom else "outside (correspondence only)"))
    if "storagecore=yes" in dom: run.count("theorem-domain:optimised compile (NoShadow %s)" % ("holds" if "noshadow=yes" in dom else "fails"))
    for j, r in enumerate(ref):
        inp = dict(base_inp, input_index=j, input=rec["inputs"][j])
        if r[0] == "ood":
            run.case((key_base, j), nontrivial=False); run.count("out-of-domain:" + r[1][:30])
            # the model mirrors the VM also outside the domain (divzero / indexoob classes)
            # (only for the two DEFINED failures; after an int overflow the values are outside every promise, e.g. Python
            #  raises OverflowError converting a 300-digit int to float where IEEE arithmetic yields inf)
            if r[1].startswith(("division by zero", "index out of range")) and j < len(mv) and j < len(i0) and mv[j][0] != i0[j][0]:
                run.mismatch("vm-vs-model-outside-domain", inp, list(mv[j]), list(i0[j]))
            continue
        run.case((key_base, j), nontrivial=nt,
                 sample=dict(source=src, input=rec["inputs"][j], expected=list(r)) if (nt and len(run.samples) < 3 and j == 0 and len(src) < 900) else None)
        run.count("in-domain")
        # oracle on the real pipeline
        if tuple(i0[j]) != tuple(r):
            run.fail("value", dict(inp, expected=list(r), got=list(i0[j])), "optimize=False: VM gives %s, the source semantics prescribe %s\n%s" % (list(i0[j])[:3], list(r)[:3], src[:1500]),
                     key="value:opt0:" + i0[j][0])
        if i1 is None:
            if rec.get("accept1") is False:
                run.fail("value", dict(inp, optimize=True), "optimised compile is rejected: %s" % (rec.get("reject1"),), key="value:opt1:rejected")
        elif tuple(i1[j]) != tuple(r):
            run.fail("value", dict(inp, expected=list(r), got=list(i1[j]), optimize=True), "optimize=True: VM gives %s, the source semantics prescribe %s\n%s" % (list(i1[j])[:3], list(r)[:3], src[:1500]),
                     key="value:opt1:" + i1[j][0])
        # correspondence
        if j < len(mv) and tuple(mv[j]) != tuple(i0[j]):
            run.mismatch("vm-vs-model", inp, list(mv[j]), list(i0[j]))
        if j < len(mr) and tuple(mr[j]) != tuple(r):
            run.mismatch("refsem-vs-coresem", inp, list(mr[j]), list(r))
        if j < len(mr) and j < len(mv) and mr[j][0] == "ok" and tuple(mr[j]) != tuple(mv[j]):
            run.mismatch("theorem-instance", inp, list(mv[j]), list(mr[j]))
    if rec.get("ir_diff"):
        run.mismatch("canonical-ir", base_inp, "model lowering", rec["ir_diff"][:300])


def spec(tier, scale=1):
    n = N[tier] * scale
    return [(n * 3 // 10, None, None),
            (n * 2 // 10, dict(local_aggs_only=True, sibling_reuse=False), None),   # local arrays/structs as storage: domain of C01_compile_correct_storage
            (n * 2 // 10, dict(arrays=False, structs=False), None),                 # scalar core: domain of C01_compile_correct and C01_opt_compile_correct
            (n * 2 // 10, dict(max_depth=4, max_stmts=6, calls=False), None),
            (n * 1 // 10, dict(floats=False, max_depth=4), None)]


def explore(run, scale=1):
    for rec in progfam.evaluate(run, "C01", spec(run.tier, scale), want=("ref", "model", "opt", "struct")):
        judge(run, rec)


def search(run):
    explore(run, scale=6 if run.tier == "quick" else 2)


def matches(entry, failure):
    return failure["key"].startswith(entry.get("matcher", "\0"))


def replay(obj):
    x = obj["input"]
    implrun.load()
    rec = progfam.replay_record(obj, want=("ref", "model", "opt", "struct"))
    if "src" not in rec: return False, "could not regenerate: %s" % rec
    if rec["src"] != x.get("source"):
        return False, "the generator no longer reproduces this program from its seed; source kept in the replay file"
    obs = rec["obs"]; j = x.get("input_index", 0)
    if not rec.get("accept0"): return False, "rejected: %s" % (rec.get("reject0"),)
    r = obs["ref"][j]
    which = "impl1" if x.get("optimize") else "impl0"
    got = obs.get(which, [None] * (j + 1))[j]
    return tuple(got or ()) == tuple(r), "%s: VM %s, source semantics %s" % (which, got, r)
