"""C13 — static checks on element selection: constant bounds, index type, swizzle mask.

Correspondence: the compiler's own AST pass pipeline (parser + every pass of Compiler().astPasses, i.e. ComputeTypes and
the validators, without lowering) against the Lean model `Static.checkChain` / `Static.swizzleOK` (driver `static`).
Oracle: the rules of the property statement transcribed to Python (dimension list of the accessed value; every
constant inside its dimension; integer index type; mask over one letter set, within the vector's components)."""
import itertools
import common, implrun

RULE = ("access chains: arrays of int/float with 1-3 dimensions of sizes 1-3, arrays of vectors, vectors of 2-4 components, float3x3/float4x4; "
        "at every chain position a constant from -2 to size+1 (decimal, hex, +signed) or an expression of type int/uint/float/int2; chains "
        "up to one longer than the dimension list; masks: every mask of length 1-3 (quick, plus a seeded sample of length 4) / 1-4 (thorough) "
        "over xyzwrgba+{q,s} on float2/float3/float4/int3. Non-trivial: the chain has a constant index outside [0,1] or >=2 indices, "
        "or the mask has >=2 letters; distinct = distinct (type, chain) / (type, mask)")
EXHAUSTIVE = {"quick": False, "thorough": True}
ASSUMPTIONS = ["`rejected` = the AST pass pipeline does not complete (a pass reports failure or raises); lowering is not part of this check",
               "a chain that indexes into a scalar is rejected (there is no dimension to select)"]
TRUSTED = ["Nsl/Model/Static.lean mirrors ComputeTypes (ArrayExpression / swizzle cases), ValidateArrayAccessType, "
           "ValidateArrayOutOfBoundsAccess and ValidateSwizzle"]

PRIM = {"int": ("s", "int"), "float": ("s", "float"), "uint": ("s", "uint"), "int2": ("v", "int", 2), "int3": ("v", "int", 3),
        "float2": ("v", "float", 2), "float3": ("v", "float", 3), "float4": ("v", "float", 4),
        "float3x3": ("m", "float", 3, 3), "float4x4": ("m", "float", 4, 4)}


def dims_of(base):
    """base = (prim name, array dims)"""
    p = PRIM[base[0]]
    tail = [] if p[0] == "s" else [p[2]] if p[0] == "v" else [p[2], p[3]]
    return list(base[1]) + tail


def model_ty(base):
    p = ":".join(str(x) for x in PRIM[base[0]])
    return ("a:%s:%s" % (p, ",".join(str(d) for d in base[1]))) if base[1] else p


def decl(base, name):
    return "%s%s %s" % (base[0], "".join("[%d]" % d for d in base[1]), name)


IDX_VARS = {"int": "i", "uint": "u", "float": "x", "int2": "w"}


def idx_text(ix, style):
    if ix[0] == "L":
        v = ix[1]
        if style == "hex" and v >= 0: return hex(v)
        if style == "plus" and v >= 1: return "+%d" % v
        return str(v)
    return IDX_VARS[ix[1]]


def idx_model(ix):
    return "L%d" % ix[1] if ix[0] == "L" else "T" + ":".join(str(x) for x in PRIM[ix[1]])


def spec_chain(base, chain):
    dims = dims_of(base)
    if len(chain) > len(dims): return "reject"
    for d, ix in zip(dims, chain):
        if ix[0] == "L":
            if not (0 <= ix[1] < d): return "reject"
        elif ix[1] not in ("int", "uint"):
            return "reject"
    return "accept"


def spec_mask(n, mask):
    for letters in ("xyzw", "rgba"):
        if all(m in letters for m in mask):
            return "accept" if all(letters.index(m) < n for m in mask) else "reject"
    return "reject"


_compiler = None


def frontend(src):
    global _compiler
    from nsl import Compiler
    try:
        with implrun.quiet():
            c = Compiler.Compiler()
            tree = c.parser.Parse(src)
            if tree is None: return "syntax-error"
            for p in c.astPasses:
                if not p.Process(tree): return "reject"
    except SystemExit:
        return "syntax-error"
    except Exception:
        return "reject"
    return "accept"


def chain_src(base, chain, style):
    e = "t" + "".join("[%s]" % idx_text(ix, style) for ix in chain)
    return "function f(int i, uint u, float x, int2 w, %s) -> int { %s; return 0; }" % (decl(base, "t"), e)


def bases(run):
    out = []
    sizes = (1, 2, 3)
    for el in ("int", "float"):
        for nd in (1, 2, 3):
            for ds in itertools.product(sizes, repeat=nd):
                if nd == 3 and run.tier != "thorough" and run.rng.random() > 0.25: continue
                out.append((el, ds))
    out += [("float2", (2,)), ("int3", (1, 2)), ("float3x3", (2,))]
    out += [(p, ()) for p in ("float2", "float3", "float4", "int3", "float3x3", "float4x4", "int", "float")]
    return out


def chains(run, base):
    dims = dims_of(base)
    rng = run.rng
    n = len(dims)
    out = []
    if n == 0:
        return [[("L", 0)], [("T", "int")]]
    # every position: every constant from -2 to size+1 with the other positions in range / dynamic
    for pos in range(n):
        for v in range(-2, dims[pos] + 2):
            for fill in ("zero", "max", "dyn"):
                ch = []
                for j in range(pos + 1 if rng.random() < 0.3 else n):
                    if j == pos: ch.append(("L", v))
                    elif fill == "zero": ch.append(("L", 0))
                    elif fill == "max": ch.append(("L", dims[j] - 1))
                    else: ch.append(("T", rng.choice(["int", "uint"])))
                if len(ch) > pos: out.append(ch)
        for ty in ("int", "uint", "float", "int2"):
            ch = [("L", 0)] * n
            ch[pos] = ("T", ty)
            out.append(ch)
    out.append([("L", 0)] * (n + 1))
    out.append([("T", "int")] * (n + 1))
    for _ in range(6 if run.tier == "thorough" else 2):
        out.append([rng.choice([("L", rng.randrange(-1, d + 1)), ("T", rng.choice(["int", "uint", "float"]))]) for d in dims[:rng.randrange(1, n + 1)]])
    return out


def placements(run):
    """(source, [(vector type or component count, mask), ...]): the verdict must be the conjunction of the rule on every selection"""
    rng = run.rng
    out = []
    one = list("xyzwrgba")
    two = ["".join(m) for m in itertools.product("xyzw", repeat=2)] + ["rg", "ba", "ar", "xg"]
    for vt in ("float2", "float3", "float4"):
        n = PRIM[vt][2]
        for m in (two if run.tier == "thorough" else rng.sample(two, 10)):
            for o in (one if run.tier == "thorough" else rng.sample(one, 4)):
                # a selection of a selection: the outer mask is checked against the inner result (len(m) components)
                out.append(("function f(%s v) -> int { v.%s.%s; return 0; }" % (vt, m, o), [(vt, m), (len(m), o)]))
            out.append(("function f(%s v) -> int { v.%s = v.%s; return 0; }" % (vt, m, m), [(vt, m), (vt, m)]))
            out.append(("function h(float4 u) -> int { u.%s; return 0; }\nfunction f(%s v) -> int { v.%s; return 0; }" % (m, vt, m), [("float4", m), (vt, m)]))
            out.append(("function f(%s v, float4 u) -> int { u.%s; v.%s; return 0; }" % (vt, m, m), [("float4", m), (vt, m)]))
        for m1 in one:
            out.append(("function g(float a) -> float { return a; }\nfunction f(%s v) -> float { return g(v.%s); }" % (vt, m1), [(vt, m1)]))
            out.append(("function f(%s v) -> int { if (v.%s > 0.0) { return 1; } return 0; }" % (vt, m1), [(vt, m1)]))
            out.append(("function f(%s v, float[4] t) -> float { return t[1] + v.%s * v.x; }" % (vt, m1), [(vt, m1)]))
            out.append(("function f(%s v) -> int { for (int i = 0; i < 2; ++i) { v.%s = 1.0; } return 0; }" % (vt, m1), [(vt, m1)]))
    for m1 in one:
        out.append(("function f(int3 k, float[4] t) -> float { return t[k.%s]; }" % m1, [("int3", m1)]))
        out.append(("function f(int3 k, float4 v) -> float { return v[k.%s]; }" % m1, [("int3", m1)]))
    return out


def explore(run, widen=1):
    implrun.load()
    d = common.Driver()
    rng = run.rng
    cases = []
    for base in bases(run):
        for ch in chains(run, base):
            style = rng.choice(["dec", "dec", "hex", "plus"])
            cases.append(("chain", base, ch, chain_src(base, ch, style), "static chain %s %s" % (model_ty(base), " ".join(idx_model(ix) for ix in ch))))
    # the same chains in other PLACES: inside the index of another access, inside an operand of an index, as assignment target,
    # returned value, condition, call argument — the verdict is that of the chain
    full = [(b, ch) for (k, b, ch, _, _) in cases if k == "chain" and b[0] == "int" and b[1] and len(ch) == len(dims_of(b))]
    for base, ch in (full if run.tier == "thorough" else rng.sample(full, min(len(full), 120))):
        e = "t" + "".join("[%s]" % idx_text(ix, "dec") for ix in ch)
        line = "static chain %s %s" % (model_ty(base), " ".join(idx_model(ix) for ix in ch))
        hdr = "function f(int i, uint u, float x, int2 w, %s, int[4] o) -> int " % decl(base, "t")
        for body in ("{ o[%s]; return 0; }", "{ o[i + %s]; return 0; }", "{ return %s; }", "{ %s = 1; return 0; }", "{ if (%s > 0) { return 1; } return 0; }",
                     "{ o[1] = o[%s] + 1; return 0; }", "{ for (int k = 0; k < %s; ++k) { } return 0; }"):
            cases.append(("chain-place", base, ch, hdr + body % e, line))
        cases.append(("chain-place", base, ch, "function g(int a) -> int { return a; }\n" + hdr + "{ return g(%s); }" % e, line))
    alphabet = "xyzwrgbaqs"
    masks = ["".join(m) for k in (1, 2, 3) for m in itertools.product(alphabet, repeat=k)]
    m4 = ["".join(m) for m in itertools.product(alphabet, repeat=4)]
    masks += m4 if run.tier == "thorough" else rng.sample(m4, 1200) + ["xyzw", "rgba", "wzyx", "xxxx", "abgr", "xyzr", "xyzq"]
    for vt in ("float2", "float3", "float4", "int3"):
        for m in masks:
            if vt == "int3" and run.tier != "thorough" and len(m) > 2: continue
            src = "function f(%s v) -> int { v.%s; return 0; }" % (vt, m)
            cases.append(("swz", vt, m, src, "static swz %s %s" % (":".join(str(x) for x in PRIM[vt]), m)))
    # the same selections in other PLACES: inside another selection, inside an index, as call argument, assignment target,
    # condition, operand, in a second function after a valid use of the same mask on a wider type
    places = placements(run)
    def mty(vt):
        if vt in PRIM: return ":".join(str(x) for x in PRIM[vt])
        return "s:float" if vt == 1 else "v:float:%d" % vt
    pans = d.ask_many(["static swz %s %s" % (mty(vt), m) for _, sels in places for vt, m in sels])
    ans = d.ask_many([c[4] for c in cases])
    d.close()
    k = 0
    for src, sels in places:
        model = "accept"
        for vt, m in sels:
            if pans[k] != "accept": model = "reject"
            k += 1
        want = "accept" if all(spec_mask(PRIM[vt][2] if vt in PRIM else vt, m) == "accept" for vt, m in sels) else "reject"
        got = frontend(src)
        if got == "syntax-error": raise common.Infra("does not parse: " + src)
        run.case(("place", src), nontrivial=True, sample=dict(source=src, verdict=got) if (len(run.samples) < 3 and want == "reject" and ".x;" in src) else None)
        run.count("place:" + got)
        inp = dict(source=src, expected=want)
        if model != got: run.mismatch("place", inp, model, got)
        if got != want:
            run.fail("place", inp, "%s is %sed, the rule applied to every selection in it says %s" % (src, got, want), key="place:" + ("accepts" if got == "accept" else "rejects"))
    for (kind, a, b, src, line), model in zip(cases, ans):
        got = frontend(src)
        if got == "syntax-error":
            raise common.Infra("does not parse: " + src)
        if kind == "chain-place":
            want = spec_chain(a, b)
            run.case(("chain-place", src), nontrivial=True); run.count("chain-place:" + got)
            inp = dict(source=src, expected=want)
            if model != got: run.mismatch(kind, inp, model, got)
            if got != want:
                run.fail("chain", inp, "%s is %sed, the rule on the access in it says %s" % (src, got, want), key="chain-place:" + ("accepts" if got == "accept" else "rejects"))
            continue
        if kind == "chain":
            want = spec_chain(a, b)
            nontrivial = len(b) >= 2 or any(ix[0] == "L" and ix[1] not in (0, 1) for ix in b)
            key = (kind, a, tuple(b))
            cls = "chain:" + ("accepts" if got == "accept" else "rejects")
            if want == "reject" and got == "accept":
                bad = [(j, ix) for j, (dm, ix) in enumerate(zip(dims_of(a) + [0] * 9, b)) if (ix[0] == "L" and not 0 <= ix[1] < dm) or (ix[0] == "T" and ix[1] not in ("int", "uint"))]
                if bad:
                    j, ix = bad[0]
                    cls += ":negative" if ix[0] == "L" and ix[1] < 0 else ":too-large" if ix[0] == "L" else ":index-type"
                    cls += ":last-dim" if j == len(dims_of(a)) - 1 else ":inner-dim"
            run.count("chain:" + got); run.count("chain-len:%d" % len(b))
            smp = dict(source=src, verdict=got) if (len(b) == 3 and len(run.samples) < 2) else None
        else:
            want = spec_mask(PRIM[a][2], b)
            nontrivial = len(b) >= 2
            key = (kind, a, b)
            cls = "mask:" + ("accepts" if got == "accept" else "rejects")
            run.count("mask:" + got); run.count("mask-len:%d" % len(b))
            smp = dict(source=src, verdict=got) if (b in ("xyz", "rgq") and a == "float3") else None
        run.case(key, nontrivial=nontrivial, sample=smp)
        inp = dict(source=src, expected=want)
        if model != got: run.mismatch(kind, inp, model, got)
        if got != want:
            run.fail(kind, inp, "%s is %sed, the rule says %s" % (src, got, want), key=cls)


def search(run):
    pass


def matches(entry, failure):
    return entry.get("matcher") == failure["key"]


def replay(obj):
    implrun.load()
    x = obj["input"]
    got = frontend(x["source"])
    return got == x["expected"], "front end: %s, rule: %s" % (got, x["expected"])
