"""C02 — optimisation never changes observable behaviour.

Theorems (Lean, Props/C02.lean): about the model `Opt` of the two optimisation passes (constant-cast folding,
load-after-store forwarding, with the deferred replace / replace-uses bookkeeping).  Global: `C02_opt_correct`,
`C02_opt_correct_fail` (every run of the unoptimised program that does not run out of fuel — finished or failed — is
reproduced by the optimised program with the same fuel: value, globals, arguments, failure), `C02_opt_complete`,
`C02_opt_complete_fail` (conversely, for some larger fuel), for ALL programs whose functions satisfy the decidable side
condition `optOK` (value references are used in the block that defines them, defined once, and a forwarded load reads
the scope of the store and no aggregate).  Local facts: see the manifest entry.

Tie to the code:
 * behavioural (load-bearing): every program is compiled with `optimize` off and on — same accept/reject decision — and
   both modules are run on the same inputs (all inputs, also those that end in a defined run-time failure): same status,
   same value, same globals, same aggregate arguments.  Programs: scalar-core generator, call programs (vectors),
   host histories over several VMs, the whole-language corpus with its inputs (vectors, matrices, swizzles, structs,
   aggregates passed to calls), the NSL sources of the repository's tests (accept/reject);
 * structural: the Lean optimiser model applied to the implementation's UNOPTIMISED IR equals (canonically) the
   implementation's OPTIMISED IR; the side condition of the theorems (`optOK`) is evaluated on that IR (it must hold on
   every generated program; on the corpus, programs with whole-aggregate assignment lie outside it and are counted)."""
import copy
import common, implrun, progfam, proglib, wholelang, gen_calls, gen_vec, p_c14

RULE = ("generated scalar-core programs (incl. a stratum dense in store/load pairs: x = e; use of x; chained, compound and affix "
        "assignments), call programs with vector parameters, multi-VM histories, the whole-language corpus and the test-suite sources; "
        "each compiled with optimize off and on; 4 inputs per program. Non-trivial: the optimised IR differs from the unoptimised IR "
        "(something was folded or forwarded); distinct = distinct (source, input)")
EXHAUSTIVE = {"quick": False, "thorough": False}
ASSUMPTIONS = ["observable behaviour = accept/reject, returned value, globals after, aggregate arguments after, class of a run-time failure"]
TRUSTED = ["Model/Opt.lean mirrors OptimizeConstantCasts / OptimizeLoadAfterStore and BasicBlock._Traverse/ReplaceUses/__Replace",
           "harness/implrun.py IR dump and proglib.canon_ir (reference renaming in definition order)"]

N = {"quick": 600, "thorough": 24000}


def judge_prog(run, rec):
    if not progfam.account(run, rec): return
    src = rec["src"]
    key = progfam.src_key(rec)
    base = dict(source=src, seed=rec["seed"], index=rec["index"], opts=rec.get("opts"), maker=rec.get("maker"), fn=rec.get("fn"))
    a0, a1 = rec.get("accept0"), rec.get("accept1")
    if a0 != a1:
        run.case((key, "accept"), nontrivial=True)
        run.fail("accept", base, "optimize=False: %s, optimize=True: %s\n%s" % ("accepted" if a0 else rec.get("reject0"), "accepted" if a1 else rec.get("reject1"), src[:1500]),
                 key="opt-differs:accept")
        return
    if not a0:
        run.case((key, "reject"), nontrivial=False); run.count("both-reject"); return
    obs = rec["obs"]
    changed = rec.get("opt_changed", True)
    i0, i1 = obs.get("impl0", []), obs.get("impl1", [])
    for j, (x, y) in enumerate(zip(i0, i1)):
        run.case((key, j), nontrivial=bool(changed),
                 sample=dict(source=src, input=(rec.get("inputs") or rec.get("ops"))[j] if j < len(rec.get("inputs") or rec.get("ops") or []) else None, unoptimised=list(x), optimised=list(y)) if (changed and len(run.samples) < 3 and j == 0 and len(src) < 700) else None)
        run.count("status:" + x[0])
        if tuple(x) != tuple(y):
            run.fail("result", dict(base, input_index=j, unoptimised=list(x), optimised=list(y)),
                     "input %d: unoptimised %s, optimised %s\n%s" % (j, list(x)[:3], list(y)[:3], src[:1500]),
                     key="opt-differs:result:%s->%s" % (x[0], y[0]))
            break
    if "opt_diff" in rec:
        run.count("struct:compared")
        if rec["opt_diff"]:
            run.mismatch("optimised-ir", base, "Opt.optProgram(unoptimised IR)", str(rec["opt_diff"])[:300])
        if rec.get("fwdok") and any(not p.endswith(": ok") for p in rec["fwdok"].split(" | ")):
            run.mismatch("theorem-hypothesis", base, "optOK (blockLocal, forwardOK, defsDistinct)", rec["fwdok"][:200])


def corpus_case(run, e, d):
    """one whole-language corpus entry: compile both ways, run every argument set on both"""
    src = e["src"]
    res = {}
    for opt in (False, True):
        c = implrun.compile_src(src, optimize=opt)
        res[opt] = c
    a0, a1 = res[False][0] == "ok", res[True][0] == "ok"
    base = dict(source=src, name=e["name"], corpus=True)
    if a0 != a1:
        run.case((src, "accept"), nontrivial=True)
        run.fail("accept", base, "%s: optimize=False %s, optimize=True %s" % (e["name"], res[False][:1] + res[False][1:3], res[True][:1] + res[True][1:3]), key="opt-differs:accept")
        return
    if not a0: return
    outs = {}
    for opt in (False, True):
        try:
            prog = implrun.link([res[opt][1].IRModule])
        except BaseException as ex:
            outs[opt] = [("internal", "link:" + type(ex).__name__)] * len(e["args"]); continue
        o = []
        for a in e["args"]:
            vm = implrun.new_vm(prog)
            for g, v in e["globals"].items(): vm.SetGlobal(g, copy.deepcopy(v))
            args = copy.deepcopy(a)
            r = implrun.invoke(vm, e["fn"], args)
            gl = {g: implrun.val_sexp(vm.GetGlobal(g)) for g in e["globals"]} if r[0] == "ok" else None
            o.append((r[0], implrun.val_sexp(r[1]) if r[0] == "ok" else r[1], gl, implrun.val_sexp(list(args.values())) if r[0] == "ok" else None))
        outs[opt] = o
    st = proglib.opt_struct(res[False][1].IRModule, res[True][1].IRModule)
    for j, (x, y) in enumerate(zip(outs[False], outs[True])):
        run.case((src, j), nontrivial=True)
        if x != y:
            run.fail("result", dict(base, input_index=j, unoptimised=list(map(str, x)), optimised=list(map(str, y))),
                     "%s input %d: unoptimised %s, optimised %s" % (e["name"], j, x[:2], y[:2]), key="opt-differs:result:%s->%s" % (x[0], y[0]))
    if st.get("opt_diff"):
        run.mismatch("optimised-ir", base, "Opt.optProgram(unoptimised IR)", str(st["opt_diff"])[:300])
    if st.get("fwdok") and any(not p.endswith(": ok") for p in st["fwdok"].split(" | ")):
        run.count("forward-outside-theorem:corpus")       # aggregate forwarding: outside the soundness theorem's hypotheses, behaviour is compared above


def explore(run, scale=1):
    implrun.load()
    d = proglib.driver()
    for e in wholelang.ENTRIES:
        corpus_case(run, e, d)
    for src in p_c14.repo_test_sources():
        a = [implrun.compile_src(src, optimize=o)[0] == "ok" for o in (False, True)]
        run.case((src, "accept"), nontrivial=False); run.count("repo-tests")
        if a[0] != a[1]:
            run.fail("accept", dict(source=src), "test-suite source: optimize=False %s, optimize=True %s" % tuple(a), key="opt-differs:accept")
    proglib._driver = None; d.close()          # workers start their own driver
    n = N[run.tier] * scale
    spec = [(n * 4 // 10, None, None),
            (n * 2 // 10, dict(max_stmts=7, max_depth=2, arrays=False), None),        # dense in store/load pairs
            (n * 2 // 10, None, "calls"),
            (n * 2 // 10, None, "history"),
            (n * 2 // 10, None, "vec")]                                               # vectors/matrices: swizzle, shuffle, construct after stores
    for rec in progfam.evaluate(run, "C02", spec, want=("opt", "optstruct")):
        judge_prog(run, rec)


def search(run):
    explore(run, scale=6 if run.tier == "quick" else 2)


def matches(entry, failure):
    return failure["key"].startswith(entry.get("matcher", "\0"))


def replay(obj):
    implrun.load()
    x = obj["input"]
    src = x["source"]
    a = [implrun.compile_src(src, optimize=o) for o in (False, True)]
    if (a[0][0] == "ok") != (a[1][0] == "ok"):
        return False, "optimize=False: %s, optimize=True: %s" % (a[0][0], a[1][:3] if a[1][0] != "ok" else "ok")
    if obj["kind"] == "accept": return True, "same accept/reject decision"
    if x.get("corpus"):
        class R:      # minimal Run
            def __init__(s): s.failures = []; s.dist = {}; s.samples = []
            def case(s, *a, **k): pass
            def count(s, *a, **k): pass
            def mismatch(s, *a, **k): pass
            def fail(s, kind, inp, what, key=None): s.failures.append(what)
        r = R()
        e = next(e for e in wholelang.ENTRIES if e["name"] == x["name"])
        corpus_case(r, e, proglib.driver())
        return not r.failures, "; ".join(r.failures) or "optimised = unoptimised on the corpus inputs"
    rec = progfam.replay_record(obj, want=("opt",))
    if rec.get("src") != src: return False, "the generator no longer reproduces this program from its seed; source kept in the replay file"
    j = x.get("input_index", 0)
    i0, i1 = rec["obs"]["impl0"][j], rec["obs"]["impl1"][j]
    return tuple(i0) == tuple(i1), "unoptimised %s, optimised %s" % (i0, i1)
