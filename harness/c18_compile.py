"""Helper run in a SEPARATE process by harness/p_c18.py:
   c18_compile.py <scratch-repo> <cases.json>  → JSON list: per source [status, listing-digest, wasm-hex-or-None]
 cases.json: list of {"src": ..., "optimize": bool, "wasm": bool}; compiled in the given order with fresh Compiler()s."""
import sys, os, io, json, hashlib
scratch, cases = sys.argv[1], json.load(open(sys.argv[2]))
sys.path.insert(0, scratch)
sys.path.insert(0, os.path.dirname(os.path.abspath(__file__)))
os.environ["NSL_SCRATCH"] = scratch
import implrun
implrun.load()
out = []
for c in cases:
    r = implrun.compile_src(c["src"], optimize=c["optimize"], wasm=c["wasm"])
    if r[0] != "ok":
        out.append(["reject", r[1][0], None]); continue
    lst = implrun.listing(r[1].IRModule)
    w = None
    if c["wasm"] and r[1].WasmModule is not None:
        b = io.BytesIO(); r[1].WasmModule.WriteTo(b); w = b.getvalue().hex()
    out.append(["ok", lst, w])
print(json.dumps(out))
