"""C11 — break and continue are accepted exactly inside loops (and refer to the innermost loop).

Correspondence: accept/reject of Compiler.Compile against the Lean model `Flow.validateFn` (driver `flow`).
Oracle: (a) a program is rejected iff some break/continue has no enclosing loop (computed on the skeleton);
(b) accepted programs are run on the VM and the per-loop iteration counters are compared with a reference
interpreter of the skeleton, which shows which loop every break/continue acted on."""
import common, implrun

RULE = ("every statement skeleton with <=N nodes (quick 5: 3201, thorough 6: 22113) over {other, break, continue, sequence, if, if-else, for, "
        "while, do}; each rendered as the body of an exported function (braced and, where the grammar allows, un-braced bodies), some as the "
        "second function of a module. Non-trivial: contains a break or continue; distinct = distinct skeleton")
EXHAUSTIVE = {"quick": True, "thorough": True}
ASSUMPTIONS = ["loop templates make the iteration counters independent of where inside the innermost loop a `continue` resumes in a do-loop "
               "(its condition is constantly true and the exit is a counter test at the top of the body): C11 is about WHICH loop, C01 about where",
               "the VM leg needs int arithmetic, comparisons, if and the three loop forms to execute (C01 is not claimed)"]
TRUSTED = ["Nsl/Model/Flow.lean mirrors ValidateFlowStatementVisitor and the loop stack of LowerToIR"]
W = 32


def skeletons(n, memo={}):
    """all skeletons with exactly n nodes, as nested tuples"""
    if n in memo: return memo[n]
    out = []
    if n == 1:
        out = [("o",), ("b",), ("c",)]
    else:
        for k in ("i", "f", "w", "d"):
            out += [(k, a) for a in skeletons(n - 1)]
        for k in ("s", "e"):
            for a in range(1, n - 1):
                out += [(k, x, y) for x in skeletons(a) for y in skeletons(n - 1 - a)]
    memo[n] = out
    return out


def toks(s):
    return [s[0]] + [t for c in s[1:] for t in toks(c)]


def number(s, counter=None):
    """annotate loops with ids in pre-order: returns tree of (kind, id, children...)"""
    if counter is None: counter = [0]
    k = s[0]
    if k in "fwd":
        i = counter[0]; counter[0] += 1
        return (k, i, number(s[1], counter))
    return (k, None) + tuple(number(c, counter) for c in s[1:])


def all_in_loop(s, depth=0):
    k = s[0]
    if k in "bc": return depth > 0
    if k == "o": return True
    if k in "fwd": return all_in_loop(s[1], depth + 1)
    return all(all_in_loop(c, depth) for c in s[1:])


def render(t, unbraced, rng):
    """NSL text of an annotated skeleton"""
    k = t[0]
    def body(x):
        if unbraced and x[0] in "bco" and rng.random() < 0.5:
            return " " + render(x, unbraced, rng)
        return " { " + render(x, unbraced, rng) + " }"
    if k == "o": return "t = t + 1;"
    if k == "b": return "break;"
    if k == "c": return "continue;"
    if k == "s": return render(t[2], unbraced, rng) + " " + render(t[3], unbraced, rng)
    if k == "i": return "if (t < 1000)" + body(t[2])
    if k == "e": return "if (t > 1000)" + body(t[2]) + " else" + body(t[3])
    i = t[1]
    inner = render(t[2], unbraced, rng)
    if k == "f": return "for (int i%d = 0; i%d < 2; ++i%d) { c%d = c%d + 1; %s }" % (i, i, i, i, i, inner)
    if k == "w": return "while (c%d < 2) { c%d = c%d + 1; %s }" % (i, i, i, inner)
    return "do { c%d = c%d + 1; if (c%d > 2) { break; } %s } while (0 < 1)" % (i, i, i, inner)


class _Brk(Exception): pass
class _Cnt(Exception): pass


def reference(t, c, st):
    """reference interpreter of the rendered templates; c = loop counters, st = {'t': int}"""
    k = t[0]
    if k == "o": st["t"] += 1
    elif k == "b": raise _Brk()
    elif k == "c": raise _Cnt()
    elif k == "s": reference(t[2], c, st); reference(t[3], c, st)
    elif k == "i":
        if st["t"] < 1000: reference(t[2], c, st)
    elif k == "e":
        if st["t"] > 1000: reference(t[2], c, st)
        else: reference(t[3], c, st)
    else:
        i = t[1]
        def once():
            try:
                reference(t[2], c, st)
            except _Cnt:
                pass
        try:
            if k == "f":
                for _ in range(2):
                    c[i] += 1; once()
            elif k == "w":
                while c[i] < 2:
                    c[i] += 1; once()
            else:
                while True:
                    c[i] += 1
                    if c[i] > 2: break
                    once()
        except _Brk:
            pass


def program(s, rng, second):
    t = number(s)
    nloops = sum(1 for x in toks(s) if x in "fwd")
    decls = " ".join("int c%d = 0;" % i for i in range(nloops))
    sums = " ".join("r = r + (c%d * %d);" % (i, W ** (i + 1)) for i in range(nloops))
    f = "export function f() -> int { int t = 0; int r = 0; %s %s r = r + t; %s return r; }" % (decls, render(t, rng.random() < 0.4, rng), sums)
    other = "function g(int a) -> int { int q = a; while (q < 3) { q = q + 1; if (q > 1) { break; } } return q; }"
    return (other + "\n" + f) if second else (f + "\n" + other), t, nloops


def expected_value(t, nloops):
    c = [0] * nloops; st = {"t": 0}
    reference(t, c, st)          # outside any loop no break/continue remains (accepted programs only)
    return st["t"] + sum(c[i] * W ** (i + 1) for i in range(nloops))


def explore(run, widen=1):
    implrun.load()
    d = common.Driver()
    rng = run.rng
    N = 6 if run.tier == "thorough" else 5
    sk = [s for n in range(1, N + 1) for s in skeletons(n) if sum(1 for x in toks(s) if x in "fwd") <= 4]
    ans = d.ask_many(["flow " + " ".join(toks(s)) for s in sk])
    d.close()
    for idx, (s, a) in enumerate(zip(sk, ans)):
        src, t, nloops = program(s, rng, second=(idx % 5 == 0))
        st = implrun.compile_src(src)
        if st[0] != "ok" and st[1][0] == "SystemExit":
            raise common.Infra("does not parse: " + src)
        got = "accept" if st[0] == "ok" else "reject"
        has_bc = any(x in "bc" for x in toks(s))
        want = "accept" if all_in_loop(s) else "reject"
        run.case(toks(s), nontrivial=has_bc, sample=dict(skeleton=" ".join(toks(s)), source=src, compiler=got) if (has_bc and nloops >= 2 and len(run.samples) < 4 and idx % 97 == 0) else None)
        run.count("compiler:" + got); run.count("nodes:%d" % len(toks(s)))
        model = a.split(" ")[0]
        inp = dict(skeleton=" ".join(toks(s)), source=src, expected=want)
        if model != got: run.mismatch("accept", inp, model, got)
        if got != want:
            run.fail("accept", inp, "%s is %sed, but %s" % (src, got, "every break/continue is inside a loop" if want == "accept" else "a break/continue is outside every loop"),
                     key="accept:" + got)
        if got == "accept" and want == "accept" and has_bc and run.dist.get("vm-timeouts", 0) < 25:
            exp = expected_value(t, nloops)
            try:
                with implrun.quiet():
                    vm = implrun.new_vm(implrun.link([st[1].IRModule]))
                r = implrun.invoke(vm, "f", {}, limit=2)
            except Exception as e:
                r = ("crash", "%s:%s" % implrun.exc_site(e)[:2])
            run.count("vm-runs")
            if r[0] == "timeout": run.count("vm-timeouts")      # after 25 non-terminating runs the VM leg stops (each costs the time limit)
            val = r[1] if r[0] == "ok" else "%s:%s" % (r[0], r[1])
            if val != exp:
                run.fail("target", dict(skeleton=" ".join(toks(s)), source=src, expected=exp),
                         "%s returns %r; with every break/continue acting on its innermost loop the counters give %r" % (src, val, exp),
                         key="target:" + ("value" if isinstance(val, int) else str(val).split(":")[0]))


def search(run):
    pass


def matches(entry, failure):
    return entry.get("matcher") == failure["key"]


def replay(obj):
    implrun.load()
    x = obj["input"]
    st = implrun.compile_src(x["source"])
    got = "accept" if st[0] == "ok" else "reject"
    if obj["kind"] == "accept":
        return got == x["expected"], "compiler: %s, expected %s" % (got, x["expected"])
    if got != "accept": return False, "rejected"
    with implrun.quiet():
        vm = implrun.new_vm(implrun.link([st[1].IRModule]))
    r = implrun.invoke(vm, "f", {}, limit=2)
    return r == ("ok", x["expected"]), "returns %r, expected %r" % (r, x["expected"])
