"""C19 — wasm writer: integers, names and section sizes decode to what was written.

Correspondence: nsl.WebAssembly (PackInteger, Instruction.WriteTo, WriteString, section writers, Module.WriteTo)
against the Lean model `Nsl.Leb` through the driver (`leb ...`).
Oracle (independent of the model): standard LEB128 decoders / section walker written from the
WebAssembly 1.0 binary format, applied to the bytes the real writer emits."""
import io, random
import common, implrun

RULE = ("integers: every value of a dense range, every 7-bit-group / sign-bit boundary +-2 up to 2^35, random 32-bit values; "
        "each through the writer path the format prescribes (unsigned: PackInteger/WriteInteger and index immediates; signed: i32.const "
        "immediates); names from a Unicode generator; whole modules built through the WebAssembly API with random contents and walked "
        "section by section. A case is non-trivial when the encoding has >1 byte, the name is non-empty, or the module has >=2 sections; "
        "distinct = distinct input value / name / module bytes")
EXHAUSTIVE = {"quick": False, "thorough": False}
ASSUMPTIONS = ["the standard LEB128 decoders of the oracle are transcribed from the WebAssembly 1.0 binary format",
               "bytes are compared as hex strings; Python's str.encode('utf-8') is the UTF-8 of the model's String.utf8 on scalar values"]
TRUSTED = ["Nsl/Model/Leb.lean mirrors PackInteger / PackSignedInteger / WriteString / section framing (hand-written model)"]


def dec_u(bs, pos=0):
    result = shift = 0
    while True:
        if pos >= len(bs): return None
        b = bs[pos]; pos += 1
        result |= (b & 0x7F) << shift
        shift += 7
        if not b & 0x80:
            return result, pos


def dec_s(bs, pos=0):
    result = shift = 0
    while True:
        if pos >= len(bs): return None
        b = bs[pos]; pos += 1
        result |= (b & 0x7F) << shift
        shift += 7
        if not b & 0x80:
            if b & 0x40:
                result -= 1 << shift
            return result, pos


def boundaries(hi_bits):
    out = set()
    for k in range(0, hi_bits + 1):
        for d in (-2, -1, 0, 1, 2):
            out.add((1 << k) + d)
    return out


def walk_module(bs):
    """Independent section walker. Returns (list of (id, payload_start, payload_len), error or None)."""
    if bs[:8] != bytes([0, 0x61, 0x73, 0x6D, 1, 0, 0, 0]):
        return [], "bad preamble"
    pos, secs, last = 8, [], 0
    while pos < len(bs):
        sid = bs[pos]; pos += 1
        r = dec_u(bs, pos)
        if r is None: return secs, "truncated size of section %d" % sid
        size, pos = r
        if pos + size > len(bs): return secs, "section %d size %d exceeds the %d bytes that follow" % (sid, size, len(bs) - pos)
        if sid <= last or sid > 11: return secs, "section id %d after %d" % (sid, last)
        last = sid
        secs.append((sid, pos, size))
        if sid == 10:   # code: vec of size-prefixed bodies
            p = pos
            r = dec_u(bs, p)
            if r is None: return secs, "code count"
            n, p = r
            for _ in range(n):
                r = dec_u(bs, p)
                if r is None: return secs, "body size"
                bl, p = r
                if p + bl > pos + size: return secs, "function body size %d exceeds its section" % bl
                if bl == 0 or bs[p + bl - 1] != 0x0B: return secs, "function body of size %d does not end with `end`" % bl
                p += bl
            if p != pos + size: return secs, "code section: bodies end at %d, section at %d" % (p, pos + size)
        pos += size
    return secs, None


def rand_name(rng):
    n = rng.choice([0, 1, 1, 2, 3, 5, 8, 20, 127, 128, 129, 200])
    alph = [lambda: chr(rng.randrange(0x20, 0x7F)), lambda: chr(rng.randrange(0x80, 0x800)),
            lambda: chr(rng.choice([rng.randrange(0x800, 0xD800), rng.randrange(0xE000, 0x10000)])),
            lambda: chr(rng.randrange(0x10000, 0x110000)), lambda: rng.choice("_aZ09 \t\"\\")]
    return "".join(rng.choice(alph)() for _ in range(n))


def build_module(W, rng):
    m = W.Module()
    vts = [W.ValueType.i32, W.ValueType.f32]
    nfun = rng.choice([0, 1, 1, 2, 3, 5])
    desc = dict(funcs=nfun, consts=[], names=[])
    for f in range(nfun):
        ft = W.FunctionType([rng.choice(vts) for _ in range(rng.randrange(0, 4))], [rng.choice(vts)])
        ti = m.AddFunctionType(ft)
        m.AddFunction(ti)
        name = rand_name(rng) or "f%d" % f
        desc["names"].append(name)
        m.AddExport(W.Export(f, name))
        c = W.Code()
        for _ in range(rng.choice([0, 1, 2, 5, 130])):
            c.AddLocal(W.Local(rng.choice(vts)))
        for _ in range(rng.choice([0, 1, 3, 10, 40, 200])):
            k = rng.randrange(4)
            if k == 0:
                z = rng.choice([rng.randrange(-70, 70), rng.randrange(-2**31, 2**31), rng.choice([63, 64, -64, -65, 8191, 8192, 2**31 - 1, -2**31])])
                desc["consts"].append(z)
                c.AddInstruction(W.Instruction(W.opcodes["i32.const"], (z,)))
            elif k == 1:
                c.AddInstruction(W.Instruction(W.opcodes[rng.choice(["local.get", "local.set"])], (rng.choice([0, 1, 5, 127, 128, 300]),)))
            else:
                c.AddInstruction(W.Instruction(W.opcodes[rng.choice(["i32.add", "i32.sub", "i32.mul", "f32.add", "return"])]))
        m.AddCode(c)
    if rng.random() < 0.7: m.AddTable(W.Table(rng.choice([0, 1, 127, 128, 70000])))
    if rng.random() < 0.5: m.AddMemory(W.Memory(rng.choice([0, 1, 200]), rng.choice([None, 1, 300])))
    out = io.BytesIO()
    m.WriteTo(out)
    return out.getvalue(), desc


def const_bytes(W, z):
    out = io.BytesIO()
    W.Instruction(W.opcodes["i32.const"], (z,)).WriteTo(out)
    return out.getvalue()


def check_const(W, z):
    """Oracle for one i32.const immediate. Returns None or a description of the failure."""
    bs = const_bytes(W, z)
    if bs[0] != 0x41: return "opcode byte %#x" % bs[0]
    r = dec_s(bs, 1)
    if r is None or r[1] != len(bs) or r[0] != z:
        return "i32.const %d is written as %s, which a signed LEB128 decoder reads as %s" % (z, bs[1:].hex(), None if r is None else r[0])
    if len(bs) - 1 > 5: return "i32.const %d takes %d bytes" % (z, len(bs) - 1)
    return None


def check_unsigned(W, n):
    bs = W.PackInteger(n)
    r = dec_u(bs)
    if r is None or r[1] != len(bs) or r[0] != n:
        return "PackInteger(%d) = %s decodes (unsigned) to %s" % (n, bs.hex(), r)
    return None


def check_name(W, s):
    out = io.BytesIO(); W.WriteString(out, s); bs = out.getvalue()
    r = dec_u(bs)
    if r is None: return "no length prefix"
    n, p = r
    if n != len(bs) - p: return "name %r: length prefix %d, %d bytes follow" % (s, n, len(bs) - p)
    if bs[p:].decode("utf-8") != s: return "name %r does not decode" % s
    return None


def explore(run, widen=1):
    implrun.load()
    W = implrun.nsl.WebAssembly if hasattr(implrun.nsl, "WebAssembly") else __import__("nsl.WebAssembly", fromlist=["x"])
    d = common.Driver()
    rng = run.rng
    thorough = run.tier == "thorough"
    dense = (300000 if thorough else 20000) * widen
    # --- unsigned
    us = set(range(0, dense)) | {b for b in boundaries(35) if b >= 0} | {rng.randrange(0, 2**32) for _ in range(20000 * (5 if thorough else 1))}
    us = sorted(us)
    ans = d.ask_many(["leb p %d" % n for n in us])
    for n, a in zip(us, ans):
        h = W.PackInteger(n).hex()
        run.case(("u", n), nontrivial=len(h) > 2, sample={"unsigned": n, "bytes": h} if n in (300, 2**32 - 1) else None)
        run.count("unsigned")
        if h != a: run.mismatch("unsigned", n, a, h)
        e = check_unsigned(W, n)
        if e: run.fail("unsigned", n, e)
    # index immediates use the unsigned packer
    for n in [0, 1, 127, 128, 16383, 16384, 2**32 - 1] + [rng.randrange(0, 2**32) for _ in range(200)]:
        out = io.BytesIO(); W.Instruction(W.opcodes["local.get"], (n,)).WriteTo(out); bs = out.getvalue()
        run.case(("idx", n)); run.count("index-immediate")
        r = dec_u(bs, 1)
        if bs[0] != 0x20 or r is None or r != (n, len(bs)): run.fail("index", n, "local.get %d written as %s" % (n, bs.hex()))
    # --- signed (i32.const immediates)
    half = dense // 2
    zs = set(range(-half, half)) | {s * b for b in boundaries(31) for s in (1, -1)} | {rng.randrange(-2**31, 2**31) for _ in range(20000 * (5 if thorough else 1))}
    zs = sorted(z for z in zs if -2**31 <= z < 2**31)
    ans = d.ask_many(["leb s %d" % z for z in zs])
    for z, a in zip(zs, ans):
        bs = const_bytes(W, z)
        run.case(("s", z), nontrivial=len(bs) > 2, sample={"i32.const": z, "bytes": bs.hex()} if z in (64, -65, -2**31) else None)
        run.count("signed")
        if bs[1:].hex() != a: run.mismatch("const", z, a, bs[1:].hex())
        e = check_const(W, z)
        if e: run.fail("const", z, e)
    # --- names
    names = ["", "f", "main", "é", "名前", "\U0001F600x"] + [rand_name(rng) for _ in range(3000 if thorough else 600)]
    ans = d.ask_many(["leb name %s" % (",".join(str(ord(c)) for c in s) or "-") for s in names])
    for s, a in zip(names, ans):
        out = io.BytesIO(); W.WriteString(out, s); h = out.getvalue().hex()
        run.case(("n", s), nontrivial=len(s) > 0, sample={"name": s, "bytes": h} if s == "名前" else None)
        run.count("name")
        if h != a: run.mismatch("name", s, a, h)
        e = check_name(W, s)
        if e: run.fail("name", s, e)
    # --- whole modules
    for i in range(400 if thorough else 80):
        st = rng.getstate()
        bs, desc = build_module(W, rng)
        secs, err = walk_module(bs)
        run.case(("m", bs), nontrivial=len(secs) >= 2, sample={"module": desc, "sections": [(s, l) for s, _, l in secs]} if i == 3 else None)
        run.count("module"); run.count("module-sections", len(secs))
        if err: run.fail("module", bs.hex(), "emitted module: " + err)
        # model: re-frame each payload and re-read it
        q = []
        for sid, p, l in secs:
            q.append("leb section %d %s" % (sid, bs[p:p + l].hex() or "-"))
        ans = d.ask_many(q)
        for (sid, p, l), a in zip(secs, ans):
            start = p - 1 - len(W.PackInteger(l))
            if bs[start:p + l].hex() != a and l > 0:
                run.mismatch("section", bs.hex(), a, bs[start:p + l].hex())
    d.close()


def search(run):
    explore(run, widen=5)


def matches(entry, failure):
    return entry.get("matcher") == failure["kind"]


def replay(obj):
    implrun.load()
    import nsl.WebAssembly as W
    k, x = obj["kind"], obj["input"]
    e = {"unsigned": lambda: check_unsigned(W, x), "const": lambda: check_const(W, x), "name": lambda: check_name(W, x),
         "index": lambda: check_unsigned(W, x),
         "module": lambda: "replay by re-running the check with seed %s" % obj.get("seed")}.get(k, lambda: "no replay for kind %s" % k)()
    return e is None, e or "decodes to what was written"
