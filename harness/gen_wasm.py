"""Programs inside (and just outside) the subset the WebAssembly backend translates: straight-line scalar functions
over int / uint / float parameters with + - * / == < >, constants, stores to parameters, return.  Programs are built as
trees so that the harness can evaluate them itself and know whether every intermediate value is exactly representable
in i32 / f32 (then 64-bit VM arithmetic and 32-bit WebAssembly arithmetic must agree exactly — no tolerance anywhere)."""
import struct, random

I32_MIN, I32_MAX = -2**31, 2**31 - 1


def f32_exact(x):
    try:
        return struct.unpack("<f", struct.pack("<f", x))[0] == x
    except OverflowError:
        return False


def f32_bits(x):
    return struct.unpack("<I", struct.pack("<f", x))[0]


class Node:
    pass


class P(Node):
    def __init__(self, i, ty): self.i, self.ty = i, ty
    def src(self): return "p%d" % self.i


class C(Node):
    def __init__(self, v, ty): self.v, self.ty = v, ty
    def src(self): return repr(float(self.v)) if self.ty == "float" else str(self.v)


class B(Node):
    def __init__(self, op, l, r, ty): self.op, self.l, self.r, self.ty = op, l, r, ty
    def src(self): return "(%s %s %s)" % (self.l.src(), self.op, self.r.src())


class Post(Node):
    """p++ / p-- / ++p / --p on a parameter: the value is the old (post) or new (pre) value"""
    def __init__(self, i, ty, inc, post): self.i, self.ty, self.inc, self.post = i, ty, inc, post
    def src(self):
        o = "++" if self.inc else "--"
        return ("p%d%s" % (self.i, o)) if self.post else ("%sp%d" % (o, self.i))


class Asg(Node):
    """(p = e) as an operand: stores, and yields the stored value"""
    def __init__(self, i, e, ty): self.i, self.e, self.ty = i, e, ty
    def src(self): return "p%d = %s" % (self.i, self.e.src())      # only as the right-hand side of a store: p0 = p1 = e


def gen_expr(rng, ty, ptys, depth, allow_div=True, effects=False):
    same = [i for i, t in enumerate(ptys) if t == ty]
    if effects and same and rng.random() < .18:
        return Post(rng.choice(same), ty, rng.random() < .5, rng.random() < .7)
    if depth == 0 or rng.random() < .25:
        if same and rng.random() < .7: return P(rng.choice(same), ty)
        if ty == "float": return C(rng.choice([0.5, 1.0, 2.25, 8.0, 100.0, 0.125, 3.0]), ty)
        return C(rng.choice([0, 1, 2, 7, 63, 64, 65, 127, 128, 255, 8191, 8192, 70000, 2**31 - 1, 3000000000] if ty == "uint"
                            else [0, 1, 2, 7, 63, 64, 65, 127, 128, 255, 8191, 8192, 70000, 2**31 - 1]), ty)
    if ty in ("int",) and rng.random() < .25:
        t = rng.choice(["int", "float"] + (["uint"] if "uint" in ptys else []))
        return B(rng.choice(["<", ">", "=="]), gen_expr(rng, t, ptys, depth - 1, allow_div, effects), gen_expr(rng, t, ptys, depth - 1, allow_div, effects), "int")
    ops = ["+", "-", "*"] + (["/"] if allow_div else [])
    return B(rng.choice(ops), gen_expr(rng, ty, ptys, depth - 1, allow_div, effects), gen_expr(rng, ty, ptys, depth - 1, allow_div, effects), ty)


class Prog:
    def __init__(self, ptys, ret, stores, result):
        self.ptys, self.ret, self.stores, self.result = ptys, ret, stores, result

    def src(self):
        body = ["p%d = %s;" % (i, e.src()) for i, e in self.stores] + ["return %s;" % self.result.src()]
        return "export function f(%s) -> %s { %s }" % (", ".join("%s p%d" % (t, i) for i, t in enumerate(self.ptys)), self.ret, " ".join(body))

    def only_ring(self):
        ok = [True]
        def walk(e):
            if isinstance(e, B):
                if e.op not in "+-*" or e.ty != "int": ok[0] = False
                walk(e.l); walk(e.r)
            elif isinstance(e, Asg):
                if e.ty != "int": ok[0] = False
                walk(e.e)
            elif e.ty != "int": ok[0] = False
        for _, e in self.stores: walk(e)
        walk(self.result)
        return ok[0] and all(t == "int" for t in self.ptys)

    def evaluate(self, args):
        """-> (value, exact) with Python semantics of the source (ints unbounded, floats double); exact = every
        intermediate is representable in the 32-bit type and no division by zero occurred; ('div0', False) on x/0"""
        env = list(args)
        exact = [True]
        def rep(r, ty):
            if ty == "float":
                if not f32_exact(r): exact[0] = False
            elif ty == "uint":
                if not (0 <= r < 2**32): exact[0] = False
            elif not (I32_MIN <= r <= I32_MAX): exact[0] = False
        def ev(e):
            if isinstance(e, P): return env[e.i]
            if isinstance(e, C): return float(e.v) if e.ty == "float" else e.v
            if isinstance(e, Post):
                old = env[e.i]; new = old + (1 if e.inc else -1)
                rep(new, e.ty); env[e.i] = new
                return old if e.post else new
            if isinstance(e, Asg):
                v = ev(e.e); env[e.i] = v
                return v
            a, b = ev(e.l), ev(e.r)
            if e.op in ("<", ">", "=="):
                return int({"<": a < b, ">": a > b, "==": a == b}[e.op])
            if e.op == "+": r = a + b
            elif e.op == "-": r = a - b
            elif e.op == "*": r = a * b
            else:
                if b == 0:
                    if e.ty == "float": raise FloatingPointError      # float x / 0: the VM raises, wasm yields inf/nan — outside the compared domain
                    raise ZeroDivisionError
                if e.ty == "float": r = a / b
                else:
                    q = abs(a) // abs(b); r = q if (a < 0) == (b < 0) else -q
            if e.ty == "float":
                if not f32_exact(r): exact[0] = False
            elif e.ty == "uint":
                if not (0 <= r < 2**32): exact[0] = False
            else:
                if not (I32_MIN <= r <= I32_MAX): exact[0] = False
            return r
        try:
            for i, e in self.stores: env[i] = ev(e)
            return ev(self.result), exact[0]
        except ZeroDivisionError:
            return "div0", exact[0]      # exact: everything evaluated BEFORE the division was exact
        except FloatingPointError:
            return "div0", False


def gen_prog(rng, opts=None):
    opts = opts or {}
    nparams = rng.randint(1, 3)
    tys = ["int", "float"] + (["uint"] if opts.get("uint") else [])
    ptys = [rng.choice(tys) for _ in range(nparams)]
    ret = rng.choice(["int", "float"] + (["uint", "uint"] if opts.get("uint") else []))
    if opts.get("uint") and rng.random() < .4:
        ptys = ["uint"] * nparams; ret = "uint"          # inside the domain of C06_agree_uint
    stores = []
    for i, t in enumerate(ptys):
        if rng.random() < .3:
            e = gen_expr(rng, t, ptys, 1, allow_div=not opts.get("ring"), effects=bool(opts.get("effects")))
            same = [j for j, u in enumerate(ptys) if u == t and j != i]
            if opts.get("effects") and same and rng.random() < .3: e = Asg(rng.choice(same), e, t)      # chained: p_i = p_j = e
            stores.append((i, e))
    if opts.get("ring"):
        ptys = ["int"] * nparams; ret = "int"
        stores = [(i, gen_expr(rng, "int", ptys, 1, allow_div=False)) for i, _ in stores]
        result = gen_expr(rng, "int", ptys, 3, allow_div=False, effects=bool(opts.get("effects")))
        result = strip_cmp(result)
        stores = [(i, strip_cmp(e)) for i, e in stores]
    else:
        result = gen_expr(rng, ret, ptys, rng.choice([1, 2, 3, 4]), effects=bool(opts.get("effects")))
    return Prog(ptys, ret, stores, result)


def strip_cmp(e):
    if isinstance(e, Asg): return Asg(e.i, strip_cmp(e.e), e.ty)
    if isinstance(e, B):
        if e.op in ("<", ">", "=="): return C(1, "int")
        return B(e.op, strip_cmp(e.l), strip_cmp(e.r), e.ty)
    return e


def gen_args(rng, ptys, big=False):
    out = []
    for t in ptys:
        if t == "float": out.append(rng.choice([0.0, 1.0, -1.0, 0.5, 2.5, -3.0, 10.0, 0.25, 64.0, -0.125]))
        elif t == "uint": out.append(rng.choice([0, 1, 2, 3, 100, 65535, 2**31, 2**32 - 1] if big else [0, 1, 2, 3, 7, 100]))
        else: out.append(rng.choice([0, 1, -1, 2**31 - 1, -2**31, 65536, 46341, -46341, 12345, -7] if big else [0, 1, 2, 3, -1, -2, 5, 7, 10, -7, 100]))
    return out


# programs the backend cannot translate: it must refuse them (or translate them correctly)
UNSUPPORTED = [
    "export function f(int a) -> int { int x = a; return x; }",
    "export function f(float a) -> int { return a + 1; }",
    "export function f(int a) -> float { return a + 1.5; }",
    "export function f(float4 v, int a) -> int { return a; }",
    "export function f(int a) -> int { if (a) { return 1; } return 2; }",
    "export function f(int a) -> int { return a + 4294967296; }",
    "function g(int a) -> int { return a + 1; } export function f(int a) -> int { return g(a); }",
    "export function f(int a, int b) -> int { return a % b; }",
    "export function f(int a, int b) -> int { return a && b; }",
    "export function f(int a, int b) -> int { return a <= b; }",
    "export function f(int a, int b) -> int { return a != b; }",
    "int g; export function f(int a) -> int { g = a; return g; }",
    "export function f(int a) -> int { while (a < 3) { a = a + 1; } return a; }",
    "export function f(int a) -> int { ++a; return a; }",
    "export function f(float2 v) -> float { return v.x; }",
    "export function f(int[2] t) -> int { return t[0]; }",
    "struct S { int a; } export function f(int a) -> int { S s; s.a = a; return s.a; }",
    "export function f(int a) -> void { }",
    "export function f(int a) -> void { return; }",
    "export function f(int a) -> int { int b; return a; }",
    "export function f(float a) -> float { return float(a); }",
    # the front end does not check a return against the result type: the backend has to
    "export function f(int a) -> int { }",
    "export function f(int a) -> int { return; }",
    "export function f(int a) -> int { return 1.5; }",
    "export function f(int a) -> void { return 1; }",
    "export function f(float a) -> int { return a; }",
    "export function f(float a) -> float { return 1; }",
    "export function f(uint a) -> int { return a; }",
    "export function f(int a) -> int { a + 1; }",
    "export function f(int a) -> int { return a; return 2; }",
    "export function f(int a) -> int { return a; a = 2; }",
    "export function f(int a, float b) -> float { a = a + 1; return b * 2.0; }",
    "export function f() -> int { return 7; }",
    "export function f() -> void { }",
    "function f(int a) -> int { return a; }",
    "export function f(int a) -> int { return a; } export function g(float a) -> float { return a; }",
    "export function f(int a) -> int { return a; } export function f(float a) -> float { return a; }",
]


# every binary operator on every scalar type, as one function each: whatever the backend translates must agree
OPS13 = ["+", "-", "*", "/", "%", "<", "<=", ">", ">=", "==", "!=", "&&", "||"]


def opgrid():
    out = []
    for op in OPS13:
        for t in ("int", "uint", "float"):
            r = t if op in ("+", "-", "*", "/", "%") else "int"
            out.append(("export function f(%s a, %s b) -> %s { return a %s b; }" % (t, t, r, op), [t, t], r))
            out.append(("export function f(%s a, %s b) -> %s { a = a %s b; return a; }" % (t, t, t, op), [t, t], t))
    for t in ("int", "uint", "float"):
        for stmt in ("return a++;", "return ++a;", "return a--;", "b = a++; return b;", "b = a++; return a;", "b = a; a = a + a; return b;",
                     "a = b = a + b; return a;", "b = a = b; return a + b;", "a += b; return a;", "a *= b; b = a; return b;"):
            out.append(("export function f(%s a, %s b) -> %s { %s }" % (t, t, t, stmt), [t, t], t))
    return out


GRID_ARGS = {"int": [(0, 0), (1, 2), (7, 3), (-7, 3), (7, -3), (-8, -3), (2**31 - 1, 1), (-2**31, 1), (-2**31, -1), (5, 0), (12345, 12345)],
             "uint": [(0, 0), (1, 2), (7, 3), (3, 7), (2**31, 1), (2**32 - 1, 2**31), (1, 3000000000), (3000000000, 1), (2**32 - 1, 2**32 - 1), (5, 0)],
             "float": [(0.0, 0.0), (1.0, 2.0), (2.5, 0.5), (-3.0, 2.0), (7.0, -2.0), (0.25, 0.25), (100.0, 8.0), (5.0, 0.0), (-0.125, 64.0)]}
