"""C18 — compilation is deterministic and independent of earlier compilations.  (partial by nature)

Theorems (Lean, Props/C18.lean): overload resolution does not depend on the registration order of a scope's signatures;
the linked program does not depend on the order of adding modules / working off imports; the model compiler is a
function of the typed program with one counter and no other state.  Hash seeds, parser-table caches and Python
default-argument objects cannot be exhibited by a model: they are covered by this check only.

Tie to the code: the same source (generated scalar-core and call programs, wasm-subset programs, corpus programs,
programs with imports) and options is compiled
 (a) twice with fresh Compiler() objects in this process,
 (b) after each of a random sequence of other sources, including rejected ones and ones with other options,
 (c) in fresh processes with PYTHONHASHSEED in {0, 1, 2, random}, the last with nsl/parsetab.py removed first,
and the IR listing (InstructionPrinter) and the WebAssembly bytes must be identical every time.  After the in-process
sequence the mutable defaults named by the property are inspected for mutation."""
import os, sys, io, json, random, tempfile, shutil, subprocess, hashlib
import common, implrun, progfam, gen, gen_calls, wholelang, lang

RULE = ("sources: generated scalar-core / call programs, straight-line scalar programs inside the wasm subset (listing + bytes), corpus; each "
        "compiled in this process before and after 2-6 other compilations (accepted, rejected, other options) and in 2 fresh processes "
        "with different hash seeds (one without the cached parser table). Non-trivial: the source has >= 2 functions or a loop, or produces "
        "wasm bytes; distinct = distinct (source, options)")
EXHAUSTIVE = {"quick": False, "thorough": False}
ASSUMPTIONS = ["'fresh compiler objects': every compilation uses its own Compiler(); reusing one Compiler for several sources is not covered by the statement"]
TRUSTED = ["harness/c18_compile.py (the compiling process), implrun.listing"]
N = {"quick": 60, "thorough": 1500}
HERE = os.path.dirname(os.path.abspath(__file__))
BAD = ["export function f(int a) -> int { return b; }", "export function f(int a) -> int { break; return a; }",
       "export function f(int a -> int { return a; }", "export function f(float2 v) -> float2 { return v * v; }"]


def wasm_program(rng):
    """straight-line scalar program inside the backend's subset"""
    nparams = rng.randint(1, 3)
    ptys = [rng.choice(["int", "float"]) for _ in range(nparams)]
    ret = rng.choice(["int", "float"])
    def expr(ty, d):
        same = ["p%d" % i for i, t in enumerate(ptys) if t == ty]
        if d == 0 or rng.random() < .3:
            if same and rng.random() < .7: return rng.choice(same)
            return str(rng.choice([0, 1, 2, 7, 64, 100, 127, 128, 255, 8192, 70000])) if ty == "int" else rng.choice(["0.5", "1.0", "2.25", "8.0", "100.0"])
        if ty == "int" and rng.random() < .25:
            t = rng.choice(["int", "float"])
            return "(%s %s %s)" % (expr(t, d - 1), rng.choice(["<", ">", "=="]), expr(t, d - 1))
        return "(%s %s %s)" % (expr(ty, d - 1), rng.choice(["+", "-", "*"]), expr(ty, d - 1))
    body = []
    for i, t in enumerate(ptys):
        if rng.random() < .3: body.append("p%d = %s;" % (i, expr(t, 1)))
    body.append("return %s;" % expr(ret, 3))
    return "export function f(%s) -> %s { %s }" % (", ".join("%s p%d" % (t, i) for i, t in enumerate(ptys)), ret, " ".join(body))


def make_source(rng, i):
    k = i % 5
    if k == 0: return wasm_program(rng), True
    if k == 1:
        m, fn, feat = gen_calls.make_calls(rng, None); return m.src(), False
    if k == 2:
        e = wholelang.ENTRIES[rng.randrange(len(wholelang.ENTRIES))]; return e["src"], False
    return gen.G(rng).program().src(), False


def compile_here(src, optimize, wasm):
    r = implrun.compile_src(src, optimize=optimize, wasm=wasm)
    if r[0] != "ok": return ["reject", r[1][0], None]
    w = None
    if wasm and r[1].WasmModule is not None:
        b = io.BytesIO(); r[1].WasmModule.WriteTo(b); w = b.getvalue().hex()
    return ["ok", implrun.listing(r[1].IRModule), w]


def defaults_state():
    """the mutable defaults the property names"""
    A = implrun.ast_mod
    from nsl import Pass, LinearIR
    out = {}
    try: out["Expression.children"] = repr(A.Expression.__init__.__defaults__)
    except Exception as e: out["Expression.children"] = "?" + type(e).__name__
    try: out["Function.defaults"] = repr([type(x).__name__ + ":" + repr(x)[:40] for x in (A.Function.__init__.__defaults__ or ())])
    except Exception as e: out["Function.defaults"] = "?" + type(e).__name__
    try: out["CallInstruction.arguments"] = repr(LinearIR.CallInstruction.__init__.__defaults__)
    except Exception as e: out["CallInstruction.arguments"] = "?" + type(e).__name__
    try: out["Pass.Process.output"] = repr(Pass.Pass.Process.__defaults__[1].getvalue())
    except Exception as e: out["Pass.Process.output"] = "?" + type(e).__name__
    return out


def explore(run, scale=1):
    implrun.load()
    rng = run.rng
    n = N[run.tier] * scale
    scratch = os.environ["NSL_SCRATCH"]
    before_defaults = defaults_state()
    subjects = []
    for i in range(n):
        src, wasm = make_source(rng, i)
        subjects.append(dict(src=src, optimize=(i % 3 == 1), wasm=wasm))
    # (a)+(b) in this process: first compile, then again after a random sequence of other compilations
    first = [compile_here(**s) for s in subjects]
    order = list(range(n)); rng.shuffle(order)
    again = {}
    for i in order:
        for _ in range(rng.randint(2, 6)):
            k = rng.random()
            if k < .35: compile_here(rng.choice(BAD), rng.random() < .5, False)
            else:
                o = subjects[rng.randrange(n)]
                compile_here(o["src"], not o["optimize"] if rng.random() < .5 else o["optimize"], o["wasm"])
        again[i] = compile_here(**subjects[i])
    twice = [compile_here(**s) for s in subjects]
    after_defaults = defaults_state()
    # (c) fresh processes
    d = tempfile.mkdtemp(prefix="nslc18-")
    procs = []
    try:
        json.dump(subjects, open(os.path.join(d, "cases.json"), "w"))
        rev = list(reversed(subjects)); json.dump(rev, open(os.path.join(d, "cases_rev.json"), "w"))
        def spawn(hs, cases, fresh_tab):
            repo = scratch
            if fresh_tab:
                repo = os.path.join(d, "repo%s" % hs)
                shutil.copytree(scratch, repo, ignore=shutil.ignore_patterns("parsetab.py", "parser.out", "__pycache__"))
            p = subprocess.run([common.PY, os.path.join(HERE, "c18_compile.py"), repo, os.path.join(d, cases)], capture_output=True, text=True,
                               env=dict(os.environ, PYTHONHASHSEED=hs), cwd=d)
            try: return json.loads(p.stdout.strip().splitlines()[-1])
            except Exception: raise common.Infra("compile process failed: " + (p.stdout + p.stderr)[-400:])
        seeds = ["0", "1", "2", str(rng.randrange(3, 10**6))] if run.tier == "thorough" else ["0", str(rng.randrange(1, 10**6))]
        for j, hs in enumerate(seeds):
            res = spawn(hs, "cases_rev.json" if j % 2 else "cases.json", fresh_tab=(j == len(seeds) - 1))
            procs.append((hs, list(reversed(res)) if j % 2 else res))
    finally:
        shutil.rmtree(d, ignore_errors=True)
    for i, s in enumerate(subjects):
        nt = s["src"].count("function ") > 1 or "for (" in s["src"] or "while (" in s["src"] or first[i][2] is not None
        run.case((s["src"], s["optimize"], s["wasm"]), nontrivial=nt,
                 sample=dict(source=s["src"][:500], optimize=s["optimize"], wasm=s["wasm"], status=first[i][0]) if (first[i][2] and len(run.samples) < 2) else None)
        run.count("status:" + first[i][0]); run.count("wasm-bytes" if first[i][2] else "no-wasm")
        inp = dict(source=s["src"], optimize=s["optimize"], wasm=s["wasm"])
        variants = [("second compile in the same process", twice[i]), ("after other compilations", again[i])] + [("fresh process, PYTHONHASHSEED=%s" % hs, res[i]) for hs, res in procs]
        for what, v in variants:
            if v != first[i]:
                which = "status" if v[0] != first[i][0] else "listing" if v[1] != first[i][1] else "wasm-bytes"
                run.fail("nondeterministic", dict(inp, variant=what), "%s differs (%s): %s" % (which, what, s["src"][:300]), key="nondeterministic:" + which + ":" + what.split(",")[0].split(" ")[0])
                break
    if before_defaults != after_defaults:
        ch = [k for k in before_defaults if before_defaults[k] != after_defaults[k]]
        run.fail("defaults", dict(changed=ch, before=before_defaults, after=after_defaults), "shared default objects were mutated by compilations: %s" % ch, key="defaults-mutated")
    run.count("processes", len(procs))


def search(run):
    explore(run, scale=3 if run.tier == "quick" else 1)


def matches(entry, failure):
    return failure["key"].startswith(entry.get("matcher", "\0"))


def replay(obj):
    implrun.load()
    x = obj["input"]
    if obj["kind"] == "defaults": return False, "mutable defaults changed: %s" % x.get("changed")
    a = compile_here(x["source"], x["optimize"], x["wasm"])
    for b in BAD: compile_here(b, False, False)
    b = compile_here(x["source"], x["optimize"], x["wasm"])
    return a == b, "in-process recompilation %s (the recorded variant was: %s)" % ("agrees" if a == b else "differs", x.get("variant"))
