"""C04 — vectors and matrices are values: component ops, swizzles, copies.

Theorems (Lean, Props/C04.lean), for vectors of any size and masks of any length: swizzle read = selected components in
mask order; the store shuffle built by the lowering replaces exactly the masked components (non-repeating mask);
element/row writes change exactly the selected element of a copy; VECTOR_SET/MATRIX_SET leave every other register,
local, argument and global untouched; component-wise operations are the scalar operation per component, comparisons
give 0/1; construction flattens in order.

Tie to the code: (exhaustive) every read mask of length 1-4 and every non-repeating write mask over xyzw and rgba on
float vectors of size 2-4, each read in three contexts (operand of +, argument of a call, right-hand side of another
swizzle write); (random) type-directed vector/matrix programs using the operations the property lists, with constant
and dynamic indices, copies, whole-value assignment; the whole-language corpus with its expected values.  Oracle: the
harness's component-wise reference interpreter on the real parser→passes→lowering→VM pipeline (optimisation off and on)
and the hand-computed corpus expectations; vector arguments handed to Invoke must be unchanged.  Correspondence: real VM
= Lean VM∘lower on every case, canonical IR equality, Python refsem = Lean CoreSem."""
import random
import common, implrun, progfam, proglib, gen_vec, wholelang, lang
import p_c01

RULE = ("exhaustive swizzle grid (sizes 2-4, lengths 1-4, both letter sets, 3 contexts; all non-repeating write masks) + seeded random "
        "vector/matrix programs (float/int vectors 2-4, float3x3/float4x4; construction, + -, comparisons, scale by scalar, matrix product, "
        "row/element selection constant and dynamic, swizzle read/write, element/row write, copies) with 3 inputs + corpus expectations. "
        "Non-trivial: in-domain case of a program with a swizzle, an element access or a matrix operation (all are); distinct = distinct (source, input)")
EXHAUSTIVE = {"quick": False, "thorough": False}
ASSUMPTIONS = p_c01.ASSUMPTIONS[:1] + ["float components are dyadic rationals with few bits; values compared as 64-bit patterns",
                                        "the swizzle grid is enumerated completely in both tiers; the random programs are sampled"]
TRUSTED = p_c01.TRUSTED
N = {"quick": 500, "thorough": 20000}


@progfam.maker("swzgrid")
def make_grid(rng, opts):
    progs = gen_vec.grid_programs()
    name, m = progs[opts["k"]]
    n = int(name.split(":")[1])
    args = [[1.0, 2.0, 3.0, 4.0][:n], 10.0]
    args2 = [[0.5, 8.0, 0.25, 16.0][:n], 1.5]
    return dict(module=m, fname="f", feat={"grid:" + name.split(":")[0]: 1}, inputs=[(args, {}), (args2, {})], name=name)


def corpus(run):
    """the corpus entries that state an expected value"""
    import copy
    for e in wholelang.ENTRIES:
        if not e["expect"]: continue
        for opt in (False, True):
            c = implrun.compile_src(e["src"], optimize=opt)
            if c[0] != "ok":
                run.case((e["name"], opt), nontrivial=True)
                run.fail("corpus", dict(name=e["name"], source=e["src"], optimize=opt), "corpus program %s is rejected: %s" % (e["name"], c[1:3]), key="corpus:rejected")
                continue
            prog = implrun.link([c[1].IRModule])
            for k, a in enumerate(e["args"]):
                if e["expect"][k] is None: continue
                vm = implrun.new_vm(prog)
                for g, v in e["globals"].items(): vm.SetGlobal(g, copy.deepcopy(v))
                r = implrun.invoke(vm, e["fn"], copy.deepcopy(a))
                run.case((e["name"], opt, k), nontrivial=True); run.count("corpus")
                if r != ("ok", e["expect"][k]):
                    run.fail("corpus", dict(name=e["name"], source=e["src"], optimize=opt, args=a, expected=e["expect"][k]),
                             "%s(%s) optimize=%s gives %r, expected %r" % (e["name"], a, opt, r, e["expect"][k]), key="corpus:%s" % r[0])


def explore(run, scale=1):
    implrun.load()
    corpus(run)
    ngrid = len(gen_vec.grid_programs())
    n = N[run.tier] * scale
    spec = [(1, dict(k=k), "swzgrid") for k in range(ngrid)]
    spec += [(n * 7 // 10, None, "vec"), (n * 3 // 10, dict(matrices=False), "vec")]
    for rec in progfam.evaluate(run, "C04", spec, want=("ref", "model", "opt", "struct")):
        if rec.get("host_vec_changed"):
            run.fail("host-vector", dict(source=rec["src"], seed=rec["seed"], index=rec["index"], opts=rec.get("opts"), maker=rec.get("maker"), fn=rec["fn"]),
                     "a vector argument object handed to Invoke was modified: %s" % rec["host_vec_changed"][:2], key="host-vector-modified")
        p_c01.judge(run, rec, "C04", all_nontrivial=True)


def search(run):
    explore(run, scale=4 if run.tier == "quick" else 1)


matches = p_c01.matches
replay = p_c01.replay
