import sys, os
sys.path.insert(0, os.path.dirname(os.path.abspath(__file__)))
import common
res = common.regenerate_and_build()
print(res.log[-3000:])
print("build ok" if res.ok else "build has failing modules (checks will report): %s" % res.failed_modules)
# setup succeeds as long as the driver exists: failing proof obligations are reported by the checks
common.ensure_driver()
